#!/usr/bin/env python3
"""Print the prompt for a strengthening builder: tools/strengthen_prompt.py <ID> <missed seed names...>"""
import glob, os, sys
pid = sys.argv[1]; missed = sys.argv[2:]
allseeds = sorted(os.path.basename(d) for d in glob.glob('/verif/seeded/%s-*' % pid))
heads = []
for s in missed:
    r = '/verif/seeded/%s/README.md' % s
    heads.append('  * %s: %s' % (s, open(r).readline().strip().lstrip('# ') if os.path.exists(r) else ''))
print(f"""You are strengthening the model-based (TLA+/TLC) check of property {pid} in the verification framework /verif for the Python library in /repo (TauREx 3). No network. Read /verif/tools/STRENGTHEN_BRIEF.md first and follow it exactly (it points to /verif/tools/BUILDER_BRIEF.md, the report tools/reports/{pid}.md including its earlier "Strengthening" sections, the driver harness/drivers/{pid}.py, its fx_*.py fixtures and its specs in /verif/spec). The property text is the line with id {pid} in /verif/properties.jsonl.

Independently seeded breaking changes (latest round) that the current `./check {pid} quick` still MISSES (directories /verif/seeded/<name>/ with README.md, patch.diff, demo.py, check_patched.txt):
{chr(10).join(heads)}
All other seeds of {pid} ({', '.join(s for s in allseeds if s not in missed)}) are detected and must stay detected. A check_patched.txt that ends in MACHINERY-FAILURE means the driver crashed on the patched code instead of reporting a violation: make the driver robust (a wrong shape / NaN / exception from the implementation for an input inside the quantifier is a verdict, not a crash).

For each missed seed: read its README, name the DIMENSION of the property's quantifier (or the class of history: a second use of a long-lived object, a second object in the same process, an argument or shared array modified in place, an operation that fails half-way and is followed by a valid one, a legal but unusual configuration or magnitude) that the check never varied, and add that dimension to the TLA+ specification (constants / actions / invariants / exported input classes / trace events, with an expected-counterexample variant that TLC must refute) and to its bindings, so that every similar slip is caught — never special-case the seed's numbers. Shared machinery you can use: harness/history.py + spec/Functional.tla / Trace_Functional.tla (TLC-generated set/evaluate walks on ONE long-lived object compared with fresh objects; examples harness/fx_c20hist.py, harness/fx_chemhistory.py, the history scenarios in harness/drivers/C04.py and C11.py), harness/fx_paramframe.py + spec/ParamFrame.tla (registry walks with constructor defaults omitted and a second object built at any time). For "modified in place" classes, hand the implementation arrays whose contents you keep a private copy of and compare afterwards (or read-only arrays where the call is documented not to write), and re-read every exposed array of the object after the call.

Keep the check sound: it must exit 0 on the unchanged /repo for VERIF_SEED=0,1,2,3, quick within ~90 s wall (other jobs share the 16 cores: judge by user+sys too — keep additions lean, the quick tier is run on every change), thorough within 10 minutes. harness/main.py runs a passive protocol monitor and TLAPS proofs around some drivers — do not touch harness/main.py, harness/core.py, harness/history.py, harness/fx_paramframe.py.

Verify with `tools/confirm_seed.sh {pid} <k> /verif/seeded/{pid}-<k> fast | tail -1` (check_rc=1 = detected) for EVERY seed of {pid}. Never run git commit/stash/checkout/reset in /repo or /verif; other agents work on other properties' files in /verif concurrently, touch only the files the brief allows. If a new clause fails on the unchanged tree decide genuinely whether the code or your clause is wrong (a genuine defect: minimal Edit in /repo plus /verif/proposed_fixes/{pid}-<slug>.diff/.msg; do not commit; if it is not small and safe propose a known-finding entry in your report and give those cases a cls the entry's regex matches).

Finish by appending a "## Strengthening after seeded changes (round {os.environ.get('ROUND', '4')})" section to tools/reports/{pid}.md and reply with: per seed — detected now? by which clause/class; what was added to the spec and bindings; any new finding on the unchanged tree (with the failing input); quick/thorough wall times; seeds 0-3 clean or not.""")
