#!/usr/bin/env python3
"""Regenerate the seeded-changes table in DESIGN.md from seeded/*/meta.json."""
import glob, json, os, re
V = os.path.dirname(os.path.dirname(os.path.abspath(__file__)))
rows = ['| seeded change | what it breaks / needs | caught by (clause [class]) | note |', '|---|---|---|---|']
for p in sorted(glob.glob(os.path.join(V, 'seeded', '*', 'meta.json'))):
    m = json.load(open(p))
    what = re.sub(r'\s+', ' ', m.get('summary') or m.get('breaks', ''))[:220]
    cl = '; '.join(sorted({re.sub(r' \[.*', '', c) + ' [' + re.sub(r'.*\[(.*?)\].*', r'\1', c)[:40] + ']' for c in m.get('violation_classes', [])[:3]}))
    note = 'initially missed, check strengthened' if m.get('initially_missed') else ''
    if m.get('obsolete_after_fix'):
        note += '; detected before the repair %s, which made the change harmless' % m['obsolete_after_fix']
    if not m.get('detected_by_check'):
        note = 'NOT detected' + (': ' + m.get('why_missed', '') if m.get('why_missed') else '')
    rows.append('| %s | %s | %s | %s |' % (m['name'], what.replace('|', '/'), cl.replace('|', '/'), note))
table = '\n'.join(rows)
s = open(os.path.join(V, 'DESIGN.md')).read()
if 'SEEDED_TABLE_PLACEHOLDER' in s:
    s = s.replace('SEEDED_TABLE_PLACEHOLDER', '<!-- seeded-table-begin -->\n' + table + '\n<!-- seeded-table-end -->')
else:
    s = re.sub(r'(?s)<!-- seeded-table-begin -->.*?<!-- seeded-table-end -->', lambda _: '<!-- seeded-table-begin -->\n' + table + '\n<!-- seeded-table-end -->', s)
open(os.path.join(V, 'DESIGN.md'), 'w').write(s)
print(table)
