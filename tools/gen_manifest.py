#!/usr/bin/env python3
"""Regenerate MANIFEST.json from tools/claims.json (kept valid at all times)."""
import json, os, sys
V = os.path.dirname(os.path.dirname(os.path.abspath(__file__)))
claims = json.load(open(os.path.join(V, 'tools', 'claims.json')))
props = [json.loads(l) for l in open(os.path.join(V, 'properties.jsonl'))]
ids = [p['id'] for p in props]
checks, na = [], []
for pid in ids:
    c = claims['claims'].get(pid)
    if c is None or c.get('not_applicable'):
        na.append(dict(property_id=pid, reason=(c or {}).get('not_applicable', 'check not built yet (work in progress; see DESIGN.md section 4 for the planned specification and binding)')))
        continue
    checks.append(dict(
        property_id=pid,
        quick_cmd='./check %s quick' % pid,
        thorough_cmd='./check %s thorough' % pid,
        evidence_file='/verif/evidence/%s.json' % pid,
        replay_cmd_template='./check %s --replay {path}' % pid,
        engine='tlc-spec-and-conformance',
        level_claimed=dict(category='model_checking', text=c['text'], design_ref=c.get('design_ref', 'DESIGN.md section 4, ' + pid)),
        level_note=c['note'],
        technique=c['technique'],
    ))
m = dict(
    version=1,
    setup_cmd="sh -c 'cd /verif && /venv/bin/python -W ignore -c \"import taurex, numpy, h5py\" && java -cp /opt/veriftools/tla/tla2tools.jar tla2sany.SANY spec/Rat.tla >/dev/null && echo setup-ok'",
    hooks=dict(
        guard='TAUREX_VERIF',
        enable='no source hooks: the harness wraps / subclasses the public API from outside the repository; ./check exports TAUREX_VERIF=1 for its own doubles only',
        baseline_off_cmd='cd /repo && /venv/bin/python -m pytest -ra -q -p no:cacheprovider --timeout=900 --continue-on-collection-errors --junitxml=/tmp/taurex_baseline.junit.xml',
        source_commits=claims.get('source_commits', []),
        add_only=True,
    ),
    engines=[dict(name='tlc-spec-and-conformance', path='/verif/check',
                  serves_properties=[c['property_id'] for c in checks],
                  kind_free_text='TLA+ specifications in /verif/spec model-checked with TLC; bound to the Python implementation by (A) TLC-exported vectors replayed into the real classes, (B) traces recorded from the real code validated by TLC trace specifications, (C) TLC-generated behaviours replayed on real stateful objects')],
    checks=checks,
    notes=claims.get('notes', ''),
    not_applicable=na,
)
json.dump(m, open(os.path.join(V, 'MANIFEST.json'), 'w'), indent=1)
print('MANIFEST: %d checks, %d not_applicable' % (len(checks), len(na)))
