#!/bin/sh
# tools/run_all.sh <tier> [P] [seed]  -- run every check of the tier, P in parallel, print rc and wall per check
TIER=${1:-quick}; P=${2:-4}; SEED=${3:-0}
mkdir -p /tmp/runall
for i in 01 02 03 04 05 06 07 08 09 10 11 12 13 14 15 16 17 18 19 20; do echo C$i; done | \
  xargs -P $P -I{} sh -c "s=\$(date +%s); VERIF_SEED=$SEED /verif/check {} $TIER > /tmp/runall/{}_$TIER.txt 2>&1; echo \"{} rc=\$? \$(( \$(date +%s)-s ))s \$(grep -c KNOWN-FINDING /tmp/runall/{}_$TIER.txt) known\""
