#!/usr/bin/env python3
"""Print the prompt for an independent mutation-seeding agent (gets only the property text and a worktree)."""
import json, sys
pid = sys.argv[1]; wt = sys.argv[2]; n = sys.argv[3] if len(sys.argv) > 3 else '3'
import glob, os
prev = []
for q in sorted(glob.glob('/verif/seeded/%s-*/README.md' % pid)):
    prev.append(open(q).readline().strip().lstrip('# '))
for l in open('/verif/properties.jsonl'):
    d = json.loads(l)
    if d['id'] == pid:
        break
print(f"""You are helping to evaluate a test/verification effort for the Python library TauREx 3 (exoplanet atmospheric retrieval code). You have your own scratch git worktree of the repository at {wt} (python: /venv/bin/python -W ignore; to make Python import YOUR copy rather than the installed one, run everything with PYTHONPATH={wt} and cwd {wt}; check with `python -c "import taurex; print(taurex.__file__)"`). There is no network. Do not look at or touch /repo or /verif; work only inside {wt}.

Here is a semantic property the library is supposed to satisfy:

TITLE: {d['title']}
STATEMENT: {d['statement']}
QUANTIFIED OVER: {d['quantifier']['text']}
CODE INVOLVED (starting points): {', '.join(d['anchors']['files'])}

Your task: produce {n} DIFFERENT realistic changes (bugs) to the library source under {wt}/taurex, each of which BREAKS this property while the code still imports and the existing test-suite still passes exactly as before (`cd {wt} && PYTHONPATH={wt} /venv/bin/python -m pytest -q -p no:cacheprovider -x --timeout=900 tests/<relevant files>`; note a number of tests already fail or error on this interpreter without any change — compare against the unmodified tree, do not try to fix those). Prefer changes that need something specific to manifest — an unusual input or corner region, a particular multi-step sequence of operations, a particular ordering, a crash/fault at a particular point, a specific configuration, or two cooperating edits in different places that each look harmless alone — NOT ones that ordinary use or a trivial smoke test would expose at once. They should look like plausible developer mistakes or careless refactorings (off-by-one, wrong comparison, stale cache, swapped arguments, missing sort, unit slip, lost update …), be small (a few lines), and each should exercise a different mechanism or clause of the property.

For each change k = 1..{n} create a directory {wt}/_seed/k/ containing:
  * patch.diff  — `git diff` of that change alone against the unmodified worktree (paths relative to the repository root, applies with `git apply`); reset the tree (`git checkout -- taurex`, or `git apply -R`) between changes so the patches are independent; NEVER use `git stash` (the stash is shared with other people's worktrees of the same repository and pops get crossed), and do not create branches or commits;
  * demo.py     — a small standalone program (uses only the library, numpy, stdlib; builds any inputs/fixtures in memory or in a temp dir; no network, no data files from outside) that exits 0 and prints PASS when the property holds for its scenario and exits 1 printing FAIL with the offending numbers when it does not. It must PASS on the unmodified worktree and FAIL with the patch applied. Run it as `cd {wt} && PYTHONPATH={wt} /venv/bin/python -W ignore _seed/k/demo.py`;
  * README.md   — which clause of the property the change breaks, what is needed for it to manifest, which tests you ran (with and without the patch) and their pass/fail counts.
Verify all of it yourself (demo passes without / fails with the patch; relevant tests unchanged; `python -c "import taurex"` works). Leave the worktree checked out clean (no patch applied) at the end, with only the _seed directory added. Reply with a short list of the changes you made (file, idea, what it needs to manifest).""" + ("\n\nEarlier contributors already produced the following changes; yours must be DIFFERENT in mechanism and location (do not repeat or vary these):\n" + "\n".join("  - " + t for t in prev) if prev else ""))
