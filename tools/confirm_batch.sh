#!/bin/sh
# tools/confirm_batch.sh <ID> ...   confirm seeds 1..3 of each id found under /tmp/seed_<ID>/_seed, 5 in parallel
for id in "$@"; do for k in 1 2 3; do [ -f /tmp/seed_$id/_seed/$k/patch.diff ] && echo "$id $k"; done; done | \
  xargs -P 5 -L 1 sh -c '/verif/tools/confirm_seed.sh $0 $1 /tmp/seed_$0/_seed/$1 full > /tmp/confirm_$0_$1.log 2>&1'
