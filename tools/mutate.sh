#!/bin/sh
# tools/mutate.sh <ID> <tier> <patch-or-sed-script.sh>
#   copies /repo/taurex to a scratch dir outside /repo and /verif, applies the mutation there
#   (a unified diff relative to /repo, or a shell script run with cwd = scratch dir),
#   runs ./check <ID> <tier> on the copy and removes the copy.  Evidence files are restored.
set -e
ID=$1; TIER=$2; MUT=$3
S=$(mktemp -d /tmp/mut_${ID}_XXXX)
cp -r /repo/taurex "$S/taurex"
case "$MUT" in
  *.diff|*.patch) (cd "$S" && patch -p1 -s < "$MUT") ;;
  *) (cd "$S" && sh "$MUT") ;;
esac
cp /verif/evidence/$ID.json "$S/ev.bak" 2>/dev/null || true
set +e
TAUREX_SRC="$S" /verif/check $ID $TIER > "$S/out.txt" 2>&1
RC=$?
set -e
tail -15 "$S/out.txt"
echo "MUTATION-RESULT id=$ID rc=$RC ($( [ $RC = 1 ] && echo detected || echo NOT-detected-or-machinery))"
cp "$S/ev.bak" /verif/evidence/$ID.json 2>/dev/null || true
rm -rf "$S"
exit 0
