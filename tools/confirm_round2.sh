#!/bin/sh
# tools/confirm_round2.sh <ID> ...  confirm round-2 seeds /tmp/seed${ROUND:-2}_<ID>/_seed/{1,2,3} as <ID>-{4,5,6} (full), 3 in parallel
for id in "$@"; do for k in 1 2 3; do [ -f /tmp/seed${ROUND:-2}_$id/_seed/$k/patch.diff ] && echo "$id $k $((k+${OFFSET:-3}))"; done; done | \
  xargs -P 3 -L 1 sh -c '/verif/tools/confirm_seed.sh $0 $2 /tmp/seed${ROUND:-2}_$0/_seed/$1 full > /tmp/confirm2_$0_$2.log 2>&1; tail -1 /tmp/confirm2_$0_$2.log'
