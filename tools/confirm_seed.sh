#!/bin/sh
# tools/confirm_seed.sh <ID> <name> <dir-with patch.diff+demo.py> [full|fast]
#  Confirms an independently seeded breaking change in a scratch worktree of /repo HEAD:
#   demo passes without / fails with the patch; the pinned baseline tests still pass with it;
#   then runs ./check <ID> quick on the patched copy.  Writes /verif/seeded/<ID>-<name>/.
ID=$1; NAME=$2; SRC=$3; MODE=${4:-full}
OUT=/verif/seeded/$ID-$NAME
WT=$(mktemp -d /tmp/confirm_${ID}_${NAME}_XXXX)
rmdir $WT
git -C /repo worktree add -q --detach $WT HEAD || exit 2
mkdir -p $OUT
if [ "$(readlink -f $SRC)" != "$(readlink -f $OUT)" ]; then cp $SRC/patch.diff $OUT/patch.diff; cp $SRC/demo.py $OUT/demo.py; [ -f $SRC/README.md ] && cp $SRC/README.md $OUT/README.md; fi
cd $WT; mkdir -p $WT/_seed
PYTHONPATH=$WT /venv/bin/python -W ignore $OUT/demo.py > $OUT/demo_clean.txt 2>&1; D0=$?
git apply $OUT/patch.diff || { echo "patch does not apply"; git -C /repo worktree remove --force $WT; exit 2; }
PYTHONPATH=$WT /venv/bin/python -W ignore -c "import taurex" >/dev/null 2>&1; IMP=$?
PYTHONPATH=$WT /venv/bin/python -W ignore $OUT/demo.py > $OUT/demo_patched.txt 2>&1; D1=$?
TESTS=skipped
# fast mode keeps the test result of the last full confirmation
[ "$MODE" != full ] && [ -f $OUT/confirm.txt ] && TESTS=$(sed -n 's/.*tests\[\(.*\)\] check_rc.*/\1/p' $OUT/confirm.txt | head -1) && [ -z "$TESTS" ] && TESTS=skipped
if [ "$MODE" = full ]; then
  PYTHONPATH=$WT /venv/bin/python -m pytest -q -p no:cacheprovider --timeout=900 --continue-on-collection-errors --junitxml=$WT/junit.xml > $WT/pytest.txt 2>&1
  TESTS=$(/venv/bin/python - $WT/junit.xml <<'PY'
import sys, json, xml.etree.ElementTree as ET
base = set(json.load(open('/root/.vp/BASELINE.json'))['stable_pass'])
ok = set()
for tc in ET.parse(sys.argv[1]).getroot().iter('testcase'):
    if not any(ch.tag in ('failure', 'error', 'skipped') for ch in tc):
        ok.add(tc.get('classname') + '::' + tc.get('name'))
missing = sorted(base - ok)
print('baseline_pass=%d/%d missing=%s' % (len(base & ok), len(base), missing[:5]))
open(sys.argv[1] + '.missing', 'w').write('\n'.join(missing))
PY
)
  if [ -s $WT/junit.xml.missing ]; then   # load-induced flakiness (hypothesis deadlines): retry those alone
    RETRY=""
    for t in $(cat $WT/junit.xml.missing); do
      mod=${t%%::*}; name=${t#*::}
      case "$mod" in *Test) cls=${mod##*.}; mod=${mod%.*}; node="$(echo $mod | tr . /).py::$cls::$name" ;; *) node="$(echo $mod | tr . /).py::$name" ;; esac
      PYTHONPATH=$WT /venv/bin/python -m pytest -q -p no:cacheprovider --timeout=900 "$node" > $WT/retry.txt 2>&1 && RETRY="$RETRY $name:pass-alone" || RETRY="$RETRY $name:FAILS-alone"
    done
    TESTS="$TESTS retry[$RETRY ]"
  fi
fi
cd /verif
TAUREX_SRC=$WT ./check $ID quick > $OUT/check_patched.txt 2>&1; CK=$?
git -C /repo checkout -q -- evidence 2>/dev/null
git -C /verif checkout -q -- evidence/$ID.json 2>/dev/null
git -C /repo worktree remove --force $WT
echo "SEED $ID-$NAME demo_clean_rc=$D0 import_rc=$IMP demo_patched_rc=$D1 tests[$TESTS] check_rc=$CK" | tee $OUT/confirm.txt
