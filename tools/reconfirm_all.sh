#!/bin/sh
# tools/reconfirm_all.sh [P] [ID ...] -- re-run confirm_seed.sh (fast) for every kept seed (or those of the ids given), P in parallel
P=${1:-5}; shift
if [ $# -gt 0 ]; then L=""; for id in "$@"; do L="$L $(ls -d /verif/seeded/$id-* )"; done; else L=$(ls -d /verif/seeded/C*-*); fi
for d in $L; do b=$(basename $d); echo "${b%%-*} ${b#*-} $d"; done | \
  xargs -P $P -L 1 sh -c '/verif/tools/confirm_seed.sh $0 $1 $2 fast 2>&1 | tail -1'
