#!/usr/bin/env python3
"""Import text/note/technique for the given property ids from tools/reports/<ID>.md section 7 into tools/claims.json."""
import json, re, sys
claims = json.load(open('tools/claims.json'))
for pid in sys.argv[1:]:
    s = open('tools/reports/%s.md' % pid).read()
    m = re.search(r'(?ms)^#+\s*7[. ].*?$(.*)', s)
    sec = m.group(1) if m else s
    out = {}
    for key in ('text', 'note', 'technique'):
        mm = re.search(r'(?ms)^\s*[\*\-]\s*`%s`[^:]*:\s*(.*?)(?=^\s*[\*\-]\s*`(?:text|note|technique)`|^\S|\Z)' % key, sec)
        if not mm:
            print('!!', pid, 'missing', key); continue
        t = re.sub(r'\s+', ' ', mm.group(1)).strip().strip('"').strip()
        out[key] = t
    if len(out) == 3:
        claims['claims'][pid] = out
        print(pid, 'ok', len(out['text']))
json.dump(claims, open('tools/claims.json', 'w'), indent=1)
