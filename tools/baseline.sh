#!/bin/sh
# tools/baseline.sh [dir]  -- run the pinned baseline test command on /repo (or a worktree) with the guard off
# and compare with BASELINE.json's stable_pass.  Exit 0 iff every stable test passes.
D=${1:-/repo}
J=$(mktemp /tmp/baseline_XXXX.xml)
cd $D && env -u TAUREX_VERIF PYTHONPATH=$D /venv/bin/python -m pytest -ra -q -p no:cacheprovider --timeout=900 --continue-on-collection-errors --junitxml=$J > $J.txt 2>&1
/venv/bin/python - $J <<'PY'
import sys, json, xml.etree.ElementTree as ET
base = set(json.load(open('/root/.vp/BASELINE.json'))['stable_pass'])
ok = set()
for tc in ET.parse(sys.argv[1]).getroot().iter('testcase'):
    if not any(ch.tag in ('failure', 'error', 'skipped') for ch in tc):
        ok.add(tc.get('classname') + '::' + tc.get('name'))
missing = sorted(base - ok)
print('baseline_pass=%d/%d missing=%s' % (len(base & ok), len(base), missing[:8]))
sys.exit(1 if missing else 0)
PY
RC=$?
rm -f $J $J.txt
exit $RC
