#!/bin/sh
# tools/commit_fix.sh <name>   -- commit proposed_fixes/<name>.diff (already present in /repo's working tree)
# as one "fix:" commit containing exactly those hunks.
N=$1
D=/verif/proposed_fixes/$N.diff; M=/verif/proposed_fixes/$N.msg
head -1 $M | grep -q '^fix:' || { echo "message must start with fix:"; exit 2; }
git -C /repo apply --cached --recount $D || { echo "cannot stage $N"; exit 2; }
git -C /repo commit -q -F $M && git -C /repo log --oneline | head -1
