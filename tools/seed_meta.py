#!/usr/bin/env python3
"""Write seeded/<ID>-<name>/meta.json from confirm.txt, README.md and check_patched.txt."""
import json, os, re, sys
d = sys.argv[1]
name = os.path.basename(d.rstrip('/'))
pid = name.split('-')[0]
conf = open(os.path.join(d, 'confirm.txt')).read().strip()
m = re.search(r'demo_clean_rc=(\d+) import_rc=(\d+) demo_patched_rc=(\d+) tests\[(.*?)\] check_rc=(\d+)', conf)
readme = open(os.path.join(d, 'README.md')).read() if os.path.exists(os.path.join(d, 'README.md')) else ''
chk = open(os.path.join(d, 'check_patched.txt')).read()
classes = re.findall(r'violation class (.*)', chk)[:12]
meta = dict(
    property=pid, name=name,
    origin='independent sub-agent given only the property text and its own scratch worktree of /repo',
    breaks=readme.strip().split('\n\n')[0][:1500],
    needs_to_manifest=(re.search(r'(?is)(needs?|manifest)[^\n]*\n(.*?)(\n\n|\Z)', readme) or [None, '', ''])[2][:1200] if readme else '',
    confirmed=dict(demo_passes_on_clean_tree=m.group(1) == '0', imports=m.group(2) == '0',
                   demo_fails_with_patch=m.group(3) == '1', baseline_tests=m.group(4),
                   ran='tools/confirm_seed.sh (fresh worktree of /repo HEAD; demo without/with patch; pinned baseline pytest command; ./check %s quick with TAUREX_SRC=<worktree>)' % pid),
    detected_by_check=m.group(5) == '1', check_exit_code=int(m.group(5)),
    violation_classes=classes,
)
mp = os.path.join(d, 'meta.json')
if '--initially-missed' in sys.argv:
    meta['initially_missed'] = True
if os.path.exists(mp):                      # keep hand-written fields; remember that a seed was missed at first
    old = json.load(open(mp))
    for k in ('note', 'summary', 'round'):
        if k in old:
            meta[k] = old[k]
    if old.get('initially_missed') or (not old.get('detected_by_check') and meta['detected_by_check']):
        meta['initially_missed'] = True
    if not meta['detected_by_check'] and old.get('why_missed'):
        meta['why_missed'] = old['why_missed']
json.dump(meta, open(mp, 'w'), indent=1)
print(name, 'detected' if meta['detected_by_check'] else 'MISSED', meta['confirmed'])
