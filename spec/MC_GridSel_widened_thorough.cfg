SPECIFICATION Spec
CONSTANTS
  Pos = {0,1,2,3,4,5,6,7}
  Mode = "widened"
  Export = FALSE
INVARIANT PointwiseIndependent
INVARIANT OwnPointsUnchanged
INVARIANT BetweenNeighbours
INVARIANT MatchesReference
INVARIANT NoError
INVARIANT FitsInv
CONSTRAINT Emit
CHECK_DEADLOCK FALSE
