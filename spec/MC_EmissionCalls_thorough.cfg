SPECIFICATION CSpec
CONSTANTS
  NL = 2
  NW = 2
  NT = 3
  NS = 3
  ECodes = {0}
  TCodes = {33, 12, 31}
  QuadIds = {4}
  SrcIds = {1, 2, 3, 4}
  Kinds = {"eclipse", "direct"}
  MaxCalls = 3
  CVariant = "code"
  ClampE = 15
  SlackE = 14
  Variant = "code"
  Btab <- MCBtab
  Bstar <- MCBstar
  SrcTable <- MCSrcTable
  Groups <- MCGroups
  Comps <- MCComps
  TabId = 1
  Rp = 2
  Rs = 5
  Dist = 3
  KD = 2
  Export = TRUE
INVARIANT EveryPathDocumented
INVARIANT SubIsothermalRatio
INVARIANT SubEclipseBounds
INVARIANT SubIntensityBounds
INVARIANT InputsReadOnly
INVARIANT CFitsInv
CONSTRAINT ECEmit
CHECK_DEADLOCK FALSE
