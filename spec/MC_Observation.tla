--------------------------- MODULE MC_Observation ---------------------------
(* Exhaustive / export model for C17: choose a set of rows, load them in every  *)
(* row order, check the clauses of the property in every state.                 *)
EXTENDS Observation, SequencesExt
CONSTANTS WLS,           \* wavelengths (integers, D = 1)
          NMin, NMax,    \* number of rows
          NCol,          \* 3 | 4
          Vals,          \* values / errors / widths for RowMode = "all"
          RowMode,       \* "all" | "generic"
          Variant, Export
VARIABLES phase, rows, out
vars == <<phase, rows, out>>
D == 1
Primes == <<2, 3, 5, 7, 11, 13>>
KSeqs == UNION {{SetToSortSeq(S, LAMBDA a, b : a < b) : S \in {T \in SUBSET WLS : Cardinality(T) = n}} : n \in NMin..NMax}
RowsOf(ks) == IF RowMode = "all"
              THEN {[i \in 1..Len(ks) |-> <<ks[i], c[i][1], c[i][2], c[i][3]>>] : c \in [1..Len(ks) -> Vals \X Vals \X Vals]}
              ELSE {[i \in 1..Len(ks) |-> <<ks[i], Primes[i], Primes[Len(ks) + 1 - i] + 10, 1 + (i % 2)>>],
                    [i \in 1..Len(ks) |-> <<ks[i], 20 - Primes[i], i, 1 + ((i + 1) % 2)>>]}
AllRows == {r \in UNION {RowsOf(ks) : ks \in KSeqs} : Loadable(r, NCol)}

Init == phase = "in" /\ rows \in AllRows /\ out = <<>>
LoadRows == /\ phase = "in"
            /\ out' = Load(rows, D, NCol, Variant)
            /\ phase' = "done" /\ UNCHANGED rows
Next == LoadRows
Spec == Init /\ [][Next]_vars

Done == phase = "done"
Perms == {[i \in 1..Len(rows) |-> p[i]] : p \in Permutations(1..Len(rows))}
PermutationInvariant == Done => \A p \in Perms : Load(Permute(rows, p), D, NCol, Variant) = out
RowsTogether == Done => \A p \in Perms : RowsStayTogether(Load(Permute(rows, p), D, NCol, Variant), rows, D, NCol)
AscendingInv == Done => Ascending(out)
EdgesInv == Done => EdgesBracketCentres(out, NCol) /\ WidthsPositive(out)
BinnerInv == Done => \A p \in Perms : BinnerAligned(Load(Permute(rows, p), D, NCol, Variant))
FitsInv == Done => /\ \A i \in 1..Len(out.wn) : Fits(out.wn[i]) /\ Fits(out.wnwA[i]) /\ Fits(out.wnwB[i])
                   /\ \A m \in 1..Len(out.edA) : Fits(out.edA[m]) /\ Fits(out.edB[m])
\* every public route to the same source gives the same object (refuted for the one-route slips "edgesint", "hdf5wlgrid")
RoutesAgree == Done => RoutesAgreeOn(rows, D, NCol, Variant)
ASSUME PrintT(<<"ROUTES", ToJson([ncol |-> NCol, routes |-> RoutesOf(NCol)])>>)
Emit == (Export /\ Done) => PrintT(<<"VEC", ToJson([rows |-> rows, ncol |-> NCol, exp |-> out])>>)
=============================================================================
