SPECIFICATION Spec
CONSTANTS
  NMin = 2
  NMax = 12
  SVals = {4,8}
  SShift = 12
  SWs = {10}
  ArrLens = {2}
  Rule = "twolayer_asbuilt"
  Export = FALSE
INVARIANT OneValuePerLayer
INVARIANT WithinControlRange
INVARIANT ConstantWhenEqual
INVARIANT EndValues
INVARIANT FitsInv
CONSTRAINT Emit
CHECK_DEADLOCK FALSE
