SPECIFICATION Spec
CONSTANTS
  UN = 16
  Ordering = "minmax"
  ZS = 100
  Z <- MCZ
  TK = {5,8,12,20,30,34,40,47,52,53,54,60,100,332,997,1022,1074}
  HiMax = 53
  ZTS = 100
  ZT <- MCZT
  Delivery = "by_prior"
  QNum = {0,7,12,13,15,1012}
  QShift = 12
  QDen = {1,4}
  ENum = {0,6,12,14,18}
  EShift = 12
  SNum = {1,25}
  SDen = {1,10}
  Export = TRUE
INVARIANT ZOk
INVARIANT TZOk
INVARIANT MonotoneInv
INVARIANT TailMonotoneInv
INVARIANT TailSymmetricInv
INVARIANT OntoSupportInv
INVARIANT InverseCDFInv
INVARIANT LinArgsInv
INVARIANT TextInv
INVARIANT SpaceInv
INVARIANT DefaultInv
INVARIANT FitsInv
CONSTRAINT Emit
CHECK_DEADLOCK FALSE
