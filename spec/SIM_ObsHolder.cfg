SPECIFICATION SSpec
CONSTANTS
  OC <- MCOC
  OW <- MCOW
  ODev <- MCODev
  OErr <- MCOErr
  NatP <- MCNatP
  NatH = 8
  NHolders = 2
  Policies = {"eager"}
  Depth = 9
  Pattern = "any"
  Export = "walks"
CONSTRAINT Bound
CONSTRAINT EmitWalk
CHECK_DEADLOCK FALSE
