SPECIFICATION MSpec
CONSTANTS
  TB <- MCTB
  Grids <- MCGrids
  NGrids = 2
  Kinds = {"flux", "simple"}
  Muts = {"sortargs"}
  Ords = {"asc", "desc", "mixed"}
  Depth = 0
  Export = "none"
INVARIANT RefuteSortArgs
CHECK_DEADLOCK FALSE
