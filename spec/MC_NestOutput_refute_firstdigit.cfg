SPECIFICATION Spec
CONSTANTS
  ModeCounts = {1,2,3,11,12}
  MaxSize = 3
  Prefixes = {"1-", "r2_"}
  Table = "map"
  KeyParse = "first-digit"
  Lookup = "own-mode"
  Export = FALSE
INVARIANT OneSolutionPerMode
INVARIANT SolutionHoldsItsMode
INVARIANT MapIsGreatestWeight
INVARIANT KeysDistinct
INVARIANT KeysRoundTrip
INVARIANT ShapesDiscriminate
CONSTRAINT Emit
CHECK_DEADLOCK FALSE
