SPECIFICATION Spec
CONSTANTS
  NL = 4
  NW = 2
  NT = 3
  ECodes = {0, 103, 1501, 1515, 502}
  TCodes = {1111,1233,3211,2131,1323,3321}
  QuadIds = {2, 4}
  ClampE = 15
  SlackE = 14
  Variant = "code"
  Btab <- MCBtab
  Bstar <- MCBstar
  TabId = 1
  Rp = 2
  Rs = 5
  Dist = 3
  KD = 2
  Export = TRUE
INVARIANT TelescopingPartial
INVARIANT Telescoping
INVARIANT CoefNonNeg
INVARIANT OwnTemperaturesOnly
INVARIANT IsothermalIdentity
INVARIANT HotColdBounds
INVARIANT FluxIdentityIffWeights
INVARIANT FluxBounds
INVARIANT EclipseIsothermalRatio
INVARIANT EclipseBounds
INVARIANT DirectProportional
INVARIANT FitsInv
CONSTRAINT Emit
CHECK_DEADLOCK FALSE
