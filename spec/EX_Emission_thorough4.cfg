SPECIFICATION Spec
CONSTANTS
  NL = 4
  NW = 2
  NT = 3
  ECodes = {0, 103, 1501, 1515}
  TCodes = {1111,1233,3211,2131,1323,3321}
  QuadIds = {2, 4}
  ClampE = 15
  SlackE = 14
  Variant = "code"
  Btab <- MCBtab
  Bstar <- MCBstar
  TabId = 1
  Rp = 2
  Rs = 5
  Dist = 3
  KD = 2
  Export = TRUE
  InterpIds = {}
INVARIANT Telescoping
INVARIANT HotColdBounds
INVARIANT FitsInv
CONSTRAINT Emit
CHECK_DEADLOCK FALSE
