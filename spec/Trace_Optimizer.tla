--------------------------- MODULE Trace_Optimizer ---------------------------
(* C07, binding B: op sequences recorded from a real NestleOptimizer are replayed  *)
(* through the actions of Optimizer.tla.  One event per public call:               *)
(*   [tid, op, p, m, x, pr, post]   (op = "init" starts a fresh object)            *)
(* post is the projection of the real object after the call.  A real number is     *)
(* logged as [i |-> n, p |-> k]: n if it is the integer n, k if it is 10^k         *)
(* (NoNum = 9999 otherwise), so that TLC can compare it with a spec number         *)
(* (space, e):  ("log", e) = e  matches i = e;  ("linear", e) = 10^e matches p = e.*)
(* set_mode logs the mode in lower case (m) and the positions the caller wrote in  *)
(* upper case (cs); a string that is neither mode is logged as m with cs = <<>>.   *)
(* update_model logs the exponents of the vector, of whatever length; update_same  *)
(* is update_model with the array object of the previous update_model call.        *)
(* post.arg is that array re-read after every call (two-way reading per entry): it *)
(* must still hold what the caller wrote.  A boundary that is zero / negative is   *)
(* logged (x) and read (p) as its code (Optimizer.tla: Zero, Neg(e)).              *)
(* Stateful traces: at the first mismatch <<"BAD", ..>> is printed and the rest of *)
(* that tid is skipped.                                                            *)
EXTENDS MC_Optimizer, IOUtils
VARIABLES l, skip
TraceLog == ndJsonDeserialize(IOEnv.TRACE_FILE)
tvars == <<vars, l, skip>>

NumIs(o, sp, e) == IF sp = "log" THEN o.i = e ELSE o.p = e

FitEntryWhy(o, c, val) ==
    IF o.n # c.name \/ o.nsp # PMode(c.prior) THEN "fit_names"
    ELSE IF ~NumIs(o.v, ViewSp(c), val[c.name]) THEN "fit_values"
    ELSE IF ~(NumIs(o.lo, ViewSp(c), IMin(c.lo, c.hi)) /\ NumIs(o.hi, ViewSp(c), IMax(c.lo, c.hi))) THEN "fit_boundaries"
    ELSE IF ~(o.pk = c.prior.kind /\ o.psp = PMode(c.prior)
              /\ NumIs(o.pa, PMode(c.prior), c.prior.a) /\ NumIs(o.pb, PMode(c.prior), c.prior.b)) THEN "fit_priors"
    ELSE "ok"

\* between compiles only mutual consistency is required of the views: name and prior in one space,
\* reported value = model value in that space
Inconsistent(o, post) == IF o.nsp # o.psp THEN "fit_names"
                         ELSE IF o.n \in PSet /\ ~(IF o.psp = "log" THEN o.v.i = post.val[o.n].p ELSE o.v = post.val[o.n])
                              THEN "fit_values" ELSE "ok"
\* first clause on which the logged projection differs from the specification's state ("ok" if none)
\* full: after compile_params / update_model / write_back the whole set-up is compared
ArgWhy(post, ar) == IF Len(post.arg) # Len(ar) THEN FALSE
                     ELSE \A i \in 1..Len(ar) : NumIs(post.arg[i], ar[i].sp0, ar[i].e)
Why(post, cmp, cder, val, e, full, ar) ==
    IF post.err # e THEN (IF e THEN "unknown_is_error" ELSE "known_is_accepted")
    ELSE IF ~ArgWhy(post, ar) THEN "argument_untouched"
    ELSE IF ~post.ok THEN "views_readable"
    ELSE IF ~full THEN
         IF \E i \in 1..Len(post.fit) : Inconsistent(post.fit[i], post) # "ok"
         THEN Inconsistent(post.fit[CHOOSE i \in 1..Len(post.fit) : Inconsistent(post.fit[i], post) # "ok"], post)
         ELSE IF \E p \in PSet : ~NumIs(post.val[p], "linear", val[p]) THEN "values"
         ELSE "ok"
    ELSE IF Len(post.fit) # Len(cmp) THEN "fit_names"
    ELSE IF \E i \in 1..Len(cmp) : FitEntryWhy(post.fit[i], cmp[i], val) # "ok"
         THEN LET i == CHOOSE i \in 1..Len(cmp) : FitEntryWhy(post.fit[i], cmp[i], val) # "ok"
              IN  FitEntryWhy(post.fit[i], cmp[i], val)
    ELSE IF post.der # cder THEN "derived_names"
    ELSE IF \E p \in PSet : ~NumIs(post.val[p], "linear", val[p]) THEN "values"
    ELSE "ok"

Reset == /\ setting' = InitSetting /\ derivedOn' = InitDerived
         /\ userPrior' = [p \in PSet |-> None] /\ priorTab' = [p \in PSet |-> None]
         /\ compiled' = <<>> /\ compiledDer' = <<>>
         /\ value' = InitValue /\ err' = FALSE /\ hist' = <<>> /\ arg' = <<>>

Apply(e) ==
    CASE e.op = "enable_fit"          -> IF e.p \in PSet THEN EnableFit(e.p) ELSE Unknown(e.op, e.p)
      [] e.op = "disable_fit"         -> IF e.p \in PSet THEN DisableFit(e.p) ELSE Unknown(e.op, e.p)
      [] e.op = "set_mode"            -> IF e.p \notin PSet THEN Unknown(e.op, e.p)
                                         ELSE IF e.m \in {"linear", "log"}
                                              THEN SetMode(e.p, e.m, {e.cs[i] : i \in 1..Len(e.cs)})
                                              ELSE BadMode(e.p, e.m)
      [] e.op = "set_boundary"        -> IF e.p \in PSet THEN SetBoundary(e.p, e.x) ELSE Unknown(e.op, e.p)
      [] e.op = "set_factor_boundary" -> IF e.p \in PSet THEN SetFactorBoundary(e.p, e.x) ELSE Unknown(e.op, e.p)
      [] e.op = "set_prior"           -> IF e.p \in PSet THEN SetPrior(e.p, e.pr) ELSE Unknown(e.op, e.p)
      [] e.op = "enable_derived"      -> IF e.p \in DSet THEN EnableDerived(e.p) ELSE Unknown(e.op, e.p)
      [] e.op = "disable_derived"     -> IF e.p \in DSet THEN DisableDerived(e.p) ELSE Unknown(e.op, e.p)
      [] e.op = "compile_params"      -> Compile
      [] e.op = "update_model"        -> IF Len(e.x) = Len(compiled) THEN UpdateModel(e.x) ELSE UpdateWrong(e.x)
      [] e.op = "update_same"         -> UpdateSame
      [] e.op = "write_back"          -> WriteBack

TInit == Init /\ l = 1 /\ skip = FALSE
Step == /\ l <= Len(TraceLog)
        /\ l' = l + 1
        /\ LET e == TraceLog[l] IN
             IF e.op = "init" THEN Reset /\ skip' = FALSE
             ELSE IF skip THEN UNCHANGED <<vars, skip>>
             ELSE /\ Apply(e)
                  /\ LET w == Why(e.post, compiled', compiledDer', value', err',
                                   e.op \in {"compile_params", "update_model", "update_same", "write_back"}, arg') IN
                       IF w = "ok" THEN skip' = FALSE
                       ELSE /\ PrintT(<<"BAD", ToJson([l |-> l, tid |-> e.tid, step |-> e.step, why |-> w, op |-> e.op])>>)
                            /\ skip' = TRUE
TSpec == TInit /\ [][Step]_tvars
Accepted == TLCGet("stats").diameter - 1 = Len(TraceLog)
=============================================================================
