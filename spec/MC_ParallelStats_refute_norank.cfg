SPECIFICATION Spec
CONSTANTS
  NRs = {1,2}
  Ns = {0,1,2,3}
  Vals = {0,1}
  Wts = {0,1}
  WDen = 1
  SmpMode = "all"
  SampleSpace <- MCSampleSpace
  Part = "trace"
  Assign = "roundrobin"
  Jump = FALSE
  Serialise = TRUE
  NaNTest = "value"
  StrideOff = 0
  ReorderMode = "bylayout"
  ZeroGuard = "guarded"
  WSNum = 1
  WSDen = 1
  WScale <- MCWScale
  SummarySource = "local"
  Gens = {1,2,3}
  Ordered = FALSE
  Export = FALSE
INVARIANT NoRankFails
CONSTRAINT Emit
CHECK_DEADLOCK FALSE
