--------------------------- MODULE MC_InterpEdge ---------------------------
(* C04 -- queries a hair inside / outside every grid edge and beside every node.           *)
(*                                                                                         *)
(* Interp.tla works on an integer lattice and its operators do not care how fine that       *)
(* lattice is (RLin is affine, ExpW is homogeneous of degree 0).  Here the coordinates      *)
(* are SCALED: one lattice unit is 1/XScale kelvin and 1/YScale dex of pressure, the nodes  *)
(* sit at multiples of the scale (whole kelvin, whole decades) and the queries sit HairX /  *)
(* HairY lattice units beside each node -- e.g. YScale = 10^6, HairY = {1, 30, 1000}: a     *)
(* pressure 1e-6, 3e-5, 1e-3 dex below the first node is BELOW the grid (nearest edge       *)
(* nodes, zero below both minima), the same distance below the last node is INSIDE the      *)
(* last cell (interpolated, weight 1 - hair/width).  Nothing is loosened: the invariants    *)
(* are those of MC_Interp, evaluated on the fine lattice.                                   *)
(*                                                                                         *)
(* The query set is a cross (fine in one variable, coarse in the other) so that the exact   *)
(* rationals stay inside TLC's 32-bit integers (FitsInv).                                   *)
(*                                                                                         *)
(* TolX / TolY: comparison tolerances of the region dispatch (RegionT).  The specification  *)
(* is TolX = TolY = 0.  XC_InterpEdge_tol.cfg sets TolY to a hair: TLC must refute          *)
(* BracketBounded (a "tolerant" edge comparison extrapolates) -- expected counterexample.   *)
EXTENDS Interp, SequencesExt
CONSTANTS TNodes, PNodes,    \* node coordinates in whole kelvin / whole decades (sets)
          XScale, YScale,    \* lattice units per kelvin / per dex
          HairX, HairY,      \* distances (lattice units) of the near-node queries from each node
          FarX, FarY,        \* distance (whole kelvin / decades) of the far outside queries
          Mode, TolX, TolY, Export
VARIABLES phase, tab, qx, qy, out
vars == <<phase, tab, qx, qy, out>>

TN == SetToSortSeq({t * XScale : t \in TNodes}, LAMBDA a, b : a < b)
PN == SetToSortSeq({p * YScale : p \in PNodes}, LAMBDA a, b : a < b)
NT == Len(TN)
NP == Len(PN)

\* coarse queries: far below, every node, every cell midpoint, far above
Coarse(nodes, far) == {nodes[1] - far, nodes[Len(nodes)] + far}
                      \cup {nodes[i] : i \in 1..Len(nodes)}
                      \cup {(nodes[i] + nodes[i + 1]) \div 2 : i \in 1..(Len(nodes) - 1)}
\* fine queries: a hair on either side of every node (the first and last node: outside / inside the grid)
Fine(nodes, hairs) == {nodes[i] - h : i \in 1..Len(nodes), h \in hairs} \cup {nodes[i] + h : i \in 1..Len(nodes), h \in hairs}
CX == Coarse(TN, FarX * XScale)
CY == Coarse(PN, FarY * YScale)
FX == Fine(TN, HairX)
FY == Fine(PN, HairY)
Queries == (CX \X FY) \cup (FX \X CY)

Primes == <<2, 3, 5, 7, 11, 13, 17, 19, 23, 29, 31, 37, 41, 43, 47, 53>>
OneHot(pp, tt, hot, low) == [p \in 1..NP |-> [t \in 1..NT |-> IF p = pp /\ t = tt THEN hot ELSE low]]
Generic1 == [p \in 1..NP |-> [t \in 1..NT |-> Primes[(p - 1) * NT + t]]]
Generic2 == [p \in 1..NP |-> [t \in 1..NT |-> Primes[NP * NT + 1 - ((p - 1) * NT + t)] * 3]]
Generic3 == [p \in 1..NP |-> [t \in 1..NT |-> Primes[((t - 1) * NP + p)] * (((p + t) % 3) + 1)]]
Tables == {OneHot(pp, tt, 8, 1) : pp \in 1..NP, tt \in 1..NT} \cup {Generic1, Generic2, Generic3}

Nil == <<Q(0), Q(0), Q(0)>>
Init == /\ phase = "in" /\ tab \in Tables /\ out = Nil
        /\ \E q \in Queries : qx = q[1] /\ qy = q[2]
DispatchReg == RegionT(TN, PN, qx, qy, TolX, TolY)
Eval == /\ phase = "in"
        /\ out' = IF Mode = "linear"
                  THEN LET v == ExpectedLinRO(TN, PN, tab, qx, qy, DispatchReg, qx \in FX) IN <<v, v, Q(0)>>
                  ELSE ExpectedExpR(TN, PN, tab, qx, qy, DispatchReg)
        /\ phase' = "done"
        /\ UNCHANGED <<tab, qx, qy>>
Next == Eval
Spec == Init /\ [][Next]_vars

\* ------------------------------------------------------------------ the clauses (as in MC_Interp)
Done == phase = "done"
Reg  == Region(TN, PN, qx, qy)          \* the EXACT region: the clauses are stated with it whatever the dispatch did
NeverExtrapolated == Done /\ (Mode = "exp") => RLe(Q(0), out[3]) /\ RLe(out[3], Q(1))
NonNegative == Done => RLe(Q(0), out[1]) /\ RLe(Q(0), out[2])
BracketBounded == Done /\ Reg # "zero" =>
    /\ (out[3] # Q(1)) => InHull(TN, PN, tab, qx, qy, out[1])
    /\ (out[3] # Q(0)) => InHull(TN, PN, tab, qx, qy, out[2])
ZeroBelowBothMinima == Done /\ Reg = "zero" => out[1] = Q(0) /\ out[2] = Q(0)
FitsInv == Done => Fits(out[1]) /\ Fits(out[2]) /\ Fits(out[3])

\* which side of which node the query sits on, per axis: "node", "out" (a hair outside the grid), "in" (a hair inside
\* the first / last node), "beside" (a hair beside an interior node), "coarse"
Side(nodes, q, hairs) ==
    LET n == Len(nodes) IN
    IF \E i \in 1..n : nodes[i] = q THEN "node"
    ELSE IF \E h \in hairs : q = nodes[1] - h \/ q = nodes[n] + h THEN "out"
    ELSE IF \E h \in hairs : q = nodes[1] + h \/ q = nodes[n] - h THEN "in"
    ELSE IF \E h \in hairs, i \in 1..n : q = nodes[i] - h \/ q = nodes[i] + h THEN "beside"
    ELSE "coarse"
\* the edge clauses spelled out (they follow from the ones above; kept as separate invariants so that a change of the
\* operators that moves an edge is reported by name)
HairOutsideIsOutside == Done /\ (Side(PN, qy, HairY) = "out" \/ Side(TN, qx, HairX) = "out") =>
    /\ ~Inside(TN, PN, qx, qy)
    /\ Reg # "interior"
HairInsideIsInterpolated == Done /\ Side(PN, qy, HairY) = "in" /\ Side(TN, qx, HairX) \in {"node", "coarse"} /\ Inside(TN, PN, qx, qy)
                                 /\ qx < NLast(TN) =>
    /\ Reg \in {"interior"}
    /\ Cardinality(Br(PN, qy)) = 2

Emit == (Export /\ Done) =>
    PrintT(<<"VEC", ToJson([tab |-> tab, x |-> qx, y |-> qy, xs |-> XScale, ys |-> YScale,
                            a |-> out[1], b |-> out[2], w |-> out[3],
                            reg |-> Reg, inside |-> Inside(TN, PN, qx, qy),
                            sx |-> Side(TN, qx, HairX), sy |-> Side(PN, qy, HairY),
                            lo |-> IF Reg = "zero" THEN 0 ELSE HullLo(TN, PN, tab, qx, qy),
                            hi |-> HullHi(TN, PN, tab, qx, qy), mode |-> Mode, tn |-> TN, pn |-> PN])>>)
=============================================================================
