---------------------------- MODULE MC_Retrieval ----------------------------
(* The designed call order of a retrieval against the guards of Retrieval.tla,  *)
(* for every sequence of likelihood evaluations (valid / invalid vectors) and   *)
(* solutions; Variant selects design mutants (expected counterexamples).        *)
EXTENDS Retrieval
CONSTANTS Vectors, MaxLike, MaxSol,
          Variant   \* "asbuilt" | "like_no_update" | "profiles_no_model" | "spectra_before_model"
VARIABLES s, queue, ok, nl, ns
vars == <<s, queue, ok, nl, ns>>
E(ev) == [ev |-> ev, p |-> 0, finite |-> 0]
U(p) == [ev |-> "update", p |-> p, finite |-> 0]
LikeOps(p, valid) ==
    <<E("like_begin")>>
    \o (IF Variant = "like_no_update" /\ nl > 0 THEN <<>> ELSE <<U(p)>>)
    \o (IF valid THEN <<E("model"), E("bin"), [ev |-> "like_end", p |-> 0, finite |-> 1]>>
        ELSE <<[ev |-> "like_end", p |-> 0, finite |-> 0]>>)
SolOps(pm, pd) ==
    (IF Variant = "spectra_before_model" THEN <<U(pm), E("spectra_store"), E("model")>>
     ELSE <<U(pm), E("model"), E("spectra_store")>>)
    \o <<U(pd)>> \o (IF Variant = "profiles_no_model" THEN <<>> ELSE <<E("model")>>) \o <<E("profiles")>>
Init == s = RInit /\ queue = <<E("compile")>> /\ ok = TRUE /\ nl = 0 /\ ns = 0
Call == /\ queue = <<>>
        /\ \/ (nl < MaxLike /\ ns = 0 /\ \E p \in Vectors, v \in BOOLEAN : queue' = LikeOps(p, v) /\ nl' = nl + 1 /\ ns' = ns)
           \/ (ns < MaxSol /\ \E pm, pd \in Vectors : queue' = SolOps(pm, pd) /\ ns' = ns + 1 /\ nl' = nl)
        /\ UNCHANGED <<s, ok>>
Step == /\ queue # <<>>
        /\ ok' = (ok /\ RGuard(Head(queue), s))
        /\ s' = RApply(Head(queue), s)
        /\ queue' = Tail(queue)
        /\ UNCHANGED <<nl, ns>>
Next == Call \/ Step
Spec == Init /\ [][Next]_vars
GuardsHold == ok
=============================================================================
