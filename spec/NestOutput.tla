----------------------------- MODULE NestOutput -----------------------------
(***************************************************************************)
(* C09 over the FORM of the sampler's output (MultiNest) and the way it    *)
(* reaches "every solution reported after a fit".                          *)
(*                                                                         *)
(* A MultiNest run leaves files behind; the wrapper turns them into a      *)
(* store of solutions keyed "solution<N>" and reports every entry of the   *)
(* store as solution number N.  Dimensions of the quantifier modelled      *)
(* here (the values themselves are the subject of MC_Posterior):           *)
(*   - how the run was configured: mode separation on / off                *)
(*     (search_multi_modes), importance sampling on / off (switches mode   *)
(*     separation off), the prefix of the output files                     *)
(*   - how many modes the run separated (ModeCounts): the constructor      *)
(*     allows maximum_modes = 100, so mode numbers of MORE THAN ONE        *)
(*     decimal digit occur; modes have different sample counts             *)
(*   - where the per-mode statistics come from: the analyser's per-mode    *)
(*     tables ("modes") or, when the analyser reports no modes (runs       *)
(*     without mode separation), the global tables of <prefix>stats.dat    *)
(*     that the wrapper parses itself ("global")                           *)
(*   - the statistics hold THREE points per mode: the mean, the sample of  *)
(*     greatest likelihood and the sample of greatest weight (MAP); in a   *)
(*     nested-sampling run the last two are different samples              *)
(*                                                                         *)
(* Sample i of mode m is the abstract identity <<m, i>>; a mode's weights  *)
(* w and likelihood ranks l come from Shapes (zero weights, ties of the    *)
(* greatest weight, a single sample, ML sample = / # MAP sample).          *)
(*                                                                         *)
(* Deliberately wrong variants (TLC must refute the invariants):           *)
(*   Table    = "maxlike"      the reported MAP is read from the table of  *)
(*                             the maximum-likelihood point                *)
(*   KeyParse = "first-digit"  the solution number is read from one        *)
(*                             character of the key                        *)
(*   Lookup   = "first-mode"   every mode gets the statistics of mode 0    *)
(***************************************************************************)
EXTENDS Posterior
CONSTANTS ModeCounts, \* numbers of modes a run with mode separation may find
          MaxSize,    \* most samples of one mode (sizes of the exported sample sets that fill the modes)
          Prefixes,   \* prefixes of the output files (constructor keyword multinest_prefix)
          Table,      \* "map" | "maxlike"
          KeyParse,   \* "all-digits" | "first-digit"
          Lookup,     \* "own-mode" | "first-mode"
          Export
VARIABLES phase, cfg, M, off, files, store, rep
nvars == <<phase, cfg, M, off, files, store, rep>>
MaxModes == SetMaxI(ModeCounts)

AllShapes == << [w |-> <<1, 2>>,       l |-> <<2, 1>>],        \* ML sample is the lighter one
                [w |-> <<2, 0, 1>>,    l |-> <<1, 2, 3>>],     \* a zero weight; ML = last sample (nested sampling)
                [w |-> <<3>>,          l |-> <<1>>],           \* a single sample
                [w |-> <<1, 2, 2>>,    l |-> <<3, 1, 2>>],     \* tie of the greatest weight; ML elsewhere
                [w |-> <<1, 1>>,       l |-> <<1, 2>>],        \* all weights tied: ML is of greatest weight
                [w |-> <<0, 1, 3, 1>>, l |-> <<1, 2, 3, 4>>],  \* ML = last, MAP = third
                [w |-> <<2, 1, 2, 0>>, l |-> <<1, 4, 2, 3>>] >>
Shapes == SelectSeq(AllShapes, LAMBDA s : Len(s.w) <= MaxSize)
ShapeOf(m, o) == Shapes[((m + o) % Len(Shapes)) + 1]
MLIdx(s) == CHOOSE i \in 1..Len(s.l) : \A j \in 1..Len(s.l) : s.l[j] <= s.l[i]
MapIdx(s) == CHOOSE i \in ArgMaxSet(s.w) : TRUE            \* MultiNest writes ONE sample of greatest weight
MLApart(s) == MLIdx(s) \notin ArgMaxSet(s.w)

\* the key of mode m in the store is "solution" followed by the decimal digits of m
RECURSIVE Digits(_)
Digits(n) == IF n < 10 THEN <<n>> ELSE Digits(n \div 10) \o <<n % 10>>
RECURSIVE DigitsValue(_)
DigitsValue(d) == IF Len(d) = 1 THEN d[1] ELSE 10 * DigitsValue(SubSeq(d, 1, Len(d) - 1)) + d[Len(d)]
KeyOf(m) == Digits(m)
ParseKey(k) == IF KeyParse = "first-digit" THEN k[1] ELSE DigitsValue(k)

Separates(c) == c.smm /\ ~c.ins          \* importance sampling switches mode separation off
Configs == {c \in [smm : BOOLEAN, ins : BOOLEAN, route : {"modes", "global"}, pfx : Prefixes] :
              /\ (c.route = "global") => ~Separates(c)       \* only runs without mode separation lack per-mode tables
              /\ c.ins => (c.route = "global")}

Init == /\ phase = "configured"
        /\ cfg \in Configs
        /\ M \in (IF Separates(cfg) THEN ModeCounts ELSE {1})
        /\ off \in 0..(Len(Shapes) - 1)
        /\ files = <<>> /\ store = <<>> /\ rep = <<>>

\* the sampler runs and leaves its files behind (mode m = 0 .. M-1 is entry m+1)
Run == /\ phase = "configured" /\ phase' = "ran"
       /\ files' = [pfx   |-> cfg.pfx,
                    post  |-> [j \in 1..M |-> [i \in 1..Len(ShapeOf(j - 1, off).w) |-> <<j - 1, i>>]],
                    stats |-> [j \in 1..M |-> [maxlike |-> <<j - 1, MLIdx(ShapeOf(j - 1, off))>>,
                                               map     |-> <<j - 1, MapIdx(ShapeOf(j - 1, off))>>]]]
       /\ UNCHANGED <<cfg, M, off, store, rep>>

\* the wrapper reads them back into its store of solutions (insertion order = mode order)
StatsFor(j) == files.stats[IF Lookup = "first-mode" THEN 1 ELSE j]
Store == /\ phase = "ran" /\ phase' = "stored"
         /\ store' = [j \in 1..M |-> [key     |-> KeyOf(j - 1),
                                      samples |-> files.post[j],
                                      map     |-> IF Table = "maxlike" THEN StatsFor(j).maxlike ELSE StatsFor(j).map]]
         /\ UNCHANGED <<cfg, M, off, files, rep>>

\* every entry of the store is reported as solution number ParseKey(key); the post-processing of solution N
\* (derived traces, spread of spectra / profiles) draws on get_samples(N) = the store's entry "solution<N>";
\* the solution dictionary is keyed by N (a later entry of the same number replaces the earlier one)
Yielded == [j \in 1..M |-> ParseKey(store[j].key)]
SamplesOfNumber(n) == IF \E j \in 1..M : store[j].key = KeyOf(n)
                      THEN store[CHOOSE j \in 1..M : store[j].key = KeyOf(n)].samples ELSE <<>>
Report == /\ phase = "stored" /\ phase' = "reported"
          /\ rep' = [n \in {Yielded[j] : j \in 1..M} |->
                       LET j == CHOOSE jj \in 1..M : Yielded[jj] = n /\ \A kk \in 1..M : Yielded[kk] = n => kk <= jj
                       IN  [samples |-> store[j].samples, map |-> store[j].map, derived_from |-> SamplesOfNumber(n)]]
          /\ UNCHANGED <<cfg, M, off, files, store>>
Next == Run \/ Store \/ Report
Spec == Init /\ [][Next]_nvars

Reported == phase = "reported"
ModeSamples(m) == [i \in 1..Len(ShapeOf(m, off).w) |-> <<m, i>>]
\* one solution per mode, numbered 0 .. M-1, none lost, none twice
OneSolutionPerMode == Reported => /\ DOMAIN rep = 0..(M - 1)
                                  /\ \A j, k \in 1..M : Yielded[j] = Yielded[k] => j = k
\* solution m holds the samples of mode m, and its derived traces are computed from those samples
SolutionHoldsItsMode == Reported => \A m \in DOMAIN rep : m < M =>
                                       /\ rep[m].samples = ModeSamples(m)
                                       /\ rep[m].derived_from = ModeSamples(m)
\* the MAP of solution m is a sample of mode m of greatest weight
MapIsGreatestWeight == Reported => \A m \in DOMAIN rep : m < M =>
                                       \E i \in ArgMaxSet(ShapeOf(m, off).w) : rep[m].map = <<m, i>>
\* non-vacuity of the model itself
KeysDistinct == \A a, b \in 0..(MaxModes - 1) : KeyOf(a) = KeyOf(b) => a = b
KeysRoundTrip == \A a \in 0..(MaxModes - 1) : DigitsValue(KeyOf(a)) = a
ShapesDiscriminate == /\ \E k \in 1..Len(Shapes) : MLApart(Shapes[k])
                      /\ \E k \in 1..Len(Shapes) : ~MLApart(Shapes[k])
                      /\ \E k, kk \in 1..Len(Shapes) : Len(Shapes[k].w) # Len(Shapes[kk].w)
ASSUME MaxModes > 10        \* mode numbers of two decimal digits are inside the model

\* input classes for the binding: configuration, number of modes, sample count of every mode, whether the mode's
\* sample of greatest likelihood is apart from its samples of greatest weight, and the numbers get_solution yields
Emit == (Export /\ Reported) =>
    PrintT(<<"SCN", ToJson([smm |-> cfg.smm, ins |-> cfg.ins, route |-> cfg.route, pfx |-> cfg.pfx, modes |-> M, off |-> off,
                            sizes |-> [j \in 1..M |-> Len(ShapeOf(j - 1, off).w)],
                            apart |-> [j \in 1..M |-> MLApart(ShapeOf(j - 1, off))],
                            yields |-> Yielded])>>)
=============================================================================
