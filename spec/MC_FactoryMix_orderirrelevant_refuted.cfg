SPECIFICATION Spec
CONSTANTS
  MaxMix = 2
  MixKeys = "few"
  Export = FALSE
INVARIANT OrderIrrelevant
CHECK_DEADLOCK FALSE
