SPECIFICATION Spec
CONSTANTS
  MaxMix = 2
  MixKeys = "few"
  MaxSubs = 0
  MaxSubMix = 0
  SubErrLen = 1
  Export = FALSE
INVARIANT OrderIrrelevant
CHECK_DEADLOCK FALSE
