------------------------------ MODULE LikeRules ------------------------------
(***************************************************************************)
(* C06 -- constant-free rules shared by Likelihood.tla (design level,      *)
(* bindings C) and Trace_Likelihood.tla (binding B).                       *)
(***************************************************************************)
EXTENDS Integers, Sequences, Rat

AllClasses == {"InvalidModel", "InvalidChemistry", "InvalidTemperature"}

\* Prior.prior: the sampled-space coordinate x is written to the model as x (linear prior)
\* or 10**x (log prior); x is an integer here so that the power is exact
PriorToModel(mode, x) == IF mode = "lin" THEN x ELSE Pow(10, x)

\* Uniform.sample / LogUniform.sample: inverse CDF on [min(bounds), max(bounds)] in prior space
UniformSample(lo, hi, u) == LET a == RMin(lo, hi)
                                b == RMax(lo, hi)
                            IN  RAdd(a, RMul(u, RSub(b, a)))
\* Gaussian.sample / LogGaussian.sample: mean + std * Z(u); the normal quantile Z(u) is an
\* uninterpreted table value supplied at the boundary
GaussSample(mean, std, z) == RAdd(mean, RMul(std, z))

\* what a log-likelihood callback hands back, given the outcome of the model evaluation
\*   oc      "ok" or the class of the exception raised by the forward model
\*   caught  classes absorbed by the callback
\*   zerochi "value" | "nan"  (as built at the pinned commit a perfect fit was reported as NaN)
ResultKind(oc, caught, zerochi, c2) ==
    IF oc = "ok" THEN (IF c2 = RZero /\ zerochi = "nan" THEN "nan" ELSE "num")
    ELSE IF oc \in caught THEN "nan"
    ELSE "raise"
=============================================================================
