------------------------------ MODULE LikeRules ------------------------------
(***************************************************************************)
(* C06 -- constant-free rules shared by Likelihood.tla (design level,      *)
(* bindings C) and Trace_Likelihood.tla (binding B).                       *)
(***************************************************************************)
EXTENDS Integers, Sequences, Rat

AllClasses == {"InvalidModel", "InvalidChemistry", "InvalidTemperature"}

\* Prior.prior: the sampled-space coordinate x is written to the model as x (linear prior)
\* or 10**x (log prior); x is an integer here so that the power is exact
PriorToModel(mode, x) == IF mode = "lin" THEN x ELSE Pow(10, x)

\* Uniform.sample / LogUniform.sample: inverse CDF on [min(bounds), max(bounds)] in prior space
UniformSample(lo, hi, u) == LET a == RMin(lo, hi)
                                b == RMax(lo, hi)
                            IN  RAdd(a, RMul(u, RSub(b, a)))
\* Gaussian.sample / LogGaussian.sample: mean + std * Z(u); the normal quantile Z(u) is an
\* uninterpreted table value supplied at the boundary
GaussSample(mean, std, z) == RAdd(mean, RMul(std, z))

\* an atmosphere is invalid as soon as the non-fill gases sum above unity in SOME layer (tot[l]: total of layer l, unit:
\* what "unity" is in the units of tot); "all" -- only when every layer is above unity -- is the expected-counterexample rule
LayersAbove(tot, unit, rule) == IF rule = "any" THEN \E l \in 1..Len(tot) : tot[l] > unit
                                ELSE Len(tot) > 0 /\ \A l \in 1..Len(tot) : tot[l] > unit

\* a forward model may also return without raising but with NaN in every bin ("NaNAll": e.g. a
\* negative temperature, 0/0 in a profile) or in some bins only ("NaNSome")
NaNKinds == {"NaNAll", "NaNSome"}

\* what a log-likelihood callback hands back, given the outcome of the model evaluation
\*   oc      "ok", the class of the exception raised by the forward model, or a NaN kind
\*   caught  classes absorbed by the callback
\*   zerochi "value" | "nan"  (as built at the pinned commit a perfect fit was reported as NaN)
\*   allnan  "nan" | "zero"   ("zero": no bin could be compared and chi2 = 0, the best possible
\*                             likelihood, is reported -- expected-counterexample variant)
\* "part": some bins are NaN; the statement is silent -- the chi2 over the comparable bins (what
\* chisq_trans computes) and a non-finite value are both accepted by the bindings
ResultKind(oc, caught, zerochi, allnan, c2) ==
    IF oc = "ok" THEN (IF c2 = RZero /\ zerochi = "nan" THEN "nan" ELSE "num")
    ELSE IF oc = "NaNAll" THEN (IF allnan = "nan" THEN "nan" ELSE "num")
    ELSE IF oc = "NaNSome" THEN "part"
    ELSE IF oc \in caught THEN "nan"
    ELSE "raise"
=============================================================================
