---------------------------- MODULE MC_BinRoutes ----------------------------
(* C05 -- the ROUTE dimension (BinRoutes.tla).  Init chooses native POINTS (uniform and non-uniform spacing), target  *)
(* bins (any order; inside, across, partly / wholly outside the native range) and a model output (spectrum, two rows   *)
(* of optical depths, uncertainties); action Eval(rt) takes ONE public route.  Clause:                                 *)
(*    RouteRefinesDef   whichever route carries the model output to the binner, and in whichever order the native      *)
(*                      points are handed over, every row of the result is, for every sorted target bin, what the       *)
(*                      definition (Binning!Binned / BinnedErr2) requires for the native bins DERIVED from the points    *)
(* Slip = "none" must satisfy it; each slip of BinRoutes!Slips on the routes SlipOn must be refuted                     *)
(* (MC_BinRoutes_ref_*.cfg), and every exported vector lists, per slip, the routes on which the vector exposes it       *)
(* (result agrees with NEITHER reading of the derived bins) so that the binding provably replays inputs on which a       *)
(* slip of that class shows on that route.                                                                               *)
EXTENDS BinRoutes
CONSTANTS CMax,          \* native points lie on 0..CMax
          KMin, KMax,    \* number of native points
          TES, TShift,   \* edges of single target bins: {t - TShift : t \in TES}
          TESp,          \* edges of the target bins used in pairs (both orders)
          FModes,        \* which spectra: subset of {"const", "gen1", "gen2"}
          EvalRoutes,    \* the routes taken (in the specification "bindown", "bin_model" and "out_spectrum" are the same
                         \* computation, as are "bindown_2d" and "out_tau": the quick configuration takes one of each)
          AllOrders,     \* TRUE: ascending, descending and a mixed order of the native points; FALSE: the first two
          Slip, SlipOn,  \* "none" or a slip of BinRoutes!Slips, and the routes it sits on
          Export
VARIABLES phase, cs, tgt, fm, route
vars == <<phase, cs, tgt, fm, route>>

RECURSIVE PtsFrom(_, _)
PtsFrom(k, a) == IF k = 0 THEN {<<>>} ELSE UNION {{<<c>> \o s : s \in PtsFrom(k - 1, c + 1)} : c \in a..CMax}
AllPts == {c \in UNION {PtsFrom(k, 0) : k \in KMin..KMax} : OrderedBins(DerivedBins(c, "half")) /\ OrderedBins(DerivedBins(c, "edges"))}
TE   == {t - TShift : t \in TES}
TIv  == {x \in TE \X TE : x[1] < x[2]}
TIvp == {x \in TESp \X TESp : x[1] < x[2]}
AllTgt == {<<x>> : x \in TIv} \cup {T \in TIvp \X TIvp : T[1][1] + T[1][2] # T[2][1] + T[2][2]}
PrimesR == <<2, 3, 5, 7, 11, 13>>
Flux(m, n) == IF m = "const" THEN [i \in 1..n |-> 5]
              ELSE IF m = "gen1" THEN [i \in 1..n |-> PrimesR[i]]
              ELSE [i \in 1..n |-> PrimesR[n + 1 - i] * 3 + (i % 2)]
\* optical depths and uncertainties derived from the spectrum (keeps the state space small): rows differ from the
\* spectrum and from each other
MO == LET n == Len(cs)  f == Eager(Flux(fm, n)) IN
      [flux |-> f,
       tau  |-> <<Eager([i \in 1..n |-> f[n + 1 - i] + 2 * i]), Eager([i \in 1..n |-> IF i = 1 THEN 9 ELSE 1])>>,
       e    |-> Eager([i \in 1..n |-> f[n + 1 - i] + i])]

Init == /\ phase = "in" /\ cs \in AllPts /\ tgt \in AllTgt /\ fm \in FModes /\ route = "none"
Eval(rt) == /\ phase = "in" /\ phase' = "done" /\ route' = rt /\ UNCHANGED <<cs, tgt, fm>>
Next == \E rt \in EvalRoutes : Eval(rt)
Spec == Init /\ [][Next]_vars
Done == phase = "done"

\* the order in which the native points are handed over: ascending, descending and (>= 3 points) one mixed order -- every
\* permutation is quantified in MC_Binning (AlgRefinesDef); here the order is crossed with the route
Ident == Eager([i \in 1..Len(cs) |-> i])
Rev   == Eager([i \in 1..Len(cs) |-> Len(cs) + 1 - i])
Mixed == Eager([i \in 1..Len(cs) |-> IF i = Len(cs) THEN 1 ELSE i + 1])
Orders == IF AllOrders THEN {Ident, Rev, Mixed} ELSE {Ident, Rev}
RouteRefinesDef == Done =>
    \A p \in Orders : RouteAgrees(RouteRun(route, cs, p, tgt, MO, Slip, SlipOn), route, cs, tgt, MO, "half")
\* on uniform grids the two readings are the same bins: nothing is left to interpretation there
ReadingsCoincide == UniformPts(cs) => DerivedBins(cs, "half") = DerivedBins(cs, "edges")
\* the documented recipe (the caller works the widths out with compute_bin_edges and hands them over with the points, in
\* any order) is the same binning as handing over nothing
RecipeSame == (Done /\ route = "bindown_w") => \A p \in Orders :
    RouteRun("bindown_w", cs, p, tgt, MO, "none", {}) = RouteRun("bindown", cs, p, tgt, MO, "none", {})
WellFormedR == /\ Len(cs) >= 2 /\ \A i \in 1..(Len(cs) - 1) : cs[i] < cs[i + 1]
               /\ \A k \in 1..Len(tgt) : tgt[k][1] < tgt[k][2]
FitsR == Done => \A r \in 1..Len(RouteWants(route, MO)) : \A k \in 1..Len(tgt) :
    LET x == RouteRun(route, cs, Ident, tgt, MO, "none", {})[r][k] IN x.k = "num" => Fits(x.v) /\ Fits(x.e2)

\* ---------------------------------------------------------------------- export (one vector per input, phase "in")
\* (a slip of the order shows only when the points are handed over neither ascending nor descending -- the mid-point
\* widths of a reversed grid are the reversed widths --; the others in any order)
RouteClass(rt) == IF rt = "bindown_w" THEN rt ELSE IF TwoD(rt) THEN "out_tau" ELSE "out_spectrum"     \* same computation
ExposedClass(s, rt) == LET res == RouteRun(rt, cs, IF s = "unsortedwidth" THEN Mixed ELSE Ident, tgt, MO, s, {rt})
                       IN  \A rd \in Readings : ~RouteAgrees(res, rt, cs, tgt, MO, rd)
ExposedOn(s) == LET X == {rt \in (IF s = "fluxfortau" THEN {"out_tau"} ELSE {"bindown_w", "out_spectrum", "out_tau"}) : ExposedClass(s, rt)}
                IN  {rt \in Routes : RouteClass(rt) \in X}
RECURSIVE SetToSeqS(_)
SetToSeqS(S) == IF S = {} THEN <<>> ELSE LET x == CHOOSE x \in S : TRUE IN <<x>> \o SetToSeqS(S \ {x})
ExpR(rd) == LET N == DerivedBins(cs, rd)  st == SortedT(tgt) IN
    [k \in 1..Len(tgt) |-> LET tb == Tgt4(st[k])  ov == Overlaps(N, tb) IN
        [tb |-> st[k], ov |-> ov, touch |-> Touches(N, tb),
         v   |-> IF ov THEN Binned(N, tb, MO.flux) ELSE Q(0),
         e2  |-> IF ov THEN BinnedErr2(N, tb, MO.e) ELSE Q(0),
         tau |-> [r \in 1..Len(MO.tau) |-> IF ov THEN Binned(N, tb, MO.tau[r]) ELSE Q(0)]]]
\* the histogram binner on the same points (targets: >= 2 ascending centres, as handed over); doubled coordinates
TC2 == [k \in 1..Len(tgt) |-> tgt[k][1] + tgt[k][2]]
XS2 == [i \in 1..Len(cs) |-> 2 * cs[i]]
HistOk == Len(tgt) >= 2 /\ (\A k \in 1..(Len(tgt) - 1) : TC2[k] < TC2[k + 1]) /\ \A i \in 1..Len(cs) : ~OnHistEdge(TC2, XS2[i])
ExpH == IF ~HistOk THEN <<>> ELSE
    [k \in 1..Len(tgt) |-> LET M == HistMembers(TC2, XS2, k) IN
        [empty |-> M = {},
         v   |-> IF M = {} THEN Q(0) ELSE HistMean(TC2, XS2, MO.flux, k),
         tau |-> [r \in 1..Len(MO.tau) |-> IF M = {} THEN Q(0) ELSE HistMean(TC2, XS2, MO.tau[r], k)]]]
EmitR == (Export /\ phase = "in") =>
    PrintT(<<"RVEC", ToJson([kind |-> "route", cs |-> cs, tgt |-> tgt, flux |-> MO.flux, tau |-> MO.tau, e |-> MO.e,
                             uniform |-> UniformPts(cs), hw |-> DerivedHW(cs),
                             half |-> ExpR("half"), edges |-> ExpR("edges"), hist |-> ExpH,
                             exposes |-> [s \in Slips |-> SetToSeqS(ExposedOn(s))]])>>)
=============================================================================
