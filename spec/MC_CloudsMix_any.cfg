SPECIFICATION Spec
CONSTANTS
  NW = 2
  NC = 3
  TAUS = {0,1,11}
  Rule = "any"
  Cut = 10
INVARIANT SumOrLicensed
INVARIANT NeverMoreThanSum
CHECK_DEADLOCK FALSE
