\* Quick tier: binary tables.  In linear mode the interpolant is LINEAR in the table entries with weights that depend on
\* the query only, so the clauses hold for every table iff the weights outside the bracketing nodes vanish (one-hot
\* tables), the bracketing weights are non-negative (one-hot) and sum to one (constant table): all of them are among the
\* 2^9 binary tables.  The same argument covers BilinearOrderIrrelevant (both orders are linear in the table), which is
\* therefore checked here only.  The thorough tier enumerates three-valued tables ({0,1,3}, unequal node spacing) as well.
SPECIFICATION Spec
CONSTANTS
  TNS = {300,500,700}
  PNS = {0,2,4}
  Vals = {0,2}
  TabMode = "all"
  Mode = "linear"
  QX = {100,200,300,400,500,600,700,800}
  QYS = {0,1,2,3,4,5,6,7}
  YShift = 2
  Export = FALSE
INVARIANT NonNegative
INVARIANT BracketBounded
INVARIANT NodeExact
INVARIANT BilinearOrderIrrelevant
INVARIANT NeverExtrapolated
INVARIANT ZeroBelowBothMinima
INVARIANT FitsInv
CONSTRAINT Emit
CHECK_DEADLOCK FALSE
