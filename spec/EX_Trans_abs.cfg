SPECIFICATION Spec
CONSTANTS
  Family = "abs"
  NL = 3
  NW = 1
  NC = 1
  AVals = {0}
  LVals = {1}
  RpSet = {10,17}
  IncSet = {1,3}
  RsSet = {7}
  TVals = {0,1,5}
  Basis = FALSE
  Export = TRUE
CONSTRAINT Emit
CHECK_DEADLOCK FALSE
INVARIANT DepthLowerBound
INVARIANT DepthUpperBound
INVARIANT BareWhenTransparent
INVARIANT MonotoneInTau
INVARIANT FitsInv
