SPECIFICATION SSpec
CONSTANTS
  NV = 3
  NC = 3
  NR = 2
  Modes = {"xsec", "ktables"}
  RpRoutes = {"param", "attr"}
  Entries = {"model", "partial"}
  PhysSet = {"rp", "ts", "dist"}
  Record = FALSE
  MaxSets = 0
  SVariant = "same_count_skipped"
INVARIANT EvalUsesCurrent
CHECK_DEADLOCK FALSE
