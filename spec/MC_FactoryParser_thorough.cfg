SPECIFICATION Spec
CONSTANTS
  MaxCalls = 3
  NFiles = 4
  Consuming = {}
  Prebuild = FALSE
INVARIANT GenerateEqualsFresh
INVARIANT ParserConfigUnchanged
INVARIANT AbsentSectionIsDefaultArgument
INVARIANT ModelLayerKeysEffective
INVARIANT FilesCoverPresence
CONSTRAINT Emit
CHECK_DEADLOCK FALSE
