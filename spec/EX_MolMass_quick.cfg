SPECIFICATION Spec
CONSTANTS
  MaxObj = 2
  MaxNames = 2
  PairsInSeq = FALSE
  RatioNum = 1
  RatioDen = 4
  AbDen = 16
  Variant = "spec"
  Export = TRUE
CHECK_DEADLOCK FALSE
INVARIANT AnswerIsOfAskedFormula
INVARIANT ReaderSane
INVARIANT SumsToOne
CONSTRAINT Emit
