---------------------------- MODULE Trace_Binning ----------------------------
(* C05, binding B.  Every event is one target bin of one real bindown() call on  *)
(* a seeded random grid; TLC re-evaluates the Binning operators on the logged    *)
(* (lattice-integer) bins and decides the clauses with a scaled comparison.      *)
(*   kind "val"  : FluxBinner with explicit native widths -- the full statement  *)
(*   kind "rel"  : FluxBinner with widths derived from mid-points on a           *)
(*                 non-uniform grid -- definition-independent clauses only        *)
(*   kind "hist" : SimpleBinner                                                  *)
(* Stateless stream: the step always advances; rejected events are printed.      *)
EXTENDS Binning, IOUtils, TLCExt
VARIABLE l
TraceLog == ndJsonDeserialize(IOEnv.TRACE_FILE)
\* an observed value far outside the expected magnitude is rejected without multiplying (32-bit TLC integers)
SafeClose(m, S, r, tol) == Abs(m) < (Big \div r[2]) /\ Close(m, S, r, tol)

\* ------------------------------------------------------------------- "val"
\* e.nat: window of native bins = every bin meeting the target plus, where the grid continues
\* (e.ml / e.mr), one more bin on that side, which must not overlap: then no bin outside the
\* window overlaps either (bins are ordered and disjoint).  e.m = round(value*S), e.m2 = round(err^2*S2).
WindowComplete(e) == /\ OrderedDisjoint(e.nat)
                     /\ e.ml => OvLen(e.nat[1], e.tgt) = 0
                     /\ e.mr => OvLen(e.nat[Len(e.nat)], e.tgt) = 0
OkVal(e) ==
    /\ WindowComplete(e)
    /\ IF Overlaps(e.nat, e.tgt)
       THEN /\ e.isnum
            /\ SafeClose(e.m, e.S, Binned(e.nat, e.tgt, e.f), e.tol)
            /\ e.m >= SetMinI(OverlapVals(e.nat, e.tgt, e.f)) * e.S - e.tol           \* bounds
            /\ e.m <= SetMaxI(OverlapVals(e.nat, e.tgt, e.f)) * e.S + e.tol
            /\ RSumSeq([i \in 1..Len(e.nat) |-> NWeight(e.nat, e.tgt, i)]) = Q(1)
            /\ e.chkerr => SafeClose(e.m2, e.S2, BinnedErr2(e.nat, e.tgt, e.e), e.tol)
       ELSE IF Touches(e.nat, e.tgt) THEN TRUE
       ELSE e.isnum /\ e.m = 0

\* ------------------------------------------------------------------- "rel"
\* e.cs: native centres of the window (lattice integers, ascending); widths were derived by the code.
\* Two readings of "the native bin of point i": between the mid-points to its neighbours, or
\* centre -/+ half the derived width.  In 4x coordinates, with mirrored neighbours at the grid ends:
NbL(cs, i, lend) == IF i = 1 THEN (IF lend THEN 2 * cs[1] - cs[2] ELSE cs[1]) ELSE cs[i - 1]
NbR(cs, i, rend) == LET n == Len(cs) IN IF i = n THEN (IF rend THEN 2 * cs[n] - cs[n - 1] ELSE cs[n]) ELSE cs[i + 1]
UnionBin4(cs, i, lend, rend) ==
    LET nl == NbL(cs, i, lend)  nr == NbR(cs, i, rend)  c == cs[i]
    IN  <<IMin(2 * (nl + c), 4 * c - (nr - nl)), IMax(2 * (c + nr), 4 * c + (nr - nl))>>
BothBin4(cs, i, lend, rend) ==
    LET nl == NbL(cs, i, lend)  nr == NbR(cs, i, rend)  c == cs[i]
    IN  <<IMax(2 * (nl + c), 4 * c - (nr - nl)), IMin(2 * (c + nr), 4 * c + (nr - nl))>>
Known(e) == {i \in 1..Len(e.cs) : (i > 1 \/ e.lend) /\ (i < Len(e.cs) \/ e.rend)}
Tgt4(e) == <<4 * e.tgt[1], 4 * e.tgt[2]>>
HullIdx(e) == {i \in Known(e) : OvLen(UnionBin4(e.cs, i, e.lend, e.rend), Tgt4(e)) > 0}
CoreIdx(e) == {i \in Known(e) : OvLen(BothBin4(e.cs, i, e.lend, e.rend), Tgt4(e)) > 0}
RelWindowComplete(e) ==
    /\ \A i \in 1..(Len(e.cs) - 1) : e.cs[i] < e.cs[i + 1]
    /\ ~e.lend => /\ Len(e.cs) >= 3 /\ 2 \notin HullIdx(e)
    /\ ~e.rend => /\ Len(e.cs) >= 3 /\ (Len(e.cs) - 1) \notin HullIdx(e)
\* The ROUTES that derive the native bins (BinRoutes.tla): e.mf bin_model, e.mp bindown with the points shuffled, e.mo the output
\* writer's binned_spectrum, e.mt the row of its binned_tau (or of a 2-D bindown) that holds the same values.  Where the harness
\* says the 32-bit budget suffices (e.chkx) TLC re-derives the bins of the window under both readings from the logged centres and
\* requires the EXACT overlap-weighted mean of one reading on every route (the statement admits either reading, not a third).
KnownSeq(e) == SetToSeqI(Known(e))
HalfBin4(cs, i, lend, rend) == LET nl == NbL(cs, i, lend)  nr == NbR(cs, i, rend) IN <<4 * cs[i] - (nr - nl), 4 * cs[i] + (nr - nl)>>
EdgeBin4(cs, i, lend, rend) == LET nl == NbL(cs, i, lend)  nr == NbR(cs, i, rend) IN <<2 * (nl + cs[i]), 2 * (cs[i] + nr)>>
DerivedN(e, rd) == LET ks == KnownSeq(e) IN
    [j \in 1..Len(ks) |-> IF rd = "half" THEN HalfBin4(e.cs, ks[j], e.lend, e.rend) ELSE EdgeBin4(e.cs, ks[j], e.lend, e.rend)]
DerivedF(e) == LET ks == KnownSeq(e) IN [j \in 1..Len(ks) |-> e.f[ks[j]]]
RouteVals(e) == {e.mf, e.mp, e.mo, e.mt}
OrderedW(N) == \A i \in 1..(Len(N) - 1) : N[i][1] < N[i + 1][1] /\ N[i][2] < N[i + 1][2]
ExactUnder(e, rd) == LET N == DerivedN(e, rd) IN
    /\ OrderedW(N)              \* the quantifier's ordered bins (the harness says so for the whole grid; re-checked on the window)
    /\ Overlaps(N, Tgt4(e))
    /\ \A m \in RouteVals(e) : SafeClose(m, e.S, Binned(N, Tgt4(e), DerivedF(e)), e.tol)
OkRel(e) ==
    /\ RelWindowComplete(e)
    /\ (CoreIdx(e) # {}) =>                 \* overlaps under either reading: all clauses apply
         LET V == {e.f[i] : i \in HullIdx(e)} IN
         /\ e.isnum
         /\ Abs(e.mc - e.c * e.S) <= e.tol                                  \* constant preserved
         /\ e.mf >= SetMinI(V) * e.S - e.tol /\ e.mf <= SetMaxI(V) * e.S + e.tol   \* bounds
         /\ Abs(e.mh - e.a * e.mf - e.b * e.mg) <= e.tol * (e.a + e.b + 1)  \* linear
         /\ Abs(e.mp - e.mf) <= e.tol                                       \* order of native points
         /\ \A m \in RouteVals(e) : m >= SetMinI(V) * e.S - e.tol /\ m <= SetMaxI(V) * e.S + e.tol   \* bounds on every route
         /\ e.chkx => \E rd \in {"half", "edges"} : ExactUnder(e, rd)      \* the value itself on every route

\* ------------------------------------------------------------------ "hist"
\* e.tc target centres (ascending), e.xs native points (any order), e.f values, e.k bin, e.m scaled mean
OkHist(e) ==
    LET M == HistMembers(e.tc, e.xs, e.k) IN
    /\ \A i \in 1..Len(e.xs) : ~OnHistEdge(e.tc, e.xs[i])
    /\ (M # {}) => e.isnum /\ SafeClose(e.m, e.S, HistMean(e.tc, e.xs, e.f, e.k), e.tol)

Ok(e) == CASE e.kind = "val"  -> OkVal(e)
           [] e.kind = "rel"  -> OkRel(e)
           [] e.kind = "hist" -> OkHist(e)
           [] OTHER -> FALSE
Class(e) == CASE e.kind = "val" -> (IF Overlaps(e.nat, e.tgt) THEN "overlap" ELSE IF Touches(e.nat, e.tgt) THEN "touch" ELSE "disjoint")
              [] e.kind = "rel" -> "derived"
              [] OTHER -> "hist"
Init == l = 1
Step == /\ l <= Len(TraceLog)
        /\ LET e == TraceLog[l] IN
             IF Ok(e) THEN TRUE
             ELSE PrintT(<<"BAD", ToJson([l |-> l, id |-> e.id, kind |-> e.kind, cls |-> Class(e)])>>)
        /\ l' = l + 1
Spec == Init /\ [][Step]_l
Accepted == TLCGet("stats").diameter - 1 = Len(TraceLog)
=============================================================================
