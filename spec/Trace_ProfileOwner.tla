-------------------------- MODULE Trace_ProfileOwner --------------------------
(* Validation of recorded walks on real forward models against ProfileOwner.tla   *)
(* (variant Skip = "never", Frozen = FALSE: the profile exposed by a model is a    *)
(* function of that model's current settings).  One trace per tid:                 *)
(*   [ev |-> "init", own, ctl, lay]  models built at own[o] = <<r,m,pmax,pmin,n>>, *)
(*                                   lay[n+1] = layer count of index n             *)
(*   [ev |-> "set", o, k, v]         model o: fitting parameter k := value v       *)
(*   [ev |-> "ctl", v]               control of the shared profile := v            *)
(*   [ev |-> "rebuild", o, v]        new model o with layer-count index v          *)
(*   [ev |-> "eval", o, at, dig, fresh, exc, len, bad]                             *)
(*        at    = the settings <<r,m,pmax,pmin,n,ctl>> the references were         *)
(*                computed for (fresh model; closed form / control range)          *)
(*        dig   = digest id of the profile the long-lived model exposed            *)
(*        fresh = digest id of the profile of a freshly built model at `at`        *)
(*        exc   = 1 when the long-lived model raised (then dig is the exception)   *)
(*        len   = number of values exposed, bad = number of layers that are not    *)
(*                finite positive / leave the control range / miss the closed form *)
(*                evaluated for `at`                                               *)
(* Rejected at the first step that is not a step of the spec, at an evaluation     *)
(* whose references were not computed for the CURRENT settings of that model, or   *)
(* whose profile differs from them.                                                *)
EXTENDS Integers, Sequences, FiniteSets, TLC, Json, IOUtils, TLCExt
VARIABLES l, own, ctl, lay, cur, dead
TraceLog == ndJsonDeserialize(IOEnv.TRACE_FILE)
Init == l = 1 /\ own = <<>> /\ ctl = -1 /\ lay = <<>> /\ cur = -1 /\ dead = -1
Step ==
    /\ l <= Len(TraceLog)
    /\ LET e  == TraceLog[l]
           o0 == IF e.tid = cur THEN own ELSE <<>>
           c0 == IF e.tid = cur THEN ctl ELSE -1
           y0 == IF e.tid = cur THEN lay ELSE <<>>
       IN  IF e.tid = dead THEN UNCHANGED <<own, ctl, lay, cur, dead>>
           ELSE LET ok == CASE e.ev = "init"    -> o0 = <<>>
                            [] e.ev = "set"     -> /\ o0 # <<>> /\ e.o \in 1..Len(o0) /\ e.k \in 1..4
                                                   /\ o0[e.o][e.k] # e.v
                            [] e.ev = "ctl"     -> o0 # <<>> /\ c0 # e.v
                            [] e.ev = "rebuild" -> o0 # <<>> /\ e.o \in 1..Len(o0) /\ e.v + 1 \in 1..Len(y0)
                            [] e.ev = "eval"    -> /\ o0 # <<>> /\ e.o \in 1..Len(o0)
                                                   /\ e.at = o0[e.o] \o <<c0>>            \* references are those of the current settings
                                                   /\ e.dig = e.fresh                      \* = a freshly built model
                                                   /\ e.exc = 0 => (e.len = y0[o0[e.o][5] + 1] /\ e.bad = 0)
                            [] OTHER -> FALSE
                IN  IF ok
                    THEN /\ own' = CASE e.ev = "init"    -> e.own
                                     [] e.ev = "set"     -> [o0 EXCEPT ![e.o][e.k] = e.v]
                                     [] e.ev = "rebuild" -> [o0 EXCEPT ![e.o][5] = e.v]
                                     [] OTHER -> o0
                         /\ ctl' = IF e.ev = "init" THEN e.ctl ELSE IF e.ev = "ctl" THEN e.v ELSE c0
                         /\ lay' = IF e.ev = "init" THEN e.lay ELSE y0
                         /\ cur' = e.tid /\ UNCHANGED dead
                    ELSE /\ PrintT(<<"BAD", ToJson([l |-> l, tid |-> e.tid, ev |-> e.ev])>>)
                         /\ dead' = e.tid /\ cur' = e.tid /\ own' = o0 /\ ctl' = c0 /\ lay' = y0
    /\ l' = l + 1
Spec == Init /\ [][Step]_<<l, own, ctl, lay, cur, dead>>
Accepted == TLCGet("stats").diameter - 1 = Len(TraceLog)
=============================================================================
