---------------------------- MODULE GridHistory ----------------------------
(***************************************************************************)
(* C13 over HISTORIES.  "The value of a model spectrum at a wavenumber     *)
(* does not depend on which other wavenumbers are computed" quantifies     *)
(* over grids and requests, not over what the model object did before: ONE *)
(* long-lived forward model that is evaluated on one requested grid, then  *)
(* on another one, then on the full grid, ... must return, at EVERY        *)
(* evaluation, the values of the full native computation at the points it  *)
(* computes (EvalEqualsFull, the statement's own oracle) -- a retrieval    *)
(* evaluates one model object on the clipped grid thousands of times and   *)
(* on the full grid at the end; a user compares instruments on one model.  *)
(*                                                                         *)
(* An evaluation derives PER-GRID quantities from the request:             *)
(*   grid  the clipped native grid     (Grid!GClip, or the native grid     *)
(*         when no grid is passed / cutoff_grid = False)                   *)
(*   sed   the stellar spectrum on it  (one value per computed wavenumber, *)
(*         an injective function of the wavenumber: <<"B", wn>>)           *)
(*   op    the opacity selection on it (Grid!SelAlg for the molecule that  *)
(*         defines the native grid and for a molecule on a coarser grid)   *)
(* and combines them POSITIONALLY (k-th grid point, k-th SED value, k-th   *)
(* opacity column), exactly as arrays are combined in the code.            *)
(*                                                                         *)
(* Design variants.  A memo of one of these quantities is kept on the      *)
(* long-lived object; hLevel says what the key is computed from ("request" *)
(* the grid passed to model(wngrid=..), "clip" the grid computed on: what  *)
(* Star.initialize / Contribution.prepare / Opacity.opacity receive), hKey *)
(* what the key is, hWhat which quantity is kept, hStore whether only the  *)
(* last miss is kept or every miss.  Sound (HSound): no memo; keyed on the *)
(* requested points together with the cutoff flag; at clip level keyed on  *)
(* the points or on their end points (a clip is a contiguous part of the   *)
(* native grid).  Every under-keyed memo must be REFUTED by the window     *)
(* alphabet of the configuration (one invariant per mutant): keyed on the  *)
(* SIZE, on the FIRST point, at request level on the END POINTS (the clip  *)
(* margin depends on the density of the request) or on the points WITHOUT  *)
(* the cutoff flag; and a keep-everything memo keyed on the size even when *)
(* the full grid is evaluated in between.  The driver realises the same    *)
(* alphabet on real grids and replays the behaviours of this module.       *)
(*                                                                         *)
(* ENTRY POINTS (round 3).  "A model spectrum" is what ANY evaluating      *)
(* entry point of the model object returns for a request: model() the sum  *)
(* over the contribution list, model_contrib() one spectrum per            *)
(* contribution, model_full_contrib() one per component (molecule,         *)
(* scatterer) of every contribution.  `entry` is a second coordinate of    *)
(* the request; an evaluation returns `parts`, the set of component sets   *)
(* summed in the returned spectra, all of them on the ONE grid / SED /     *)
(* opacity combination `out` derived from the request -- so EvalEqualsFull *)
(* is the statement for every returned spectrum.  The per-component entry  *)
(* points walk through the contribution list of the long-lived object      *)
(* (`clist`) and must leave it as they found it, also when the request is  *)
(* REFUSED (no native point in reach of the observation: HFails) half-way. *)
(* Design slips hSlip = <<kind, entry>>, one invariant each, all REFUTED:  *)
(*   swap      the entry point clips the REQUEST to the native grid (the   *)
(*             two arguments of the clip exchanged): it computes on the    *)
(*             requested centres instead of native points                  *)
(*   nocut     the entry point clips although cutoff_grid = False          *)
(*   left      a per-component entry point leaves the contribution list at *)
(*             the last contribution it evaluated                          *)
(*   leftfail  ... leaves it at the contribution it was evaluating when    *)
(*             the request was refused                                     *)
(***************************************************************************)
EXTENDS Grid

CONSTANTS HNat,      \* native grid of the model (the longest molecule grid), integer wavenumbers
          HMol,      \* own grid of a second molecule (coarser, not a subset, reaching beyond)
          HWins,     \* sequence of requests [oc |-> observation centres, cut |-> cutoff_grid]
          HEntries,  \* entry points evaluated: subset of {"model", "contrib", "full"}
          HSlipKinds,\* design slips of an entry point: subset of {"swap", "nocut", "left", "leftfail"}
          HLevels, HKeys, HWhats, HStores

VARIABLES hLevel, hKey, hWhat, hStore,   \* the design variant, fixed at Init
          hSlip,      \* <<kind, entry point>> of the design slip (<<"none", "none">>: as documented), fixed at Init
          win,        \* current request (0: no grid passed)
          entry,      \* entry point the current request is evaluated through
          prev,       \* request of the evaluation before the current one (-1: none yet)
          clist,      \* the contribution list the object currently holds
          memo, out, parts, evald
hdesign == <<hLevel, hKey, hWhat, hStore, hSlip>>
hvars == <<hLevel, hKey, hWhat, hStore, hSlip, win, entry, prev, clist, memo, out, parts, evald>>

HWinIds == 0..Len(HWins)
HReq(w) == IF w = 0 THEN <<>> ELSE HWins[w].oc
HCut(w) == w # 0 /\ HWins[w].cut
\* per-grid quantities of a computed grid c
QSed(c) == [k \in 1..Len(c) |-> <<"B", c[k]>>]
\* (third column: a scatterer, whose cross-section is a function of the wavenumber alone)
QOp(c)  == LET a == SelAlg("widened", HNat, c)
               b == SelAlg("widened", HMol, c)
           IN  [k \in 1..Len(c) |-> <<SelNormal(a[k]), SelNormal(b[k]), <<"R", c[k]>> >>]
HAt(v, k, err) == IF k \in DOMAIN v THEN v[k] ELSE err
\* positional combination (a stale array of another length: broadcast error, shown as the error entries)
HCombine(g, s, o) == [k \in 1..Len(g) |-> [wn |-> g[k], sed |-> HAt(s, k, <<"B", -1>>), op |-> HAt(o, k, <<SelErr, SelErr, <<"R", -1>> >>)]]

\* the contribution list of the model as built, in evaluation order, and the components (columns of op) of each
HContribs == <<"abs", "ray">>
HComps(c) == IF c = "abs" THEN {1, 2} ELSE {3}
HAllContribs == {HContribs[i] : i \in DOMAIN HContribs}
\* the spectra an entry point returns, as the sets of components summed in each of them, from a contribution list cl
HPartsOf(e, cl) == CASE e = "model"   -> {UNION {HComps(c) : c \in cl}}
                     [] e = "contrib" -> {HComps(c) : c \in cl}
                     [] OTHER          -> {{k} : k \in UNION {HComps(c) : c \in cl}}

\* (constant tables over the requests: TLC evaluates them once)
\* the grid an evaluation computes on, as a sequence and as an index range of the native grid
HClipT == [w \in HWinIds |-> IF HCut(w) THEN GClip(HNat, HWins[w].oc) ELSE HNat]
HLoT   == [w \in HWinIds |-> IF HCut(w) THEN GClipLo(HNat, HWins[w].oc) ELSE 1]
HHiT   == [w \in HWinIds |-> IF HCut(w) THEN GClipHi(HNat, HWins[w].oc) ELSE Len(HNat)]
HSedT  == [w \in HWinIds |-> QSed(HClipT[w])]
HOpT   == [w \in HWinIds |-> IF HClipT[w] = <<>> THEN <<>> ELSE QOp(HClipT[w])]
\* no native point in reach of the observation: the evaluation is refused (an exception or an empty result -- the
\* statement says nothing about it), and must leave the object as it was
HFails(w) == HClipT[w] = <<>>
HClip(w) == HClipT[w]
HLo(w)   == HLoT[w]
HHi(w)   == HHiT[w]
\* the full native computation, and its restriction to the points a request computes
HFullOut == HCombine(HNat, QSed(HNat), QOp(HNat))
HRestrictedT == [w \in HWinIds |-> IF HFails(w) THEN <<>> ELSE [k \in 1..(HHiT[w] - HLoT[w] + 1) |-> HFullOut[HLoT[w] + k - 1]]]
HRestricted(w) == HRestrictedT[w]
\* ... and the spectra the entry point returns for it
HParts(w, e) == IF HFails(w) THEN {} ELSE HPartsOf(e, HAllContribs)
\* a freshly built object evaluated on the request
HFreshT == [w \in HWinIds |-> HCombine(HClipT[w], HSedT[w], HOpT[w])]
HFresh(w) == HFreshT[w]

\* ------------------------------------------------------------------ memo
HKeySeq(w) == IF hLevel = "request" THEN HReq(w) ELSE HClip(w)
HKeyOf(w) == LET s == HKeySeq(w) IN
             CASE hKey = "content" -> <<s, HCut(w)>>
               [] hKey = "points"  -> s
               [] hKey = "size"    -> Len(s)
               [] hKey = "first"   -> IF s = <<>> THEN 0 ELSE s[1]
               [] hKey = "ends"    -> IF s = <<>> THEN <<0, 0>> ELSE <<s[1], s[Len(s)]>>
               [] OTHER            -> 0
HHit(w) == {m \in memo : m.k = HKeyOf(w)}
HUse(w, q, fresh) == IF hKey = "none" \/ hWhat # q \/ HHit(w) = {} THEN fresh
                     ELSE (CHOOSE m \in HHit(w) : TRUE).v
HEntry(w) == LET c == HClip(w) IN
             [k |-> HKeyOf(w), v |-> CASE hWhat = "grid" -> c [] hWhat = "sed" -> HSedT[w] [] OTHER -> HOpT[w]]

HVariantOk == \* a memo of the clipped grid keyed on the clipped grid is circular: not a design
              /\ hWhat = "grid" => hLevel = "request"
              /\ hKey = "none" => (hLevel = "request" /\ hWhat = "sed" /\ hStore = "last")
              \* the keep-everything store: one sound and one under-keyed representative (the memo is a set of entries)
              /\ hStore = "all" => (hLevel = "clip" /\ hWhat = "sed" /\ hKey \in {"content", "size"})
              \* one deviation from the documented design at a time
              /\ hSlip[1] # "none" => hKey = "none"
\* a memo of a per-grid quantity sits below the entry points (all of them share Star.initialize / prepare / opacity):
\* its variants are explored through one entry point, the entry points with the memo-free design and its slips
HEntryFixed == hKey # "none"
HSlips == {<<"none", "none">>} \cup {p \in HSlipKinds \X HEntries : p[1] \in {"left", "leftfail"} => p[2] # "model"}
HInit == /\ hLevel \in HLevels /\ hKey \in HKeys /\ hWhat \in HWhats /\ hStore \in HStores /\ hSlip \in HSlips /\ HVariantOk
         /\ win \in HWinIds /\ entry \in HEntries /\ (HEntryFixed => entry = "model") /\ prev = -1 /\ memo = {} /\ clist = HAllContribs
         /\ out = <<>> /\ parts = {} /\ evald = FALSE
\* another grid is passed, or another entry point is called: the previous result is no longer looked at
HSet(w, e) == /\ <<w, e>> # <<win, entry>> /\ (HEntryFixed => e = entry)
              /\ win' = w /\ entry' = e /\ evald' = FALSE /\ out' = <<>> /\ parts' = {}
              \* (history variable, read by Ref_kept_across_full only)
              /\ prev' = IF hStore = "all" /\ evald THEN win ELSE prev
              /\ UNCHANGED <<hdesign, memo, clist>>
HSlipOn(kind) == hSlip = <<kind, entry>>
\* the grid the entry point computes on
HGridOf(w) == IF HSlipOn("swap") /\ HCut(w) THEN GClip(HReq(w), HNat)
              ELSE IF HSlipOn("nocut") /\ w # 0 THEN GClip(HNat, HReq(w))
              ELSE HClip(w)
\* the contribution a per-component entry point is working on when the request is refused: the first of the list
HFirstOf(cl) == HContribs[GSetMin({i \in DOMAIN HContribs : HContribs[i] \in cl})]
HLastOf(cl)  == HContribs[GSetMax({i \in DOMAIN HContribs : HContribs[i] \in cl})]
HRefuse == /\ out' = <<>> /\ parts' = {} /\ evald' = TRUE
           /\ clist' = IF HSlipOn("leftfail") THEN {HFirstOf(clist)} ELSE clist
           /\ UNCHANGED <<hdesign, win, entry, prev, memo>>
HCompute == LET c == HGridOf(win)
                tab == c = HClip(win)
                g == HUse(win, "grid", c)
                s == IF tab THEN HSedT[win] ELSE QSed(c)
                o == IF tab THEN HOpT[win] ELSE QOp(c)
            IN  /\ out' = HCombine(g, HUse(win, "sed", s), HUse(win, "op", o))
                /\ parts' = HPartsOf(entry, clist)
                /\ clist' = IF HSlipOn("left") THEN {HLastOf(clist)} ELSE clist
                /\ memo' = IF hKey # "none" /\ HHit(win) = {}
                           THEN (IF hStore = "last" THEN {} ELSE memo) \cup {HEntry(win)} ELSE memo
                /\ evald' = TRUE
                /\ UNCHANGED <<hdesign, win, entry, prev>>
HEval == IF HGridOf(win) = <<>> THEN HRefuse ELSE HCompute
HNext == (\E w \in HWinIds, e \in HEntries : HSet(w, e)) \/ HEval
HSpec == HInit /\ [][HNext]_hvars

\* ------------------------------------------------------------ invariants
\* the property: every evaluation returns the full native computation at the points it computes
\* (every spectrum the entry point returns: `parts` names them, `out` is the grid / SED / opacity columns they share)
EvalEqualsFull  == evald => out = HRestricted(win) /\ parts = HParts(win, entry)
\* refinement of Functional.tla: ... and what a freshly built object returns for the same request
EvalEqualsFresh == evald => out = HFresh(win) /\ parts = HParts(win, entry)
\* the computed grid is the clip of the CURRENT request, a contiguous part of the native grid
OnClippedGrid   == (evald /\ ~HFails(win)) =>
                            /\ Len(out) = HHi(win) - HLo(win) + 1
                            /\ \A k \in 1..Len(out) : out[k].wn = HNat[HLo(win) + k - 1]
HFits == evald => \A k \in 1..Len(out) : Fits(out[k].op[1].w) /\ Fits(out[k].op[2].w)

HSound == /\ hSlip[1] = "none"
          /\ \/ hKey \in {"none", "content"}
             \/ hLevel = "clip" /\ hKey \in {"points", "ends"}
HoldFull    == HSound => EvalEqualsFull
HoldFresh   == HSound => EvalEqualsFresh
HoldClipped == HSound => OnClippedGrid

\* one invariant per design mutant (expected counterexamples; TLC -continue reports each of them)
Mut(lv, k, q) == (hLevel = lv /\ hKey = k /\ hWhat = q /\ hStore = "last") => EvalEqualsFull
Ref_request_size_grid   == Mut("request", "size", "grid")
Ref_request_size_sed    == Mut("request", "size", "sed")
Ref_request_size_op     == Mut("request", "size", "op")
Ref_request_first_grid  == Mut("request", "first", "grid")
Ref_request_first_sed   == Mut("request", "first", "sed")
Ref_request_first_op    == Mut("request", "first", "op")
Ref_request_ends_grid   == Mut("request", "ends", "grid")
Ref_request_ends_sed    == Mut("request", "ends", "sed")
Ref_request_ends_op     == Mut("request", "ends", "op")
Ref_request_points_grid == Mut("request", "points", "grid")
Ref_request_points_sed  == Mut("request", "points", "sed")
Ref_request_points_op   == Mut("request", "points", "op")
Ref_clip_size_sed       == Mut("clip", "size", "sed")
Ref_clip_size_op        == Mut("clip", "size", "op")
Ref_clip_first_sed      == Mut("clip", "first", "sed")
Ref_clip_first_op       == Mut("clip", "first", "op")
\* a memo that keeps every miss is wrong even when the previous evaluation was the full grid
Ref_kept_across_full    == (hStore = "all" /\ hLevel = "clip" /\ hKey = "size" /\ hWhat = "sed" /\ prev = 0 /\ win # 0)
                              => EvalEqualsFull
\* one invariant per slip of an entry point (expected counterexamples as well)
Slip(kind, e) == (hSlip = <<kind, e>>) => EvalEqualsFull
Ref_slip_swap_model       == Slip("swap", "model")
Ref_slip_swap_contrib     == Slip("swap", "contrib")
Ref_slip_swap_full        == Slip("swap", "full")
Ref_slip_nocut_model      == Slip("nocut", "model")
Ref_slip_nocut_contrib    == Slip("nocut", "contrib")
Ref_slip_nocut_full       == Slip("nocut", "full")
Ref_slip_left_contrib     == Slip("left", "contrib")
Ref_slip_left_full        == Slip("left", "full")
Ref_slip_leftfail_contrib == Slip("leftfail", "contrib")
Ref_slip_leftfail_full    == Slip("leftfail", "full")
=============================================================================
