---------------------------- MODULE GridHistory ----------------------------
(***************************************************************************)
(* C13 over HISTORIES.  "The value of a model spectrum at a wavenumber     *)
(* does not depend on which other wavenumbers are computed" quantifies     *)
(* over grids and requests, not over what the model object did before: ONE *)
(* long-lived forward model that is evaluated on one requested grid, then  *)
(* on another one, then on the full grid, ... must return, at EVERY        *)
(* evaluation, the values of the full native computation at the points it  *)
(* computes (EvalEqualsFull, the statement's own oracle) -- a retrieval    *)
(* evaluates one model object on the clipped grid thousands of times and   *)
(* on the full grid at the end; a user compares instruments on one model.  *)
(*                                                                         *)
(* An evaluation derives PER-GRID quantities from the request:             *)
(*   grid  the clipped native grid     (Grid!GClip, or the native grid     *)
(*         when no grid is passed / cutoff_grid = False)                   *)
(*   sed   the stellar spectrum on it  (one value per computed wavenumber, *)
(*         an injective function of the wavenumber: <<"B", wn>>)           *)
(*   op    the opacity selection on it (Grid!SelAlg for the molecule that  *)
(*         defines the native grid and for a molecule on a coarser grid)   *)
(* and combines them POSITIONALLY (k-th grid point, k-th SED value, k-th   *)
(* opacity column), exactly as arrays are combined in the code.            *)
(*                                                                         *)
(* Design variants.  A memo of one of these quantities is kept on the      *)
(* long-lived object; hLevel says what the key is computed from ("request" *)
(* the grid passed to model(wngrid=..), "clip" the grid computed on: what  *)
(* Star.initialize / Contribution.prepare / Opacity.opacity receive), hKey *)
(* what the key is, hWhat which quantity is kept, hStore whether only the  *)
(* last miss is kept or every miss.  Sound (HSound): no memo; keyed on the *)
(* requested points together with the cutoff flag; at clip level keyed on  *)
(* the points or on their end points (a clip is a contiguous part of the   *)
(* native grid).  Every under-keyed memo must be REFUTED by the window     *)
(* alphabet of the configuration (one invariant per mutant): keyed on the  *)
(* SIZE, on the FIRST point, at request level on the END POINTS (the clip  *)
(* margin depends on the density of the request) or on the points WITHOUT  *)
(* the cutoff flag; and a keep-everything memo keyed on the size even when *)
(* the full grid is evaluated in between.  The driver realises the same    *)
(* alphabet on real grids and replays the behaviours of this module.       *)
(***************************************************************************)
EXTENDS Grid

CONSTANTS HNat,      \* native grid of the model (the longest molecule grid), integer wavenumbers
          HMol,      \* own grid of a second molecule (coarser, not a subset, reaching beyond)
          HWins,     \* sequence of requests [oc |-> observation centres, cut |-> cutoff_grid]
          HLevels, HKeys, HWhats, HStores

VARIABLES hLevel, hKey, hWhat, hStore,   \* the design variant, fixed at Init
          win,        \* current request (0: no grid passed)
          prev,       \* request of the evaluation before the current one (-1: none yet)
          memo, out, evald
hvars == <<hLevel, hKey, hWhat, hStore, win, prev, memo, out, evald>>

HWinIds == 0..Len(HWins)
HReq(w) == IF w = 0 THEN <<>> ELSE HWins[w].oc
HCut(w) == w # 0 /\ HWins[w].cut
\* per-grid quantities of a computed grid c
QSed(c) == [k \in 1..Len(c) |-> <<"B", c[k]>>]
QOp(c)  == LET a == SelAlg("widened", HNat, c)
               b == SelAlg("widened", HMol, c)
           IN  [k \in 1..Len(c) |-> <<SelNormal(a[k]), SelNormal(b[k])>>]
HAt(v, k, err) == IF k \in DOMAIN v THEN v[k] ELSE err
\* positional combination (a stale array of another length: broadcast error, shown as the error entries)
HCombine(g, s, o) == [k \in 1..Len(g) |-> [wn |-> g[k], sed |-> HAt(s, k, <<"B", -1>>), op |-> HAt(o, k, <<SelErr, SelErr>>)]]

\* (constant tables over the requests: TLC evaluates them once)
\* the grid an evaluation computes on, as a sequence and as an index range of the native grid
HClipT == [w \in HWinIds |-> IF HCut(w) THEN GClip(HNat, HWins[w].oc) ELSE HNat]
HLoT   == [w \in HWinIds |-> IF HCut(w) THEN GClipLo(HNat, HWins[w].oc) ELSE 1]
HHiT   == [w \in HWinIds |-> IF HCut(w) THEN GClipHi(HNat, HWins[w].oc) ELSE Len(HNat)]
HSedT  == [w \in HWinIds |-> QSed(HClipT[w])]
HOpT   == [w \in HWinIds |-> QOp(HClipT[w])]
HClip(w) == HClipT[w]
HLo(w)   == HLoT[w]
HHi(w)   == HHiT[w]
\* the full native computation, and its restriction to the points a request computes
HFullOut == HCombine(HNat, QSed(HNat), QOp(HNat))
HRestrictedT == [w \in HWinIds |-> [k \in 1..(HHiT[w] - HLoT[w] + 1) |-> HFullOut[HLoT[w] + k - 1]]]
HRestricted(w) == HRestrictedT[w]
\* a freshly built object evaluated on the request
HFreshT == [w \in HWinIds |-> HCombine(HClipT[w], HSedT[w], HOpT[w])]
HFresh(w) == HFreshT[w]

\* ------------------------------------------------------------------ memo
HKeySeq(w) == IF hLevel = "request" THEN HReq(w) ELSE HClip(w)
HKeyOf(w) == LET s == HKeySeq(w) IN
             CASE hKey = "content" -> <<s, HCut(w)>>
               [] hKey = "points"  -> s
               [] hKey = "size"    -> Len(s)
               [] hKey = "first"   -> IF s = <<>> THEN 0 ELSE s[1]
               [] hKey = "ends"    -> IF s = <<>> THEN <<0, 0>> ELSE <<s[1], s[Len(s)]>>
               [] OTHER            -> 0
HHit(w) == {m \in memo : m.k = HKeyOf(w)}
HUse(w, q, fresh) == IF hKey = "none" \/ hWhat # q \/ HHit(w) = {} THEN fresh
                     ELSE (CHOOSE m \in HHit(w) : TRUE).v
HEntry(w) == LET c == HClip(w) IN
             [k |-> HKeyOf(w), v |-> CASE hWhat = "grid" -> c [] hWhat = "sed" -> HSedT[w] [] OTHER -> HOpT[w]]

HVariantOk == \* a memo of the clipped grid keyed on the clipped grid is circular: not a design
              /\ hWhat = "grid" => hLevel = "request"
              /\ hKey = "none" => (hLevel = "request" /\ hWhat = "sed" /\ hStore = "last")
              \* the keep-everything store: one sound and one under-keyed representative (the memo is a set of entries)
              /\ hStore = "all" => (hLevel = "clip" /\ hWhat = "sed" /\ hKey \in {"content", "size"})
HInit == /\ hLevel \in HLevels /\ hKey \in HKeys /\ hWhat \in HWhats /\ hStore \in HStores /\ HVariantOk
         /\ win \in HWinIds /\ prev = -1 /\ memo = {} /\ out = <<>> /\ evald = FALSE
\* another grid is passed to model(): the previous result is no longer looked at
HSetWin(w) == /\ win # w /\ win' = w /\ evald' = FALSE /\ out' = <<>>
              /\ prev' = IF evald THEN win ELSE prev
              /\ UNCHANGED <<hLevel, hKey, hWhat, hStore, memo>>
HEval == LET c == HClip(win)
             g == HUse(win, "grid", c)
         IN  /\ out' = HCombine(g, HUse(win, "sed", HSedT[win]), HUse(win, "op", HOpT[win]))
             /\ memo' = IF hKey # "none" /\ HHit(win) = {}
                        THEN (IF hStore = "last" THEN {} ELSE memo) \cup {HEntry(win)} ELSE memo
             /\ evald' = TRUE
             /\ UNCHANGED <<hLevel, hKey, hWhat, hStore, win, prev>>
HNext == (\E w \in HWinIds : HSetWin(w)) \/ HEval
HSpec == HInit /\ [][HNext]_hvars

\* ------------------------------------------------------------ invariants
\* the property: every evaluation returns the full native computation at the points it computes
EvalEqualsFull  == evald => out = HRestricted(win)
\* refinement of Functional.tla: ... and what a freshly built object returns for the same request
EvalEqualsFresh == evald => out = HFresh(win)
\* the computed grid is the clip of the CURRENT request, a contiguous part of the native grid
OnClippedGrid   == evald => /\ Len(out) = HHi(win) - HLo(win) + 1
                            /\ \A k \in 1..Len(out) : out[k].wn = HNat[HLo(win) + k - 1]
HFits == evald => \A k \in 1..Len(out) : Fits(out[k].op[1].w) /\ Fits(out[k].op[2].w)

HSound == \/ hKey \in {"none", "content"}
          \/ hLevel = "clip" /\ hKey \in {"points", "ends"}
HoldFull    == HSound => EvalEqualsFull
HoldFresh   == HSound => EvalEqualsFresh
HoldClipped == HSound => OnClippedGrid

\* one invariant per design mutant (expected counterexamples; TLC -continue reports each of them)
Mut(lv, k, q) == (hLevel = lv /\ hKey = k /\ hWhat = q /\ hStore = "last") => EvalEqualsFull
Ref_request_size_grid   == Mut("request", "size", "grid")
Ref_request_size_sed    == Mut("request", "size", "sed")
Ref_request_size_op     == Mut("request", "size", "op")
Ref_request_first_grid  == Mut("request", "first", "grid")
Ref_request_first_sed   == Mut("request", "first", "sed")
Ref_request_first_op    == Mut("request", "first", "op")
Ref_request_ends_grid   == Mut("request", "ends", "grid")
Ref_request_ends_sed    == Mut("request", "ends", "sed")
Ref_request_ends_op     == Mut("request", "ends", "op")
Ref_request_points_grid == Mut("request", "points", "grid")
Ref_request_points_sed  == Mut("request", "points", "sed")
Ref_request_points_op   == Mut("request", "points", "op")
Ref_clip_size_sed       == Mut("clip", "size", "sed")
Ref_clip_size_op        == Mut("clip", "size", "op")
Ref_clip_first_sed      == Mut("clip", "first", "sed")
Ref_clip_first_op       == Mut("clip", "first", "op")
\* a memo that keeps every miss is wrong even when the previous evaluation was the full grid
Ref_kept_across_full    == (hStore = "all" /\ hLevel = "clip" /\ hKey = "size" /\ hWhat = "sed" /\ prev = 0 /\ win # 0)
                              => EvalEqualsFull
=============================================================================
