SPECIFICATION Spec
CONSTANTS
  Rule = "sumlog"
  NSet = {3, 11, 24, 60, 150, 400, 1000}
  USel = {1, 2, 3}
  SBaseSet = {4, 10}
  ARef = 2
  Export = TRUE
INVARIANT NormIsSumOfLogs
INVARIANT FitsInv
CONSTRAINT Emit
CHECK_DEADLOCK FALSE
