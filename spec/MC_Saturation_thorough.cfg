SPECIFICATION Spec
CONSTANTS
  NW = 4
  NC = 2
  Inc = {0,1,6,12}
  Thr = 10
  Mode = "all"
  Contig = FALSE
  Export = FALSE
INVARIANT TxPointwiseLicensed
INVARIANT EmPointwiseLicensed
INVARIANT TxSubNotDarker
CONSTRAINT Emit
CHECK_DEADLOCK FALSE
