----------------------------- MODULE MC_KTable -----------------------------
(* Exhaustive / export model for C20. *)
EXTENDS KTable, Json
CONSTANTS Export, TabId
MCBtabs == << << <<1, 2>>, <<2, 7>>, <<5, 9>> >>,
              << <<3, 1>>, <<4, 6>>, <<5, 7>> >> >>
MCBtab  == MCBtabs[TabId]
MCBstar == <<7, 11>>
ASSUME TableOk
ASSUME \A i \in WIds : i \in DOMAIN WTable /\ Len(WTable[i]) = NG

KEmitVec == (Export /\ KDone) =>
    PrintT(<<"VEC", ToJson([kk |-> kk, wts |-> Wts, wid |-> wid, c |-> e, tp |-> tp, qid |-> qid, quad |-> Quad,
                            ltab |-> Ltab, ktr |-> ktr, kint |-> kint,
                            degenerate |-> Degenerate, saturated |-> ClampedFrom(EffE, 1, ClampE),
                            tmin |-> TMinOf(tp), tmax |-> TMaxOf(tp), ng |-> NG])>>)
=============================================================================
