----------------------------- MODULE MC_KTable -----------------------------
(* Exhaustive / export model for C20. *)
EXTENDS KTable, Json
CONSTANTS Export, TabId
MCBtabs == << << <<1, 2>>, <<2, 7>>, <<5, 9>> >>,
              << <<3, 1>>, <<4, 6>>, <<5, 7>> >> >>
MCBtab  == MCBtabs[TabId]
MCBstar == <<7, 11>>
ASSUME TableOk
ASSUME \A i \in WIds : i \in DOMAIN WTable /\ Len(WTable[i]) = NG

\* The second contribution c is the SUM of the cross-section-like contributions the model holds; every contribution adds
\* its optical depth to what the path already holds, so the exported transmittances and intensities depend on that sum
\* only -- not on how many contributions carry it, nor on where the k-table absorption "k" sits among them.  Each
\* exported vector is realised with the list below ("g1", "g2": c carried by one contribution / split over two);
\* a deterministic spread over the alphabet: k first / k last / k in the middle, one / two continuum contributions.
KLists == << <<"k", "g1">>, <<"g1", "k">>, <<"k", "g1", "g2">>, <<"g1", "k", "g2">>, <<"g2", "g1", "k">> >>
RECURSIVE KHashTo(_)
KHashTo(l) == IF l = 0 THEN wid + qid ELSE kk[l][1][1] + 2 * kk[l][NW][NG] + 3 * e[l][1] + l * kk[l][1][NG] + KHashTo(l - 1)
KListOf == KLists[1 + (KHashTo(NL) % Len(KLists))]

KEmitVec == (Export /\ KDone) =>
    PrintT(<<"VEC", ToJson([kk |-> kk, wts |-> Wts, wid |-> wid, c |-> e, tp |-> tp, qid |-> qid, quad |-> Quad,
                            ltab |-> Ltab, ktr |-> ktr, kint |-> kint, clist |-> KListOf,
                            degenerate |-> Degenerate, saturated |-> ClampedFrom(EffE, 1, ClampE),
                            tmin |-> TMinOf(tp), tmax |-> TMaxOf(tp), ng |-> NG])>>)
=============================================================================
