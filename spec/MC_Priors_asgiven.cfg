SPECIFICATION Spec
CONSTANTS
  UN = 16
  Ordering = "as_given"
  ZS = 100
  Z <- MCZ
  TK = {5,8,12,20,30,34,40,47,52,53,54,60,100,350,1000,1022,1074}
  HiMax = 53
  ZTS = 100
  TD = {3,6,9,10,12,14,16,17,20,100,300}
  HiDecMax = 12
  ZTCode = {10000,20067,30115,40153,50186,80266,120349,200476,300601,340644,400705,470769,520813,530821,540829,600877,1001148,3502184,10003711,10223752,10743847}
  ZDCode = {30309,60475,90600,100636,120703,140765,160822,170849,200926,1002127,3003705}
  Delivery = "by_prior"
  Passes = "user_table"
  QNum = {0,7,11,12,13,15,24,1012}
  QShift = 12
  QDen = {1,4}
  ENum = {0,6,9,12,14,18}
  EShift = 12
  SNum = {1,3,25}
  SDen = {1,10}
  LSNum = {1}
  Keywords = "independent"
  Args = "read_only"
  Export = FALSE
INVARIANT ZOk
INVARIANT TZOk
INVARIANT MonotoneInv
INVARIANT TailMonotoneInv
INVARIANT TailSymmetricInv
INVARIANT OntoSupportInv
INVARIANT InverseCDFInv
INVARIANT LinArgsInv
INVARIANT OmittedInv
INVARIANT FormsInv
INVARIANT TextInv
INVARIANT SpaceInv
INVARIANT DefaultInv
INVARIANT ArgsFrameInv
INVARIANT FitsInv
CONSTRAINT Emit
CHECK_DEADLOCK FALSE
