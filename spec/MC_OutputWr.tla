---------------------------- MODULE MC_OutputWr ----------------------------
(* C16 part 3, design level: which INPUT CLASSES of constructor values make a  *)
(* write -> rebuild comparison expose every unfaithful write().                *)
(*                                                                             *)
(* A component has constructor keywords Keys with values vals (Default = the   *)
(* constructor default).  Its write() is a map w: dataset name k |-> the       *)
(* attribute whose value is stored under k, or "none" (nothing stored), and a  *)
(* GUARD g that decides per value whether the dataset is written at all:       *)
(*   "always"  every value is written                                          *)
(*   "truthy"  `if value:` -- values that Python's truth test takes for false  *)
(*             (0, 0.0, False, an empty list) are skipped like an unset one    *)
(* The faithful writer is the identity with the guard "always" (skipping the   *)
(* Default itself is harmless: Default is in Falsy).  The loader hands file[k] *)
(* to keyword k and leaves every keyword that is not in the file at its        *)
(* default.                                                                    *)
(* Values: 0 = Default, 1 = Zero (legal, not the default, false for the truth  *)
(* test), 2.. = ordinary values.                                               *)
(*   InputClass = "distinct": every keyword an ordinary value, pairwise distinct *)
(*   InputClass = "single":   exactly one keyword non-default, an ordinary value *)
(*   InputClass = "falsy":    exactly one keyword is Zero, the others ordinary *)
(*                            and pairwise distinct                            *)
(*   InputClass = "any":      all assignments (defaults, equal values allowed) *)
(* Exposes: within a class, the unfaithfulness that class is meant for always  *)
(* shows as a changed constructor value.  TLC proves it for "distinct",        *)
(* "single", "falsy" and refutes it for "any" (a swapped pair with equal or    *)
(* default values comes back unchanged).                                       *)
(* SweepExposes: EVERY unfaithful writer (map or guard) is exposed by at least *)
(* one input of the classes in use.  TLC proves it for {"distinct", "single",  *)
(* "falsy"} and refutes it for {"distinct", "single"} -- the counterexample is *)
(* the identity map with the guard "truthy": a sweep that never hands a legal  *)
(* zero to a keyword cannot see it.                                            *)
EXTENDS Integers, FiniteSets, TLC
CONSTANTS Keys, NVals, InputClasses
Default == 0
Zero == 1
Falsy == {Default, Zero}
Vals == 0..NVals
Guards == {"always", "truthy"}
VARIABLES w, g, vals, InputClass
Id == [k \in Keys |-> k]
Stored(gd, v) == gd = "always" \/ v \notin Falsy
Rebuild(wr, gd, v) == [k \in Keys |-> IF wr[k] = "none" \/ ~Stored(gd, v[wr[k]]) THEN Default ELSE v[wr[k]]]
NonDefault(v) == {k \in Keys : v[k] # Default}
Ordinary(v, K) == /\ \A k \in K : v[k] \notin Falsy
                  /\ \A j, k \in K : j # k => v[j] # v[k]
ZeroKeys(v) == {k \in Keys : v[k] = Zero}
InClassOf(c, v) == CASE c = "distinct" -> Ordinary(v, Keys)
                     [] c = "single"   -> Cardinality(NonDefault(v)) = 1 /\ Ordinary(v, NonDefault(v))
                     [] c = "falsy"    -> Cardinality(ZeroKeys(v)) = 1 /\ Ordinary(v, Keys \ ZeroKeys(v))
                     [] OTHER -> TRUE
InClass(v) == InClassOf(InputClass, v)
\* the unfaithfulness a class is meant to expose
Unfaithful(wr, gd, v) == CASE InputClass = "single" -> \E k \in NonDefault(v) : wr[k] # k
                           [] InputClass = "falsy"  -> gd = "truthy" \/ \E k \in ZeroKeys(v) : wr[k] # k
                           [] OTHER -> wr # Id
Init == /\ w \in [Keys -> Keys \cup {"none"}]
        /\ g \in Guards
        /\ vals \in [Keys -> Vals]
        /\ InputClass \in InputClasses
Next == UNCHANGED <<w, g, vals, InputClass>>
Spec == Init /\ [][Next]_<<w, g, vals, InputClass>>
Exposes == (InClass(vals) /\ Unfaithful(w, g, vals)) => Rebuild(w, g, vals) # vals
Faithful == Rebuild(Id, "always", vals) = vals
\* every unfaithful writer is exposed by some input of the classes the sweep uses
\* (a statement about the writer alone: evaluated in one state per writer)
SweepExposes == (vals = [k \in Keys |-> Default] /\ InputClass = (CHOOSE c \in InputClasses : TRUE) /\ (w # Id \/ g = "truthy")) =>
                    \E c \in InputClasses : \E v \in [Keys -> Vals] : InClassOf(c, v) /\ Rebuild(w, g, v) # v
=============================================================================
