---------------------------- MODULE MC_OutputWr ----------------------------
(* C16 part 3, design level: which INPUT CLASS of constructor values makes a   *)
(* write -> rebuild comparison expose every unfaithful write().                *)
(*                                                                             *)
(* A component has constructor keywords Keys with values vals (Default = the   *)
(* constructor default).  Its write() is a map w: dataset name k |-> the       *)
(* attribute whose value is stored under k, or "none" (nothing stored).  The   *)
(* faithful writer is the identity.  The loader hands file[k] to keyword k and *)
(* leaves every keyword that is not in the file at its default.                *)
(*   InputClass = "distinct": every keyword non-default and pairwise distinct  *)
(*   InputClass = "single":   exactly one keyword non-default                  *)
(*   InputClass = "any":      all assignments (defaults, equal values allowed) *)
(* Exposes: an unfaithful writer (for "single": unfaithful on the one keyword  *)
(* that is set) always shows as a changed constructor value.  TLC proves it    *)
(* for "distinct" and "single" and refutes it for "any" (a swapped pair with   *)
(* equal or default values comes back unchanged).                              *)
EXTENDS Integers, FiniteSets, TLC
CONSTANTS Keys, NVals, InputClasses
Default == 0
Vals == 0..NVals
VARIABLES w, vals, InputClass
Id == [k \in Keys |-> k]
Rebuild(wr, v) == [k \in Keys |-> IF wr[k] = "none" THEN Default ELSE v[wr[k]]]
NonDefault(v) == {k \in Keys : v[k] # Default}
InClass(v) == CASE InputClass = "distinct" -> /\ NonDefault(v) = Keys
                                              /\ \A j, k \in Keys : j # k => v[j] # v[k]
                [] InputClass = "single"   -> Cardinality(NonDefault(v)) = 1
                [] OTHER -> TRUE
Unfaithful(wr, v) == IF InputClass = "single" THEN \E k \in NonDefault(v) : wr[k] # k ELSE wr # Id
Init == /\ w \in [Keys -> Keys \cup {"none"}]
        /\ vals \in [Keys -> Vals]
        /\ InputClass \in InputClasses
Next == UNCHANGED <<w, vals, InputClass>>
Spec == Init /\ [][Next]_<<w, vals, InputClass>>
Exposes == (InClass(vals) /\ Unfaithful(w, vals)) => Rebuild(w, vals) # vals
Faithful == Rebuild(Id, vals) = vals
=============================================================================
