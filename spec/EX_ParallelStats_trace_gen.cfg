SPECIFICATION Spec
CONSTANTS
  NRs = {1,2,3,4,5,6}
  Ns = {2,4,5,6,7,9,12}
  Vals = {0,1,3}
  Wts = {1,2}
  WDen = 4
  SmpMode = "generic"
  SampleSpace <- MCSampleSpace
  Part = "trace"
  Assign = "roundrobin"
  Jump = FALSE
  Serialise = TRUE
  NaNTest = "value"
  StrideOff = 0
  ReorderMode = "bylayout"
  ZeroGuard = "guarded"
  WSNum = 1
  WSDen = 1
  WScale <- MCWScale
  SummarySource = "gathered"
  Gens = {1,2,3}
  Ordered = TRUE
  Export = TRUE
INVARIANT EachSampleOnce
INVARIANT TraceInSampleOrder
INVARIANT SummariesEqualSerial
INVARIANT SummaryMeanIsGlobal
INVARIANT NoRankFails
CONSTRAINT Emit
CHECK_DEADLOCK FALSE
