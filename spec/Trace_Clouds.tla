---------------------------- MODULE Trace_Clouds ----------------------------
(***************************************************************************)
(* C19, binding B (and the verdicts of binding A's model-level runs).      *)
(* Events logged from the real contributions and TransmissionModels:       *)
(*                                                                         *)
(*  ev = "haze"  kind ("flat" | "lee"), lev, b, t  (positions round(10^6   *)
(*        log10 P), bounds as [set, x]), S, ms: for a few wavenumbers the  *)
(*        per-layer sigma_xsec / declared magnitude scaled by S (m < 0:    *)
(*        NaN ...), cen2 (twice the positions of the layer pressures), pu  *)
(*        (uncertainty of the positions in units: 1 rounded, 0 exact),     *)
(*        route: how the array was obtained (prepare(), at the yield of    *)
(*        prepare_each(), after model_contrib() / model_full_contrib())    *)
(*        NaN / Inf / negative), raised: prepare() raised an exception,    *)
(*        model: BOOLEAN; if TRUE also rowsame[l] / rowle[l]: the          *)
(*        transmittance row of tangent layer l is equal to / not above the *)
(*        row of the same model without the haze                           *)
(*  ev = "deck"  cen2, deck, sig[k] in {"inf","zero","other"} (sigma_xsec  *)
(*        after prepare), model: BOOLEAN; if TRUE iszero[k] / issame[k]    *)
(*        (transmittance rows of model() with the deck all zero / equal to *)
(*        the cloud-free run), geometry rad, rs, z[k], dz[k], the smallest *)
(*        depth over wavenumber with the deck (depth) and the pair dw, cw  *)
(*        (deck, cloud-free) at the wavenumber where dw/cw is smallest,    *)
(*        as decimal observations                                          *)
(*                                                                         *)
(*  ev = "mix"   a cloud / haze next to a band-saturating absorber in one  *)
(*        model: ta[k][w], th[k][w] transmittance of tangent layer k at    *)
(*        wavenumber w with the absorber alone / the cloud or haze alone,  *)
(*        tb[o][k][w] with both, for every order o in which they were      *)
(*        added; decimal observations (0 for values below 1e-50), ppb      *)
(*                                                                         *)
(*  ev = "slabs" several clouds / hazes in ONE model (with or without the  *)
(*        band-saturating absorber, which then counts as one more slab):   *)
(*        alone[j][k][w] transmittance with only slab j, tb[o][k][w] with  *)
(*        all of them for every order o of addition that was run.  The     *)
(*        sigma_xsec every slab holds after such a run is logged as an     *)
(*        ordinary "haze" / "deck" event with the slab's own bounds.       *)
(*                                                                         *)
(*  every event: frame = names of the arrays the model exposes to its      *)
(*        contributions (pressure levels, layer pressures, temperature,    *)
(*        altitude, ..., the wavenumber grid handed to prepare()) whose    *)
(*        contents differ after prepare() / model() from what the model    *)
(*        computed: must be empty (ExposedGridUntouched of MC_CloudsSlabs) *)
(*                                                                         *)
(* Stateless stream: every event gets a verdict (set of failed clauses).   *)
(***************************************************************************)
EXTENDS Clouds, IOUtils, TLCExt
VARIABLE l
TraceLog == ndJsonDeserialize(IOEnv.TRACE_FILE)

Near(m, v) == m >= v - 1 /\ m <= v + 1

HazeFails(e) ==
    IF e.raised THEN {"haze_evaluates"}
    ELSE
    LET n    == NLay(e.lev)
        lo   == WinLo(e.lev, e.b, e.t)
        hi   == WinHi(e.lev, e.b, e.t)
        nw   == Len(e.ms)
        wf   == /\ nw >= 1 /\ \A w \in 1..nw : Len(e.ms[w]) = n
                /\ SeqDecreasing(e.lev)
        neg  == \E w \in 1..nw : \E k \in 1..n : e.ms[w][k] < 0
        empty == Inverted(e.b, e.t) /\ \A w \in 1..nw : \A k \in 1..n : e.ms[w][k] = 0
        outs == {k \in 1..n : WhollyOutside(e.lev, k, lo, hi)}
        ins  == {k \in 1..n : WhollyInside(e.lev, k, lo, hi)}
        part == (1..n) \ (ins \cup outs)
        \* the contribution's documented partial-layer rule (Clouds!FlatRuleOk / LeeRuleOk)
        rule(k, m) == IF e.kind = "flat" THEN FlatRuleOk(e.lev, k, e.b, e.t, m, e.S, e.pu)
                      ELSE (Len(e.cen2) = n /\ LeeRuleOk(e.lev, e.cen2, k, e.b, e.t, m, e.S))
    IN  IF ~wf THEN {"haze_wellformed"}
        ELSE IF neg THEN {"haze_finite_nonnegative"}
        ELSE IF empty THEN {}
        ELSE (IF \A w \in 1..nw : \A k \in outs : e.ms[w][k] = 0 THEN {} ELSE {"none_outside_window"})
             \cup (IF \A w \in 1..nw : \A k \in ins : Near(e.ms[w][k], e.S) THEN {} ELSE {"declared_magnitude_inside"})
             \cup (IF \A w \in 1..nw : \A k \in (1..n) \ (ins \cup outs) : e.ms[w][k] <= e.S + 1
                   THEN {} ELSE {"partial_within_interval"})
             \* (judged at the first logged wavenumber: declared_wavelength_law ties the others to it within one unit)
             \cup (IF \A k \in part : rule(k, e.ms[1][k]) THEN {} ELSE {"partial_layer_rule"})
             \cup (IF (~e.b.set /\ ~e.t.set) => \A w \in 1..nw : \A k \in 1..n : Near(e.ms[w][k], e.S)
                   THEN {} ELSE {"unset_means_whole_atmosphere"})
             \cup (IF \A w \in 1..nw : \A k \in 1..n : Near(e.ms[w][k], e.ms[1][k]) THEN {} ELSE {"declared_wavelength_law"})
             \cup (IF e.model
                   THEN (IF /\ \A r \in 1..n : e.rowle[r]
                            /\ \A r \in 1..n : (\A k \in r..n : k \in outs) => e.rowsame[r]
                         THEN {} ELSE {"model_rows_untouched_outside_window"})
                   ELSE {})

DeckFails(e) ==
    LET n   == Len(e.cen2)
        S   == DeckLayers(e.cen2, e.deck)
        Up  == (1..n) \ S
    IN  (IF \A k \in S : e.sig[k] = "inf" THEN {} ELSE {"opaque_at_and_below_deck"})
        \cup (IF \A k \in Up : e.sig[k] = "zero" THEN {} ELSE {"untouched_above"})
        \cup (IF e.model
              THEN (IF \A k \in S : e.iszero[k] THEN {} ELSE {"model_opaque_at_and_below_deck"})
                   \cup (IF \A k \in Up : e.issame[k] THEN {} ELSE {"model_untouched_above"})
                   \cup (IF /\ ObsPos(e.depth) /\ ObsPos(e.dw) /\ ObsPos(e.cw) /\ ObsPos(e.rad) /\ ObsPos(e.rs)
                            /\ \A k \in 1..n : ObsOk(e.z[k]) /\ ObsPos(e.dz[k])
                         THEN LET f     == DInt(1000000000 + e.ppb)
                                  opint == DOpaqueSum(DOf(e.rad), e.z, e.dz, S, n)
                                  d     == DMul(DOf(e.depth), DMul(DOf(e.rs), DOf(e.rs)))
                              IN  IF /\ DLe(DMul(opint, Giga), DMul(d, f))
                                     /\ DLe(DMul(DOf(e.cw), Giga), DMul(DOf(e.dw), f))
                                  THEN {} ELSE {"depth_at_least_opaque_integral"}
                         ELSE {"depth_at_least_opaque_integral"})
              ELSE {})

MixFails(e) ==
    LET n  == Len(e.ta)
        wf == /\ n >= 1 /\ Len(e.th) = n /\ Len(e.tb) >= 1
              /\ \A k \in 1..n : /\ Len(e.ta[k]) >= 1 /\ Len(e.th[k]) = Len(e.ta[k])
                                 /\ \A w \in 1..Len(e.ta[k]) : ObsOk(e.ta[k][w]) /\ ObsOk(e.th[k][w])
              /\ \A o \in 1..Len(e.tb) : /\ Len(e.tb[o]) = n
                                         /\ \A k \in 1..n : /\ Len(e.tb[o][k]) = Len(e.ta[k])
                                                            /\ \A w \in 1..Len(e.ta[k]) : ObsOk(e.tb[o][k][w])
    IN  IF ~wf THEN {"mix_wellformed"}
        ELSE IF \A o \in 1..Len(e.tb) : \A k \in 1..n : \A w \in 1..Len(e.ta[k]) :
                    MixOk(DOf(e.tb[o][k][w]), DOf(e.ta[k][w]), DOf(e.th[k][w]), e.ppb)
             THEN {} ELSE {"model_transmittance_is_product"}

SlabsFails(e) ==
    LET m  == Len(e.alone)
        n  == IF m >= 1 THEN Len(e.alone[1]) ELSE 0
        nw == IF n >= 1 THEN Len(e.alone[1][1]) ELSE 0
        wf == /\ m >= 2 /\ n >= 1 /\ nw >= 1 /\ Len(e.tb) >= 1
              /\ \A j \in 1..m : /\ Len(e.alone[j]) = n
                                 /\ \A k \in 1..n : /\ Len(e.alone[j][k]) = nw
                                                    /\ \A w \in 1..nw : ObsOk(e.alone[j][k][w])
              /\ \A o \in 1..Len(e.tb) : /\ Len(e.tb[o]) = n
                                         /\ \A k \in 1..n : /\ Len(e.tb[o][k]) = nw
                                                            /\ \A w \in 1..nw : ObsOk(e.tb[o][k][w])
    IN  IF ~wf THEN {"slabs_wellformed"}
        ELSE IF \A o \in 1..Len(e.tb) : \A k \in 1..n : \A w \in 1..nw :
                    SlabsOk(DOf(e.tb[o][k][w]), e.alone, k, w, e.ppb)
             THEN {} ELSE {"slabs_transmittance_is_product"}

FrameFails(e) == IF Len(e.frame) = 0 THEN {} ELSE {"model_arrays_untouched"}

Fails(e) == FrameFails(e) \cup
            (IF e.ev = "haze" THEN HazeFails(e)
             ELSE IF e.ev = "mix" THEN MixFails(e)
             ELSE IF e.ev = "deck" THEN DeckFails(e)
             ELSE IF e.ev = "slabs" THEN SlabsFails(e)
             ELSE {"unknown_event"})

Init == l = 1
Step == /\ l <= Len(TraceLog)
        /\ LET e == TraceLog[l]
               f == Fails(e)
           IN  IF f = {} THEN TRUE
               ELSE PrintT(<<"BAD", ToJson([l |-> l, id |-> e.id, ev |-> e.ev, why |-> f])>>)
        /\ l' = l + 1
Spec == Init /\ [][Step]_l
Accepted == TLCGet("stats").diameter - 1 = Len(TraceLog)
=============================================================================
