-------------------------- MODULE MC_ChemistryEdge --------------------------
(***************************************************************************)
(* C10 -- "for every set of trace-gas profiles whose total stays at or     *)
(* below one ... ; if the traces exceed one ANYWHERE the model is rejected *)
(* as invalid rather than producing negative fill": the dimension BY HOW   *)
(* MUCH the total differs from one.  The boundary of the rejection is      *)
(* exact: a total of one is valid, a total of one plus ANY positive excess *)
(* (however small) is not.                                                 *)
(*                                                                         *)
(* Numbers of this module are  a + e * eps  with a rational a (lattice     *)
(* k/AbDen), an integer e and eps a positive quantity smaller than every   *)
(* lattice step (the harness instantiates eps = 2^-K for a range of K:     *)
(* 2^-17 ~ 8e-6 down to 2^-52 = one unit in the last place of 1.0; every   *)
(* K with 2^-K * MaxE * MaxTrace < 1/AbDen gives the same verdicts, which  *)
(* is the statement EpsIrrelevant below).  Such a number is the pair       *)
(* <<a, c>> of rationals (value a + c * eps); order is lexicographic.      *)
(* Everything the mixture needs is linear in the traces, so the expected   *)
(* mixture is again a pair per entry and is exported exactly.              *)
(*                                                                         *)
(* Variant "forgive_close" is the deliberately wrong design that rejects   *)
(* only an excess that is visible on the lattice ("close to one is one");  *)
(* "strict_ge" rejects a total of exactly one as well.                     *)
(***************************************************************************)
EXTENDS Chemistry, SequencesExt
CONSTANTS NL,                    \* layers
          MaxFill, MaxTrace,
          RatioNums, RatioDen,
          AbNums, AbDen,         \* lattice part of a trace abundance: k/AbDen
          EShift, ENums,         \* eps part of a trace abundance: (k - EShift) for k in ENums
          Variant, Export
VARIABLES phase, ratios, x, out
vars == <<phase, ratios, x, out>>

FillNames  == <<"H2", "He", "N2">>
TraceNames == <<"H2O", "CH4", "CO2">>
Gases == SubSeq(FillNames, 1, NFill(ratios)) \o SubSeq(TraceNames, 1, Len(x))

\* ------------------------------------------------------- a + c*eps arithmetic
EZero == <<RZero, RZero>>
EOne  == <<ROne, RZero>>
EAdd(p, q) == <<RAdd(p[1], q[1]), RAdd(p[2], q[2])>>
ESub(p, q) == <<RSub(p[1], q[1]), RSub(p[2], q[2])>>
EScale(r, p) == <<RMul(r, p[1]), RMul(r, p[2])>>
ELt(p, q) == RLt(p[1], q[1]) \/ (p[1] = q[1] /\ RLt(p[2], q[2]))
ELe(p, q) == ~ELt(q, p)
RECURSIVE ESumSeq(_)
ESumSeq(s) == IF s = <<>> THEN EZero ELSE EAdd(Head(s), ESumSeq(Tail(s)))

ETotal(l) == ESumSeq([g \in 1..Len(x) |-> x[g][l]])
EExceeds == \E l \in 1..NL : ELt(EOne, ETotal(l))
ERejected(variant) ==
    IF variant = "forgive_close" THEN \E l \in 1..NL : RLt(ROne, ETotal(l)[1])
    ELSE IF variant = "strict_ge" THEN \E l \in 1..NL : ELe(EOne, ETotal(l))
    ELSE EExceeds
EMix == LET share == MainShare(ratios, "spec")
        IN  [g \in 1..NGas(ratios, x) |-> [l \in 1..NL |->
                IF g = 1 THEN EScale(share, ESub(EOne, ETotal(l)))
                ELSE IF g <= NFill(ratios) THEN EScale(RMul(ratios[g - 1], share), ESub(EOne, ETotal(l)))
                ELSE x[g - NFill(ratios)][l]]]

\* ------------------------------------------------------------------ behaviour
RatioSet == {R(k, RatioDen) : k \in RatioNums}
Entries  == {<<R(k, AbDen), Q(e - EShift)>> : k \in AbNums, e \in ENums}
\* an abundance is non-negative: no negative eps part on a zero lattice part
Legal    == {p \in Entries : ELe(EZero, p)}
Rows     == [1..NL -> Legal]
SeqsUpTo(S, lo, hi) == UNION {[1..k -> S] : k \in lo..hi}
\* the domain of this module: the lattice part of the total is exactly one in some layer and nowhere above one, i.e.
\* the verdict is decided by the eps parts alone (everything else is the domain of MC_Chemistry)
OnTheEdge(xx) == /\ \E l \in 1..NL : ESumSeq([g \in 1..Len(xx) |-> xx[g][l]])[1] = ROne
                 /\ \A l \in 1..NL : RLe(ESumSeq([g \in 1..Len(xx) |-> xx[g][l]])[1], ROne)
Init == /\ phase = "in"
        /\ ratios \in SeqsUpTo(RatioSet, 0, MaxFill - 1)
        /\ x \in {xx \in SeqsUpTo(Rows, 1, MaxTrace) : OnTheEdge(xx)}
        /\ out = [st |-> "none", mix |-> <<>>]
Eval == /\ phase = "in"
        /\ out' = IF ERejected(Variant) THEN [st |-> "invalid", mix |-> <<>>] ELSE [st |-> "ok", mix |-> EMix]
        /\ phase' = "done"
        /\ UNCHANGED <<ratios, x>>
Next == Eval
Spec == Init /\ [][Next]_vars

Done  == phase = "done"
Valid == Done /\ out.st = "ok"
M == out.mix

\* -------------------------------------------------------------------- clauses
NonNegative == Valid => \A g \in 1..Len(M) : \A l \in 1..NL : ELe(EZero, M[g][l])
SumsToOne   == Valid => \A l \in 1..NL : ESumSeq([g \in 1..Len(M) |-> M[g][l]]) = EOne
FillRatiosExact == Valid => \A f \in 2..NFill(ratios) : \A l \in 1..NL : M[f][l] = EScale(ratios[f - 1], M[1][l])
TracesUntouched == Valid => \A g \in 1..Len(x) : M[NFill(ratios) + g] = x[g]
InvalidIffExceedsOne == Done => ((out.st = "invalid") <=> EExceeds)
\* the verdict is that of ordinary rationals for every eps = 1/d small enough (checked for the two ends of what fits)
AtEps(p, d) == RAdd(p[1], RMul(p[2], R(1, d)))
EpsIrrelevant == \A d \in {AbDen * 64, 4096} :
    EExceeds <=> ExceedsOne([g \in 1..Len(x) |-> [l \in 1..NL |-> AtEps(x[g][l], d)]], NL)

EdgeClass == IF \E l \in 1..NL : ELt(EOne, ETotal(l))
             THEN (IF \A l \in 1..NL : ELt(EOne, ETotal(l)) THEN "above-in-all-layers" ELSE "above-in-one-layer")
             ELSE IF \E l \in 1..NL : ETotal(l) = EOne THEN "exactly-one" ELSE "just-below"
\* export: one deterministic number of fill gases per set of traces keeps the vector count down
PickNum == RSumSeq([g \in 1..Len(x) |-> RSumSeq([l \in 1..NL |-> RAdd(RMul(Q(AbDen), x[g][l][1]), RMul(Q(l + g), x[g][l][2]))])])[1]
ExportPick == Export => Len(ratios) = (PickNum + 8 * NL * MaxTrace) % MaxFill
\* non-vacuity inside the export run (quick tier; the thorough tier also runs RF_ChemistryEdge_*.cfg): the inputs on
\* which the wrong designs contradict InvalidIffExceedsOne
Emit == (Export /\ Done) =>
  /\ \A v \in {"forgive_close", "strict_ge"} :
        IF ERejected(v) # EExceeds THEN PrintT(<<"WITNESS", ToJson([variant |-> v, edge |-> EdgeClass])>>) ELSE TRUE
  /\ PrintT(<<"EVEC", ToJson([ratios |-> ratios, nl |-> NL, edge |-> EdgeClass,
                             xa |-> [g \in 1..Len(x) |-> [l \in 1..NL |-> x[g][l][1]]],
                             xe |-> [g \in 1..Len(x) |-> [l \in 1..NL |-> x[g][l][2]]],
                             invalid |-> (out.st = "invalid"),
                             ma |-> [g \in 1..Len(out.mix) |-> [l \in 1..NL |-> out.mix[g][l][1]]],
                             me |-> [g \in 1..Len(out.mix) |-> [l \in 1..NL |-> out.mix[g][l][2]]],
                             gases |-> Gases])>>)
=============================================================================
