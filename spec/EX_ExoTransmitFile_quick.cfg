SPECIFICATION ESpec
CONSTANTS
  WlNm <- MCWl5
  Reorder = "argsort"
  Export = TRUE
INVARIANT ETypeOK
INVARIANT ReaderMatchesTable
INVARIANT GridAscending
INVARIANT ColumnsArePermutation
INVARIANT OrderIrrelevant
CONSTRAINT EEmit
CHECK_DEADLOCK FALSE
