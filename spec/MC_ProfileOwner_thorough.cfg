SPECIFICATION Spec
CONSTANTS
  Owners = 2
  NV = 2
  NL = 2
  Skip = "never"
  Frozen = FALSE
INVARIANT TypeOK
INVARIANT ObservedIsCurrent
CHECK_DEADLOCK FALSE
