SPECIFICATION Spec
CONSTANTS
  Paths = {"p1","p2"}
  Mols = {"A","B","C"}
  Disk <- MCDisk
  Sub <- MCSub
  SubstringFilter = TRUE
  Depth = 8
  Hist = FALSE
CONSTRAINT Cons
CHECK_DEADLOCK FALSE
VIEW View
INVARIANT NothingElseEnters
