------------------------------- MODULE Rat -------------------------------
(***************************************************************************)
(* Exact rational arithmetic for the TauREx specifications.                *)
(* A rational is a pair <<n, d>> with d > 0 and gcd(|n|, d) = 1.           *)
(* TLC integers are 32-bit: every module that uses Rat checks the          *)
(* invariant Fits(..) on its results so that overflow is reported as a     *)
(* machinery failure and never silently wraps.                             *)
(***************************************************************************)
EXTENDS Integers, Sequences

Abs(x) == IF x < 0 THEN -x ELSE x

RECURSIVE GCDr(_, _)
GCDr(x, y) == IF y = 0 THEN x ELSE GCDr(y, x % y)
GCD(a, b) == GCDr(Abs(a), Abs(b))

Norm(n, d) == LET s == IF d < 0 THEN -1 ELSE 1
                  g == GCD(n, d)
              IN  IF n = 0 THEN <<0, 1>> ELSE <<(s * n) \div g, (s * d) \div g>>

Q(n)        == <<n, 1>>
R(n, d)     == Norm(n, d)
RZero       == <<0, 1>>
ROne        == <<1, 1>>
RAdd(a, b)  == Norm(a[1] * b[2] + b[1] * a[2], a[2] * b[2])
RSub(a, b)  == Norm(a[1] * b[2] - b[1] * a[2], a[2] * b[2])
RMul(a, b)  == Norm(a[1] * b[1], a[2] * b[2])
RDiv(a, b)  == Norm(a[1] * b[2], a[2] * b[1])
RNeg(a)     == <<-a[1], a[2]>>
RLe(a, b)   == a[1] * b[2] <= b[1] * a[2]
RLt(a, b)   == a[1] * b[2] <  b[1] * a[2]
REq(a, b)   == a[1] * b[2] =  b[1] * a[2]
RMin(a, b)  == IF RLe(a, b) THEN a ELSE b
RMax(a, b)  == IF RLe(a, b) THEN b ELSE a
RAbs(a)     == <<Abs(a[1]), a[2]>>
RIsInt(a)   == a[2] = 1

RECURSIVE RSumSeq(_)
RSumSeq(s) == IF s = <<>> THEN RZero ELSE RAdd(Head(s), RSumSeq(Tail(s)))

RECURSIVE RMinSeq(_)
RMinSeq(s) == IF Len(s) = 1 THEN s[1] ELSE RMin(Head(s), RMinSeq(Tail(s)))
RECURSIVE RMaxSeq(_)
RMaxSeq(s) == IF Len(s) = 1 THEN s[1] ELSE RMax(Head(s), RMaxSeq(Tail(s)))

RECURSIVE Pow(_, _)
Pow(b, k) == IF k = 0 THEN 1 ELSE b * Pow(b, k - 1)
Pow2Neg(k) == <<1, Pow(2, k)>>       \* 2^-k, i.e. exp(-k ln 2)

\* linear interpolation of f0 (at x0) and f1 (at x1) at the integer abscissa x
RLin(f0, f1, x, x0, x1) == RAdd(f0, RMul(Norm(x - x0, x1 - x0), RSub(f1, f0)))

Big == 1073741824  \* 2^30
Fits(a) == Abs(a[1]) < Big /\ a[2] < Big

\* scaled observation m = round(x*S) is within tol units of the exact r
Close(m, S, r, tol) == Abs(m * r[2] - r[1] * S) <= tol * r[2]
=============================================================================
