SPECIFICATION Spec
CONSTANTS
  MaxCalls = 2
  NFiles = 1
  Consuming = {"instrument"}
  Prebuild = FALSE
INVARIANT GenerateEqualsFresh
CHECK_DEADLOCK FALSE
