SPECIFICATION Spec
CONSTANTS
  Formats = {"pickle", "hdf5", "nemesis"}
  WeightSets <- SymW
  KSeqs <- MCK
  PathLens = {1, 2, 3}
  KMax = 4
  Reversed <- Nem
  Export = FALSE
INVARIANT PairingIsTheFiles
CHECK_DEADLOCK FALSE
