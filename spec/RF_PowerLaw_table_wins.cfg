SPECIFICATION Spec
CONSTANTS
  NV = 2
  MaxWrites = 1
  Variant = "table_wins"
  Export = FALSE
CHECK_DEADLOCK FALSE
INVARIANT ControlValuesInForce
