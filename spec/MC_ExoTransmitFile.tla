------------------------- MODULE MC_ExoTransmitFile -------------------------
(* C14: model-checking / export / simulation wrapper of ExoTransmitFile.      *)
EXTENDS ExoTransmitFile, Json
CONSTANTS Export       \* TRUE: print one EXO vector per closed file
\* wavelengths in nm whose wavenumbers 10^7 / wl are integers (cm^-1): 20000 ... 800
MCWl4 == <<500, 1250, 4000, 10000>>
MCWl5 == <<500, 800, 2000, 5000, 12500>>
MCWl6 == <<500, 800, 1250, 2500, 5000, 12500>>
MCWl8 == <<400, 500, 800, 1250, 2000, 4000, 8000, 12500>>
EEmit == (Export /\ EClosed) =>
    PrintT(<<"EXO", ToJson([file |-> efile, wl |-> WlNm, grid |-> EPhysGrid, cols |-> EPhysCols, layout |-> ELayout])>>)
=============================================================================
