----------------------------- MODULE ModeRoute -----------------------------
(* C04 -- "both interpolation modes ... cross-section and k-table layouts": HOW the mode reaches the  *)
(* table is a free dimension.  A table handed to a constructor gets the mode as an argument ("ctor"). *)
(* A table SERVED BY A CACHE (OpacityCache for cross-sections, KTableCache for k-tables; the readers  *)
(* are found by discover()) gets it from the process-wide setting: OpacityCache.set_interpolation     *)
(* writes the key KeyWritten and empties both caches; discover() of every reader reads the key        *)
(* KeyRead (unset: 'linear').  The specification is KeyRead = KeyWritten = "xsec_interpolation" and   *)
(* ClearOnSet = TRUE.  A route is a sequence of steps                                                *)
(*   Set(m)   OpacityCache().set_interpolation(m)                                                    *)
(*   Glob(m)  GlobalCache()['xsec_interpolation'] = m followed by clear_cache() of both caches        *)
(*   Load     cache[molecule] followed by a query                                                    *)
(* ending in Load; the table served at the end must interpolate in the mode asked for last            *)
(* (ServedModeIsWanted).  Expected counterexamples: a reader whose discover() reads a key nobody      *)
(* writes (XC_ModeRoute_key.cfg), a setter that keeps the loaded tables (XC_ModeRoute_noclear.cfg).   *)
(* The routes are exported (records ROUTE) and executed by the binding on every cache holder of       *)
(* TableStorage.tla, for both layouts, against the vectors of the wanted mode.                        *)
EXTENDS Integers, Sequences, TLC, Json
CONSTANTS Modes, KeyWritten, KeyRead, ClearOnSet, Export
VARIABLES name, wanted, steps, pc, key, served
vars == <<name, wanted, steps, pc, key, served>>

Keys == {"xsec_interpolation", "ktable_interpolation"}
Set(m)  == [op |-> "set", m |-> m]
Glob(m) == [op |-> "glob", m |-> m]
Load    == [op |-> "load", m |-> ""]
Other(m) == CHOOSE o \in Modes : o # m
RouteOf(n, w) ==
    CASE n = "set_before"    -> <<Set(w), Load>>
      [] n = "set_after"     -> <<Set(Other(w)), Load, Set(w), Load>>
      [] n = "set_back"      -> <<Set(w), Load, Set(Other(w)), Load, Set(w), Load>>
      [] n = "global_before" -> <<Glob(w), Load>>
      [] n = "global_after"  -> <<Set(Other(w)), Load, Glob(w), Load>>
      [] OTHER               -> <<Load>>                  \* "default": nothing was ever set
Names(w) == {"set_before", "set_after", "set_back", "global_before", "global_after"}
            \cup (IF w = "linear" THEN {"default"} ELSE {})

Init == /\ wanted \in Modes /\ name \in Names(wanted) /\ steps = RouteOf(name, wanted)
        /\ pc = 1 /\ key = [k \in Keys |-> "unset"] /\ served = "none"
Step == /\ pc <= Len(steps)
        /\ LET s == steps[pc] IN
           CASE s.op = "set"  -> /\ key' = [key EXCEPT ![KeyWritten] = s.m]
                                 /\ served' = IF ClearOnSet THEN "none" ELSE served
             [] s.op = "glob" -> /\ key' = [key EXCEPT !["xsec_interpolation"] = s.m]
                                 /\ served' = "none"
             [] OTHER         -> /\ served' = IF served # "none" THEN served
                                              ELSE IF key[KeyRead] = "unset" THEN "linear" ELSE key[KeyRead]
                                 /\ UNCHANGED key
        /\ pc' = pc + 1
        /\ UNCHANGED <<name, wanted, steps>>
Spec == Init /\ [][Step]_vars

ServedModeIsWanted == pc > Len(steps) => served = wanted
EndsInLoad == steps[Len(steps)].op = "load"
Emit == (Export /\ pc = 1) => PrintT(<<"ROUTE", ToJson([name |-> name, wanted |-> wanted, steps |-> steps])>>)
=============================================================================
