SPECIFICATION Spec
CONSTANTS
  Formats = {"pickle", "hdf5", "nemesis"}
  WeightSets <- AllW
  KSeqs <- MCK
  PathLens = {1, 2, 3}
  KMax = 4
  Reversed <- Every
  Export = FALSE
INVARIANT DegenerateBlind
CHECK_DEADLOCK FALSE
