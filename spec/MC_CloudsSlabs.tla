--------------------------- MODULE MC_CloudsSlabs ---------------------------
(***************************************************************************)
(* C19, design level: SEVERAL cloud / haze objects in ONE model.           *)
(*                                                                         *)
(* The property speaks about every cloud deck and every haze of a model,   *)
(* each with its OWN declared pressure range.  A model exposes ONE level   *)
(* array and ONE layer-pressure array to all its contributions (by         *)
(* reference) and prepares them one after the other, so the clause "acts   *)
(* only inside its declared range" of slab j depends on the frame          *)
(* condition "preparing slabs 1..j-1 left the exposed arrays as the model  *)
(* computed them".  This module states both:                               *)
(*                                                                         *)
(*   lev0          the grid of the model (ground truth)                    *)
(*   slabs         the contributions in the order in which they are        *)
(*                 prepared: [kind, b, t, deck], kind in SKinds            *)
(*   slev, scen2   the arrays the model EXPOSES (levels / twice the layer  *)
(*                 positions); a slab reads them as they are when it is    *)
(*                 prepared                                                *)
(*   f[j][k]       extinction of slab j in layer k in units of its         *)
(*                 declared magnitude (deck: 1 = opaque)                   *)
(*   tot[k]        what the model integrates: the sum over the hazes       *)
(*                                                                         *)
(* Actions: AddSlab (any kind, any bounds / deck position, up to MaxSlabs) *)
(* and Prepare (the next slab of the list reads the exposed arrays; the    *)
(* first Prepare closes the list, the last one integrates).                *)
(*                                                                         *)
(* Scratch = "copy": a slab works on private copies (the rule of the       *)
(* implementation).  Scratch = "levels" / "layers": the grey haze / the    *)
(* mask-based contributions (Lee haze, deck) leave their working           *)
(* representation Work(.) in the exposed level / layer array ("no          *)
(* temporary"); these are the expected counterexamples: whatever is        *)
(* prepared later lands in the wrong layers or vanishes, depending only on *)
(* the order of addition.                                                  *)
(***************************************************************************)
EXTENDS Clouds
CONSTANTS NMax, L0, Spacings, BStep, MaxSlabs, SKinds, Scratch, Export
VARIABLES phase, lev0, slabs, slev, scen2, f, tot
vars == <<phase, lev0, slabs, slev, scen2, f, tot>>

SpacingSeqs == UNION {[1..m -> Spacings] : m \in 1..NMax}
RECURSIVE PosOf(_, _)
PosOf(sp, k) == IF k = 1 THEN L0 ELSE PosOf(sp, k - 1) - sp[k - 1]
GridOf(sp) == [k \in 1..(Len(sp) + 1) |-> PosOf(sp, k)]
Grids == {GridOf(sp) : sp \in SpacingSeqs}
Cen2(lv) == [k \in 1..NLay(lv) |-> lv[k] + lv[k + 1]]
Positions(lv) == {p \in (lv[Len(lv)] - 2)..(lv[1] + 2) : (lv[1] + 2 - p) % BStep = 0}
UnsetB == [set |-> FALSE, x |-> 0]
Bounds(lv) == {UnsetB} \cup {[set |-> TRUE, x |-> p] : p \in Positions(lv)}
SlabsOf(lv) == {[kind |-> kd, b |-> bb, t |-> tt, deck |-> 0] : kd \in SKinds \ {"deck"}, bb \in Bounds(lv), tt \in Bounds(lv)}
               \cup (IF "deck" \in SKinds
                     THEN {[kind |-> "deck", b |-> UnsetB, t |-> UnsetB, deck |-> d] : d \in Positions(lv)}
                     ELSE {})

\* what slab s computes from the arrays it is shown
ProfileOf(s, lv, c2) ==
    [k \in 1..NLay(lv) |->
        IF s.kind = "flat" THEN FlatFrac(lv, k, s.b, s.t)
        ELSE IF s.kind = "lee" THEN LeeMask(lv, c2, k, s.b, s.t)
        ELSE IF DeckOpaque(c2, k, s.deck) THEN Q(1) ELSE Q(0)]
\* the working representation a slab may leave behind (abstract: any map that is not the identity)
Work(a) == [k \in 1..Len(a) |-> a[k] \div 2]

Init == /\ phase = "build"
        /\ lev0 \in Grids
        /\ slabs = <<>>
        /\ slev = lev0
        /\ scen2 = Cen2(lev0)
        /\ f = <<>>
        /\ tot = <<>>
AddSlab == /\ phase = "build" /\ Len(slabs) < MaxSlabs
           /\ \E s \in SlabsOf(lev0) : slabs' = Append(slabs, s)
           /\ UNCHANGED <<phase, lev0, slev, scen2, f, tot>>
RECURSIVE HazeSum(_, _, _, _)
HazeSum(sl, ff, k, j) == IF j = 0 THEN Q(0)
                         ELSE IF sl[j].kind = "deck" THEN HazeSum(sl, ff, k, j - 1)
                         ELSE RAdd(HazeSum(sl, ff, k, j - 1), ff[j][k])
\* model(): the slabs are prepared one after the other (the first Prepare closes the list); with the last one
\* the model integrates what the slabs hold
Prepare == /\ phase \in {"build", "run"} /\ Len(slabs) >= 2 /\ Len(f) < Len(slabs)
           /\ LET s    == slabs[Len(f) + 1]
                  nf   == Append(f, ProfileOf(s, slev, scen2))
                  last == Len(nf) = Len(slabs)
              IN  /\ f' = nf
                  /\ slev' = IF Scratch = "levels" /\ s.kind = "flat" THEN Work(slev) ELSE slev
                  /\ scen2' = IF Scratch = "layers" /\ s.kind # "flat" THEN Work(scen2) ELSE scen2
                  /\ phase' = IF last THEN "done" ELSE "run"
                  /\ tot' = IF last THEN [k \in 1..NLay(lev0) |-> HazeSum(slabs, nf, k, Len(slabs))] ELSE tot
           /\ UNCHANGED <<lev0, slabs>>
Next == AddSlab \/ Prepare
Spec == Init /\ [][Next]_vars

\* ------------------------------------------------------------ invariants
\* frame condition: what the model exposes is what the model computed, at every moment
ExposedGridUntouched == slev = lev0 /\ scen2 = Cen2(lev0)
\* every prepared slab, in whatever company and at whatever position of the list, obeys ITS OWN range
SlabOk(s, p) == IF s.kind = "deck"
                THEN \A k \in 1..NLay(lev0) : (p[k] = Q(1)) <=> DeckOpaque(Cen2(lev0), k, s.deck)
                ELSE ProfileAdmissible(lev0, s.b, s.t, p)
EachSlabOwnRange == \A j \in 1..Len(f) : SlabOk(slabs[j], f[j])
\* ... and is exactly what the same slab is when it is the only one in a fresh model
EachSlabAsAlone == \A j \in 1..Len(f) : f[j] = ProfileOf(slabs[j], lev0, Cen2(lev0))
\* optical depths add: the integrated extinction is the sum of the slabs taken alone
Alone == [j \in 1..Len(slabs) |-> ProfileOf(slabs[j], lev0, Cen2(lev0))]
SlabsAdd == (phase = "done") => \A k \in 1..NLay(lev0) : tot[k] = HazeSum(slabs, Alone, k, Len(slabs))

Emit == (Export /\ phase = "done") =>
    PrintT(<<"SLABS", ToJson([lev |-> lev0,
                              slabs |-> [j \in 1..Len(slabs) |->
                                            [kind |-> slabs[j].kind, b |-> slabs[j].b, t |-> slabs[j].t, deck |-> slabs[j].deck,
                                             adm |-> Adm(lev0, slabs[j].b, slabs[j].t), inv |-> Inverted(slabs[j].b, slabs[j].t),
                                             f |-> ProfileOf(slabs[j], lev0, Cen2(lev0))]]])>>)
=============================================================================
