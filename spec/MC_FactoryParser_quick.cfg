SPECIFICATION Spec
CONSTANTS
  MaxCalls = 2
  NFiles = 3
  Consuming = {}
  Prebuild = FALSE
INVARIANT GenerateEqualsFresh
INVARIANT ParserConfigUnchanged
INVARIANT AbsentSectionIsDefaultArgument
INVARIANT ModelLayerKeysEffective
INVARIANT FilesCoverPresence
CONSTRAINT Emit
CHECK_DEADLOCK FALSE
