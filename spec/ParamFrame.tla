----------------------------- MODULE ParamFrame -----------------------------
(***************************************************************************)
(* The fitting-parameter registry of a forward model as a store with a     *)
(* frame rule (C07: "writing ... sets exactly the fitted parameters ... and*)
(* leaves every other model or observation parameter untouched").          *)
(*                                                                         *)
(* Every component of a model (planet, star, pressure, temperature         *)
(* profile, chemistry and each gas, each contribution) registers named     *)
(* parameters as (getter, setter) pairs; the model collects them in one    *)
(* dictionary, `model[name] = v` calls the setter and `model[name]` the    *)
(* getter.  Several are generated in loops (temperature / pressure nodes,  *)
(* fill-gas ratios, per-layer temperatures), i.e. closures over a loop     *)
(* variable -- where a late-binding slip makes two names share one slot.   *)
(*                                                                         *)
(* Abstract state: reg[i], the value (index into the parameter's own value *)
(* table) a reader of parameter i sees.  Actions:                          *)
(*   Write(i, v)     model[name_i] = table_i[v]                            *)
(*   WriteVec(w)     update_model-like: several parameters written in one  *)
(*                   call, in registry order                               *)
(*   Run             the model is evaluated (initialize_profiles + path    *)
(*                   integral): reads, never writes                        *)
(* Properties (of every step): ReadYourWrite, FrameRule, RunIsPure.        *)
(* The frame extends to OTHER objects: a model constructed at any moment   *)
(* with its constructor arguments left at their defaults reads the         *)
(* documented defaults, whatever was written to the long-lived one before  *)
(* (Trace_ParamFrame: FrameRule-other-object, ConstructorHonoured).        *)
(* The substance is in the binding: TLC-generated behaviours are replayed  *)
(* on real models of every built-in component family and the vector read   *)
(* through ALL getters of the model is validated after every action by     *)
(* Trace_ParamFrame (together with equality to a model freshly built with  *)
(* the same values given to the constructors).                             *)
(***************************************************************************)
EXTENDS Integers, Sequences, FiniteSets, TLC

CONSTANTS NP,        \* parameters changed by the walk (the model has more; they must stay put)
          Vals,      \* values per parameter (0..Vals-1)
          Depth
VARIABLES reg, hist
vars == <<reg, hist>>

Regs == [1..NP -> 0..(Vals - 1)]
Init == reg \in Regs /\ hist = <<>>
Write(i, v) == /\ reg[i] # v
               /\ reg' = [reg EXCEPT ![i] = v]
               /\ hist' = Append(hist, <<"set", i, v>>)
Run == /\ UNCHANGED reg
       /\ hist' = Append(hist, <<"eval", 0, 0>>)
Next == \/ \E i \in 1..NP, v \in 0..(Vals - 1) : Write(i, v)
        \/ Run
Spec == Init /\ [][Next]_vars
Bound == Len(hist) <= Depth

LastOp == hist'[Len(hist')]
ReadYourWrite == [][LastOp[1] = "set" => reg'[LastOp[2]] = LastOp[3]]_vars
FrameRule     == [][\A j \in 1..NP : (reg'[j] # reg[j]) => (LastOp[1] = "set" /\ LastOp[2] = j)]_vars
RunIsPure     == [][LastOp[1] = "eval" => reg' = reg]_vars
=============================================================================
