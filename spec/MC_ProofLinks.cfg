SPECIFICATION Spec
CONSTANTS
  Lo <- MinusThree
  Hi = 5
  XMax = 5
