SPECIFICATION Spec
CONSTANTS
  WLS = {4,5,6,7,8,9,12}
  NMin = 3
  NMax = 5
  NCol = 3
  Wids = {1}
  H = 40
  U = 0
  AlgVariant = "ok"
  Export = TRUE
INVARIANT ModelCovered
INVARIANT ModelBetween
INVARIANT FitsInv
CONSTRAINT Emit
CHECK_DEADLOCK FALSE
