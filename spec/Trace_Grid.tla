----------------------------- MODULE Trace_Grid -----------------------------
(* C13, binding B.  One event = one real run of clip_native_to_wngrid and of    *)
(* FluxBinner.bindown on the full and on the clipped native grid, for a random  *)
(* integer spectrum.  TLC re-evaluates the Grid operators on the logged grids:  *)
(*   clip     the real clip is a contiguous index range lo..hi of the native    *)
(*            grid that keeps every point contributing to an observation bin    *)
(*   full/clipped  the logged (scaled) binned values are the overlap-weighted   *)
(*            means of Grid.tla on the full grid resp. on nat[lo..hi]           *)
(*   commutes inside the width condition the two agree (exactly in the spec,    *)
(*            within one unit in the log)                                       *)
(* Stateless stream: every event gets a class (CLS) and zero or more BAD lines. *)
EXTENDS Grid, IOUtils, TLCExt
VARIABLE l
TraceLog == ndJsonDeserialize(IOEnv.TRACE_FILE)

Class(e) ==
    IF ~GWidthCond(e.oc, e.ow2) \/ ~GSpacingCond(e.nat, e.oc, 2) THEN "outside"
    ELSE IF GUniform(e.nat) THEN "uniform"
    ELSE IF GSpacingCond(e.nat, e.oc, 3) THEN "third"
    ELSE "band"

ClipOk(e) ==
    /\ e.lo >= 1 /\ e.hi <= Len(e.nat) /\ e.lo < e.hi
    /\ (GWidthCond(e.oc, e.ow2) /\ GSpacingCond(e.nat, e.oc, 1)) =>
          \A i \in 1..Len(e.nat) :
              (\E j \in 1..Len(e.oc) : GWt(e.nat, i, e.oc[j], e.ow2[j]) > 0) => (i >= e.lo /\ i <= e.hi)

ValOk(g, f, e, obs) ==
    \A j \in 1..Len(e.oc) :
        LET b == GBinnedRaw(g, f, e.oc[j], e.ow2[j]) IN
        IF b[2] = 0 THEN obs[j] = 0 ELSE Close(obs[j], e.S, Norm(b[1], b[2]), e.tol)

Commutes(e) ==
    /\ \A j \in 1..Len(e.oc) : Abs(e.bf[j] - e.bc[j]) <= 1
    /\ \A j \in 1..Len(e.oc) : GBinSame(e.nat, e.lo, e.hi, e.oc[j], e.ow2[j])

Bad(e, why) == PrintT(<<"BAD", ToJson([id |-> e.id, why |-> why])>>)

Init == l = 1
Step == /\ l <= Len(TraceLog)
        /\ LET e == TraceLog[l]
               cls == Class(e)
           IN  /\ PrintT(<<"CLS", ToJson([id |-> e.id, cls |-> cls])>>)
               /\ IF ClipOk(e)
                  THEN /\ IF ValOk(e.nat, e.f, e, e.bf) THEN TRUE ELSE Bad(e, "full")
                       /\ IF ValOk(SubSeq(e.nat, e.lo, e.hi), SubSeq(e.f, e.lo, e.hi), e, e.bc) THEN TRUE ELSE Bad(e, "clipped")
                       /\ IF cls = "outside" \/ Commutes(e) THEN TRUE ELSE Bad(e, "commutes")
                  ELSE Bad(e, "clip")
        /\ l' = l + 1
Spec == Init /\ [][Step]_l
Accepted == TLCGet("stats").diameter - 1 = Len(TraceLog)
=============================================================================
