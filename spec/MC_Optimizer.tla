---------------------------- MODULE MC_Optimizer ----------------------------
(* Model of the C07 fixture: a TransmissionModel (planet_radius, T, H2O) and an  *)
(* observation with one fitting parameter (offset); derived mu and logg.         *)
(* Exhaustive configs bound the history length with MaxLevel; simulation /       *)
(* export configs keep the history variable and print it (binding C).            *)
EXTENDS Optimizer, TLCExt, SequencesExt
CONSTANTS ModelSel,     \* which of the three model parameters the generated calls name (the observation parameter always)
          BoundSel,     \* subset of 1..4 selecting bound pairs
          FactorSel, PriorSel,
          ModeSel,      \* subset of 1..7 selecting the spellings of the mode argument
          KSel,         \* UpdateModel exponents are {k - 3 : k \in KSel} (cfg files have no negative literals)
          MaxLevel,     \* history length bound (exhaustive) / printed length (export)
          Export        \* "none" | "all" (print every history of length MaxLevel-1) | "sim"

AllModel == <<"planet_radius", "T", "H2O">>
MCParams == AllModel \o <<"offset">>
MCCallParams == {AllModel[i] : i \in ModelSel} \cup {"offset"}
MCObsParams == {"offset"}
MCDerived == <<"logg", "mu">>
FullSetting == [planet_radius |-> [fit |-> TRUE,  mode |-> "linear", lo |-> -1,  hi |-> 1,  raw |-> FALSE, slo |-> -1,  shi |-> 1, sfit |-> TRUE],
                T             |-> [fit |-> FALSE, mode |-> "linear", lo |-> 2,   hi |-> 4,  raw |-> FALSE, slo |-> 2,   shi |-> 4, sfit |-> FALSE],
                H2O           |-> [fit |-> FALSE, mode |-> "log",    lo |-> -12, hi |-> -1, raw |-> FALSE, slo |-> -12, shi |-> -1, sfit |-> FALSE],
                offset        |-> [fit |-> FALSE, mode |-> "linear", lo |-> -3,  hi |-> 0,  raw |-> FALSE, slo |-> -3,  shi |-> 0, sfit |-> FALSE]]
FullValue   == [planet_radius |-> 0, T |-> 3, H2O |-> -3, offset |-> -2]
MCPSet == {MCParams[i] : i \in 1..Len(MCParams)}
MCInitSetting == [p \in MCPSet |-> FullSetting[p]]
MCInitValue   == [p \in MCPSet |-> FullValue[p]]
MCInitDerived == [logg |-> FALSE, mu |-> TRUE]
MCUnknownFit == {"nope", "mu"}
MCUnknownDer == {"nope", "H2O"}
\* second pair is reversed; 5: (0, 0.1); 6: (10, -1) reversed with a negative edge; 7: (-100, 0)
\* (pairs with a zero / negative edge are legal for a parameter fitted in linear space)
AllBounds  == <<<<-6, -2>>, <<1, -1>>, <<0, 3>>, <<-4, -3>>, <<Zero, -1>>, <<1, Neg(0)>>, <<Neg(2), Zero>>>>
AllFactors == <<<<-1, 1>>, <<-2, 0>>>>
AllPriors  == <<[kind |-> "Uniform",     a |-> -2, b |-> 2],
                [kind |-> "LogUniform",  a |-> -5, b |-> -1],
                [kind |-> "Gaussian",    a |-> 1,  b |-> 0],
                [kind |-> "LogGaussian", a |-> -3, b |-> 1]>>
\* <<mode, positions written in upper case>>: linear, log, LOG, Linear, Log, LINEAR, lOg
AllModeCalls == << <<"linear", {}>>, <<"log", {}>>, <<"log", {1,2,3}>>, <<"linear", {1}>>, <<"log", {1}>>,
                   <<"linear", 1..6>>, <<"log", {2}>> >>
MCModeCalls == {AllModeCalls[i] : i \in ModeSel}
MCInvalidModes == {"logarithmic", "lin", ""}
MCInvalidOne == {"logarithmic"}
MCBoundPairs == {AllBounds[i] : i \in BoundSel}
MCFactors    == {AllFactors[i] : i \in FactorSel}
MCUserPriors == {AllPriors[i] : i \in PriorSel}
MCK == {k - 3 : k \in KSel}

\* ---- input files (Optimizer.tla: Routes).  One-parameter files: `p:fit` either way and at most one further key;
\* two-parameter files switching one parameter on and another off (either order of the keys); files with every key;
\* [Derive] files.  MCFilesFew: a handful for the exhaustive / coverage configs.
Entry(p, x, m, cs, b, f, pr) == [p |-> p, fit |-> x, m |-> m, cs |-> cs, b |-> b, f |-> f, pr |-> pr]
Plain(p, x) == Entry(p, x, "", {}, <<>>, <<>>, None)
OneFile(e) == [fs |-> <<e>>, ds |-> <<>>]
MCFilesOne == {OneFile(Plain(p, x)) : p \in MCCallParams, x \in BOOLEAN}
         \cup {OneFile(Entry(p, x, mc[1], mc[2], <<>>, <<>>, None)) : p \in MCCallParams, x \in BOOLEAN, mc \in MCModeCalls}
         \cup {OneFile(Entry(p, x, "", {}, b, <<>>, None)) : p \in MCCallParams, x \in BOOLEAN, b \in MCBoundPairs}
         \cup {OneFile(Entry(p, x, "", {}, <<>>, f, None)) : p \in MCCallParams, x \in BOOLEAN, f \in MCFactors}
         \cup {OneFile(Entry(p, x, "", {}, <<>>, <<>>, pr)) : p \in MCCallParams, x \in BOOLEAN, pr \in MCUserPriors}
MCFilesTwo == {[fs |-> <<Plain(pq[1], x), Plain(pq[2], ~x)>>, ds |-> <<>>] :
                  pq \in {r \in MCCallParams \X MCCallParams : r[1] # r[2]}, x \in BOOLEAN}
MCFilesFull == {[fs |-> <<Entry(p, x, mc[1], mc[2], b, <<>>, pr)>>, ds |-> <<[d |-> MCDerived[1], on |-> x], [d |-> MCDerived[2], on |-> ~x]>>] :
                   p \in MCCallParams, x \in BOOLEAN, mc \in MCModeCalls, b \in MCBoundPairs \cap {AllBounds[1], AllBounds[5]},
                   pr \in MCUserPriors \cap {AllPriors[2]}}
MCFilesDer == {[fs |-> <<>>, ds |-> <<[d |-> d, on |-> x]>>] : d \in {MCDerived[i] : i \in 1..Len(MCDerived)}, x \in BOOLEAN}
MCFilesAll == MCFilesOne \cup MCFilesTwo \cup MCFilesFull \cup MCFilesDer
MCNoFiles == {}
MCFilesFew == {OneFile(Plain("planet_radius", FALSE)), OneFile(Plain("offset", TRUE)),
               [fs |-> <<Plain("planet_radius", FALSE), Entry("offset", TRUE, "log", {1,2,3}, <<-6, -2>>, <<>>, None)>>,
                ds |-> <<[d |-> "logg", on |-> TRUE]>>]}

LevelBound == TLCGet("level") < MaxLevel
\* every history of length MaxLevel - 1 (exhaustive export) or the end of a simulated behaviour
Emit == (Export = "all" /\ Len(hist) = MaxLevel - 1) => PrintT(<<"BEH", ToJson([h |-> hist])>>)
HistBound == Len(hist) < MaxLevel

\* export of all short histories: every known call, one unknown call of each family
\* and update_model with a vector one entry longer than the fitted set (refused; the history goes on)
\* (once something is compiled: the refusal of any vector by an empty set-up is in the preset histories)
ExWrong == Len(compiled) > 0 /\ \E k \in K : UpdateWrong([i \in 1..(Len(compiled) + 1) |-> k])
ExNext == ApiCall \/ Unknown("enable_fit", "nope") \/ Unknown("disable_derived", "nope") \/ ExWrong
ExSpec == Init /\ [][ExNext]_vars

\* export of "preset" histories (binding C): any subset of the parameters is made the fitted set (only
\* observation parameters, none, all, ...), then one optional setting / set_prior call, compile, and one of
\* update_model / write_back / a second compile; after every call all views are evaluated
SettingLite == \E p \in CallParams :
                  \/ \E mc \in ModeCalls : SetMode(p, mc[1], mc[2])
                  \/ \E b \in BoundPairs : SetBoundary(p, b)
                  \/ \E f \in Factors : SetFactorBoundary(p, f)
\* a vector one entry shorter (if that is not empty) / one entry longer than the fitted set
PresetWrong == \E vec \in WrongVecs : Len(vec) \in {Len(compiled) - 1, Len(compiled) + 1} /\ UpdateWrong(vec)
\* an accepted update_model is followed by update_model with the same array object (UpdateSame)
PresetNext == CASE Len(hist) = 0 -> PresetCall
                [] Len(hist) = 1 -> SettingLite \/ PriorCall \/ Compile
                [] Len(hist) = 2 -> Compile
                [] Len(hist) = 3 -> UpdateCall \/ WriteBack \/ Compile \/ PresetWrong
                [] OTHER         -> hist[4].op = "update_model" /\ ~err /\ UpdateSame
PresetSpec == Init /\ [][PresetNext]_vars
PresetDone == Len(hist) = 5 \/ (Len(hist) = 4 /\ ~(hist[4].op = "update_model" /\ ~err))
PresetEmit == PresetDone => PrintT(<<"BEH", ToJson([h |-> hist])>>)

\* export of "order" histories (binding C): the fitted set is chosen, then two setting calls of different kinds name
\* the same fitted parameter in either order (boundaries then mode as an input file does, mode then boundaries,
\* factor boundaries then mode, ..), then compile: the set-up is that of the final settings, whatever the order
SecondSetting == LET p == hist[2].p  k == hist[2].op IN
                  \/ k # "set_mode" /\ \E mc \in ModeCalls : SetMode(p, mc[1], mc[2])
                  \/ k # "set_boundary" /\ \E b \in BoundPairs : SetBoundary(p, b)
                  \/ k # "set_factor_boundary" /\ \E f \in Factors : SetFactorBoundary(p, f)
FirstSetting == \E p \in CallParams : setting[p].fit /\
                  (\/ \E mc \in ModeCalls : SetMode(p, mc[1], mc[2])
                   \/ \E b \in BoundPairs : SetBoundary(p, b)
                   \/ \E f \in Factors : SetFactorBoundary(p, f))
OrderNext == CASE Len(hist) = 0 -> PresetCall
               [] Len(hist) = 1 -> FirstSetting
               [] Len(hist) = 2 -> SecondSetting
               [] OTHER         -> Compile
OrderSpec == Init /\ [][OrderNext]_vars

\* export of "route" histories (binding C): a fitted set is chosen and compiled (by compile_params or by a first fit),
\* then ONE change of the settings by either route (any API call, or an input file), then the sampler is entered by
\* fit() -- or, after a file, compile_params() is called: the set-up is that of the settings current at that moment
RoutePresets == {{}, {"planet_radius", "H2O"}, {"T", "offset"}}
RouteNext == CASE Len(hist) = 0 -> \E S \in RoutePresets : Preset(S)
               [] Len(hist) = 1 -> Compile \/ Fit
               [] Len(hist) = 2 -> SettingCall \/ PriorCall \/ DerivedCall \/ FileCall
               [] OTHER         -> Fit \/ (hist[3].op = "file" /\ Compile)
RouteSpec == Init /\ [][RouteNext]_vars

\* simulation: choose the class of call first so that compile / update_model are not drowned
\* by the many argument combinations of the setters
Classes == {"setting", "setting2", "prior", "derived", "compile", "compile2", "update", "writeback", "unknown", "preset", "wrongupdate", "same", "fit", "file"}
\* (the history is printed when the behaviour's last state is expanded: once per behaviour)
SimNext == /\ (Export = "sim" /\ Len(hist) = MaxLevel - 1) => PrintT(<<"BEH", ToJson([h |-> hist])>>)
           /\ \E c \in {RandomElement(Classes)} :      \* (a bound variable: drawn once per step, not once per CASE arm)
             CASE c \in {"setting", "setting2"} -> SettingCall
               [] c = "prior"     -> PriorCall
               [] c = "derived"   -> DerivedCall
               \* (settings for which compile_params is not defined: another setting call instead)
               [] c \in {"compile", "compile2"} -> IF CompileDefined THEN Compile ELSE SettingCall
               [] c = "fit"       -> IF CompileDefined THEN Fit ELSE SettingCall
               [] c = "file"      -> FileCall
               [] c = "update"    -> UpdateCall
               [] c = "same"      -> IF SameDefined THEN UpdateSame ELSE UpdateCall
               [] c = "writeback" -> WriteBack
               [] c = "preset"    -> PresetCall
               [] c = "wrongupdate" -> LET n == RandomElement(WrongLens) IN \E vec \in [1..n -> K] : UpdateWrong(vec)
               [] OTHER           -> UnknownCall \/ BadModeCall
SimSpec == Init /\ [][SimNext]_vars
=============================================================================
