SPECIFICATION Spec
CONSTANTS
  NRs = {2,3}
  Ns = {0,1,2,3}
  Vals = {0,1}
  Wts = {0,1,2}
  WDen = 1
  SmpMode = "all"
  SampleSpace <- MCSampleSpace
  Part = "trace"
  Assign = "roundrobin"
  Jump = FALSE
  Serialise = TRUE
  NaNTest = "value"
  StrideOff = 0
  ReorderMode = "byweight"
  ZeroGuard = "guarded"
  WSNum = 1
  WSDen = 1
  WScale <- MCWScale
  SummarySource = "gathered"
  Gens = {1,2,3}
  Ordered = TRUE
  Export = FALSE
INVARIANT EachSampleOnce
INVARIANT SummariesEqualSerial
INVARIANT SummaryMeanIsGlobal
INVARIANT NoRankFails
CONSTRAINT Emit
CHECK_DEADLOCK FALSE
