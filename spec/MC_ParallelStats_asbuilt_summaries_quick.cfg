SPECIFICATION Spec
CONSTANTS
  NRs = {2,3}
  Ns = {0,1,2,3}
  Vals = {0,1}
  Wts = {0,1,2}
  WDen = 1
  SmpMode = "all"
  SampleSpace <- MCSampleSpace
  Part = "trace"
  Assign = "roundrobin"
  Jump = FALSE
  Serialise = TRUE
  NaNTest = "value"
  StrideOff = 0
  ReorderMode = "byweight"
  ZeroGuard = "guarded"
  Gens = {1,2,3}
  Ordered = TRUE
  Export = FALSE
INVARIANT EachSampleOnce
INVARIANT SummariesEqualSerial
CONSTRAINT Emit
CHECK_DEADLOCK FALSE
