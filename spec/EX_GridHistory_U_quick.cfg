SPECIFICATION XSpec
CONSTANTS
  Alphabet = "U"
  XMax = 3
  XShape = "fullmiddle"
  HNat <- MCNat
  HMol <- MCMol
  HWins <- MCWins
  HEntries = {"model", "contrib", "full"}
  HSlipKinds = {}
  HLevels = {"request"}
  HKeys = {"none"}
  HWhats = {"sed"}
  HStores = {"last"}
INVARIANT HoldFull
INVARIANT HoldFresh
INVARIANT HoldClipped
CONSTRAINT XBound
CONSTRAINT XEmit
CHECK_DEADLOCK FALSE
