---------------------------- MODULE SourceLayers ----------------------------
(***************************************************************************)
(* C03 -- composition of opacity sources LAYER BY LAYER and per OPACITY     *)
(* MODE.  Compose.tla models which buffers the three public operations read *)
(* and the acc family of MC_Transmission the additivity of the optical      *)
(* depth of given tables; neither varies                                    *)
(*   (1) WHERE in the atmosphere a component has opacity: "each component's *)
(*       opacity is its cross-section weighted ... layer by layer", for all *)
(*       compositions and atmospheres -- so also for a component whose      *)
(*       weighted opacity is exactly zero in some layers only (a partner    *)
(*       species absent at depth, a CIA table that ends below the           *)
(*       temperature of the deep layers, a haze slab), in particular zero   *)
(*       in the layer a ray is tangent in and not above it;                 *)
(*   (2) HOW the molecular absorption is served: from cross-sections, or    *)
(*       from correlated-k tables (opacity_method = ktables), where its     *)
(*       transmittance is a weighted mean over quadrature points and can    *)
(*       only be ADDED to the shared optical-depth buffer as -ln(mean).     *)
(*                                                                         *)
(* Shape of the implementation (transmission.py:path_integral,             *)
(* contribution.py / cia.py / absorption.py:contribute):                   *)
(*   for tangent layer j, for source s in list order:                       *)
(*        IF Integrated(s, j)                        -- the source's guard  *)
(*        THEN tau[j] += sum_{k >= j} sigma_s[k] * seg(j, k)   (cross-sec.) *)
(*             tau[j] += -ln sum_g w_g exp(-sum_k sigma_s[k][g] seg(j, k))  *)
(*                                                             (k-tables)   *)
(* The buffer is kept here as a transmittance Tb = 2^-tau (exact rational), *)
(* so "tau += x" reads "Tb := Tb * 2^-x".                                   *)
(*                                                                         *)
(* Sources 1..NS with NComp[s] components each (source 1 is the molecular   *)
(* absorption: the only one that can be served by k-tables).  a[s][c][k] is *)
(* the weighted opacity x density of component c of source s in layer k     *)
(* (units of ln 2 per unit path; 0 = exactly no opacity in that layer).     *)
(* Layers 1..NL bottom-up; segment i of the ray tangent in layer j crosses  *)
(* layer j+i-1 and has length 1 (i = 1) or Seg2 (i > 1).  A k-configuration *)
(* kc = [mul, w]: the coefficient of quadrature point g is mul[g] x a, its  *)
(* weight w[g] / sum(w).                                                    *)
(*                                                                         *)
(* Design variants (non-vacuity, each must be refuted):                     *)
(*   Guard = "none"     documented: every source is integrated              *)
(*           "support"  licensed: a part with no opacity in ANY layer from  *)
(*                      the tangent layer up is skipped (same value)        *)
(*           "tangent"  the part is skipped when it has no opacity in the   *)
(*                      TANGENT layer (looks at one row, integrates many)   *)
(*           "top"      same slip, looking at the top layer only            *)
(*   KAvg  = "own"      documented: mean over g of the source's own         *)
(*                      transmittance                                       *)
(*           "total"    mean taken over the optical depth already in the    *)
(*                      buffer plus the source's own, then ADDED: whatever  *)
(*                      was accumulated before is counted twice             *)
(*                                                                         *)
(* Round 5 -- the MAGNITUDE of the abundance as a dimension.  "A            *)
(* component's weighted opacity is proportional to its abundance" for all   *)
(* compositions: the mixing ratio of a component in a layer is 10^-e with e *)
(* on the lattice AbExps (the whole documented domain, 1e-20 .. 0.1; AbOrd  *)
(* is the ordinary abundance every earlier fixture used), and its           *)
(* cross-section is 10^e times larger, so that the weighted opacity -- and  *)
(* the optical depth -- is of order one at EVERY magnitude.  Magnitudes are *)
(* kept as <<mantissa, decade>> (32-bit integers cannot hold 1e20).         *)
(*   AbFloor = 99   documented: weighted = cross-section x mixing ratio     *)
(*           = n    a mixing ratio below 10^-n is taken as "absent" (a      *)
(*                  threshold where a test for zero was meant): refuted on  *)
(*                  ProportionalToAbundance and LayerByLayer                *)
(***************************************************************************)
EXTENDS Integers, Sequences, FiniteSets, TLC, Rat, Json

CONSTANTS NL,        \* number of layers
          NComp,     \* sequence: number of components of each source
          AVals,     \* values of a[s][c][k]
          Seg2,      \* length of the chord segments above the tangent one
          Modes,     \* subset of {"xsec", "ktables"}
          KCfgs,     \* k-configurations (ktables mode)
          Guard, KAvg,
          AbExps,    \* lattice of abundance exponents: mixing ratio 10^-e
          AbOrd,     \* the ordinary exponent (every component but at most one has it in every layer)
          AbFloor,   \* 99: none (documented) | n: the implementation ignores mixing ratios below 10^-n
          OnlyBasis, \* TRUE: only the input classes that are exported (at most two components deviate from
                     \* "opacity in every layer"); FALSE: every input
          Export

VARIABLES phase, inp, out
vars == <<phase, inp, out>>

NS == Len(NComp)
Srcs == 1..NS
Layers == 1..NL
Comps(s) == 1..NComp[s]
\* constants for the configs (no tuples in .cfg files)
DefNComp == <<2, 2, 1>>
DefNCompA == <<2, 1, 1>>
DefKCfgs == {[mul |-> <<1, 1>>, w |-> <<1, 1>>],      \* degenerate table: every quadrature point the same
             [mul |-> <<0, 2>>, w |-> <<3, 1>>]}      \* generic: a transparent and an opaque quadrature point
NoK == [mul |-> <<1>>, w |-> <<1>>]
Perms(S) == {p \in [1..Cardinality(S) -> S] : \A i, j \in 1..Cardinality(S) : i # j => p[i] # p[j]}

Seg(i) == IF i = 1 THEN 1 ELSE Seg2
RECURSIVE SumLayers(_, _, _, _, _)
\* sum_{k = kk .. NL} a[s][c][k] * seg(j, k)
SumLayers(a, s, c, j, kk) == IF kk > NL THEN 0 ELSE a[<<s, c>>][kk] * Seg(kk - j + 1) + SumLayers(a, s, c, j, kk + 1)
RECURSIVE SumComps(_, _, _, _)
SumComps(a, s, C, j) == IF C = {} THEN 0
                        ELSE LET c == CHOOSE x \in C : TRUE IN SumLayers(a, s, c, j, j) + SumComps(a, s, C \ {c}, j)
IsK(s, mode) == mode = "ktables" /\ s = 1
Degenerate(kc) == \A g \in DOMAIN kc.mul : kc.mul[g] = kc.mul[1]
RECURSIVE SumSeqInt(_)
SumSeqInt(q) == IF q = <<>> THEN 0 ELSE Head(q) + SumSeqInt(Tail(q))

\* weighted mean over the quadrature points of 2^-(before + mul[g] * t)
RECURSIVE KSum(_, _, _, _)
KSum(kc, t, before, g) == IF g = 0 THEN RZero
                          ELSE RAdd(RMul(Q(kc.w[g]), Pow2Neg(before + kc.mul[g] * t)), KSum(kc, t, before, g - 1))
KMean(kc, t, before) == RDiv(KSum(kc, t, before, Len(kc.w)), Q(SumSeqInt(kc.w)))

\* ---------------------------------------------------------------- documented
\* transmittance of the part C (a set of components) of source s, for the ray tangent in layer j
DocTrans(a, s, C, j, mode, kc) ==
    LET t == SumComps(a, s, C, j)
    IN  IF IsK(s, mode) THEN KMean(kc, t, 0) ELSE Pow2Neg(t)

\* ------------------------------------------------------------ implementation
Integrated(a, s, C, j) ==
    CASE Guard = "none"    -> TRUE
      [] Guard = "support" -> \E c \in C : \E k \in j..NL : a[<<s, c>>][k] > 0
      [] Guard = "tangent" -> \E c \in C : a[<<s, c>>][j] > 0
      [] Guard = "top"     -> \E c \in C : a[<<s, c>>][NL] > 0
\* the buffer after the part of source s was added to a buffer holding Tb
AddPart(Tb, a, s, C, j, mode, kc) ==
    IF ~Integrated(a, s, C, j) THEN Tb
    ELSE IF IsK(s, mode) /\ KAvg = "total"
         THEN \* mean_g exp(-(tau_before + tau_g)) = Tb * mean_g exp(-tau_g); its -ln is ADDED to tau_before
              RMul(Tb, RMul(Tb, KMean(kc, SumComps(a, s, C, j), 0)))
         ELSE RMul(Tb, DocTrans(a, s, C, j, mode, kc))
\* model(): every source of the list p (whole sources), in list order
RECURSIVE ModelT(_, _, _, _, _, _)
ModelT(a, p, i, j, mode, kc) ==
    IF i = 0 THEN ROne
    ELSE AddPart(ModelT(a, p, i - 1, j, mode, kc), a, p[i], Comps(p[i]), j, mode, kc)
Ident == [i \in Srcs |-> i]
AllPerms == Perms(Srcs)

CompIdx == {<<s, c>> : s \in Srcs, c \in 1..2} \cap {x \in Srcs \X (1..2) : x[2] <= NComp[x[1]]}
\* a is a function of the component <<s, c>>; the paper notation a[s][c][k] reads a[<<s, c>>][k] below
Deviating(a) == {x \in CompIdx : \E k \in Layers : a[x][k] = 0}
Basis(i) == Cardinality(Deviating(i.a)) <= 2
\* cross-section mode has no k-configuration
Canon(i) == (i.mode = "xsec") = (i.kc = NoK)

\* ---- magnitudes <<mantissa, decade>> = mantissa x 10^decade
DMul(x, y) == <<x[1] * y[1], x[2] + y[2]>>
MixOf(i, x, k) == <<1, 0 - i.e[x][k]>>                  \* the mixing ratio 10^-e
XSecOf(i, x, k) == <<i.a[x][k], i.e[x][k]>>             \* the cross-section: large enough for a weighted opacity a
DocWeighted(i, x, k) == DMul(XSecOf(i, x, k), MixOf(i, x, k))
\* the implementation's weighted opacity of component x in layer k
Weighted(i, x, k) == IF AbFloor < 99 /\ i.e[x][k] > AbFloor THEN <<0, 0>> ELSE DocWeighted(i, x, k)
\* ... which is what its kernels integrate (decade 0 by construction: FitsInv)
EffA(i) == [x \in CompIdx |-> [k \in Layers |-> Weighted(i, x, k)[1]]]

Eval(i) == LET ea == EffA(i) IN
           [all  |-> [j \in Layers |-> ModelT(ea, Ident, NS, j, i.mode, i.kc)],
            src  |-> [s \in Srcs |-> [j \in Layers |-> AddPart(ROne, ea, s, Comps(s), j, i.mode, i.kc)]],
            comp |-> [s \in Srcs |-> [c \in Comps(s) |-> [j \in Layers |-> AddPart(ROne, ea, s, {c}, j, i.mode, i.kc)]]],
            sig  |-> [s \in Srcs |-> [c \in Comps(s) |-> [k \in Layers |-> Weighted(i, <<s, c>>, k)]]]]

Init == /\ phase = "in" /\ out = <<>>
        /\ \E a \in [CompIdx -> [Layers -> AVals]], m \in Modes, kc \in KCfgs \cup {NoK} :
               /\ Canon([a |-> a, mode |-> m, kc |-> kc])
               /\ (OnlyBasis => Basis([a |-> a]))
               \* at most ONE component leaves the ordinary abundance (any exponent pattern over the layers); it is then
               \* also the only one that may lack opacity somewhere
               /\ \E x0 \in CompIdx, pe \in [Layers -> AbExps] :
                      /\ ((\E k \in Layers : pe[k] # AbOrd) => Deviating(a) \subseteq {x0})
                      \* exported classes: one magnitude besides the ordinary one (uniform, or in some layers only)
                      /\ (OnlyBasis => \E v \in AbExps : \A k \in Layers : pe[k] \in {AbOrd, v})
                      /\ inp = [a |-> a, mode |-> m, kc |-> kc,
                                e |-> [x \in CompIdx |-> IF x = x0 THEN pe ELSE [k \in Layers |-> AbOrd]]]
Evaluate == phase = "in" /\ out' = Eval(inp) /\ phase' = "done" /\ UNCHANGED inp
Next == Evaluate
Spec == Init /\ [][Next]_vars
Done == phase = "done"

\* ---------------------------------------------------------------- clauses
\* each source and each component, evaluated on its own (model_contrib / model_full_contrib), is the documented
\* integral over the layers from the tangent layer up -- whatever the opacity of the tangent layer itself
LayerByLayer == Done =>
    \A s \in Srcs : \A j \in Layers :
        /\ out.src[s][j] = DocTrans(inp.a, s, Comps(s), j, inp.mode, inp.kc)
        /\ \A c \in Comps(s) : out.comp[s][c][j] = DocTrans(inp.a, s, {c}, j, inp.mode, inp.kc)
RECURSIVE ProdSrc(_, _, _)
ProdSrc(o, j, s) == IF s = 0 THEN ROne ELSE RMul(o.src[s][j], ProdSrc(o, j, s - 1))
RECURSIVE ProdComp(_, _, _, _)
ProdComp(o, s, j, c) == IF c = 0 THEN ROne ELSE RMul(o.comp[s][c][j], ProdComp(o, s, j, c - 1))
\* the transmittance of the model equals the product of the transmittances of each source alone, in either mode
ProductOverSources == Done => \A j \in Layers :
                          LET pr == ProdSrc(out, j, NS)
                          IN  \A p \in AllPerms : ModelT(EffA(inp), p, NS, j, inp.mode, inp.kc) = pr
\* ... so it does not depend on the order of the contribution list (out.all is the list 1, 2, .., NS)
OrderFree == Done => \A p \in AllPerms : \A j \in Layers : ModelT(EffA(inp), p, NS, j, inp.mode, inp.kc) = out.all[j]
\* each source is the product over its components.  (Correlated-k: the quadrature points of the molecules of one
\* source are taken as perfectly correlated, so the statement holds there for degenerate tables only.)
ProductOverComponents == Done =>
    \A s \in Srcs : (~IsK(s, inp.mode) \/ Degenerate(inp.kc)) =>
        \A j \in Layers : out.src[s][j] = ProdComp(out, s, j, NComp[s])
\* a component without opacity anywhere changes nothing; a ray never sees the layers below its tangent layer
ZeroNeutral == Done =>
    \A s \in Srcs : \A c \in Comps(s) : \A j \in Layers :
        (\A k \in j..NL : inp.a[<<s, c>>][k] = 0) =>
            /\ out.comp[s][c][j] = ROne
            /\ out.src[s][j] = DocTrans(inp.a, s, Comps(s) \ {c}, j, inp.mode, inp.kc)
FitsInv == Done => /\ \A j \in Layers : Fits(out.all[j])
                   /\ \A s \in Srcs : \A c \in Comps(s) : \A k \in Layers : out.sig[s][c][k][2] = 0
\* each component's weighted opacity is its cross-section times its mixing ratio, layer by layer, at EVERY magnitude of
\* the abundance: the quotient weighted / mixing ratio is the cross-section, i.e. the weighted opacity is proportional
\* to the abundance over the whole domain (and a component at exactly zero opacity has exactly none)
ProportionalToAbundance == Done =>
    \A s \in Srcs : \A c \in Comps(s) : \A k \in Layers :
        /\ out.sig[s][c][k] = DocWeighted(inp, <<s, c>>, k)
        /\ DMul(out.sig[s][c][k], <<1, inp.e[<<s, c>>][k]>>) = <<inp.a[<<s, c>>][k], inp.e[<<s, c>>][k]>>

\* ---------------------------------------------------------------- export
\* input classes for the bindings: at most two components deviate from "opacity in every layer"
Nested(a) == [s \in Srcs |-> [c \in Comps(s) |-> a[<<s, c>>]]]
Emit == (Export /\ Done /\ Basis(inp)) =>
            PrintT(<<"VEC", ToJson([a |-> Nested(inp.a), e |-> Nested(inp.e), mode |-> inp.mode, kc |-> inp.kc, seg2 |-> Seg2, out |-> out])>>)
=============================================================================
