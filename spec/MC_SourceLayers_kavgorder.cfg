SPECIFICATION Spec
CONSTANTS
  NL = 2
  NComp <- DefNComp
  AVals = {0,1}
  Seg2 = 1
  Modes = {"xsec","ktables"}
  KCfgs <- DefKCfgs
  Guard = "none"
  KAvg = "total"
  AbExps = {4}
  AbOrd = 4
  AbFloor = 99
  OnlyBasis = TRUE
  Export = FALSE
CONSTRAINT Emit
CHECK_DEADLOCK FALSE
INVARIANT OrderFree
