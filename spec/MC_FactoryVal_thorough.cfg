SPECIFICATION Spec
CONSTANTS
  Collapse1 = FALSE
  ScalarTier = "all"
INVARIANT ListStaysList
INVARIANT ScalarStaysScalar
INVARIANT ElementsTyped
INVARIANT ScalarsTyped
INVARIANT DocumentedTypeHolds
INVARIANT ValFits
CONSTRAINT Emit
CHECK_DEADLOCK FALSE
