SPECIFICATION Spec
CONSTANTS
  Pos = {0,1,2,3,4,5}
  Mode = "filtered"
  Export = FALSE
INVARIANT OwnPointsUnchanged
CONSTRAINT Emit
CHECK_DEADLOCK FALSE
