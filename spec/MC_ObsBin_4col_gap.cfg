SPECIFICATION Spec
CONSTANTS
  WLS = {4,5,10,20}
  NMin = 2
  NMax = 3
  NCols = {4}
  NMax3 = 0
  Wids = {1,7}
  H = 200
  U = 25
  AlgVariant = "ok"
  Cuts = {"low", "high", "gap"}
  Export = FALSE
INVARIANT ModelCovered
INVARIANT AllNumWhenCovered
INVARIANT ModelWithItsRow
INVARIANT ModelPermutationInvariant
INVARIANT ModelBetween
INVARIANT OnLattice
INVARIANT AlgRefinesObs
INVARIANT WinIsBinning
INVARIANT FitsInv
CONSTRAINT Emit
CHECK_DEADLOCK FALSE
