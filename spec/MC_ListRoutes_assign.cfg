SPECIFICATION Spec
CONSTANTS
  Pairs = {"H2-He", "H2-H2"}
  CountAt = "assign"
  D = 99
  Export = FALSE
VIEW View
CHECK_DEADLOCK FALSE
INVARIANT RouteFree
