SPECIFICATION Spec
CONSTANTS
  Formats = {"pickle", "hdf5", "nemesis"}
  WeightSets <- AllW
  KSeqs <- MCK
  PathLens = {1, 2, 3}
  KMax = 4
  Reversed <- None
  Export = FALSE
INVARIANT NeverAsymmetric
CHECK_DEADLOCK FALSE
