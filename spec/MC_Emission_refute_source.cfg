SPECIFICATION Spec
CONSTANTS
  NL = 3
  NW = 2
  NT = 3
  ECodes = {1, 103}
  TCodes = {123, 131}
  QuadIds = {1}
  ClampE = 15
  SlackE = 14
  Variant = "source_reused_if_close"
  Btab <- MCBtab
  Bstar <- MCBstar
  TabId = 1
  Rp = 2
  Rs = 5
  Dist = 3
  KD = 2
  Export = FALSE
  InterpIds = {}
INVARIANT PerLayerSource
CONSTRAINT Emit
CHECK_DEADLOCK FALSE
