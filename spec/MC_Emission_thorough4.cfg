SPECIFICATION Spec
CONSTANTS
  NL = 4
  NW = 2
  NT = 3
  ECodes = {0, 1, 100, 1515, 1501, 115}
  TCodes = {1111,1112,1113,1121,1122,1123,1131,1132,1133,1211,1212,1213,1221,1222,1223,1231,1232,1233,1311,1312,1313,1321,1322,1323,1331,1332,1333,2131,2211,2212,2213,2221,2222,2223,2231,2232,2233,2311,2312,2313,2321,2322,2323,2331,2332,2333,3123,3211,3311,3312,3313,3321,3322,3323,3331,3332,3333}
  QuadIds = {4}
  ClampE = 15
  SlackE = 14
  Variant = "code"
  Btab <- MCBtab
  Bstar <- MCBstar
  TabId = 2
  Rp = 2
  Rs = 5
  Dist = 3
  KD = 2
  Export = FALSE
INVARIANT TelescopingPartial
INVARIANT Telescoping
INVARIANT CoefNonNeg
INVARIANT OwnTemperaturesOnly
INVARIANT IsothermalIdentity
INVARIANT HotColdBounds
INVARIANT FluxIdentityIffWeights
INVARIANT FluxBounds
INVARIANT EclipseIsothermalRatio
INVARIANT EclipseBounds
INVARIANT DirectProportional
INVARIANT FitsInv
INVARIANT FluxIsothermalIdentity
CONSTRAINT Emit
CHECK_DEADLOCK FALSE
