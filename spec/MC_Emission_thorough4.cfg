SPECIFICATION Spec
CONSTANTS
  NL = 4
  NW = 2
  NT = 3
  ECodes = {0, 1, 100, 1515, 1501, 115}
  TCodes = {1111,2222,3333,1123,1223,1233,3211,3321,3221,2131,3123,1323,1212,2121,1313,3131,2323,3232,1132,2213,3312,1231,2312,3121,1112,2221,3332,1333,1322,2113}
  QuadIds = {4}
  ClampE = 15
  SlackE = 14
  Variant = "code"
  Btab <- MCBtab
  Bstar <- MCBstar
  TabId = 2
  Rp = 2
  Rs = 5
  Dist = 3
  KD = 2
  Export = FALSE
  InterpIds = {}
INVARIANT TelescopingPartial
INVARIANT Telescoping
INVARIANT CoefNonNeg
INVARIANT OwnTemperaturesOnly
INVARIANT PerLayerSource
INVARIANT IsothermalIdentity
INVARIANT HotColdBounds
INVARIANT FluxIdentityIffWeights
INVARIANT FluxBounds
INVARIANT EclipseIsothermalRatio
INVARIANT EclipseBounds
INVARIANT DirectProportional
INVARIANT FitsInv
INVARIANT FluxIsothermalIdentity
CONSTRAINT Emit
CHECK_DEADLOCK FALSE
