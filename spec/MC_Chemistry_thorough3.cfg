SPECIFICATION Spec
CONSTANTS
  NL = 3
  MaxFill = 3
  MaxTrace = 2
  RatioNums = {1,3}
  RatioDen = 4
  AbNums = {0,1,3,4,5}
  AbDen = 8
  Variant = "spec"
  Export = FALSE
INVARIANT NonNegative
INVARIANT SumsToOne
INVARIANT FillRatiosExact
INVARIANT TracesUntouched
INVARIANT OneRowPerGas
INVARIANT InvalidIffExceedsOne
INVARIANT MuIsWeightedMean
INVARIANT ScalarMuAtSurface
INVARIANT ActiveSplit
INVARIANT FitsInv
CONSTRAINT Emit

CHECK_DEADLOCK FALSE
