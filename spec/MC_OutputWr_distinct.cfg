SPECIFICATION Spec
CONSTANTS
  Keys = {"a","b","c"}
  NVals = 3
  InputClass = "distinct"
INVARIANT Exposes
INVARIANT Faithful
CHECK_DEADLOCK FALSE
