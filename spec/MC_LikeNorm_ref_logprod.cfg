SPECIFICATION Spec
CONSTANTS
  Rule = "logprod"
  NSet = {3, 24, 150, 400}
  USel = {1, 2, 3}
  SBaseSet = {4}
  ARef = 2
  Export = FALSE
INVARIANT NormIsSumOfLogs
CONSTRAINT Emit
CHECK_DEADLOCK FALSE
