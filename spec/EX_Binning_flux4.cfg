SPECIFICATION Spec
CONSTANTS
  E = 5
  KMin = 4
  KMax = 4
  TES = {0,2,3,5,7}
  TShift = 1
  NTgtMin = 1
  NTgtMax = 1
  Vals = {0}
  FMode = "generic"
  Kinds = {"flux"}
  Variant = "ok"
  Export = TRUE
INVARIANT WellFormed
INVARIANT OutIsSortedOrder
INVARIANT FitsInv
CONSTRAINT Emit
CHECK_DEADLOCK FALSE
