----------------------------- MODULE FactoryBin -----------------------------
(***************************************************************************)
(* C15 -- the [Binning] section and its interaction with [Observation] and *)
(* [Instrument]: which resampler the command-line program uses and on      *)
(* which grid ("Running the command-line program on an input file produces *)
(* the same spectrum as building the same components through the           *)
(* library").                                                              *)
(*                                                                         *)
(* binning.rst:                                                            *)
(*   bin_type = native    Spectra is not resampled; default when no        *)
(*                        [Observation] is given                           *)
(*   bin_type = observed  Resample to observation grid; default when an    *)
(*                        [Observation] is given                           *)
(*   bin_type = manual    start, end, number of points through ONE of      *)
(*       wavelength_grid      equally spaced grid in wavelength (um)       *)
(*       wavenumber_grid      equally spaced grid in wavenumber (cm-1)     *)
(*       log_wavelength_grid  equally log-spaced grid in wavelength        *)
(*       log_wavenumber_grid  equally log-spaced grid in wavenumber        *)
(*       wavelength_res       start, end, resolution R = lambda / dlambda  *)
(*     accurate = True  -> the occupancy-weighted resampler (FluxBinner),  *)
(*     otherwise the histogramming one (SimpleBinner)                      *)
(* instrument.rst: the snr instrument "uses the native spectrum as the     *)
(*   grid, unless a manual binning is defined in which case that is used". *)
(*                                                                         *)
(* One configuration = what is written: bin_type (or no [Binning]), its    *)
(* spelling, the grid key with one (start, end, n) triple, `accurate`, an  *)
(* [Observation] (none / 3-column file / 4-column file / self) and an      *)
(* [Instrument] (none / snr).  The grids are exact rationals: the triples  *)
(* are chosen so that the log-spaced grids have a rational common ratio.   *)
(* Select = the program decides which resampler is in force, Build = its   *)
(* grid (ascending wavenumber) and class.                                  *)
(*                                                                         *)
(* Refuted readings (non-vacuity, TLC must refute):                        *)
(*   ObsOverridesNative = TRUE  a written bin_type = native is treated as  *)
(*        "no [Binning]": the observation's grid wins (WrittenBinTypeWins) *)
(*   WlGridLinearInWn = TRUE    wavelength_grid built equally spaced in    *)
(*        wavenumber between the converted end points (GridAsDocumented)   *)
(***************************************************************************)
EXTENDS Integers, Sequences, FiniteSets, TLC, Json, Rat
CONSTANTS NTriples,             \* the first NTriples triples of every grid key take part
          Accurates,            \* spellings of `accurate` in play ("" = not written)
          Spells,               \* spellings of the bin_type value: "lower", "cap", "upper"
          ObsOverridesNative,   \* FALSE
          WlGridLinearInWn      \* FALSE
VARIABLES cfg, stage, eff, grid, klass
vars == <<cfg, stage, eff, grid, klass>>

\* ------------------------------------------------------------------ what can be written
GridKeys == {"wavelength_grid", "wavenumber_grid", "log_wavelength_grid", "log_wavenumber_grid", "wavelength_res"}
Tr(r1, r2, r3, s, e, n) == [raw |-> <<r1, r2, r3>>, s |-> s, e |-> e, n |-> n]
\* (start, end, n | R): raw tokens as written and their exact values; inside the 5 - 25 um window of the fixture's opacities
Triples == [wavelength_grid     |-> <<Tr("6", "20", "5", Q(6), Q(20), 5), Tr("5.5", "16", "8", R(11, 2), Q(16), 8), Tr("7", "19", "4", Q(7), Q(19), 4)>>,
            wavenumber_grid     |-> <<Tr("520", "1880", "5", Q(520), Q(1880), 5), Tr("450.5", "1950.5", "7", R(901, 2), R(3901, 2), 7), Tr("600.5", "1800.5", "4", R(1201, 2), R(3601, 2), 4)>>,
            log_wavelength_grid |-> <<Tr("6.4", "21.6", "4", R(32, 5), R(108, 5), 4), Tr("6", "13.5", "3", Q(6), R(27, 2), 3), Tr("5.5", "22", "3", R(11, 2), Q(22), 3)>>,
            log_wavenumber_grid |-> <<Tr("484", "1633.5", "4", Q(484), R(3267, 2), 4), Tr("505", "2020", "3", Q(505), Q(2020), 3), Tr("516", "1007.8125", "4", Q(516), R(16125, 16), 4)>>,
            wavelength_res      |-> <<Tr("6", "20", "3", Q(6), Q(20), 3), Tr("9", "15", "4", Q(9), Q(15), 4), Tr("5.5", "11", "2", R(11, 2), Q(11), 2)>>]
\* (32-bit integers: the resolution grids stay at R <= 4 so that the cross-multiplications of the invariants fit)
BinTypes == {"absent", "native", "observed", "manual"}
ObsFiles == {"file3", "file4"}
Observations == {"none", "self"} \cup ObsFiles
Instruments == {"none", "snr"}
TrueWords == {"True", "true", "yes", "Yeah"}            \* boolean words of the value grammar (FactoryOps.BoolTrueWords, any case); "False", "no", "nope" are false words
\* the observation the harness writes: wavelength (um), constant depth / error, 4th column = bin width (um)
ObsWl == <<Q(6), Q(8), Q(10), Q(12), Q(14), Q(16), Q(18), Q(20)>>
ObsWidth == Q(2)

Spelled(bt, sp) == CASE sp = "lower" -> bt
                     [] sp = "cap"   -> (CASE bt = "native" -> "Native" [] bt = "observed" -> "Observed" [] bt = "manual" -> "Manual" [] OTHER -> bt)
                     [] OTHER        -> (CASE bt = "native" -> "NATIVE" [] bt = "observed" -> "OBSERVED" [] bt = "manual" -> "MANUAL" [] OTHER -> bt)

Configs ==
    {c \in [bt : BinTypes, spell : Spells, key : GridKeys \cup {""}, tri : 0..NTriples, acc : Accurates, obs : Observations, inst : Instruments] :
        /\ (c.bt = "manual") <=> (c.key # "" /\ c.tri > 0)
        /\ (c.bt # "manual") => (c.acc = "" /\ c.key = "" /\ c.tri = 0)
        /\ (c.bt = "absent") => c.spell = "lower"
        \* `self` = "the current forward model + instrument function": needs the instrument
        /\ (c.obs = "self") => (c.inst = "snr" /\ c.bt # "observed")
        \* the instrument's grid is documented for native / manual only (instrument.rst); the other combinations are left out
        /\ (c.inst = "snr") => (c.bt \in {"native", "manual"} \/ (c.bt = "absent" /\ c.obs \notin ObsFiles))}

\* ------------------------------------------------------------------ exact grids
RECURSIVE RPowR(_, _)
RPowR(r, k) == IF k = 0 THEN ROne ELSE RMul(r, RPowR(r, k - 1))
LinSeq(s, e, n) == [i \in 1..n |-> RAdd(s, RMul(R(i - 1, n - 1), RSub(e, s)))]
GeoSeq(s, r, n) == [i \in 1..n |-> RMul(s, RPowR(r, i - 1))]
\* wavelength (ascending) -> wavenumber (ascending): 10000 / lambda, reversed
InvRev(w) == [i \in 1..Len(w) |-> RDiv(Q(10000), w[Len(w) + 1 - i])]
RatioCands == {R(a, b) : a \in 2..5, b \in 1..4}
GeoRatio(s, e, n) == CHOOSE r \in RatioCands : RPowR(r, n - 1) = RDiv(e, s)
\* resolution grid: contiguous bins with lambda_i = R * dlambda_i, the bin before the first one centred on `start`
\* ((R - 1/2) dl_i = l_(i-1) + dl_(i-1)/2  ==>  l_i = l_(i-1) (2R+1)/(2R-1)); points are added while the previous one is below `end`
ResRatio(res) == R(2 * res + 1, 2 * res - 1)
RECURSIVE ResFrom(_, _, _)
ResFrom(w, e, q) == IF RLt(w, e) THEN <<RMul(w, q)>> \o ResFrom(RMul(w, q), e, q) ELSE <<>>

ManualGrid(key, t) ==
    CASE key = "wavelength_grid"     -> IF WlGridLinearInWn THEN LinSeq(RDiv(Q(10000), t.e), RDiv(Q(10000), t.s), t.n)
                                        ELSE InvRev(LinSeq(t.s, t.e, t.n))
      [] key = "wavenumber_grid"     -> LinSeq(t.s, t.e, t.n)
      [] key = "log_wavelength_grid" -> InvRev(GeoSeq(t.s, GeoRatio(t.s, t.e, t.n), t.n))
      [] key = "log_wavenumber_grid" -> GeoSeq(t.s, GeoRatio(t.s, t.e, t.n), t.n)
      [] OTHER                       -> InvRev(ResFrom(t.s, t.e, ResRatio(t.n)))
TripleOf(c) == Triples[c.key][c.tri]

\* ------------------------------------------------------------------ behaviour
Init == /\ cfg \in Configs
        /\ stage = "read"
        /\ eff = ""
        /\ grid = <<>>
        /\ klass = ""
\* which resampling is in force
Select ==
    /\ stage = "read"
    /\ eff' = CASE cfg.bt = "native"   -> IF ObsOverridesNative /\ cfg.obs \in ObsFiles THEN "observed" ELSE "native"
                [] cfg.bt = "observed" -> IF cfg.obs \in ObsFiles THEN "observed" ELSE "error"
                [] cfg.bt = "manual"   -> "manual"
                [] OTHER               -> IF cfg.obs \in ObsFiles THEN "observed" ELSE "native"
    /\ stage' = "selected"
    /\ UNCHANGED <<cfg, grid, klass>>
\* its grid (ascending wavenumber; the native grid is the model's own and not known here) and class
Build ==
    /\ stage = "selected"
    /\ grid' = CASE eff = "manual"   -> ManualGrid(cfg.key, TripleOf(cfg))
                 [] eff = "observed" -> InvRev(ObsWl)
                 [] OTHER            -> <<>>
    /\ klass' = CASE eff = "manual"   -> IF cfg.acc \in TrueWords THEN "FluxBinner" ELSE "SimpleBinner"
                  [] eff = "observed" -> "FluxBinner"
                  [] eff = "native"   -> "NativeBinner"
                  [] OTHER            -> ""
    /\ stage' = "done"
    /\ UNCHANGED <<cfg, eff>>
Next == Select \/ Build
Spec == Init /\ [][Next]_vars

\* ------------------------------------------------------------------ invariants
Done == stage = "done"
\* a bin_type that is written is the resampling in force (or an error), whatever else the file holds
WrittenBinTypeWins == (Done /\ cfg.bt # "absent") => eff \in {cfg.bt, "error"}
\* no [Binning]: observed when an observation is given, native otherwise
DefaultBinning == (Done /\ cfg.bt = "absent") => eff = (IF cfg.obs \in ObsFiles THEN "observed" ELSE "native")
\* resampling to an observation that does not exist is an error, not a silent fall-back
ObservedNeedsObservation == Done => ((eff = "error") <=> (cfg.bt = "observed" /\ cfg.obs \notin ObsFiles))
\* the manual grid, characterised independently of its construction
EqualSteps(w) == \A i \in 1..(Len(w) - 1) : RSub(w[i + 1], w[i]) = RSub(w[2], w[1])
EqualRatios(w) == \A i \in 1..(Len(w) - 1) : RDiv(w[i + 1], w[i]) = RDiv(w[2], w[1])
Ascending(w) == \A i \in 1..(Len(w) - 1) : RLt(w[i], w[i + 1])
WlOf(g) == InvRev(g)
GridAsDocumented ==
    (Done /\ eff = "manual") =>
        LET t == TripleOf(cfg)
            wl == WlOf(grid)
        IN  /\ Ascending(wl)           \* <=> ascending wavenumbers (InvRev reverses and inverts positive numbers)
            /\ Len(grid) >= 2
            /\ CASE cfg.key = "wavelength_grid"     -> Len(grid) = t.n /\ wl[1] = t.s /\ wl[t.n] = t.e /\ EqualSteps(wl)
                 [] cfg.key = "wavenumber_grid"     -> Len(grid) = t.n /\ grid[1] = t.s /\ grid[t.n] = t.e /\ EqualSteps(grid)
                 [] cfg.key = "log_wavelength_grid" -> Len(grid) = t.n /\ wl[1] = t.s /\ wl[t.n] = t.e /\ EqualRatios(wl)
                 [] cfg.key = "log_wavenumber_grid" -> Len(grid) = t.n /\ grid[1] = t.s /\ grid[t.n] = t.e /\ EqualRatios(grid)
                 [] OTHER                           -> /\ EqualRatios(wl) /\ RDiv(wl[2], wl[1]) = ResRatio(t.n)
                                                       /\ RLt(t.s, wl[1]) /\ RLe(t.e, wl[Len(wl)])
                                                       /\ \A i \in 1..(Len(wl) - 1) : RLt(wl[i], t.e)
\* `accurate` chooses between the two resamplers; absent = the simple one
AccurateSelectsBinner ==
    (Done /\ eff = "manual") => ((klass = "FluxBinner") <=> (cfg.acc \in TrueWords))
\* the instrument works on the grid in force (native unless manual)
InstrumentGridDocumented == (Done /\ cfg.inst = "snr") => eff \in {"native", "manual"}
GridFits == \A i \in 1..Len(grid) : Fits(grid[i])
\* the configurations cover the interaction of the three sections
Covers == /\ \E c \in Configs : c.bt = "native" /\ c.obs \in ObsFiles
          /\ \E c \in Configs : c.bt = "manual" /\ c.obs \in ObsFiles /\ c.inst = "snr"
          /\ \A k \in GridKeys : \E c \in Configs : c.key = k
ASSUME Covers

Emit == Done =>
    PrintT(<<"BIN", ToJson([bt |-> cfg.bt, written |-> Spelled(cfg.bt, cfg.spell), key |-> cfg.key, tri |-> cfg.tri,
                            raw |-> IF cfg.bt = "manual" THEN TripleOf(cfg).raw ELSE <<>>,
                            acc |-> cfg.acc, obs |-> cfg.obs, inst |-> cfg.inst,
                            eff |-> eff, klass |-> klass, grid |-> grid,
                            ratio |-> IF cfg.key = "wavelength_res" THEN ResRatio(TripleOf(cfg).n) ELSE <<0, 1>>,
                            obswl |-> ObsWl, obswidth |-> ObsWidth])>>)
=============================================================================
