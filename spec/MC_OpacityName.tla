--------------------------- MODULE MC_OpacityName ---------------------------
(* C14, file-name part: every name over a small alphabet up to length MaxLen  *)
(* with its sanitised form, and the unit factors, exported for binding A.     *)
EXTENDS OpacityFiles, SequencesExt, FiniteSets, TLC, Json
CONSTANTS Upper, Lower, Digit, Other, MaxLen
VARIABLES phase, nm
Alphabet == {[c |-> "U", s |-> x] : x \in Upper} \cup {[c |-> "l", s |-> x] : x \in Lower}
            \cup {[c |-> "d", s |-> x] : x \in Digit} \cup {[c |-> "x", s |-> x] : x \in Other}
\* documented / realistic file-name parts beyond the small alphabet
UpAll == {"A","B","C","D","E","F","G","H","I","K","L","M","N","O","P","R","S","T","V","Z"}
LoAll == {"a","e","i","l","o","r","u"}
DiAll == {"0","1","2","3","4","5","6","7","8","9"}
Mk(chars) == [i \in 1..Len(chars) |-> [c |-> IF chars[i] \in UpAll THEN "U" ELSE IF chars[i] \in LoAll THEN "l"
                                               ELSE IF chars[i] \in DiAll THEN "d" ELSE "x", s |-> chars[i]]]
ExtraNames == {Mk(<<"1","H","2","-","1","6","O">>), Mk(<<"1","2","C","-","1","6","O","2">>),
               Mk(<<"H","2","O">>), Mk(<<"C","H","4">>), Mk(<<"N","a">>), Mk(<<"T","i","O">>),
               Mk(<<"1","H","2","-","1","6","O","_","_","P","O","K","A","Z","A","T","E","L">>),
               Mk(<<"4","8","T","i","-","1","6","O">>), Mk(<<"h","2","o">>), Mk(<<"C","2","H","2">>)}
Names == UNION {[1..n -> Alphabet] : n \in 1..MaxLen} \cup ExtraNames
NInit == phase = "in" /\ nm \in Names
NEval == phase = "in" /\ phase' = "done" /\ UNCHANGED nm
NSpec == NInit /\ [][NEval]_<<phase, nm>>
Str(s) == [i \in 1..Len(s) |-> s[i].s]
\* sanitising is idempotent and only ever drops characters
Idempotent == Sanitise(Sanitise(nm)) = Sanitise(nm)
OnlyDrops  == Len(Sanitise(nm)) <= Len(nm) /\ \A i \in 1..Len(Sanitise(nm)) : Sanitise(nm)[i].c # "x"
StartsUpper == Sanitise(nm) # <<>> => Sanitise(nm)[1].c = "U"
NEmit == (phase = "done") => PrintT(<<"NAME", ToJson([name |-> Str(nm), out |-> Str(Sanitise(nm))])>>)
UEmit == (phase = "done" /\ Len(nm) = 1 /\ nm[1].s = "H") =>
           PrintT(<<"UNIT", ToJson([Pa |-> PressureFactor("Pa"), bar |-> PressureFactor("bar"), atm |-> PressureFactor("atm"),
                                    mbar |-> PressureFactor("mbar"), exotransmit |-> XsecFactor("exotransmit"),
                                    pickle |-> XsecFactor("pickle"), hdf5 |-> XsecFactor("hdf5"),
                                    hitran |-> CiaFactor("hitran"), ciapickle |-> CiaFactor("pickle"), exown |-> ExoWavenumberNumerator])>>)
=============================================================================
