--------------------------- MODULE MC_OpacityName ---------------------------
(* C14, file-name part: every name over a small alphabet up to length MaxLen  *)
(* with its sanitised form, and the unit factors, exported for binding A.     *)
EXTENDS OpacityFiles, SequencesExt, FiniteSets, TLC, Json
CONSTANTS Upper, Lower, Digit, Other, MaxLen
VARIABLES phase, nm
Alphabet == {[c |-> "U", s |-> x] : x \in Upper} \cup {[c |-> "l", s |-> x] : x \in Lower}
            \cup {[c |-> "d", s |-> x] : x \in Digit} \cup {[c |-> "x", s |-> x] : x \in Other}
Names == UNION {[1..n -> Alphabet] : n \in 1..MaxLen}
NInit == phase = "in" /\ nm \in Names
NEval == phase = "in" /\ phase' = "done" /\ UNCHANGED nm
NSpec == NInit /\ [][NEval]_<<phase, nm>>
Str(s) == [i \in 1..Len(s) |-> s[i].s]
\* sanitising is idempotent and only ever drops characters
Idempotent == Sanitise(Sanitise(nm)) = Sanitise(nm)
OnlyDrops  == Len(Sanitise(nm)) <= Len(nm) /\ \A i \in 1..Len(Sanitise(nm)) : Sanitise(nm)[i].c # "x"
StartsUpper == Sanitise(nm) # <<>> => Sanitise(nm)[1].c = "U"
NEmit == (phase = "done") => PrintT(<<"NAME", ToJson([name |-> Str(nm), out |-> Str(Sanitise(nm))])>>)
UEmit == (phase = "done" /\ Len(nm) = 1 /\ nm[1].s = "H") =>
           PrintT(<<"UNIT", ToJson([Pa |-> PressureFactor("Pa"), bar |-> PressureFactor("bar"), atm |-> PressureFactor("atm"),
                                    mbar |-> PressureFactor("mbar"), exotransmit |-> XsecFactor("exotransmit"),
                                    pickle |-> XsecFactor("pickle"), hdf5 |-> XsecFactor("hdf5"),
                                    hitran |-> CiaFactor("hitran"), ciapickle |-> CiaFactor("pickle"), exown |-> ExoWavenumberNumerator])>>)
=============================================================================
