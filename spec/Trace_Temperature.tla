--------------------------- MODULE Trace_Temperature ---------------------------
(* C12, binding B.  Every event is one real profile evaluation                    *)
(*   TemperatureProfile.initialize_profile(planet, n, pressure); .profile         *)
(*  ev = "range":  iso / npoint / array / rodgers for some layer count; logged    *)
(*       values are round(T * S).  Clauses: one value per layer, finite positive, *)
(*       within the control range, constant when the controls are equal; for      *)
(*       npoint TLC decides from the logged nodes (log10 P in 1/100 decade, T in  *)
(*       K, both exact; sign of every node pressure in e.sg: an intermediate node *)
(*       may be zero or negative) whether the profile had to be rejected.         *)
(*  ev = "npoint": logspace grid with nodes on whole decades; TLC re-evaluates    *)
(*       NPointProfile (log-pressure unit = 1/(n-1) decade) layer by layer.       *)
(*  ev = "guillot": outcome classification (listed non-physical sets must be      *)
(*       rejected, physical sets must give the closed form, nothing is ever NaN   *)
(*       or non-positive) and the assembled closed form on quantised operands.    *)
EXTENDS Temperature, IOUtils, TLCExt
VARIABLE l
TraceLog == ndJsonDeserialize(IOEnv.TRACE_FILE)
AbsI(a) == IF a < 0 THEN -a ELSE a

ProfileClauses(e) ==
    /\ e.len = e.n
    /\ Len(e.v) = e.n
    /\ e.nonfinite = 0 /\ e.nonpos = 0 /\ e.below = 0 /\ e.above = 0
    /\ \A i \in 1..Len(e.v) : e.v[i] > 0 /\ e.v[i] >= e.lo - e.tol /\ e.v[i] <= e.hi + e.tol
    /\ (e.lo = e.hi) => (e.constbad = 0 /\ \A i \in 1..Len(e.v) : AbsI(e.v[i] - e.lo) <= e.tol)

OkRange(e) ==
    IF e.kind = "npoint"
    THEN LET inv    == NPointInvalidS(e.tn, e.pn, e.sg, e.lim)          \* node pressure i = e.sg[i] * 10^(e.pn[i]/100)
             strict == NPointStrictlyInvalidS(e.tn, e.pn, e.sg, e.lim)
         IN  IF strict THEN e.outcome = "invalid"
             ELSE IF inv THEN e.outcome = "invalid" \/ (e.outcome = "ok" /\ ProfileClauses(e))   \* boundary tie
             ELSE e.outcome = "ok" /\ ProfileClauses(e)
    ELSE e.outcome = "ok" /\ ProfileClauses(e)

OkNPoint(e) ==
    LET LP  == [i \in 1..e.n |-> e.pa * (e.n - 1) - (e.pa - e.pb) * (i - 1)]
        Pn  == [i \in 1..Len(e.pd) |-> e.pd[i] * (e.n - 1)]
        p   == NPointProfile(e.tn, Pn, LP, e.sw, "spec")
    IN  /\ e.outcome = "ok"
        /\ Len(e.v) = e.n
        /\ \A i \in 1..e.n : Close(e.v[i], e.S, p[i], e.tol)

\* e.cat: "listed" | "physical" | "other";  e.outcome: "invalid" | "ok" | "bad" (NaN, zero, negative, wrong length, other error)
GuillotAssembled(e) ==
    \* y, a, w, e1, e2 in units 1/S ; alpha = an/ad ;  y = a + w((1-alpha) e1 + alpha e2)
    \A i \in 1..e.n :
        AbsI(e.y[i] * e.S * e.ad - (e.a[i] * e.S * e.ad + e.w * ((e.ad - e.an) * e.e1[i] + e.an * e.e2[i]))) <= e.qtol
OkGuillot(e) ==
    /\ e.outcome \in {"invalid", "ok"}
    /\ (e.cat = "listed") => e.outcome = "invalid"
    /\ (e.cat = "physical") => e.outcome = "ok"
    /\ (e.outcome = "ok") => /\ e.len = e.n /\ e.nonfinite = 0 /\ e.nonpos = 0
                             /\ e.closedbad = 0    \* counted for physical sets and for alpha outside [0,1] where the closed form stays positive
                             /\ (e.assembled => GuillotAssembled(e))

Ok(e) == CASE e.ev = "range"   -> OkRange(e)
           [] e.ev = "npoint"  -> OkNPoint(e)
           [] e.ev = "guillot" -> OkGuillot(e)

Init == l = 1
Step == /\ l <= Len(TraceLog)
        /\ LET e == TraceLog[l] IN
             IF Ok(e) THEN TRUE ELSE PrintT(<<"BAD", ToJson([l |-> l, id |-> e.id, ev |-> e.ev])>>)
        /\ l' = l + 1
Spec == Init /\ [][Step]_l
Accepted == TLCGet("stats").diameter - 1 = Len(TraceLog)
=============================================================================
