------------------------------ MODULE PostStats ------------------------------
(***************************************************************************)
(* C18 (round 4) -- the FAMILY of statistics one post-processing run       *)
(* reports.  ParallelStats models ONE accumulator; a run of                *)
(* SimpleForwardModel.compute_error keeps one accumulator per reported     *)
(* quantity: the temperature profile, the active and inactive mixing       *)
(* profiles, the native and the binned spectrum are always there           *)
(* (Required), others only for some model configurations (Optional: the    *)
(* condensate profiles of a chemistry that reports condensates -- the      *)
(* documented hook of equilibrium-chemistry plugins).  The property is a   *)
(* statement about EVERY standard deviation the run returns, for every     *)
(* configuration: each one is the two-pass weighted statistic of all       *)
(* samples, on every rank.                                                 *)
(*                                                                         *)
(* conf    the optional quantities the model reports (every subset)        *)
(* Every quantity q is an affine image QA(q) * v + QB(q) of the sample     *)
(* value (as in the fixture model of the bindings), accumulated by every   *)
(* rank over its round-robin share and combined by ParVar over the         *)
(* serialised contributions of all ranks (ParallelStatsOps).               *)
(* LocalQs (expected counterexample): quantities whose spread a rank reads *)
(* from ITS OWN accumulator (`acc.variance` for `acc.parallelVariance()`): *)
(* harmless on one rank, another number on every rank otherwise, NaN on a  *)
(* rank that holds fewer than two samples.                                 *)
(***************************************************************************)
EXTENDS ParallelStatsOps
CONSTANTS NRs,          \* rank counts
          SampleSpace,  \* sample sequences [v, w]
          Required,     \* quantities every configuration reports
          Optional,     \* quantities only some configurations report
          LocalQs,      \* {} ; quantities NOT combined across the ranks (expected counterexample)
          Ordered       \* TRUE: the ranks report in rank order (exports: interleavings add nothing here)
VARIABLES nr, smp, conf, rep
vars == <<nr, smp, conf, rep>>

N == Len(smp)
Ranks == 1..nr
Reported == Required \cup conf
\* affine image of the sample value per quantity (slopes of both signs and sizes; offsets irrelevant to the spread)
QA(q) == CASE q = "temp" -> 2 [] q = "active" -> 1 [] q = "inactive" -> -1 [] q = "cond" -> 3
           [] q = "native" -> 1 [] q = "binned" -> -2 [] OTHER -> 1
QB(q) == CASE q = "temp" -> 10 [] q = "active" -> 1 [] q = "inactive" -> 9 [] q = "cond" -> 0
           [] q = "native" -> 4 [] q = "binned" -> 8 [] OTHER -> 0
Image(q, s) == [i \in 1..Len(s) |-> [v |-> RAdd(RMul(Q(QA(q)), s[i].v), Q(QB(q))), w |-> s[i].w]]
Mine(r) == Slice(r - 1, nr, N)                           \* sample_list[rank::size]
AccOf(r, q) == FoldAcc(Acc0, SubSamples(Image(q, smp), Mine(r)), 1)
Posted(q) == [p \in 1..nr |-> SerC(Contribution(AccOf(p, q)))]
VarOf(r, q) == IF q \in LocalQs THEN AccVar(AccOf(r, q))
               ELSE ParVar("value", Posted(q)).var

Init == /\ nr \in NRs
        /\ smp \in SampleSpace
        /\ conf \in SUBSET Optional
        /\ rep = [r \in 1..nr |-> <<>>]
Report(r) == /\ rep[r] = <<>>
             /\ Ordered => \A p \in 1..(r - 1) : rep[p] # <<>>
             /\ rep' = [rep EXCEPT ![r] = <<[q \in Reported |-> VarOf(r, q)]>>]
             /\ UNCHANGED <<nr, smp, conf>>
ReportStep == \E r \in Ranks : Report(r)
Next == ReportStep
Spec == Init /\ [][Next]_vars

Done(r) == rep[r] # <<>>
\* the returned dictionaries hold one entry per quantity of the configuration: none missing, none invented
ReportsEveryStatistic == \A r \in Ranks : Done(r) => DOMAIN rep[r][1] = Required \cup conf
\* every entry, of every configuration, on every rank: the two-pass variance of ALL samples (times slope^2)
EveryStatisticIsCombined ==
    \A r \in Ranks : Done(r) => \A q \in DOMAIN rep[r][1] :
        IF N < 2 THEN IsNaNValue(rep[r][1][q])
        ELSE Defined(smp) => rep[r][1][q] = Num(RMul(Q(QA(q) * QA(q)), TwoPassVar(PosSamples(smp))))
SameOnEveryRank ==
    \A r1 \in Ranks, r2 \in Ranks : (Done(r1) /\ Done(r2)) =>
        \A q \in DOMAIN rep[r1][1] : SameX(rep[r1][1][q], rep[r2][1][q])
\* lemma the bindings rely on: the spread of an affine image is |slope| times the spread of the sample value
\* (a statement about the sample set alone: evaluated once per behaviour, in its initial state)
AffineLemma == (N >= 1 /\ Defined(smp) /\ \A r \in Ranks : ~Done(r)) =>
    \A q \in Required \cup Optional : TwoPassVar(Image(q, smp)) = RMul(Q(QA(q) * QA(q)), TwoPassVar(smp))
FitsInv == \A r \in Ranks : Done(r) => \A q \in DOMAIN rep[r][1] : IsNum(rep[r][1][q]) => Fits(rep[r][1][q][2])
=============================================================================
