--------------------------- MODULE MC_PriorObject ---------------------------
(* C08 over the life of ONE prior object.  "Each prior maps the unit interval monotonically onto its support exactly   *)
(* as the inverse CDF of the named distribution (uniform between its bounds whatever their order ...)" is a statement    *)
(* about the bounds the object HAS -- the ones it reports with boundaries() / params() and the ones that were given      *)
(* last, by the constructor or by the public setter set_bounds --, not about the bounds it was born with.  A prior        *)
(* object lives as long as the optimizer it is attached to; a script narrows its support between two fits, a second      *)
(* prior of the same class is built next to it, the array the bounds came in is used by the caller for something else.  *)
(*                                                                                                                     *)
(* Two objects: `main` (made first, by direct construction or from text, from any constructor form of MC_Priors that    *)
(* the walk draws) and `other` (made at any time).  Steps:                                                               *)
(*    Set(who, b, ct)   who.set_bounds(<container ct holding b>)    uniform kinds (the classes that have the setter);   *)
(*                      b in either order, equal to the present bounds or not                                            *)
(*    Make(c, how)      other := the prior of call c, built directly or from its text                                    *)
(*    Reuse(who)        the caller overwrites the contents of the container it handed to `who` last (it is the caller's)  *)
(*    Look              nothing: the objects are evaluated once more                                                    *)
(* After every step either object samples on, reports and delivers the support given to IT last (ObjectInv):              *)
(*    samp = rep = normal form of (kind, last)     samp: what sample(u) inverts;  rep: what boundaries()/params() report *)
(* Expected-counterexample variants (TLC must refute ObjectInv):                                                         *)
(*    Setter = "support_frozen"   the sampling distribution is fixed when the object is made; set_bounds changes what is  *)
(*                                reported only                                                                          *)
(*    Setter = "class_level"      set_bounds stores the support on the class: every object of the kind follows             *)
(*    Setter = "by_reference"     the object keeps the caller's container and reads it at every sample                     *)
EXTENDS Priors, IOUtils
CONSTANTS QNum, QShift, QDen, ENum, EShift, SNum, SDen,
          Conts,                 \* containers of the bounds objects
          Hows,                  \* "direct" | "text"
          Depth, Export, SetWeight, RareWeight,    \* the simulator draws uniformly from the instances of the actions
          Setter
VARIABLES main, other, hist, trail
vars == <<main, other, hist, trail>>

MCZ == ndJsonDeserialize(IOEnv.PRIORS_Z_FILE)[1].z
QS == {R(n - QShift, d) : n \in QNum, d \in QDen}
ES == {e - EShift : e \in ENum}
SS == {R(n, d) : n \in SNum, d \in SDen}
Pairs(S) == {<<x, y>> \in S \X S : x # y}
QMid == CHOOSE x \in QS : TRUE
UKinds == {"Uniform", "LogUniform"}
ObjCalls ==
    UNION {{[cls |-> c, key1 |-> "bounds", v1 |-> b, key2 |-> "", v2 |-> 0] : b \in Pairs(QS)} : c \in UKinds}
    \cup {[cls |-> "LogUniform", key1 |-> "lin_bounds", v1 |-> b, key2 |-> "", v2 |-> 0] : b \in Pairs(ES)}
    \cup {[cls |-> c, key1 |-> "", v1 |-> 0, key2 |-> "", v2 |-> 0] : c \in UKinds}
    \cup {[cls |-> c, key1 |-> "mean", v1 |-> QMid, key2 |-> "std", v2 |-> s] : c \in {"Gaussian", "LogGaussian"}, s \in SS}

\* the simulator draws uniformly from the instances of an action: the forms with few calls are repeated
FormWeight(c) == IF c.key1 = "bounds" THEN 1 ELSE IF c.key1 = "lin_bounds" THEN 2 ELSE 6
NF(kind, b) == [kind |-> kind, a |-> Lower(b), b |-> Upper(b)]
Dead == [alive |-> FALSE, kind |-> "None", last |-> <<Q(0), Q(0)>>, samp |-> NoPrior, rep |-> NoPrior, ct |-> "", fresh |-> FALSE]
\* last: the support given last in the object's own space (meaningful for the uniform kinds); ct: the container it came in
\* ("": no object of the caller's is involved -- text, keyword left out, normal kinds); fresh: that container still holds it
Made(c, ct) == [alive |-> TRUE, kind |-> c.cls, last |-> IF c.cls \in UKinds THEN BoundsOf(c) ELSE <<Q(0), Q(0)>>,
                samp |-> Build(c), rep |-> Build(c), ct |-> IF c.cls \in UKinds /\ c.key1 # "" THEN ct ELSE "", fresh |-> TRUE]
SetOn(o, b, ct) == [o EXCEPT !.last = b, !.rep = NF(o.kind, b), !.ct = ct, !.fresh = TRUE,
                             !.samp = IF Setter = "support_frozen" THEN @ ELSE NF(o.kind, b)]
\* what a set_bounds on an object of `kind` does to ANOTHER object
Bystander(o, kind, b) == IF Setter = "class_level" /\ o.alive /\ o.kind = kind THEN [o EXCEPT !.samp = NF(kind, b), !.rep = NF(kind, b)] ELSE o
\* the caller writes other numbers into its container
Rewritten(o) == [o EXCEPT !.fresh = FALSE, !.samp = IF Setter = "by_reference" THEN Corrupt ELSE @]

Log(e) == IF Export THEN Append(hist, e) ELSE hist
Step(op, who, b, ct, call, how) == [op |-> op, who |-> who, b |-> b, ct |-> ct, call |-> call, how |-> how]
NoCall == [cls |-> "", key1 |-> "", v1 |-> 0, key2 |-> "", v2 |-> 0]
NoB == <<Q(0), Q(0)>>
Do(e, m, o) == /\ main' = m /\ other' = o
               /\ hist' = Log(e)
               /\ trail' = IF Export THEN Append(trail, <<m, o>>) ELSE trail

Init == \E c \in ObjCalls, how \in Hows, ct \in Conts : \E rep \in 1..(IF Export THEN FormWeight(c) ELSE 1) :
           /\ (how = "text" \/ c.key1 = "" \/ c.cls \notin UKinds) => ct = "tuple"        \* no container of the caller's: one instance
           /\ main = Made(c, IF how = "text" THEN "" ELSE ct)
           /\ other = Dead
           /\ hist = IF Export THEN <<Step("make", "main", NoB, IF how = "text" THEN "" ELSE ct, c, how)>> ELSE <<>>
           /\ trail = IF Export THEN <<<<Made(c, IF how = "text" THEN "" ELSE ct), Dead>>>> ELSE <<>>
SetMain == \E b \in Pairs(QS), ct \in Conts, rep \in 1..SetWeight :
              /\ main.kind \in UKinds
              /\ Do(Step("set", "main", b, ct, NoCall, ""), SetOn(main, b, ct), Bystander(other, main.kind, b))
SetOther == \E b \in Pairs(QS), ct \in Conts, rep \in 1..SetWeight :
              /\ other.alive /\ other.kind \in UKinds
              /\ Do(Step("set", "other", b, ct, NoCall, ""), Bystander(main, other.kind, b), SetOn(other, b, ct))
Make == \E c \in ObjCalls, how \in Hows, ct \in Conts : \E rep \in 1..(IF Export THEN FormWeight(c) ELSE 1) :
              /\ (how = "text" \/ c.key1 = "" \/ c.cls \notin UKinds) => ct = "tuple"
              /\ Do(Step("make", "other", NoB, IF how = "text" THEN "" ELSE ct, c, how), main, Made(c, IF how = "text" THEN "" ELSE ct))
Reuse == \E who \in {"main", "other"}, rep \in 1..RareWeight :
              LET o == IF who = "main" THEN main ELSE other IN
              /\ o.alive /\ o.ct \in Writable /\ o.fresh
              /\ Do(Step("reuse", who, NoB, o.ct, NoCall, ""), IF who = "main" THEN Rewritten(main) ELSE main,
                    IF who = "other" THEN Rewritten(other) ELSE other)
Look == \E rep \in 1..RareWeight : Do(Step("look", "main", NoB, "", NoCall, ""), main, other)
Next == SetMain \/ SetOther \/ Make \/ Reuse \/ Look
Spec == Init /\ [][Next]_vars
Bound == Len(hist) <= Depth

\* ---- the clauses
\* (cheap on purpose: the simulator evaluates the invariants on every successor it generates)
ObjOk(o) == o.alive =>
    /\ o.samp = o.rep
    /\ o.samp.kind = o.kind
    /\ o.kind \in UKinds => /\ o.samp = NF(o.kind, o.last)
                             /\ o.samp.a = RMin(o.last[1], o.last[2]) /\ o.samp.b = RMax(o.last[1], o.last[2])
                             /\ RLt(o.samp.a, o.samp.b)
ObjectInv == ObjOk(main) /\ ObjOk(other)
\* the clauses of Priors.tla on the support the object has now (exhaustive configs)
\* (every value `main` can take is reached while `other` does not exist yet: once per value is enough)
ClausesInv == (~other.alive /\ main.kind \in UKinds) =>
                  /\ Monotone(main.samp) /\ InverseCDF(main.samp)
                  /\ Sample(main.samp, 0) = RMin(main.last[1], main.last[2]) /\ Sample(main.samp, UN) = RMax(main.last[1], main.last[2])
                  /\ \A k \in Grid(main.samp) : Fits(Sample(main.samp, k))
\* ---- export: the walk with what either object must show after every step
Recv(p) == [k \in 1..(UN + 1) |-> IF (k - 1) \in Grid(p) THEN ToModel(p, Sample(p, k - 1)) ELSE [sp |-> "none", x |-> Q(0)]]
ObsOf(o) == IF o.alive THEN [alive |-> TRUE, p |-> o.samp, rep |-> o.rep, space |-> SpaceOf(o.samp.kind), last |-> o.last, recv |-> Recv(o.samp)]
            ELSE [alive |-> FALSE]
Emit == (Export /\ Len(hist) = Depth) =>
    PrintT(<<"OBJ", ToJson([un |-> UN, conts |-> Conts,
                            walk |-> [i \in 1..Len(hist) |-> [e |-> hist[i], main |-> ObsOf(trail[i][1]), other |-> ObsOf(trail[i][2])]]])>>)
=============================================================================
