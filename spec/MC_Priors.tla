------------------------------ MODULE MC_Priors ------------------------------
(* Exhaustive / export model for C08: choose a constructor call, build the prior, *)
(* evaluate it on the whole u grid; the property's clauses are invariants.        *)
EXTENDS Priors, IOUtils
CONSTANTS QNum, QShift, QDen,   \* rational arguments {(n - QShift) / d : n \in QNum, d \in QDen}
          ENum, EShift,         \* exponents of linear-space arguments {e - EShift : e \in ENum}
          SNum, SDen,           \* standard deviations {n / d}
          LSNum,                \* exponents of a width given in linear space: lin_std = 10^e, e \in LSNum (e > 0)
          Keywords,             \* "independent" (the code) | "coupled" (expected counterexample), see Priors.tla: BuildK
          Export,
          Args                  \* "read_only" (the code) | "lin_in_place" (expected counterexample), see Priors.tla: ArgsFrame
VARIABLES phase, call, out
vars == <<phase, call, out>>

MCZ == ndJsonDeserialize(IOEnv.PRIORS_Z_FILE)[1].z
QS == {R(n - QShift, d) : n \in QNum, d \in QDen}
ES == {e - EShift : e \in ENum}
SS == {R(n, d) : n \in SNum, d \in SDen}
QG == {x \in QS : RLe(RAbs(x), Q(100))}                  \* gaussian means (keeps the rationals inside 32 bits)
Pairs(S) == {<<x, y>> \in S \X S : x # y}                 \* both orders, degenerate interval excluded
\* every subset of the documented keywords: the first argument in its own space, in linear space (Log classes) or left
\* out; the width of the normal kinds likewise
UniArgs(cls) == {<<"bounds", b>> : b \in Pairs(QS)} \cup (IF cls = "LogUniform" THEN {<<"lin_bounds", b>> : b \in Pairs(ES)} ELSE {})
                \cup {<<"", 0>>}
MeanArgs(cls) == {<<"mean", m>> : m \in QG} \cup (IF cls = "LogGaussian" THEN {<<"lin_mean", e>> : e \in ES} ELSE {}) \cup {<<"", 0>>}
StdArgs(cls) == {<<"std", s>> : s \in SS} \cup (IF cls = "LogGaussian" THEN {<<"lin_std", e>> : e \in LSNum} ELSE {}) \cup {<<"", 0>>}
Calls ==
    UNION {{[cls |-> c, key1 |-> x[1], v1 |-> x[2], key2 |-> "", v2 |-> 0] : x \in UniArgs(c)} : c \in {"Uniform", "LogUniform"}}
    \cup UNION {{[cls |-> c, key1 |-> m[1], v1 |-> m[2], key2 |-> s[1], v2 |-> s[2]] : m \in MeanArgs(c), s \in StdArgs(c)}
                : c \in {"Gaussian", "LogGaussian"}}
Forms == {<<c.cls, c.key1, c.key2>> : c \in Calls}

NoOut == [p |-> [kind |-> "None", a |-> Q(0), b |-> Q(0)], s |-> <<>>, t |-> <<>>]
Init == phase = "in" /\ call \in Calls /\ out = NoOut
Eval == /\ phase = "in"
        /\ LET p == BuildK(Keywords, call) IN
             out' = [p |-> p, s |-> [k \in 1..(UN + 1) |-> IF (k - 1) \in Grid(p) THEN Sample(p, k - 1) ELSE Q(0)],
                     t |-> [i \in 1..Len(TailPts) |-> TailSample(p, TailPts[i])]]      \* the tail ladder
        /\ phase' = "done"
        /\ UNCHANGED call
Spec == Init /\ [][Eval]_vars

Done == phase = "done"
ZOk == ZAssumption
TZOk == (phase = "in") => (TZAssumption /\ TailOrdered)      \* constant-level: once per call is enough
MonotoneInv == Done => Monotone(out.p)
TailMonotoneInv == Done => TailMonotone(out.p)
TailSymmetricInv == Done => TailSymmetric(out.p)
OntoSupportInv == Done => OntoSupport(call, out.p)
InverseCDFInv == Done => InverseCDF(out.p)
LinArgsInv == Done => LinArgsEquivalentK(Keywords, call)
\* a keyword that is left out has the value of the signature; 2 + 3 + 4 + 9 constructor forms
OmittedInv == Done => OmittedIsSignature(Keywords, call)
FormsInv == (phase = "in") => Cardinality(Forms) = 18
TextInv == Done => TextEqualsDirect(call)
SpaceInv == Done => (SpaceOf(out.p.kind) = "log") = (call.cls \in LogKinds)
\* a default prior is the direct construction from mode and bounds, and its support is the bounds
DefaultInv == Done /\ call.key1 \in {"bounds", "lin_bounds"} /\ call.cls = (IF call.key1 = "lin_bounds" THEN "LogUniform" ELSE "Uniform") =>
    LET mode == IF call.key1 = "lin_bounds" THEN "log" ELSE "linear" IN
    /\ Build(DefaultCall(mode, call.v1)) = out.p
    /\ SpaceOf(out.p.kind) = mode
\* the arguments of a constructor are inputs: whatever the container, the caller's object is as it was and a second prior
\* built from the same object is the same prior
ArgsFrameInv == Done => ArgsFrame(Args, call)
FitsInv == Done => /\ Fits(out.p.a) /\ Fits(out.p.b)
                   /\ \A k \in 1..Len(out.s) : Fits(out.s[k])
                   /\ \A i \in 1..Len(out.t) : IF out.p.kind \in UniKinds THEN Fits(out.t[i].w) ELSE Fits(out.t[i])

Emit == (Export /\ Done) =>
    PrintT(<<"VEC", ToJson([call |-> call, p |-> out.p, space |-> SpaceOf(out.p.kind), s |-> out.s, un |-> UN,
                            names |-> Spellings[call.cls], logform |-> LogForm(call),
                            full |-> Complete(call), leftout |-> LeftOut(call), sig |-> [bounds |-> SigBounds, mean |-> SigMean, std |-> SigStd],
                            tpts |-> TailPts, t |-> out.t, zts |-> ZTS,
                            conts |-> Containers, scalars |-> ScalarKinds, twice |-> BuildTwice(Args, call, "ndarray")])>>)
=============================================================================
