SPECIFICATION MSpec
CONSTANTS
  TB <- MCTB
  Grids <- MCGrids
  NGrids = 2
  Kinds = {"flux", "simple"}
  Muts = {"sqinplace"}
  Ords = {"asc", "desc", "mixed"}
  Depth = 0
  Export = "none"
INVARIANT RefuteSqInPlace
CHECK_DEADLOCK FALSE
