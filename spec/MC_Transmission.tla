-------------------------- MODULE MC_Transmission --------------------------
(* Exhaustive / export models for C01.  Family selects the mechanism:        *)
(*   "geo"  chord geometry           inp = [r, method]                        *)
(*   "acc"  optical-depth accumulation with the early exit  inp = [a, L]      *)
(*   "abs"  transit-depth integral   inp = [r, rs, t]                         *)
EXTENDS Transmission, Json
CONSTANTS Family, NL, NW, NC,
          AVals, LVals,          \* acc: values of a[c][k][w] and of chord segments
          RpSet, IncSet, RsSet,  \* geo/abs: planet radius, layer thicknesses, star radius
          TVals,                 \* abs: optical depths (units of ln 2) per layer
          Basis,                 \* acc: TRUE = one-hot + generic + saturating inputs only
          Export
VARIABLES phase, inp, out
vars == <<phase, inp, out>>

Layers == 1..NL
\* ------------------------------------------------------------------ inputs
RECURSIVE SumInc(_, _)
SumInc(incs, i) == IF i = 0 THEN 0 ELSE incs[i] + SumInc(incs, i - 1)
Radii == {[i \in 1..(NL + 1) |-> rp + SumInc(incs, i - 1)] : rp \in RpSet, incs \in [Layers -> IncSet]}
ATabs == [1..NC -> [Layers -> [1..NW -> AVals]]]
LTabs == [Layers -> [1..NL -> LVals]]          \* entries i > NL-j+1 are never read
\* canonical chord table: only the entries that are read vary
LCanon(L) == \A j \in Layers : \A i \in 1..NL : (i > NL - j + 1) => L[j][i] = 1

OneHotA(cc, kk, ww, hot) == [c \in 1..NC |-> [k \in Layers |-> [w \in 1..NW |->
                               IF c = cc /\ k = kk /\ w = ww THEN hot ELSE 0]]]
GenA(m) == [c \in 1..NC |-> [k \in Layers |-> [w \in 1..NW |-> ((c * 7 + k * 3 + w * 5) * m) % 6]]]
\* first contribution saturates the layers >= s at every wavenumber, the others are generic
SatA(s) == [c \in 1..NC |-> [k \in Layers |-> [w \in 1..NW |->
               IF c = 1 THEN (IF k >= s THEN 16 ELSE 0) ELSE ((c * 5 + k * 3 + w) % 4) + 1]]]
\* saturated at one wavenumber only: the early exit must NOT fire
HalfSatA == [c \in 1..NC |-> [k \in Layers |-> [w \in 1..NW |->
               IF c = 1 THEN (IF w = 1 THEN 16 ELSE 0) ELSE k + w + c]]]
BasisA == {OneHotA(cc, kk, ww, h) : cc \in 1..NC, kk \in Layers, ww \in 1..NW, h \in {1, 16}}
          \cup {GenA(1), GenA(5), HalfSatA} \cup {SatA(s) : s \in Layers}
GenL(m) == [j \in Layers |-> [i \in 1..NL |-> IF i > NL - j + 1 THEN 1 ELSE 1 + ((i * m + j) % 3)]]
BasisL == {GenL(1), GenL(2)}

InitInp ==
    CASE Family = "geo" -> {[r |-> r, method |-> m] : r \in Radii, m \in {"old", "new"}}
      [] Family = "acc" -> IF Basis THEN {[a |-> a, L |-> L] : a \in BasisA, L \in BasisL}
                           ELSE {[a |-> a, L |-> L] : a \in ATabs, L \in {L \in LTabs : LCanon(L)}}
      [] Family = "abs" -> {[r |-> r, rs |-> rs, t |-> t] : r \in Radii, rs \in RsSet, t \in [Layers -> TVals]}

Eval(i) ==
    CASE Family = "geo" -> [j \in Layers |-> [k \in 1..(NL - j + 1) |-> ChordSq(i.r, i.method, j, j + k - 1)]]
      [] Family = "acc" -> [tau  |-> [j \in Layers |-> TauLayer(i.a, i.L, NC, NW, j)],
                            full |-> [j \in Layers |-> TauFull(i.a, i.L, NC, NW, j)]]
      [] Family = "abs" -> Depth(i.r, i.rs, [j \in Layers |-> Tr(i.t[j])])

Init == phase = "in" /\ inp \in InitInp /\ out = <<>>
Evaluate == phase = "in" /\ out' = Eval(inp) /\ phase' = "done" /\ UNCHANGED inp
Next == Evaluate
Spec == Init /\ [][Next]_vars
Done == phase = "done"

\* ---------------------------------------------------------------- geo clauses
ChordPositive == (Done /\ Family = "geo") => \A j \in Layers : RLt(RZero, out[j][1])
ChordIncreasing == (Done /\ Family = "geo") =>
    \A j \in Layers : \A k \in 1..(NL - j) : RLt(out[j][k], out[j][k + 1])
\* the new method's ray ends exactly on the top boundary
NewReachesTop == (Done /\ Family = "geo" /\ inp.method = "new") =>
    \A j \in Layers : LET b2 == 2 * inp.r[j] + Dz(inp.r, j)
                      IN  out[j][NL - j + 1] = R(4 * inp.r[NL + 1] * inp.r[NL + 1] - b2 * b2, 4)

\* ---------------------------------------------------------------- acc clauses
ScaleA(a, m) == [c \in 1..NC |-> [k \in Layers |-> [w \in 1..NW |-> m * a[c][k][w]]]]
ZeroBelow(a, j) == [c \in 1..NC |-> [k \in Layers |-> [w \in 1..NW |-> IF k < j THEN 0 ELSE a[c][k][w]]]]
\* the early exit only ever removes absorbers from layers already at tau > 10 everywhere
CutoffSlack == (Done /\ Family = "acc") =>
    \A j \in Layers :
        /\ \A w \in 1..NW : out.tau[j][w] <= out.full[j][w]
        /\ (out.tau[j] # out.full[j]) => \A w \in 1..NW : out.tau[j][w] >= Cut
\* the ray tangent in layer j never sees layers below j
SupportIsUpperTriangular == (Done /\ Family = "acc") =>
    \A j \in Layers : TauLayer(ZeroBelow(inp.a, j), inp.L, NC, NW, j) = out.tau[j]
\* nothing absorbs => nothing accumulates
TransparentIsZero == (Done /\ Family = "acc") =>
    ((\A c \in 1..NC, k \in Layers, w \in 1..NW : inp.a[c][k][w] = 0)
        => \A j \in Layers, w \in 1..NW : out.tau[j][w] = 0)
\* scaling every cross-section up never lowers an optical depth, except inside the cut-off
MonotoneUpToCutoff == (Done /\ Family = "acc") =>
    \A m \in {2, 3} : \A j \in Layers : \A w \in 1..NW :
        LET t2 == TauLayer(ScaleA(inp.a, m), inp.L, NC, NW, j)[w]
        IN  t2 >= out.tau[j][w] \/ t2 >= Cut

\* C03: optical depth is additive over contributions (transmittances multiply) ...
OnlyContrib(a, cc) == [c \in 1..NC |-> [k \in Layers |-> [w \in 1..NW |-> IF c = cc THEN a[c][k][w] ELSE 0]]]
RECURSIVE SumOverContribs(_, _, _, _)
SumOverContribs(a, L, j, c) ==
    IF c = 0 THEN [w \in 1..NW |-> 0]
    ELSE LET rest == SumOverContribs(a, L, j, c - 1)
             one  == TauFull(OnlyContrib(a, c), L, NC, NW, j)
         IN  [w \in 1..NW |-> rest[w] + one[w]]
ProductRule == (Done /\ Family = "acc") =>
    \A j \in Layers : out.full[j] = SumOverContribs(inp.a, inp.L, j, NC)
\* ... and does not depend on the order of the contribution list (up to the cut-off)
Reversed(a) == [c \in 1..NC |-> a[NC + 1 - c]]
OrderIndependentUpToCutoff == (Done /\ Family = "acc") =>
    \A j \in Layers :
        /\ TauFull(Reversed(inp.a), inp.L, NC, NW, j) = out.full[j]
        /\ LET t2 == TauLayer(Reversed(inp.a), inp.L, NC, NW, j)
           IN  \A w \in 1..NW : t2[w] = out.tau[j][w] \/ (t2[w] >= Cut /\ out.tau[j][w] >= Cut)

\* ---------------------------------------------------------------- abs clauses
DepthLowerBound == (Done /\ Family = "abs") => RLe(Bare(inp.r, inp.rs), out)
DepthUpperBound == (Done /\ Family = "abs") => RLe(out, Opaque(inp.r, inp.rs))
BareWhenTransparent == (Done /\ Family = "abs") =>
    ((\A j \in Layers : inp.t[j] = 0) => out = Bare(inp.r, inp.rs))
MonotoneInTau == (Done /\ Family = "abs") =>
    \A j \in Layers :
        RLe(out, Depth(inp.r, inp.rs, [i \in Layers |-> Tr(IF i = j THEN inp.t[i] + 1 ELSE inp.t[i])]))
FitsInv == (Done /\ Family = "abs") => Fits(out)

Emit == (Export /\ Done) => PrintT(<<"VEC", ToJson([fam |-> Family, inp |-> inp, out |-> out])>>)
=============================================================================
