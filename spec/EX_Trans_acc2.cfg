SPECIFICATION Spec
CONSTANTS
  Family = "acc"
  NL = 3
  NW = 3
  NC = 2
  AVals = {0}
  LVals = {1}
  RpSet = {1}
  IncSet = {1}
  RsSet = {1}
  TVals = {0}
  Basis = TRUE
  Export = TRUE
CONSTRAINT Emit
CHECK_DEADLOCK FALSE
INVARIANT CutoffSlack
INVARIANT SupportIsUpperTriangular
INVARIANT TransparentIsZero
INVARIANT MonotoneUpToCutoff
INVARIANT ProductRule
INVARIANT OrderIndependentUpToCutoff
