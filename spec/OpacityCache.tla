---------------------------- MODULE OpacityCache ----------------------------
(***************************************************************************)
(* C14 -- opacity / CIA / k-table files and the lazy singleton caches.     *)
(*                                                                         *)
(* Part 1 (stateful): the cache protocol.  Disk(p, m) is the table id of   *)
(* molecule m stored under path p (0 = no file).  The cache holds          *)
(*   path, interp, mem          configuration (GlobalCache)                *)
(*   dict[m] = [oid, mode, table, src]   served objects, oid = 0: absent   *)
(*   loads[m]                   file loads of m since the dict was emptied *)
(* Kind selects the singleton: "xsec" (OpacityCache), "ktable"             *)
(* (KTableCache: no set_interpolation / set_memory_mode), "cia" (CIACache: *)
(* adding an existing pair raises, no mode).                               *)
(* Variants used for expected-counterexample self tests:                   *)
(*   ClearOnModeChange = FALSE   set_interpolation does not clear          *)
(*   DiscoverPassesMode = FALSE  discover() hands the default mode         *)
(*   StoreOnLoad = FALSE         a loaded object is not kept               *)
(*                                                                         *)
(* Part 2 (functions, module OpacityFiles): unit tags of the containers    *)
(* and the molecule-name regular expression of sanitize_molecule_string.   *)
(***************************************************************************)
EXTENDS Integers, Sequences, FiniteSets, TLC, Json, OpacityFiles

CONSTANTS Kind, Paths, Mols, Modes, Disk(_, _),
          ClearOnModeChange, DiscoverPassesMode, StoreOnLoad
VARIABLES path, interp, mem, dict, loads, nextId, hist
cvars == <<path, interp, mem, dict, loads, nextId>>
vars  == <<path, interp, mem, dict, loads, nextId, hist>>

NoPath == "none"
Unset  == "unset"
UserTable == 99
Absent == [oid |-> 0, mode |-> "", table |-> 0, src |-> ""]
Empty  == [m \in Mols |-> Absent]
Zero   == [m \in Mols |-> 0]
EffMode == IF Kind = "cia" THEN "n/a" ELSE IF interp = Unset THEN "linear" ELSE interp

Snap(d) == [m \in Mols |-> d[m]]
Log(act, arg, res, oid, d) ==
    hist' = Append(hist, [act |-> act, arg |-> arg, res |-> res, oid |-> oid, dict |-> Snap(d)])

Init == /\ path = NoPath /\ interp = Unset /\ mem = Unset
        /\ dict = Empty /\ loads = Zero /\ nextId = 1 /\ hist = <<>>

SetPath(p) ==
    /\ path' = p
    /\ UNCHANGED <<interp, mem, dict, loads, nextId>>
    /\ Log("SetPath", p, "ok", 0, dict)

SetInterpolation(md) ==
    /\ Kind = "xsec"
    /\ interp' = md
    /\ IF ClearOnModeChange THEN dict' = Empty /\ loads' = Zero ELSE UNCHANGED <<dict, loads>>
    /\ UNCHANGED <<path, mem, nextId>>
    /\ Log("SetInterpolation", md, "ok", 0, dict')

SetMemoryMode(b) ==
    /\ Kind = "xsec"
    /\ mem' = b
    /\ dict' = Empty /\ loads' = Zero
    /\ UNCHANGED <<path, interp, nextId>>
    /\ Log("SetMemoryMode", b, "ok", 0, dict')

Get(m) ==
    IF dict[m].oid # 0
    THEN /\ UNCHANGED cvars
         /\ Log("Get", m, "hit", dict[m].oid, dict)
    ELSE IF path # NoPath /\ Disk(path, m) # 0
    THEN LET obj == [oid |-> nextId,
                     mode |-> IF DiscoverPassesMode THEN EffMode ELSE IF Kind = "cia" THEN "n/a" ELSE "linear",
                     table |-> Disk(path, m), src |-> path]
         IN  /\ dict' = IF StoreOnLoad THEN [dict EXCEPT ![m] = obj] ELSE dict
             /\ loads' = [loads EXCEPT ![m] = @ + 1]
             /\ nextId' = nextId + 1
             /\ UNCHANGED <<path, interp, mem>>
             /\ Log("Get", m, "load", nextId, [dict EXCEPT ![m] = obj])
    ELSE /\ UNCHANGED cvars
         /\ Log("Get", m, "error", 0, dict)

\* a user-built object for molecule m (own table, own mode)
AddOpacity(m) ==
    IF dict[m].oid # 0
    THEN /\ UNCHANGED cvars
         /\ Log("AddOpacity", m, IF Kind = "cia" THEN "error" ELSE "skip", 0, dict)
    ELSE /\ dict' = [dict EXCEPT ![m] = [oid |-> nextId, mode |-> "user", table |-> UserTable, src |-> "user"]]
         /\ nextId' = nextId + 1
         /\ UNCHANGED <<path, interp, mem, loads>>
         /\ Log("AddOpacity", m, "added", nextId, dict')

Clear ==
    /\ Kind # "cia"
    /\ dict' = Empty /\ loads' = Zero
    /\ UNCHANGED <<path, interp, mem, nextId>>
    /\ Log("Clear", "", "ok", 0, dict')

Next == \/ \E p \in Paths : SetPath(p)
        \/ \E md \in Modes : SetInterpolation(md)
        \/ \E b \in {"true", "false"} : SetMemoryMode(b)
        \/ \E m \in Mols : Get(m)
        \/ \E m \in Mols : AddOpacity(m)
        \/ Clear
Spec == Init /\ [][Next]_vars

\* ---------------------------------------------------------------- property
TypeOK == /\ path \in Paths \cup {NoPath} /\ interp \in Modes \cup {Unset}
          /\ \A m \in Mols : dict[m].oid < nextId /\ loads[m] >= 0
\* a molecule is loaded from file at most once while it stays cached
LoadedOncePerEpoch == \A m \in Mols : loads[m] <= 1
\* distinct molecules never share an object, and ids are never reused
ObjectsDistinct == \A m1, m2 \in Mols : (m1 # m2 /\ dict[m1].oid # 0) => dict[m1].oid # dict[m2].oid
\* every object that came from a path carries the mode configured now
ModeTakesEffect == Kind = "xsec" => \A m \in Mols : dict[m].src \in Paths => dict[m].mode = EffMode
\* ... and holds the table of the path it was loaded from
TableFromItsPath == \A m \in Mols : dict[m].src \in Paths => dict[m].table = Disk(dict[m].src, m)
\* a Get of a cached molecule serves that very object and changes nothing
SameObjectServed ==
    [][\A m \in Mols : (dict[m].oid # 0 /\ Len(hist') = Len(hist) + 1
                        /\ hist'[Len(hist')].act = "Get" /\ hist'[Len(hist')].arg = m)
                       => (hist'[Len(hist')].oid = dict[m].oid /\ dict' = dict)]_vars
\* a Get that loads takes the file of the path configured at that moment
LoadFromConfiguredPath ==
    [][(Len(hist') = Len(hist) + 1 /\ hist'[Len(hist')].res = "load")
        => LET m == hist'[Len(hist')].arg IN hist'[Len(hist')].dict[m].src = path]_vars

=============================================================================
