SPECIFICATION Spec
CONSTANTS
  NRs = {1,2,3}
  Ns = {0,1,2,3}
  Vals = {0,3}
  Wts = {0,1}
  WDen = 1
  SmpMode = "all"
  SampleSpace <- MCSampleSpace
  Part = "var"
  Assign = "roundrobin"
  Jump = FALSE
  Serialise = TRUE
  NaNTest = "value"
  StrideOff = 0
  ReorderMode = "bylayout"
  ZeroGuard = "unguarded"
  WSNum = 1
  WSDen = 1
  WScale <- MCWScale
  SummarySource = "gathered"
  Gens = {1,2,3}
  Ordered = FALSE
  Export = FALSE
INVARIANT ScheduleIndependent
CONSTRAINT Emit
CHECK_DEADLOCK FALSE
