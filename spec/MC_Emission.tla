---------------------------- MODULE MC_Emission ----------------------------
(* Exhaustive / export model for C02: the tables and the export constraint. *)
EXTENDS Emission, Json
CONSTANTS Export, TabId

\* Planck-like tables: positive, strictly increasing in t, different shape per wavenumber
MCBtabs == << << <<1, 2>>, <<2, 7>>, <<5, 9>> >>,
              << <<3, 1>>, <<4, 6>>, <<5, 7>> >> >>
MCBtab  == MCBtabs[TabId]
MCBstar == <<7, 11>>

ASSUME TableOk
ASSUME \A i \in QuadIds : i \in DOMAIN QuadTable

Emit == (Export /\ pc = "done") =>
    PrintT(<<"VEC", ToJson([e |-> e, tp |-> tp, qid |-> qid, quad |-> Quad, kind |-> kind,
                            inten |-> inten, flux |-> flux, out |-> out,
                            saturated |-> Saturated, isothermal |-> Isothermal,
                            weightsok |-> WeightsFacts(Quad),
                            rp |-> Rp, rs |-> Rs, dist |-> Dist, kd |-> KD,
                            tmin |-> TMinOf(tp), tmax |-> TMaxOf(tp)])>>)
=============================================================================
