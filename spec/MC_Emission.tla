---------------------------- MODULE MC_Emission ----------------------------
(* Exhaustive / export model for C02: the tables and the export constraint. *)
EXTENDS Emission, Json, PlanckTol
CONSTANTS Export, TabId,
          InterpIds       \* interpretations (below) under which the exported vectors are to be replayed; {} = the first only

\* Planck-like tables: positive, strictly increasing in t, different shape per wavenumber
MCBtabs == << << <<1, 2>>, <<2, 7>>, <<5, 9>> >>,
              << <<3, 1>>, <<4, 6>>, <<5, 7>> >> >>
MCBtab  == MCBtabs[TabId]
MCBstar == <<7, 11>>

ASSUME TableOk
ASSUME \A i \in QuadIds : i \in DOMAIN QuadTable

\* ---------------------------------------------------------------------------------------------------------
\* Interpretations of the uninterpreted Planck table: exported input classes of binding A.
\* The clauses above are proved by TLC for EVERY positive table that increases with the temperature index, so the
\* exact B-sums of the exported vectors are the documented integral under every reading
\*        Btab[t][w] = B(wn[w], T_t),   Bstar[w] = B(wn[w], star),   T_t = base[t] * (1 + (t-1)/stepden)
\* with T_1 < T_2 < T_3 (stepden = 0: T_t = base[t]).  Two dimensions of "all temperature profiles ... stars and
\* planets" are spanned here that a single reading (mid-infrared, temperatures hundreds of K apart) never varies:
\*   * the SPACING of the layer temperatures: relative steps 1e-3 .. 1e-8 -- layers that an implementation may take
\*     for "the same temperature" (an approximate comparison, a rounded cache key) although their Planck functions
\*     differ by far more than the arithmetic of the integral can blur (clause PerLayerSource, variant
\*     "source_reused_if_close");
\*   * the spectral / thermal REGIME x = h c nu / k T of planet and star: Rayleigh-Jeans tail (x down to 4e-4), peak,
\*     Wien tail (x up to 144), where a series / asymptotic form of the Planck function would be switched on.
\* PlanckTol gives, per (wavenumber, temperature), the rounding the documented formula may legitimately carry; the
\* binding compares at  1e-12  +  twice the largest Planck tolerance of the reading.  The 1e-12 is the arithmetic of
\* the layered sum: every term B(T_l) (T'_{l+1} - T'_l) is non-negative; an optical depth built from ~6 rounded
\* factors carries a relative error 6u (u = 2^-53), its transmittance exp(-tau/mu) a relative error (6 tau/mu + 1) u,
\* a difference of two transmittances that differ by a factor >= 2 (or are equal) at most 4 (6 tau/mu + 1) u
\* <= 4.4e-13 for the largest slant depth of the exported vectors (tau/mu = 240 ln 2).
InterpTable == <<
  [id |-> "mir_wide",     wn |-> <<800, 2500>>,    base |-> <<600, 1100, 1700>>,   stepden |-> 0,         star |-> 5000],
  [id |-> "mir_close3",   wn |-> <<800, 2500>>,    base |-> <<1500, 1500, 1500>>,  stepden |-> 1000,      star |-> 5000],
  [id |-> "mir_close5",   wn |-> <<700, 2200>>,    base |-> <<900, 900, 900>>,     stepden |-> 100000,    star |-> 4500],
  [id |-> "nir_close6",   wn |-> <<3000, 9000>>,   base |-> <<2000, 2000, 2000>>,  stepden |-> 1000000,   star |-> 4000],
  [id |-> "mir_close8",   wn |-> <<500, 2500>>,    base |-> <<700, 700, 700>>,     stepden |-> 100000000, star |-> 6000],
  [id |-> "farir",        wn |-> <<2, 30>>,        base |-> <<900, 1500, 2500>>,   stepden |-> 0,         star |-> 7000],
  [id |-> "farir_close5", wn |-> <<5, 40>>,        base |-> <<1200, 1200, 1200>>,  stepden |-> 200000,    star |-> 6000],
  [id |-> "wien",         wn |-> <<20000, 40000>>, base |-> <<400, 700, 1000>>,    stepden |-> 0,         star |-> 3000],
  [id |-> "wide_span",    wn |-> <<3, 30000>>,     base |-> <<300, 1000, 3000>>,   stepden |-> 0,         star |-> 10000] >>

InterpLicensed(ip) ==
    /\ Len(ip.wn) >= NW /\ Len(ip.base) = NT /\ ip.star > 0 /\ ip.stepden >= 0
    /\ \A w \in 1..NW : ip.wn[w] > 0 /\ (w < NW => ip.wn[w] < ip.wn[w + 1])
    /\ \A t \in 1..NT : ip.base[t] > 0
    /\ \A t \in 1..(NT - 1) : IF ip.stepden = 0 THEN ip.base[t] < ip.base[t + 1] ELSE ip.base[t] <= ip.base[t + 1]
    /\ \A w \in 1..NW : /\ XDomainOk(XUnits(ip.wn[w], ip.star))
                        /\ \A t \in 1..NT : XDomainOk(XUnits(ip.wn[w], ip.base[t]))
ASSUME \A i \in InterpIds : i \in DOMAIN InterpTable /\ InterpLicensed(InterpTable[i])

InterpExport(i) ==
    LET ip == InterpTable[i] IN
    [idx |-> i, id |-> ip.id, wn |-> [w \in 1..NW |-> ip.wn[w]], star |-> ip.star,
     \* T_t = base * num / den
     temps |-> [t \in 1..NT |-> IF ip.stepden = 0 THEN <<ip.base[t], 1, 1>> ELSE <<ip.base[t], ip.stepden + t - 1, ip.stepden>>],
     spacing |-> IF ip.stepden = 0 THEN "wide" ELSE "close",
     tolu |-> [w \in 1..NW |-> [t \in 1..NT |-> PlanckTolU(XUnits(ip.wn[w], ip.base[t]))]],
     startolu |-> [w \in 1..NW |-> PlanckTolU(XUnits(ip.wn[w], ip.star))],
     decades |-> {XDecade(XUnits(ip.wn[w], ip.base[t])) : w \in 1..NW, t \in 1..NT}
                 \cup {XDecade(XUnits(ip.wn[w], ip.star)) : w \in 1..NW}]
ASSUME \A i \in InterpIds : PrintT(<<"INTERP", ToJson(InterpExport(i))>>)

Emit == (Export /\ pc = "done") =>
    PrintT(<<"VEC", ToJson([e |-> e, tp |-> tp, qid |-> qid, quad |-> Quad, kind |-> kind,
                            inten |-> inten, flux |-> flux, out |-> out,
                            saturated |-> Saturated, isothermal |-> Isothermal,
                            weightsok |-> WeightsFacts(Quad),
                            rp |-> Rp, rs |-> Rs, dist |-> Dist, kd |-> KD,
                            tmin |-> TMinOf(tp), tmax |-> TMaxOf(tp)])>>)
=============================================================================
