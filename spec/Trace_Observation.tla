-------------------------- MODULE Trace_Observation --------------------------
(* C17, binding B.  Every event is one real load of seeded random rows (any row  *)
(* order) through ArraySpectrum / ObservedSpectrum / TaurexSpectrum, followed by *)
(* create_binner() and a bin_model() of a piecewise-constant model.  TLC loads   *)
(* the same rows with Observation!Load and decides the clauses (scaled ints).    *)
(* Rationals of the 3-column mid-point widths in wavenumber space do not fit     *)
(* 32 bits for lattice wavelengths: the trace decides order, alignment, edge     *)
(* bracketing and (flag readA, set by the harness from exact fractions) reading  *)
(* A of widths and edges; both readings are decided exactly by binding A.        *)
(* 4-column events also carry a native model chosen by the harness (contiguous   *)
(* cells with integer cm-1 edges e.nat, integer values e.nf, any order) binned    *)
(* with the observation's binner: element i must be the overlap-weighted mean    *)
(* ObsBin!ModelOnBin over exactly [wn_i - w_i/2, wn_i + w_i/2], whether the bins *)
(* overlap, nest, leave gaps or have edges that do not ascend with the centres.  *)
EXTENDS ObsBin, IOUtils, TLCExt
VARIABLE l
TraceLog == ndJsonDeserialize(IOEnv.TRACE_FILE)

\* an observed value far outside the expected magnitude is rejected without multiplying (32-bit TLC integers)
SafeClose(m, S, r, tol) == Abs(m) < (Big \div r[2]) /\ Close(m, S, r, tol)
AllClose(ms, S, rs, tol) == Len(ms) = Len(rs) /\ \A i \in 1..Len(ms) : SafeClose(ms[i], S, rs[i], tol)
\* lo, hi scaled by Se, c by S (S a multiple of Se); one rounding unit of slack
Brackets(e, lo, c, hi) == LET q == e.S \div e.Se IN lo * q <= c + q /\ c <= hi * q + q
\* floor(r * S) for r >= 0 without forming r[1] * S (32-bit TLC integers; r[2] * S < 2^31 by construction)
ScaledFloor(r, S) == (r[1] \div r[2]) * S + ((r[1] % r[2]) * S) \div r[2]
NearScaled(m, S, r, tol) == m >= ScaledFloor(r, S) - tol /\ m <= ScaledFloor(r, S) + 1 + tol
ModelOk(e) ==
    LET n  == Len(e.rows)
        wn == LWn(e.rows, e.D)
        w  == LWnwA(e.rows, e.D, 4, "ok")
    IN  /\ e.ncol = 4 /\ Len(e.mbin) = n /\ Len(e.nf) = Len(e.nat)
        /\ \A k \in 1..Len(e.nf) : e.nf[k] >= 0
        /\ Tiling(e.nat)
        /\ \A i \in 1..n : /\ Within(e.nat, 1, wn[i], w[i])
                           /\ NearScaled(e.mbin[i], e.Sm, ModelOnBin(e.nat, e.nf, 1, wn[i], w[i]), e.tol)
Ok(e) ==
    LET n == Len(e.rows) IN
    /\ Loadable(e.rows, e.ncol)
    /\ Len(e.mwn) = n /\ Len(e.val) = n /\ Len(e.err) = n /\ Len(e.mwid) = n
    /\ AllClose(e.mwn, e.S, LWn(e.rows, e.D), e.tol)                         \* wn = 10000/wl, ascending
    /\ \A i \in 1..(n - 1) : e.mwn[i] < e.mwn[i + 1]
    /\ e.val = LVal(e.rows, "ok") /\ e.err = LErr(e.rows, "ok")              \* rows stay together
    /\ \A i \in 1..n : e.mwid[i] > 0
    /\ IF e.ncol = 4
       THEN /\ AllClose(e.mwid, e.Sw, LWnwA(e.rows, e.D, 4, "ok"), e.tol)
            /\ Len(e.med) = 2 * n
            /\ \A i \in 1..n : Brackets(e, e.med[2 * i - 1], e.mwn[i], e.med[2 * i])
            /\ e.readA => AllClose(e.med, e.Se, LEdA(e.rows, e.D, 4, "ok"), e.tol)
       ELSE /\ Len(e.med) = n + 1
            /\ \A i \in 1..n : Brackets(e, e.med[i], e.mwn[i], e.med[i + 1])     \* edges bracket centres
            /\ e.readA => /\ AllClose(e.mwid, e.Sw, LWnwA(e.rows, e.D, 3, "ok"), e.tol)
                          /\ AllClose(e.med, e.Se, LEdA(e.rows, e.D, 3, "ok"), e.tol)
    /\ e.bgrid = e.mwn /\ e.bwid = e.mwid                                    \* binner on exactly those centres and widths
    /\ e.chkalign => e.mb = [i \in 1..n |-> LVal(e.rows, "ok")[i] * e.S]     \* binned model aligned with the observed values
    /\ e.chkmodel => ModelOk(e)                                             \* model over exactly each element's own bin
Init == l = 1
Step == /\ l <= Len(TraceLog)
        /\ LET e == TraceLog[l] IN
             IF Ok(e) THEN TRUE ELSE PrintT(<<"BAD", ToJson([l |-> l, id |-> e.id])>>)
        /\ l' = l + 1
Spec == Init /\ [][Step]_l
Accepted == TLCGet("stats").diameter - 1 = Len(TraceLog)
=============================================================================
