-------------------------- MODULE Trace_Observation --------------------------
(* C17, binding B.  Every event is one real load of seeded random rows (any row  *)
(* order) through ArraySpectrum / ObservedSpectrum / TaurexSpectrum, followed by *)
(* create_binner() and a bin_model() of a piecewise-constant model.  TLC loads   *)
(* the same rows with Observation!Load and decides the clauses (scaled ints).    *)
(* Rationals of the 3-column mid-point widths in wavenumber space do not fit     *)
(* 32 bits for lattice wavelengths: the trace decides order, alignment, edge     *)
(* bracketing and (flag readA, set by the harness from exact fractions) reading  *)
(* A of widths and edges; both readings are decided exactly by binding A.        *)
EXTENDS Observation, IOUtils, TLCExt
VARIABLE l
TraceLog == ndJsonDeserialize(IOEnv.TRACE_FILE)

\* an observed value far outside the expected magnitude is rejected without multiplying (32-bit TLC integers)
SafeClose(m, S, r, tol) == Abs(m) < (Big \div r[2]) /\ Close(m, S, r, tol)
AllClose(ms, S, rs, tol) == Len(ms) = Len(rs) /\ \A i \in 1..Len(ms) : SafeClose(ms[i], S, rs[i], tol)
\* lo, hi scaled by Se, c by S (S a multiple of Se); one rounding unit of slack
Brackets(e, lo, c, hi) == LET q == e.S \div e.Se IN lo * q <= c + q /\ c <= hi * q + q
Ok(e) ==
    LET n == Len(e.rows) IN
    /\ Loadable(e.rows, e.ncol)
    /\ Len(e.mwn) = n /\ Len(e.val) = n /\ Len(e.err) = n /\ Len(e.mwid) = n
    /\ AllClose(e.mwn, e.S, LWn(e.rows, e.D), e.tol)                         \* wn = 10000/wl, ascending
    /\ \A i \in 1..(n - 1) : e.mwn[i] < e.mwn[i + 1]
    /\ e.val = LVal(e.rows, "ok") /\ e.err = LErr(e.rows, "ok")              \* rows stay together
    /\ \A i \in 1..n : e.mwid[i] > 0
    /\ IF e.ncol = 4
       THEN /\ AllClose(e.mwid, e.Sw, LWnwA(e.rows, e.D, 4, "ok"), e.tol)
            /\ Len(e.med) = 2 * n
            /\ \A i \in 1..n : Brackets(e, e.med[2 * i - 1], e.mwn[i], e.med[2 * i])
            /\ e.readA => AllClose(e.med, e.Se, LEdA(e.rows, e.D, 4, "ok"), e.tol)
       ELSE /\ Len(e.med) = n + 1
            /\ \A i \in 1..n : Brackets(e, e.med[i], e.mwn[i], e.med[i + 1])     \* edges bracket centres
            /\ e.readA => /\ AllClose(e.mwid, e.Sw, LWnwA(e.rows, e.D, 3, "ok"), e.tol)
                          /\ AllClose(e.med, e.Se, LEdA(e.rows, e.D, 3, "ok"), e.tol)
    /\ e.bgrid = e.mwn /\ e.bwid = e.mwid                                    \* binner on exactly those centres and widths
    /\ e.chkalign => e.mb = [i \in 1..n |-> LVal(e.rows, "ok")[i] * e.S]     \* binned model aligned with the observed values
Init == l = 1
Step == /\ l <= Len(TraceLog)
        /\ LET e == TraceLog[l] IN
             IF Ok(e) THEN TRUE ELSE PrintT(<<"BAD", ToJson([l |-> l, id |-> e.id])>>)
        /\ l' = l + 1
Spec == Init /\ [][Step]_l
Accepted == TLCGet("stats").diameter - 1 = Len(TraceLog)
=============================================================================
