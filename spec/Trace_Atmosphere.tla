-------------------------- MODULE Trace_Atmosphere --------------------------
(***************************************************************************)
(* C11, binding B.  One stream of events logged from real forward models   *)
(* (TransmissionModel.build(), attributes and generate_profiles()):        *)
(*                                                                         *)
(*  ev = "levels"   n, kind ("simple" | "array"), lev[1..n+1], lay[1..n],  *)
(*                  pmax, pmin (simple only: the CURRENTLY declared bounds; *)
(*                  the model may be long-lived and have had its planet /  *)
(*                  pressure settings changed before this observation),    *)
(*                  input, reverse (array / file profiles: the pressures   *)
(*                  handed to the constructor in Pa, and the flag)         *)
(*  ev = "step"     one per layer: i (0-based), n, z0, z1, dz, H, g, T,    *)
(*                  mu, Lr, rho, P, rad, gm, kB  -- taken from the exposed *)
(*                  per-layer profiles at index i (alignment)              *)
(*  ev = "profiles" n, lens: record name |-> entries along the layer axis  *)
(*                                                                         *)
(* Numbers are observations <<m, e>> = m * 10^e with 9-digit mantissas     *)
(* (m < 0: NaN / Inf / negative / entry absent) and all relations of       *)
(* module Atmosphere are evaluated in exact decimal arithmetic (Dec) with  *)
(* a relative tolerance of e.ppb parts per 10^9.  Lr = ln(P_i / P_i+1) is  *)
(* evaluated by the harness from the exposed levels (transcendental        *)
(* boundary).  Stateless stream: every event gets its own verdict.         *)
(***************************************************************************)
EXTENDS Atmosphere, IOUtils, TLCExt
VARIABLE l
TraceLog == ndJsonDeserialize(IOEnv.TRACE_FILE)

AllPos(s) == \A k \in 1..Len(s) : ObsPos(s[k]) /\ ObsSane(s[k])
DSeq(s) == [k \in 1..Len(s) |-> DOf(s[k])]

LevelsFails(e) ==
    LET Same(a, b) == DClose(a, b, e.ppb)
        ok0  == Len(e.lev) = e.n + 1 /\ Len(e.lay) = e.n /\ AllPos(e.lev) /\ AllPos(e.lay)
        lev  == DSeq(e.lev)
        lay  == DSeq(e.lay)
    IN  IF ~ok0 THEN {"levels_wellformed"}
        ELSE (IF SeqStrictlyDecreasing(DLt, lev) THEN {} ELSE {"levels_strictly_decreasing"})
             \cup (IF e.kind = "simple"
                   THEN (IF \A k \in 1..e.n : GeoMeanRel(DMul, Same, lay[k], lev[k], lev[k + 1])
                         THEN {} ELSE {"layer_is_geometric_mean"})
                        \cup (IF /\ \A k \in 1..(e.n - 1) : LogSpacedRel(DMul, Same, lev[k], lev[k + 1], lev[k + 2])
                                 /\ Same(lev[1], DOf(e.pmax))
                                 /\ Same(lev[e.n + 1], DOf(e.pmin))
                              THEN {} ELSE {"levels_log_spaced"})
                   ELSE {})
             \cup (IF BracketRel(DLt, lev, lay) THEN {} ELSE {"levels_bracket_layers"})
             \cup (IF e.kind = "array"
                   THEN (IF AllPos(e.input) /\ OrientedInputRel(Same, lay, DSeq(e.input), e.reverse)
                         THEN {} ELSE {"layers_are_oriented_input"})
                   ELSE {})

StepFails(e) ==
    LET Same(a, b) == DClose(a, b, e.ppb)
        pos  == /\ \A f \in {e.z1, e.dz, e.H, e.g, e.T, e.mu, e.Lr, e.rho, e.P, e.rad, e.gm, e.kB} :
                       ObsPos(f) /\ ObsSane(f)
                /\ ObsOk(e.z0) /\ ObsSane(e.z0)
    IN  IF ~pos THEN {"step_entries_present_and_positive"}
        ELSE LET z0 == DOf(e.z0)  z1 == DOf(e.z1)  dz == DOf(e.dz)  H == DOf(e.H)  g == DOf(e.g)
                 T == DOf(e.T)  mu == DOf(e.mu)  Lr == DOf(e.Lr)  rad == DOf(e.rad)  gm == DOf(e.gm)
                 kB == DOf(e.kB)
             IN  (IF (e.i = 0) => DIsZero(z0) THEN {} ELSE {"altitude_zero_at_surface"})
                 \cup (IF DLt(z0, z1) THEN {} ELSE {"altitude_strictly_increasing"})
                 \cup (IF AdditiveRel(DAdd, Same, z0, z1, dz) THEN {} ELSE {"dz_is_level_difference"})
                 \cup (IF ThicknessRel(DMul, Same, dz, H, Lr) THEN {} ELSE {"dz_is_H_ln_pressure_ratio"})
                 \cup (IF ScaleHeightRel(DMul, Same, H, g, T, mu, kB) THEN {} ELSE {"H_is_kT_over_mu_g"})
                 \cup (IF InverseSquareRel(DMul, DAdd, Same, g, z0, rad, gm) THEN {} ELSE {"g_inverse_square"})
                 \cup (IF DensityRel(DMul, Same, DOf(e.rho), DOf(e.P), T, kB) THEN {} ELSE {"density_ideal_gas"})

\* store_profiles() writes every per-layer profile except the molecular weight
Need(e) == IF e.src = "store_profiles" THEN LayerProfiles \ {"mu_profile"} ELSE LayerProfiles
ProfilesFails(e) ==
    IF OneEntryPerLayerRec(e.n, e.lens, Need(e)) THEN {} ELSE {"one_entry_per_layer"}

Fails(e) == IF e.ev = "levels" THEN LevelsFails(e)
            ELSE IF e.ev = "step" THEN StepFails(e)
            ELSE IF e.ev = "profiles" THEN ProfilesFails(e)
            ELSE {"unknown_event"}

Init == l = 1
Step == /\ l <= Len(TraceLog)
        /\ LET e == TraceLog[l]
               f == Fails(e)
           IN  IF f = {} THEN TRUE
               ELSE PrintT(<<"BAD", ToJson([l |-> l, id |-> e.id, ev |-> e.ev, why |-> f,
                                            wrong |-> IF e.ev = "profiles" THEN WrongLengths(e.n, e.lens, Need(e)) ELSE {}])>>)
        /\ l' = l + 1
Spec == Init /\ [][Step]_l
Accepted == TLCGet("stats").diameter - 1 = Len(TraceLog)
=============================================================================
