-------------------------- MODULE Trace_Atmosphere --------------------------
(***************************************************************************)
(* C11, binding B.  One stream of events logged from real forward models   *)
(* (TransmissionModel.build(), attributes and generate_profiles()):        *)
(*                                                                         *)
(*  ev = "levels"   n, kind ("simple" | "array"), lev[1..n+1], lay[1..n],  *)
(*                  pmax, pmin (simple only: the CURRENTLY declared bounds; *)
(*                  the model may be long-lived and have had its planet /  *)
(*                  pressure settings changed before this observation),    *)
(*                  input, reverse (array / file profiles: the pressures   *)
(*                  handed to the constructor in Pa, and the flag)         *)
(*  ev = "step"     one per layer: i (0-based), n, z0, z1, dz, H, g, T,    *)
(*                  mu, Lr, rho, P, rad, gm, kB  -- taken from the exposed *)
(*                  per-layer profiles at index i (alignment)              *)
(*                  route ("model": the arrays a forward model exposes --   *)
(*                  possibly AFTER it was evaluated; "planet": what         *)
(*                  Planet.calculate_scale_properties returned), u: the     *)
(*                  length-unit factor of the returned numbers (1 for the   *)
(*                  model); rad, gm, kB are SI, the spec converts them      *)
(*                  (HydroStepRelUnit)                                      *)
(*  ev = "profiles" n, lens: record name |-> entries along the layer axis  *)
(*  ev = "chem"     n, tab[layer][declared gas] (the table handed to a file *)
(*                  / array chemistry), col[declared gas] (its position in  *)
(*                  the exposed gas list), mix[gas][layer] (exposed), w[gas]*)
(*                  (molecular masses), mu[layer] (exposed)                 *)
(*  ev = "reads"    pairs: one record per exposed array (attributes and the *)
(*                  entries of generate_profiles()) [name, a, b, same]: a   *)
(*                  and b are the FIRST and the SECOND of two consecutive   *)
(*                  reads (every array is read once, then every array once  *)
(*                  more; a fixed sample of entries), same: the two reads   *)
(*                  have one shape and are equal entry by entry over the    *)
(*                  whole array; handed: one record per array that was      *)
(*                  handed to a public call (Planet.calculate_scale_        *)
(*                  properties, <temperature>.initialize_profile,           *)
(*                  <chemistry>.initialize_chemistry) [name, a, b, same]:   *)
(*                  a = the private copy kept by the harness, b = the array *)
(*                  after the call; told: [name, a, b, same] a = the        *)
(*                  temperature per layer a component was TOLD (array, file, *)
(*                  isothermal), b = the temperature profile it exposes.    *)
(*                  The model is assembled from components of any built-in  *)
(*                  type (e.kinds names them).                              *)
(*                                                                         *)
(* Numbers are observations <<m, e>> = m * 10^e with 9-digit mantissas     *)
(* (m < 0: NaN / Inf / negative / entry absent) and all relations of       *)
(* module Atmosphere are evaluated in exact decimal arithmetic (Dec) with  *)
(* a relative tolerance of e.ppb parts per 10^9.  Lr = ln(P_i / P_i+1) is  *)
(* evaluated by the harness from the exposed levels (transcendental        *)
(* boundary).  Stateless stream: every event gets its own verdict.         *)
(***************************************************************************)
EXTENDS Atmosphere, IOUtils, TLCExt
VARIABLE l
TraceLog == ndJsonDeserialize(IOEnv.TRACE_FILE)

AllPos(s) == \A k \in 1..Len(s) : ObsPos(s[k]) /\ ObsSane(s[k])
DSeq(s) == [k \in 1..Len(s) |-> DOf(s[k])]

LevelsFails(e) ==
    LET Same(a, b) == DClose(a, b, e.ppb)
        ok0  == Len(e.lev) = e.n + 1 /\ Len(e.lay) = e.n /\ AllPos(e.lev) /\ AllPos(e.lay)
        lev  == DSeq(e.lev)
        lay  == DSeq(e.lay)
    IN  IF ~ok0 THEN {"levels_wellformed"}
        ELSE (IF SeqStrictlyDecreasing(DLt, lev) THEN {} ELSE {"levels_strictly_decreasing"})
             \cup (IF e.kind = "simple"
                   THEN (IF \A k \in 1..e.n : GeoMeanRel(DMul, Same, lay[k], lev[k], lev[k + 1])
                         THEN {} ELSE {"layer_is_geometric_mean"})
                        \cup (IF /\ \A k \in 1..(e.n - 1) : LogSpacedRel(DMul, Same, lev[k], lev[k + 1], lev[k + 2])
                                 /\ Same(lev[1], DOf(e.pmax))
                                 /\ Same(lev[e.n + 1], DOf(e.pmin))
                              THEN {} ELSE {"levels_log_spaced"})
                   ELSE {})
             \cup (IF BracketRel(DLt, lev, lay) THEN {} ELSE {"levels_bracket_layers"})
             \cup (IF e.kind = "array"
                   THEN (IF AllPos(e.input) /\ OrientedInputRel(Same, lay, DSeq(e.input), e.reverse)
                         THEN {} ELSE {"layers_are_oriented_input"})
                   ELSE {})

StepFails(e) ==
    LET Same(a, b) == DClose(a, b, e.ppb)
        pos  == /\ \A f \in {e.z1, e.dz, e.H, e.g, e.T, e.mu, e.Lr, e.rad, e.gm, e.kB, e.u} :
                       ObsPos(f) /\ ObsSane(f)
                /\ e.route = "model" => \A f \in {e.rho, e.P} : ObsPos(f) /\ ObsSane(f)
                /\ ObsOk(e.z0) /\ ObsSane(e.z0)
    IN  IF ~pos THEN {"step_entries_present_and_positive"}
        ELSE LET z0 == DOf(e.z0)  z1 == DOf(e.z1)  dz == DOf(e.dz)  H == DOf(e.H)  g == DOf(e.g)
                 T == DOf(e.T)  mu == DOf(e.mu)  Lr == DOf(e.Lr)  rad == DOf(e.rad)  gm == DOf(e.gm)
                 kB == DOf(e.kB)
                 u == DOf(e.u)
                 radu == DMul(rad, u)  gmu == DMul(gm, DMul(u, DMul(u, u)))  kBu == DMul(kB, DMul(u, u))
             IN  (IF (e.i = 0) => DIsZero(z0) THEN {} ELSE {"altitude_zero_at_surface"})
                 \cup (IF DLt(z0, z1) THEN {} ELSE {"altitude_strictly_increasing"})
                 \cup (IF AdditiveRel(DAdd, Same, z0, z1, dz) THEN {} ELSE {"dz_is_level_difference"})
                 \cup (IF ThicknessRel(DMul, Same, dz, H, Lr) THEN {} ELSE {"dz_is_H_ln_pressure_ratio"})
                 \* HydroStepRelUnit clause by clause: scale height and gravity against the constants
                 \* expressed in the length unit of the route (R u, GM u^3, k_B u^2)
                 \cup (IF ScaleHeightRel(DMul, Same, H, g, T, mu, kBu) THEN {} ELSE {"H_is_kT_over_mu_g"})
                 \cup (IF InverseSquareRel(DMul, DAdd, Same, g, z0, radu, gmu) THEN {} ELSE {"g_inverse_square"})
                 \cup (IF e.route = "model" => DensityRel(DMul, Same, DOf(e.rho), DOf(e.P), T, kB)
                       THEN {} ELSE {"density_ideal_gas"})

\* store_profiles() writes every per-layer profile except the molecular weight;
\* Planet.calculate_scale_properties returns z (n+1), H, g, dz (n)
Need(e) == IF e.src = "store_profiles" THEN LayerProfiles \ {"mu_profile"}
           ELSE IF e.src = "calculate_scale_properties" THEN {"scaleheight_profile", "gravity_profile"}
           ELSE LayerProfiles
ProfilesFails(e) ==
    IF OneEntryPerLayerRec(e.n, e.lens, Need(e)) THEN {} ELSE {"one_entry_per_layer"}

\* chemistry: exposed mixing ratios are the columns of the table, layer by layer; mu of layer k is
\* the weighted mean of the mixing ratios exposed for layer k
ObsSeqOk(sq) == \A k \in 1..Len(sq) : ObsOk(sq[k]) /\ ObsSane(sq[k])
ChemFails(e) ==
    LET Same(a, b) == DClose(a, b, e.ppb)
        ng   == Len(e.mix)
        nd   == Len(e.col)
        ok0  == /\ ng >= 1 /\ Len(e.w) = ng /\ Len(e.mu) = e.n /\ Len(e.tab) = e.n
                /\ \A gs \in 1..ng : Len(e.mix[gs]) = e.n /\ ObsSeqOk(e.mix[gs])
                /\ \A k \in 1..e.n : Len(e.tab[k]) = nd /\ ObsSeqOk(e.tab[k])
                /\ AllPos(e.w) /\ AllPos(e.mu)
                /\ \A j \in 1..nd : e.col[j] \in 1..ng
    IN  IF ~DistinctTable(e.tab) THEN {"input_table_not_distinct"}      \* harness fault, not a verdict
        ELSE IF ~ok0 THEN {"chem_wellformed"}
        ELSE LET mix  == [gs \in 1..ng |-> DSeq(e.mix[gs])]
                 decl == [j \in 1..nd |-> mix[e.col[j]]]
                 tab  == [k \in 1..e.n |-> DSeq(e.tab[k])]
                 w    == DSeq(e.w)
                 mu   == DSeq(e.mu)
             IN  (IF nd = 0 \/ MixAlignedRel(Same, decl, tab, e.n) THEN {} ELSE {"mixing_ratios_aligned_with_layers"})
                 \cup (IF \A k \in 1..e.n : WeightedMeanRel(DMul, DAdd, Same, DInt(0), mu[k], mix, k, w)
                       THEN {} ELSE {"mu_is_weighted_mean_of_layer"})

\* components only read the arrays they share with the model and with their callers: two consecutive
\* reads of an exposed array are identical (exactly: no tolerance), a handed array is unchanged
PairOk(p) == p.same /\ RepeatableRel(p.a, p.b)
\* a tabulated T(P) on its own pressure nodes: every layer of every exposure obeys the table's rule (the node's
\* temperature on a node, the NEAREST end of the table outside its range, between the neighbours' in between)
TableOk(t) == \A k \in 1..Len(t.layers) :
                 TableAlignedRel(t.nodes, t.layers[k].l, t.layers[k].T, t.slack, t.tol, "nearest")
ReadsFails(e) ==
    (IF \A j \in 1..Len(e.tables) : NodesDecreasing(e.tables[j].nodes) THEN {} ELSE {"input_table_not_decreasing"})   \* harness fault
    \cup (IF \A j \in 1..Len(e.tables) : NodesDecreasing(e.tables[j].nodes) => TableOk(e.tables[j])
          THEN {} ELSE {"temperature_aligned_with_layers"})
    \cup (IF \A j \in 1..Len(e.pairs) : PairOk(e.pairs[j]) THEN {} ELSE {"reads_repeatable"})
    \cup (IF \A j \in 1..Len(e.handed) : PairOk(e.handed[j]) THEN {} ELSE {"handed_arrays_unchanged"})
    \cup (IF \A j \in 1..Len(e.told) : PairOk(e.told[j]) THEN {} ELSE {"temperature_aligned_with_layers"})
ReadsWrong(e) == {e.pairs[j].name : j \in {jj \in 1..Len(e.pairs) : ~PairOk(e.pairs[jj])}}
                 \cup {e.handed[j].name : j \in {jj \in 1..Len(e.handed) : ~PairOk(e.handed[jj])}}
                 \cup {e.told[j].name : j \in {jj \in 1..Len(e.told) : ~PairOk(e.told[jj])}}
                 \cup {"table:" \o e.tables[j].name : j \in {jj \in 1..Len(e.tables) : ~TableOk(e.tables[jj])}}

Fails(e) == IF e.ev = "levels" THEN LevelsFails(e)
            ELSE IF e.ev = "chem" THEN ChemFails(e)
            ELSE IF e.ev = "step" THEN StepFails(e)
            ELSE IF e.ev = "profiles" THEN ProfilesFails(e)
            ELSE IF e.ev = "reads" THEN ReadsFails(e)
            ELSE {"unknown_event"}

Init == l = 1
Step == /\ l <= Len(TraceLog)
        /\ LET e == TraceLog[l]
               f == Fails(e)
           IN  IF f = {} THEN TRUE
               ELSE PrintT(<<"BAD", ToJson([l |-> l, id |-> e.id, ev |-> e.ev, why |-> f,
                                            wrong |-> IF e.ev = "profiles" THEN WrongLengths(e.n, e.lens, Need(e))
                                                      ELSE IF e.ev = "reads" THEN ReadsWrong(e) ELSE {}])>>)
        /\ l' = l + 1
Spec == Init /\ [][Step]_l
Accepted == TLCGet("stats").diameter - 1 = Len(TraceLog)
=============================================================================
