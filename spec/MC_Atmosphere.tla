--------------------------- MODULE MC_Atmosphere ---------------------------
(***************************************************************************)
(* Exhaustive / export model for C11 (n <= NMax layers, exact rationals).  *)
(*                                                                         *)
(* Coordinates.  Pressures are powers of ten, P = 10^lambda, with integer  *)
(* level exponents spaced by 2c so that layer mid-points are integers too. *)
(* The thickness of a step is H * Lr with Lr = ln(10) * 2c; the factor     *)
(* ln(10) and Boltzmann's constant are absorbed into the unit of GM by the *)
(* harness (kB = 1, Lr = 2c here), because they only occur in the          *)
(* combination k T Lr / (mu GM).                                           *)
(*                                                                         *)
(* Actions: Levels (build the grid), Step (one hydrostatic layer, bottom   *)
(* up), Profiles (slice the level/layer arrays into the exposed per-layer  *)
(* profiles).  Slicing = "droplast" models the defect L-C11 (H[:-1],       *)
(* g[:-1] applied to arrays that already have n entries) and is used by an *)
(* expected-counterexample config only.                                    *)
(*                                                                         *)
(* Second round.  Chemistry (the composition is a TABLE tab[layer][gas]    *)
(* with pairwise distinct entries; mix[gas][layer] is exposed and mu, the  *)
(* weighted mean of the layer's row, is what the hydrostatic recurrence    *)
(* uses; ChemLayout = "transposed_if_square" models a reader that keeps a  *)
(* square table un-transposed).  Returned(u): what a route hands back when *)
(* asked for a length unit of 1/u metres; UnitAt = "loop" models a         *)
(* conversion applied inside the recurrence, so that g(z) is fed the       *)
(* converted altitude.  Evaluate: running the forward model only READS the *)
(* structure; EvalEffect = "inplace_mid" models an in-place z += dz/2 on   *)
(* the exposed altitude array.  The three defect values occur in           *)
(* expected-counterexample configs only.                                   *)
(*                                                                         *)
(* Third round.  The model is assembled from components of ANY built-in    *)
(* type and hands them its own arrays: `lay` is the very array the         *)
(* temperature component reads whenever its profile is evaluated (in Step, *)
(* in Evaluate and in Read), T the very array the chemistry reads.  Read:  *)
(* a second look at the exposed profiles -- a stuttering step of the       *)
(* as-built system (ReadsAreRepeatable).  ShareEffect models a component   *)
(* that WRITES into what it is handed ("temperature_scales_pressure": every *)
(* evaluation of the temperature profile scales the handed layer pressures *)
(* in place; "read_scales_temperature": a read of the composition scales   *)
(* the handed temperatures); expected-counterexample configs only.  The    *)
(* exported vectors list the temperature component kinds that can be told  *)
(* the vector's T (TempComponentKinds): binding A builds each in turn.     *)
(*                                                                         *)
(* Fifth round.  PRESENTATION of the profile inputs: the ELEMENT TYPE /    *)
(* container in which the temperature (pressure, molecular-weight) profile *)
(* is handed over (ElementTypes; float64 / float32 / int64 / int32 arrays, *)
(* lists of ints / floats).  A presentation denotes the same profile       *)
(* whenever its entries are the same numbers (integer types: whole         *)
(* numbers -- the T of this model always are); the structure is a function *)
(* of the NUMBERS, so g, H, dz, z stored under any presentation are the    *)
(* real-valued ones (StructureIndependentOfElementType).  ElemType = the   *)
(* presentation the recurrence was handed; WorkArrays =                    *)
(* "inherit_element_type" models work arrays for g and H allocated with    *)
(* the element type of the temperature input, so that under an integer     *)
(* presentation g and H are truncated to whole numbers when stored         *)
(* (expected-counterexample config only).  The exported vectors list the   *)
(* presentations of the vector's T (`etypes`): binding A builds them.      *)
(***************************************************************************)
EXTENDS Atmosphere
CONSTANTS NMax,          \* layers 1..NMax
          L0S, LShift,   \* surface exponent in {l - LShift : l \in L0S}
          CS,            \* half-spacing of level exponents
          LMinAll,       \* (shifted) lowest admissible top exponent
          TS,            \* layer temperatures (units)
          ChemPool,      \* the first ChemPool rows of ChemRows may be used as rows of the chemistry table
          ChemLayout,    \* "rows_are_layers" | "transposed_if_square"
          UnitAt,        \* "return" | "loop": where the length-unit conversion is applied
          ULoop,         \* the unit factor of the "loop" variant (1 otherwise)
          EvalEffect,    \* "readonly" | "inplace_mid": what evaluating the model does to the structure
          ShareEffect,   \* "readonly" | "temperature_scales_pressure" | "read_scales_temperature": what a
                         \* component does to the arrays the model shares with it
          RADS, GMS,     \* planet radius / GM (units)
          Slicing,       \* "layer" | "droplast"
          ElemType,      \* element type / container in which the profile inputs are handed over (ElementTypes)
          WorkArrays,    \* "float" | "inherit_element_type": the type of the arrays g and H are stored in
          TableEnds,     \* "nearest" | "swapped": which end of a tabulated T(P) an out-of-range layer takes
          Export
VARIABLES phase, n, lev, lay, T, tab, mix, mu, rad, gm, i, z, g, H, prof
vars == <<phase, n, lev, lay, T, tab, mix, mu, rad, gm, i, z, g, H, prof>>

\* Chemistry tables.  Mixing ratios are numerators over ChemDen; gas weights GasW (units of mu).
\* Every row has pairwise distinct entries and a weighted mean of exactly 1 or 2 units, so that the
\* recurrence stays within 32-bit rationals; a table is any sequence of rows of the pool whose
\* entries are ALL distinct (so no table equals its own transpose, shift or reversal).
ChemRows == << <<2, 1, 7>>, <<6, 3, 5>>, <<4, 8, 11>>, <<14, 7, 9>>, <<12, 2, 4>>, <<2, 9, 11>> >>
ChemDen  == 32
GasW     == <<1, 2, 4>>
NGas     == Len(GasW)
IMul(a, b) == a * b
IAdd(a, b) == a + b
Tables(nl) == {t \in [1..nl -> {ChemRows[j] : j \in 1..ChemPool}] : DistinctTable(t)}
\* length-unit factors u (the structure is returned in units of 1/u "metres")
US == {<<1, 1>>, <<1, 2>>, <<3, 1>>}

\* presentations of a profile input (element type / container)
ElementTypes == {"float64", "float32", "int64", "int32", "list_of_int", "list_of_float"}
IntegerTypes == {"int64", "int32", "list_of_int"}
\* those that denote the same profile as the float64 array with entries t (t: whole numbers of units)
ElementPresentations(t) == {e \in ElementTypes : e \in IntegerTypes => \A k \in 1..Len(t) : t[k] \in Int}
ASSUME ElemType \in ElementTypes /\ WorkArrays \in {"float", "inherit_element_type"}
\* what a work array holds after the (non-negative) real x was stored in it
Stored(x) == IF WorkArrays = "inherit_element_type" /\ ElemType \in IntegerTypes THEN <<x[1] \div x[2], 1>> ELSE x

P10r(e) == IF e >= 0 THEN <<Pow(10, e), 1>> ELSE <<1, Pow(10, -e)>>
kB == Q(1)

\* rational product / quotient / sum with cross-cancellation *before* multiplying, so that the
\* 32-bit intermediate products of Rat!XMul / XAdd are avoided whenever the result itself fits
XMul(a, b) == LET g1 == GCD(a[1], b[2])
                  g2 == GCD(b[1], a[2])
                  p1 == IF a[1] = 0 \/ b[1] = 0 THEN 0 ELSE (a[1] \div g1) * (b[1] \div g2)
              IN  IF p1 = 0 THEN <<0, 1>> ELSE <<p1, (a[2] \div g2) * (b[2] \div g1)>>
XDiv(a, b) == XMul(a, <<b[2], b[1]>>)          \* b > 0
XAdd(a, b) == LET gd == GCD(a[2], b[2])
              IN  Norm(a[1] * (b[2] \div gd) + b[1] * (a[2] \div gd), (a[2] \div gd) * b[2])
XSub(a, b) == XAdd(a, <<-b[1], b[2]>>)
XLt(a, b)  == LET gd == GCD(a[2], b[2]) IN a[1] * (b[2] \div gd) < b[1] * (a[2] \div gd)

Init == /\ phase = "levels"
        /\ n \in 1..NMax
        /\ \E l0 \in L0S, c \in CS :
              /\ (l0 - LShift) - 2 * c * n >= LMinAll - LShift
              /\ lev = <<l0 - LShift, c>>            \* (surface exponent, half spacing) until Levels
        /\ lay = <<>>
        /\ T \in [1..n -> TS]
        /\ tab \in Tables(n)
        /\ mix = <<>> /\ mu = <<>>
        /\ rad \in RADS
        /\ gm \in GMS
        /\ i = 0
        /\ z = <<Q(0)>> /\ g = <<>> /\ H = <<>>
        /\ prof = [none |-> 0]

\* standard grid: n+1 levels log-spaced from the surface down to the top, layers at mid-points
Levels == /\ phase = "levels"
          /\ lev' = [k \in 1..(n + 1) |-> lev[1] - 2 * lev[2] * (k - 1)]
          /\ lay' = [k \in 1..n |-> lev[1] - lev[2] * (2 * k - 1)]
          /\ phase' = "chem"
          /\ UNCHANGED <<n, T, tab, mix, mu, rad, gm, i, z, g, H, prof>>

\* the chemistry reads its table: one row per layer, one column per gas
Chemistry == /\ phase = "chem"
             /\ LET m == IF ChemLayout = "transposed_if_square" /\ n = NGas
                         THEN [gs \in 1..NGas |-> [k \in 1..n |-> tab[gs][k]]]
                         ELSE ExposedMix(tab, NGas)
                IN  /\ mix' = m
                    /\ mu' = [k \in 1..n |-> Norm(SumProd(IMul, IAdd, 0, [gs \in 1..NGas |-> m[gs][k]], GasW), ChemDen)]
             /\ phase' = "hydro"
             /\ UNCHANGED <<n, lev, lay, T, tab, rad, gm, i, z, g, H, prof>>

Lr(k) == Q(lev[k] - lev[k + 1])        \* ln(P_k / P_{k+1}) in units of ln 10

\* The layer-pressure array after the temperature component (which holds a reference to it, not a
\* copy) has evaluated its profile once; the temperature array after the composition was read once.
\* As built, components only read: both are the identity.
PressureAfterTempEval(l) == IF ShareEffect = "temperature_scales_pressure"
                            THEN [k \in 1..Len(l) |-> l[k] - 1] ELSE l          \* every entry times 1/10
TempAfterChemRead(t) == IF ShareEffect = "read_scales_temperature"
                        THEN [k \in 1..Len(t) |-> 2 * t[k]] ELSE t

\* layer i+1 (1-based k): gravity and scale height at the bottom of the layer
Step == /\ phase = "hydro" /\ i < n
        /\ LET k  == i + 1
               r2 == XMul(XAdd(Q(rad), z[k]), XAdd(Q(rad), z[k]))
               gk == Stored(XDiv(Q(gm), r2))
               Hk == IF gk[1] = 0 THEN Q(0) ELSE Stored(XDiv(XMul(kB, Q(T[k])), XMul(mu[k], gk)))
               \* UnitAt = "loop": the thickness is converted before it is accumulated, so the next
               \* gravity is evaluated at an altitude in the wrong unit (ULoop = 1 otherwise)
               dz == XMul(XMul(Hk, Lr(k)), IF UnitAt = "loop" THEN Q(ULoop) ELSE Q(1))
           IN  /\ g' = Append(g, gk)
               /\ H' = Append(H, Hk)
               /\ z' = Append(z, XAdd(z[k], dz))
        /\ i' = i + 1
        /\ lay' = PressureAfterTempEval(lay)      \* H needs T[k]: the temperature component is evaluated
        /\ UNCHANGED <<phase, n, lev, T, tab, mix, mu, rad, gm, prof>>

\* what is exposed: altitude of the layer bottoms, one g and H per layer
Profiles == /\ phase = "hydro" /\ i = n
            /\ LET perlayer == IF Slicing = "layer" THEN Len(g) ELSE Len(g) - 1
               IN prof' = [pressure_profile |-> Len(lay), temp_profile |-> Len(T), density_profile |-> Len(lay),
                           altitude_profile |-> Len(z) - 1, gravity_profile |-> perlayer,
                           scaleheight_profile |-> perlayer, mu_profile |-> Len(mu),
                           active_mix_profile |-> Len(mix[1]), inactive_mix_profile |-> Len(mix[NGas]),
                           pressure_levels |-> Len(lev), altitude_boundaries |-> Len(z), deltaz |-> Len(z) - 1]
            /\ phase' = "done"
            /\ UNCHANGED <<n, lev, lay, T, tab, mix, mu, rad, gm, i, z, g, H>>

\* running the forward model (path integral) only reads the structure
Evaluate == /\ phase = "done"
            /\ z' = IF EvalEffect = "inplace_mid"
                    THEN [k \in 1..Len(z) |-> IF k <= n THEN XAdd(z[k], XMul(XSub(z[k + 1], z[k]), <<1, 2>>)) ELSE z[k]]
                    ELSE z
            /\ phase' = "evaluated"
            /\ lay' = PressureAfterTempEval(lay)
            /\ UNCHANGED <<n, lev, T, tab, mix, mu, rad, gm, i, g, H, prof>>

\* a (second, third, ...) look at the exposed profiles of a built or evaluated model: the temperature
\* component evaluates its profile, the composition is read
Read == /\ phase \in {"done", "evaluated"}
        /\ ~Export                               \* (export runs print every done state once)
        /\ lay' = PressureAfterTempEval(lay)
        /\ T' = TempAfterChemRead(T)
        /\ UNCHANGED <<phase, n, lev, tab, mix, mu, rad, gm, i, z, g, H, prof>>

Next == Levels \/ Chemistry \/ Step \/ Profiles \/ Evaluate \/ Read
Spec == Init /\ [][Next]_vars

Built == phase # "levels"
Done  == phase \in {"done", "evaluated"}
HasChem == phase \notin {"levels", "chem"}
Rho(k) == XDiv(P10r(lay[k]), XMul(kB, Q(T[k])))

\* ------------------------------------------------------------ invariants
ILt(a, b) == a < b
REqual(a, b) == a = b
LevelsStrictlyDecreasing ==
    Built => /\ Len(lev) = n + 1
             /\ SeqStrictlyDecreasing(ILt, lev)
             /\ \A k \in 1..(n - 1) : LogSpacedRel(XMul, REqual, P10r(lev[k]), P10r(lev[k + 1]), P10r(lev[k + 2]))
LayerIsGeometricMean ==
    Built => /\ Len(lay) = n
             /\ \A k \in 1..n : /\ GeoMeanRel(XMul, REqual, P10r(lay[k]), P10r(lev[k]), P10r(lev[k + 1]))
                                /\ lev[k + 1] < lay[k] /\ lay[k] < lev[k]
\* array / file input options: the admissible ones expose exactly the layers, the others would expose
\* them top first (increasing), i.e. the flag matters; levels bracket their layers
ArrayInputOrientation ==
    Built => /\ {OptionSeq[j] : j \in 1..Len(OptionSeq)} =
                   {o \in [orient : Orientations, reverse : BOOLEAN] : OptionAdmissible(o.orient, o.reverse)}
             /\ \A j \in 1..Len(OptionSeq) :
                   /\ OrientedInputRel(REqual, lay, ArrayInput(lay, OptionSeq[j].orient), OptionSeq[j].reverse)
                   /\ SeqStrictlyDecreasing(ILt, Oriented(ArrayInput(lay, OptionSeq[j].orient), OptionSeq[j].reverse))
             /\ \A orient \in Orientations, rev \in BOOLEAN :
                   (n >= 2 /\ ~OptionAdmissible(orient, rev)) =>
                       SeqStrictlyIncreasing(ILt, Oriented(ArrayInput(lay, orient), rev))
             /\ BracketRel(ILt, lev, lay)
AltitudeStrictlyIncreasing ==
    /\ z[1] = Q(0)
    /\ Len(z) = i + 1
    /\ SeqStrictlyIncreasing(XLt, z)
GravityFallsOff == SeqStrictlyDecreasing(XLt, g) /\ \A k \in 1..Len(g) : XLt(Q(0), g[k])
StepRelation ==
    \A k \in 1..i : HydroStepRel(XMul, XAdd, REqual, z[k], z[k + 1], XSub(z[k + 1], z[k]), H[k], g[k],
                                 Q(T[k]), mu[k], Lr(k), Q(rad), Q(gm), kB)
\* whatever the element type / container of the inputs (ElemType \in ElementPresentations(T)): what is stored
\* for layer k is the REAL gravity at the bottom of the layer and the real scale height that follows from it
StructureIndependentOfElementType ==
    /\ ElemType \in ElementPresentations(T)
    /\ \A k \in 1..i : LET r == XAdd(Q(rad), z[k])
                        IN  /\ REqual(XMul(g[k], XMul(r, r)), Q(gm))
                            /\ REqual(XMul(H[k], XMul(mu[k], g[k])), XMul(kB, Q(T[k])))
\* what a route returns when asked for the length unit 1/u: everything of dimension length times u
Returned(u) == [z |-> [k \in 1..Len(z) |-> IF UnitAt = "loop" THEN z[k] ELSE XMul(z[k], u)],
                H |-> [k \in 1..Len(H) |-> XMul(H[k], u)],
                g |-> [k \in 1..Len(g) |-> XMul(g[k], u)]]
UnitsChecked == IF UnitAt = "loop" THEN {Q(ULoop)} ELSE US
\* the step obligation holds between the returned numbers in every length unit
StepRelationAnyUnit ==
    \A u \in UnitsChecked :
        LET r == Returned(u)
        IN  \A k \in 1..i : HydroStepRelUnit(XMul, XAdd, REqual, u, r.z[k], r.z[k + 1], XSub(r.z[k + 1], r.z[k]),
                                             r.H[k], r.g[k], Q(T[k]), mu[k], Lr(k), Q(rad), Q(gm), kB)
\* evaluating the model leaves the exposed structure as the recurrence built it (z[1] = 0 and the step
\* relation determine z, g and H uniquely from the inputs)
EvaluationKeepsStructure == phase = "evaluated" => (z[1] = Q(0) /\ StepRelation /\ SeqStrictlyIncreasing(XLt, z))
\* mixing ratios exposed per gas are the columns of the table, layer by layer; mu is the weighted mean
\* of the layer's own row; the tables of this model make a misalignment visible
MixAlignedWithLayers ==
    /\ DistinctTable(tab)
    /\ HasChem => /\ Len(mix) = NGas
                  /\ MixAlignedRel(REqual, mix, tab, n)
                  /\ Len(mu) = n
                  /\ \A k \in 1..n : /\ WeightedMeanRel(XMul, XAdd, REqual, Q(0), mu[k],
                                                         [gs \in 1..NGas |-> [kk \in 1..n |-> Norm(tab[kk][gs], ChemDen)]],
                                                         k, [gs \in 1..NGas |-> Q(GasW[gs])])
                                     /\ XLt(Q(0), mu[k])
DensityIdealGas ==
    Built => \A k \in 1..n : DensityRel(XMul, REqual, Rho(k), P10r(lay[k]), Q(T[k]), kB) /\ XLt(Q(0), Rho(k))
\* Fourth round.  The temperatures T may come from a TABLE on its own pressure nodes that the grid reaches beyond
\* (on both sides / on one side) or that reaches beyond the grid: in every such position the table's rule
\* (TableBrackets: node value on a node, NEAREST end outside) hands layer k exactly T[k], so the structure that
\* follows is the same.  TableEnds = "swapped" (expected-counterexample config only) takes the far end.
Lay2 == [k \in 1..n |-> 2 * lay[k]]
TabulatedTemperatureAligned ==
    (Built /\ ShareEffect = "readonly") => \A c \in TableCovers(n) :
        LET nd == TableNodes(c, Lay2, T)
        IN  /\ NodesDecreasing(nd)
            /\ \A k \in 1..n : /\ TableBrackets(nd, Lay2[k], 0, TableEnds) # {}
                                /\ \A b \in TableBrackets(nd, Lay2[k], 0, TableEnds) : b.lo = T[k] /\ b.hi = T[k]
                                /\ TableAlignedRel(nd, Lay2[k], T[k], 0, 0, TableEnds)
OneEntryPerLayer == Done => OneEntryPerLayerRec(n, prof, LayerProfiles)
\* two consecutive reads of every exposed array are identical: a step that leaves the phase of a built
\* model alone (a Read) changes nothing that is exposed
Exposed == <<lev, lay, T, mix, mu, z, g, H, prof>>
ReadsAreRepeatable == [][(Done /\ phase' = phase) => UNCHANGED Exposed]_vars
FitsInv == /\ \A k \in 1..Len(z) : Fits(z[k])
           /\ \A k \in 1..Len(g) : Fits(g[k]) /\ Fits(H[k])

Emit == (Export /\ phase = "done") =>
    PrintT(<<"VEC", ToJson([n |-> n, lev |-> lev, lay |-> lay, T |-> T, mu |-> mu, tab |-> tab, mix |-> mix,
                            den |-> ChemDen, w |-> GasW, rad |-> rad, gm |-> gm,
                            z |-> z, g |-> g, H |-> H, rho |-> [k \in 1..n |-> Rho(k)], prof |-> prof,
                            tkinds |-> TempComponentKinds(T), etypes |-> ElementPresentations(T),
                            tables |-> [c \in TableCovers(n) |-> TableNodes(c, Lay2, T)],
                            inputs |-> [j \in 1..Len(OptionSeq) |->
                                          [orient |-> OptionSeq[j].orient, reverse |-> OptionSeq[j].reverse,
                                           array |-> ArrayInput(lay, OptionSeq[j].orient)]]])>>)
=============================================================================
