SPECIFICATION HSpec
CONSTANTS
  NB = 2
  TempK <- MCTemp3
  SortBeforeFill = FALSE
  OutsideRule = "zero"
  BoundsRule = "given"
  Layouts = {"k"}
  KField = "second"
  HeadFrom = "start"
  QTemps = {200, 250, 300, 400, 700, 1000}
  Export = FALSE
INVARIANT HTypeOK
INVARIANT ReaderMatchesTable
INVARIANT GivenKept
INVARIANT RowsConvex
INVARIANT HFits
INVARIANT EveryLayoutRead
CHECK_DEADLOCK FALSE
