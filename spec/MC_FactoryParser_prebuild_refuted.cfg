SPECIFICATION Spec
CONSTANTS
  MaxCalls = 1
  NFiles = 3
  Consuming = {}
  Prebuild = TRUE
INVARIANT AbsentSectionIsDefaultArgument
CHECK_DEADLOCK FALSE
