SPECIFICATION Spec
CONSTANTS
  NMax = 3
  L0 = 12
  Spacings = {2,4}
  Kinds = {"flat"}
  TrS = {0,1,2}
  Rad = 10
  FlatRule = "edges"
  Export = FALSE
INVARIANT OpaqueAtAndBelowDeck
INVARIANT UntouchedAbove
INVARIANT DeckDownwardClosed
INVARIANT DepthAtLeastOpaqueIntegral
INVARIANT NoneOutsideWindow
INVARIANT DeclaredMagnitudeInside
INVARIANT PartialWithinInterval
INVARIANT UnsetMeansWholeAtmosphere
INVARIANT InvertedBoundsNeverOutsideHull
INVARIANT WindowExtentConserved
INVARIANT FitsInv
CONSTRAINT Emit
CHECK_DEADLOCK FALSE
