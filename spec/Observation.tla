---------------------------- MODULE Observation ----------------------------
(***************************************************************************)
(* C17 -- loading an observation (ArraySpectrum and its text / HDF5        *)
(* front-ends) and the binner created from it.                             *)
(*                                                                         *)
(* A row is <<k, val, err, j>>: wavelength k/D microns, value, error bar,  *)
(* bin width j/D microns (ignored when the source has 3 columns).          *)
(* Load sorts the rows by wavelength descending, so that wavenumbers       *)
(* 10000/wl ascend; every column travels with its row.                     *)
(* Widths: 4 columns  wnwidth = 10000 wid / wl^2 (first order);            *)
(*         3 columns  derived from neighbouring mid-points -- reading A:   *)
(*         mid-points in wavelength then converted as above; reading B:    *)
(*         mid-points in wavenumber.                                       *)
(* Edges:  4 columns  two per bin; reading A 10000/(wl +/- wid/2),         *)
(*         reading B  wn -/+ wnwidth/2;                                    *)
(*         3 columns  n+1 edges; reading A 10000/(wavelength mid-points),  *)
(*         reading B wavenumber mid-points (ends mirrored).                *)
(* Variants model realistic slips (refuted by MC_Observation):             *)
(*  "ok" | "sortcol0" (only the wavelength column is sorted)               *)
(*  | "widthsrev" (width column not carried with its row: reversed)        *)
(*  | "notsquared" (wnwidth = 10000 wid / wl)                              *)
(* Routes (RoutesOf): the SAME source reaches the loader in several public *)
(* ways -- an array of any element type / memory layout; the text and HDF5 *)
(* classes, the parameter file's [Observation] keys, and for HDF5 the      *)
(* helper taurex.util.hdf5.taurex_hdf5_to_observation.  Every route yields *)
(* the object of Load (RoutesAgree).  Slips that live on ONE route:        *)
(*  | "edgesint"   (route array:int: the 4-column edge buffer takes the    *)
(*                  element type of the input: wl +/- wid/2 truncated)     *)
(*  | "hdf5wlgrid" (route hdf5:helper: the stored wavenumber widths are    *)
(*                  converted back with the wavelength grid)               *)
(***************************************************************************)
EXTENDS Integers, Sequences, FiniteSets, TLC, Json, Rat

Permute(s, p) == [i \in 1..Len(s) |-> s[p[i]]]
\* permutation that sorts distinct integer keys descending
SortDesc(keys) == [i \in 1..Len(keys) |->
                     CHOOSE j \in 1..Len(keys) : Cardinality({m \in 1..Len(keys) : keys[m] > keys[j]}) = i - 1]
RHalf(a) == RDiv(a, Q(2))
TenK == Q(10000)

\* mid-point edges of a monotone grid g (rationals), ends mirrored: n+1 edges  [compute_bin_edges]
MidEdges(g) == LET n == Len(g) IN
    [i \in 1..(n + 1) |-> IF i = 1 THEN RSub(g[1], RHalf(RSub(g[2], g[1])))
                          ELSE IF i = n + 1 THEN RAdd(g[n], RHalf(RSub(g[n], g[n - 1])))
                          ELSE RHalf(RAdd(g[i - 1], g[i]))]
AbsDiffs(ed) == [i \in 1..(Len(ed) - 1) |-> RAbs(RSub(ed[i + 1], ed[i]))]

\* the pieces of the loaded object (separate operators: the trace spec evaluates only what it needs)
Sorted(rows)      == Permute(rows, SortDesc([i \in 1..Len(rows) |-> rows[i][1]]))
LWl(rows, D)      == [i \in 1..Len(rows) |-> R(Sorted(rows)[i][1], D)]
LWn(rows, D)      == [i \in 1..Len(rows) |-> RDiv(TenK, LWl(rows, D)[i])]
Src(rows, v)      == IF v = "sortcol0" THEN rows ELSE Sorted(rows)   \* where the other columns come from
LVal(rows, v)     == [i \in 1..Len(rows) |-> Src(rows, v)[i][2]]
LErr(rows, v)     == [i \in 1..Len(rows) |-> Src(rows, v)[i][3]]
LWid(rows, D, ncol, v) ==
    LET n == Len(rows) IN
    IF ncol = 4 THEN [i \in 1..n |-> IF v = "widthsrev" THEN R(Sorted(rows)[n + 1 - i][4], D) ELSE R(Src(rows, v)[i][4], D)]
    ELSE AbsDiffs(MidEdges(LWl(rows, D)))
ConvAt(wl) == RDiv(TenK, RMul(wl, wl))           \* first-order factor between the two width units at a centre
LWnwA(rows, D, ncol, v) ==
    LET wl == LWl(rows, D)  wid == LWid(rows, D, ncol, v) IN
    [i \in 1..Len(rows) |-> IF v = "notsquared" THEN RDiv(RMul(TenK, wid[i]), wl[i])
                            \* stored 10000 wid/wl^2, taken back with 10000/wl^2 again (should be 10000/wn^2), then loaded
                            ELSE IF v = "hdf5wlgrid" /\ ncol = 4
                            THEN RMul(RMul(ConvAt(wl[i]), ConvAt(wl[i])), RMul(ConvAt(wl[i]), wid[i]))
                            ELSE RDiv(RMul(TenK, wid[i]), RMul(wl[i], wl[i]))]
LWnwB(rows, D, ncol, v) == IF ncol = 4 THEN LWnwA(rows, D, ncol, v) ELSE AbsDiffs(MidEdges(LWn(rows, D)))
LEdA(rows, D, ncol, v) ==
    LET n == Len(rows)  wl == LWl(rows, D)  wid == LWid(rows, D, ncol, v) IN
    IF ncol = 4 /\ v = "edgesint"       \* lattice units: (2k +/- j)/2 truncated to an integer
    THEN [m \in 1..(2 * n) |-> LET r == Sorted(rows)[(m + 1) \div 2] IN
            IF m % 2 = 1 THEN RDiv(TenK, R((2 * r[1] + r[4]) \div 2, D))
            ELSE RDiv(TenK, R((2 * r[1] - r[4]) \div 2, D))]
    ELSE IF ncol = 4
    THEN [m \in 1..(2 * n) |-> LET i == (m + 1) \div 2 IN
            IF m % 2 = 1 THEN RDiv(TenK, RAdd(wl[i], RHalf(wid[i])))
            ELSE RDiv(TenK, RSub(wl[i], RHalf(wid[i])))]
    ELSE LET edwl == MidEdges(wl) IN [m \in 1..(n + 1) |-> RDiv(TenK, edwl[m])]
LEdB(rows, D, ncol, v) ==
    LET n == Len(rows)  wn == LWn(rows, D)  wnw == LWnwA(rows, D, ncol, v) IN
    IF ncol = 4
    THEN [m \in 1..(2 * n) |-> LET i == (m + 1) \div 2 IN
            IF m % 2 = 1 THEN RSub(wn[i], RHalf(wnw[i])) ELSE RAdd(wn[i], RHalf(wnw[i]))]
    ELSE MidEdges(wn)
Load(rows, D, ncol, v) ==
    [wn |-> LWn(rows, D), val |-> LVal(rows, v), err |-> LErr(rows, v),
     wnwA |-> LWnwA(rows, D, ncol, v), wnwB |-> LWnwB(rows, D, ncol, v),
     edA |-> LEdA(rows, D, ncol, v), edB |-> LEdB(rows, D, ncol, v)]

\* ------------------------------------------------------------------ routes
\* <source>:<way in>.  array: element type / memory layout of the array handed to ArraySpectrum ("list": nested Python
\* lists -- may be refused, never loaded differently); text / hdf5: the class, the parameter file's [Observation] key
\* (observed_spectrum / taurex_spectrum), and for hdf5 the public helper taurex.util.hdf5.taurex_hdf5_to_observation.
ArrayRoutes == {"array:float64", "array:float32", "array:int", "array:fortran", "array:readonly", "array:list"}
RoutesOf(ncol) == ArrayRoutes \cup {"text:class", "text:parser"}
                  \cup (IF ncol = 4 THEN {"hdf5:class", "hdf5:helper", "hdf5:parser"} ELSE {})
SlipRoute(v) == CASE v = "edgesint" -> "array:int" [] v = "hdf5wlgrid" -> "hdf5:helper" [] OTHER -> "any"
LoadVia(rows, D, ncol, route, v) == Load(rows, D, ncol, IF SlipRoute(v) \in {"any", route} THEN v ELSE "ok")
\* every two routes give the same object:  \A r1, r2 \in RoutesOf(ncol) : LoadVia(.., r1, v) = LoadVia(.., r2, v).
\* Unfolded (RoutesOf has at least two routes; a variant slips on all of them or on exactly one), so that TLC evaluates
\* two loads per state and not two per pair of routes:
RoutesAgreeOn(rows, D, ncol, v) ==
    SlipRoute(v) \in RoutesOf(ncol) => LoadVia(rows, D, ncol, SlipRoute(v), v) = Load(rows, D, ncol, "ok")

\* inputs in the property's quantifier: >= 2 rows, distinct positive wavelengths, positive widths
\* smaller than twice the wavelength (4 columns), lowest mirrored edge positive (3 columns)
Loadable(rows, ncol) ==
    /\ Len(rows) >= 2
    /\ \A i, j \in 1..Len(rows) : i # j => rows[i][1] # rows[j][1]
    /\ \A i \in 1..Len(rows) : rows[i][1] > 0 /\ (ncol = 4 => rows[i][4] > 0 /\ rows[i][4] < 2 * rows[i][1])
    /\ ncol = 3 => LET ks == {rows[i][1] : i \in 1..Len(rows)}
                       k1 == CHOOSE a \in ks : \A b \in ks : a <= b
                       k2 == CHOOSE a \in ks \ {k1} : \A b \in ks \ {k1} : a <= b
                   IN  3 * k1 > k2

\* FluxBinner.__init__ as used by create_binner: sorts the grid ascending, widths with it
SortAsc(g) == [i \in 1..Len(g) |->
                 CHOOSE j \in 1..Len(g) : Cardinality({m \in 1..Len(g) : RLt(g[m], g[j])}) = i - 1]
BinnerOf(L) == LET q == SortAsc(L.wn) IN [grid |-> Permute(L.wn, q), widths |-> Permute(L.wnwA, q)]

\* ------------------------------------------------------------------ clauses
Ascending(L) == \A i \in 1..(Len(L.wn) - 1) : RLt(L.wn[i], L.wn[i + 1])
RowsStayTogether(L, rows, D, ncol) ==
    \A i \in 1..Len(L.wn) : \E r \in 1..Len(rows) :
        /\ L.wn[i] = RDiv(TenK, R(rows[r][1], D))
        /\ L.val[i] = rows[r][2] /\ L.err[i] = rows[r][3]
        /\ ncol = 4 => L.wnwA[i] = RDiv(RMul(TenK, R(rows[r][4], D)), RMul(R(rows[r][1], D), R(rows[r][1], D)))
EdgesBracket(L, ed, ncol) ==
    IF ncol = 4 THEN \A i \in 1..Len(L.wn) : RLt(ed[2 * i - 1], L.wn[i]) /\ RLt(L.wn[i], ed[2 * i])
    ELSE /\ \A i \in 1..Len(L.wn) : RLt(ed[i], L.wn[i]) /\ RLt(L.wn[i], ed[i + 1])
EdgesBracketCentres(L, ncol) == EdgesBracket(L, L.edA, ncol) /\ EdgesBracket(L, L.edB, ncol)
WidthsPositive(L) == \A i \in 1..Len(L.wn) : RLt(Q(0), L.wnwA[i]) /\ RLt(Q(0), L.wnwB[i])
BinnerAligned(L) == BinnerOf(L).grid = L.wn /\ BinnerOf(L).widths = L.wnwA
=============================================================================
