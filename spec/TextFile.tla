------------------------------ MODULE TextFile ------------------------------
(* C17, the TEXT source of an observation (ObservedSpectrum(filename)).       *)
(*                                                                            *)
(* A text file is a sequence of LINES.  A line is a data row (wavelength,     *)
(* value, error[, width] written as decimal numbers in some style), a comment *)
(* (starts with #) or a blank line.  The table the file denotes -- the rows   *)
(* that "loading an observation from rows of (wavelength, value, error[, bin  *)
(* width]) in any order" speaks of -- is the sequence of its data rows:       *)
(* comments and blank lines denote nothing wherever they stand, and the style *)
(* a number is written in does not change the number.                         *)
(*                                                                            *)
(* Styles of a data row (all of them decimal numbers that Python's float()    *)
(* and numpy.loadtxt read; every number of the row is written in the style):  *)
(*   plain   0.55      nolead  .55  (list-directed Fortran / IDL output drops *)
(*   plus    +0.55             the zero before the point of numbers below 1)  *)
(*   exp     5.5e-01   EXP     5.5E-01                                        *)
(*   pad     leading blanks, columns separated by tabs                        *)
(* so the first character of a data row is a digit, a point, a sign or a      *)
(* blank.                                                                     *)
(*                                                                            *)
(* Actions: WriteRow(style), WriteExtra(comment | blank), CloseText: TLC      *)
(* generates every file (exhaustive) or random ones (-simulate).              *)
(*                                                                            *)
(* Reader(title, blank, comment): the documented reading (numpy.loadtxt:      *)
(* comments and blank lines are skipped anywhere, every other line is a row)  *)
(* is Reader("none", "skip", "anywhere"); the other values are variants for   *)
(* expected counterexamples (one invariant each, reported together by TLC     *)
(* -continue):                                                                *)
(*   title = "nondigit"   a first line that does not start with a digit or #  *)
(*                        is taken for a title and skipped                    *)
(*   blank = "stop"       reading stops at the first blank line               *)
(*   comment = "top"      comments are recognised before the first row only   *)
(* ReaderReadsTable: the reader returns exactly the data rows, in order.      *)
EXTENDS Integers, Sequences, FiniteSets, TLC
CONSTANTS RowCounts,    \* admissible numbers of data rows of a closed file
          Styles,       \* subset of AllStyles
          MaxExtras     \* at most this many comment / blank lines
VARIABLES tphase, lines
tvars == <<tphase, lines>>

AllStyles == {"plain", "nolead", "plus", "exp", "EXP", "pad"}
TRow(st)  == [k |-> "row", st |-> st]
TComment  == [k |-> "comment", st |-> "-"]
TBlank    == [k |-> "blank", st |-> "-"]
TMaxRows  == CHOOSE n \in RowCounts : \A m \in RowCounts : m <= n
TIsRow(l) == l.k = "row"
TNRows(s)   == Cardinality({i \in DOMAIN s : TIsRow(s[i])})
TNExtras(s) == Len(s) - TNRows(s)

TInit == tphase = "write" /\ lines = <<>>
WriteRow(st)  == /\ tphase = "write" /\ TNRows(lines) < TMaxRows
                 /\ lines' = Append(lines, TRow(st)) /\ UNCHANGED tphase
WriteExtra(x) == /\ tphase = "write" /\ TNExtras(lines) < MaxExtras
                 /\ lines' = Append(lines, x) /\ UNCHANGED tphase
CloseText     == /\ tphase = "write" /\ TNRows(lines) \in RowCounts
                 /\ tphase' = "closed" /\ UNCHANGED lines
TNext == CloseText \/ (\E st \in Styles : WriteRow(st)) \/ WriteExtra(TComment) \/ WriteExtra(TBlank)
TSpec == TInit /\ [][TNext]_tvars
TClosed == tphase = "closed"

\* ------------------------------------------------ the table the file denotes: positions of its data rows, in order
RECURSIVE TPositions(_, _)
TPositions(s, i) == IF i > Len(s) THEN <<>> ELSE (IF TIsRow(s[i]) THEN <<i>> ELSE <<>>) \o TPositions(s, i + 1)
DataRows == TPositions(lines, 1)

\* ------------------------------------------------ how a line starts
FirstChar(l) == CASE l.k = "comment" -> "hash"
                  [] l.k = "blank"   -> "none"
                  [] l.st = "nolead" -> "point"     \* a wavelength below one micron
                  [] l.st = "plus"   -> "sign"
                  [] l.st = "pad"    -> "blank"
                  [] OTHER           -> "digit"
\* ... after leading blanks have been stripped
FirstCharStripped(l) == IF FirstChar(l) = "blank" THEN "digit" ELSE FirstChar(l)

\* ------------------------------------------------ the reader
RECURSIVE ReadFrom(_, _, _, _, _)
\* acc = [ok, rows, seen (a row has been read)]
ReadFrom(s, i, acc, blank, comment) ==
    IF ~acc.ok \/ i > Len(s) THEN acc
    ELSE LET l == s[i] IN
         IF l.k = "blank"
         THEN IF blank = "stop" THEN acc ELSE ReadFrom(s, i + 1, acc, blank, comment)
         ELSE IF l.k = "comment"
         THEN IF comment = "top" /\ acc.seen THEN [acc EXCEPT !.ok = FALSE] ELSE ReadFrom(s, i + 1, acc, blank, comment)
         ELSE ReadFrom(s, i + 1, [ok |-> TRUE, rows |-> Append(acc.rows, i), seen |-> TRUE], blank, comment)
TitleSkipped(title) == title = "nondigit" /\ lines # <<>> /\ FirstCharStripped(lines[1]) \notin {"digit", "hash"}
Reader(title, blank, comment) ==
    ReadFrom(lines, IF TitleSkipped(title) THEN 2 ELSE 1, [ok |-> TRUE, rows |-> <<>>, seen |-> FALSE], blank, comment)
ReadsTable(r) == r.ok /\ r.rows = DataRows

ReaderReadsTable == TClosed => ReadsTable(Reader("none", "skip", "anywhere"))
\* one invariant per reader variant (expected counterexamples)
RefuteTitleLine   == TClosed => ReadsTable(Reader("nondigit", "skip", "anywhere"))
RefuteBlankStops  == TClosed => ReadsTable(Reader("none", "stop", "anywhere"))
RefuteCommentTop  == TClosed => ReadsTable(Reader("none", "skip", "top"))
TTypeOK == /\ tphase \in {"write", "closed"} /\ Styles \subseteq AllStyles /\ Styles # {}
           /\ \A i \in DOMAIN lines : lines[i] \in {TRow(st) : st \in Styles} \cup {TComment, TBlank}
           /\ TNRows(lines) <= TMaxRows /\ TNExtras(lines) <= MaxExtras
\* comments and blank lines denote nothing: the table has as many rows as the file has data rows, in file order
ExtrasDenoteNothing == TClosed => /\ Len(DataRows) = TNRows(lines)
                                  /\ \A j \in DOMAIN DataRows : TIsRow(lines[DataRows[j]])
                                  /\ \A j \in 1..(Len(DataRows) - 1) : DataRows[j] < DataRows[j + 1]

\* ------------------------------------------------ input class of a file (exported)
TWhere(i) == IF DataRows = <<>> \/ i < DataRows[1] THEN "top"
             ELSE IF i > DataRows[Len(DataRows)] THEN "end" ELSE "mid"
TExtraClasses == {lines[i].k \o "-" \o TWhere(i) : i \in {j \in DOMAIN lines : ~TIsRow(lines[j])}}
TFirstStyle == IF DataRows = <<>> THEN "-" ELSE lines[DataRows[1]].st
TMixed == Cardinality({lines[i].st : i \in {j \in DOMAIN lines : TIsRow(lines[j])}}) > 1
=============================================================================
