SPECIFICATION Spec
CONSTANTS
  NN = 3
  Wins <- EXWins
  NTP = 16
  TPs <- EXTPs
  NG = 2
  Keys = {"none"}
  ModeReads = {"eval"}
  Interps = {"linear", "exp"}
  Routes = {"global", "api", "ctor", "setter"}
  Extras = {"none", "stream", "deactive"}
  CfgReads = {"both"}
  CLists <- MCLists
  PathReads = {"sum"}
INVARIANT HoldTwin
INVARIANT OnNodeSchemeFree
INVARIANT HoldOrder
CONSTRAINT EmitCfg
CHECK_DEADLOCK FALSE
