-------------------------- MODULE MC_OpacityCache --------------------------
(* Model of C14's cache protocol: two paths, two molecules.                   *)
(*   path "p1" holds both molecules (tables 1, 2), path "p2" holds only "A"   *)
(*   with a different table (3).                                              *)
(* Exhaustive configs hide the history with VIEW and bound the depth; the     *)
(* history configs (Hist = TRUE) print every behaviour of length Depth        *)
(* (exhaustively, or sampled with -simulate) for replay on the real caches.   *)
EXTENDS OpacityCache
CONSTANTS Depth, Hist

MCDisk(p, m) == IF p = "p1" THEN (IF m = "A" THEN 1 ELSE 2)
                ELSE IF p = "p2" /\ m = "A" THEN 3 ELSE 0

View == cvars
\* one CONSTRAINT: with Hist the history is part of the state, every behaviour of exactly Depth
\* actions is printed once; without it (VIEW View) the search is cut at level Depth
Cons == IF Hist THEN /\ (Len(hist) = Depth => PrintT(<<"HIST", ToJson([kind |-> Kind, h |-> hist])>>))
                     /\ Len(hist) < Depth
        ELSE TLCGet("level") < Depth
\* non-vacuity: each of these must be refuted
NeverTwoObjects == nextId <= 2
NeverHit == \A i \in 1..Len(hist) : hist[i].res # "hit"
=============================================================================
