SPECIFICATION Spec
CONSTANTS
  NPs = 2
  NTs = 2
  NWs = 3
  NGSet = {0,2}
  OrderSet = "named"
  Flatten = "memory"
  Mags8 = {40}
  Mags4 = {20}
  Export = FALSE
INVARIANT PlaneHandedLogical
CONSTRAINT EmitStores
CHECK_DEADLOCK FALSE
