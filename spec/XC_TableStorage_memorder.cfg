SPECIFICATION Spec
CONSTANTS
  NPs = 2
  NTs = 2
  NWs = 3
  NGSet = {0,2}
  OrderSet = "named"
  Flatten = "memory"
  Mags8 = {40}
  Mags4 = {20}
  GridDtypes = {"i8","i4","i2","f4","f8"}
  Export = FALSE
INVARIANT PlaneHandedLogical
CONSTRAINT EmitStores
CONSTRAINT EmitGridTypes
CHECK_DEADLOCK FALSE
