SPECIFICATION TSpec
CONSTANTS
  RowCounts = {2, 3, 4}
  Styles = {"plain", "nolead", "plus", "exp", "EXP", "pad"}
  MaxExtras = 3
  Export = TRUE
INVARIANT TTypeOK
INVARIANT ReaderReadsTable
INVARIANT ExtrasDenoteNothing
CHECK_DEADLOCK FALSE
CONSTRAINT TEmit
