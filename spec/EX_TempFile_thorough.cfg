SPECIFICATION Spec
CONSTANTS
  NMin = 2
  NMax = 7
  TVals = {1,2,4}
  MaxLen = 3
  PUnits = {0,2,3,5,6}
  TUnits = {1,1000}
  Lays = {1,2,3,4,5}
  Skips = {0,1,3}
  Delims = {"ws","comma","semicolon"}
  Orders = {"boa","toa"}
  Rule = "spec"
  Export = TRUE
INVARIANT OnePerLayer
INVARIANT PositiveFinite
INVARIANT WithinControlRange
INVARIANT ConstantWhenControlsEqual
INVARIANT FileTransparent
INVARIANT FitsInv
CONSTRAINT Emit

CHECK_DEADLOCK FALSE
