SPECIFICATION Spec
CONSTANTS
  KeysTop = {"a"}
  KeysNested = {"a"}
  Depth = 1
  Export = FALSE
  Catalogue = "kinds"
  SizeTest = "order"
  Caught = {"TypeError"}
INVARIANT RoundTrip
INVARIANT NoError
CONSTRAINT Emit
CHECK_DEADLOCK FALSE
