SPECIFICATION Spec
CONSTANTS
  KeysTop = {"a"}
  KeysNested = {"a"}
  Depth = 1
  Export = FALSE
  Caught = {"TypeError"}
INVARIANT RoundTrip
INVARIANT NoError
CONSTRAINT Emit
CHECK_DEADLOCK FALSE
