SPECIFICATION Spec
CONSTANTS
  CMax = 4
  KMin = 2
  KMax = 3
  TES = {0,1,2,3,4,5,6,7}
  TShift = 1
  TESp = {0,1,3,6}
  FModes = {"gen1","gen2"}
  Slip = "none"
  SlipOn = {}
  Export = TRUE
INVARIANT WellFormedR
INVARIANT RouteRefinesDef
INVARIANT ReadingsCoincide
INVARIANT RecipeSame
INVARIANT FitsR
CONSTRAINT EmitR
CHECK_DEADLOCK FALSE
