SPECIFICATION HSpec
CONSTANTS
  NObs = 4
  NSel = 2
  NDer = 2
  Ranks = {1,2,3}
  K = 3
  Sizes = {4,5,7}
  Binner = "fresh"
  Gather = "sample-order"
  Depth = 6
  Export = TRUE
INVARIANT BinnedToFittedObservation
INVARIANT DerivedInSampleOrder
INVARIANT DerivedWeightsAligned
CONSTRAINT Bound
CONSTRAINT HEmit
CHECK_DEADLOCK FALSE
