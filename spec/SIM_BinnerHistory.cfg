SPECIFICATION SSpec
CONSTANTS
  TC <- MCTC
  TW <- MCTW
  Grids <- MCGrids
  NGrids = 4
  Sizes = {"heavy", "light", "lighter"}
  Kinds = {"flux"}
  Keys = {"none"}
  Convs = {"copy"}
  Depth = 6
  Export = "walks"
CONSTRAINT Bound
CONSTRAINT EmitWalk
CHECK_DEADLOCK FALSE
