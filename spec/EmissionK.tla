------------------------------ MODULE EmissionK ------------------------------
(***************************************************************************)
(* C02 in correlated-k opacity mode                                        *)
(* (taurex/model/emission.py: evaluate_emission_ktables, path_integral,    *)
(*  compute_final_flux; taurex/model/directimage.py: compute_final_flux).  *)
(*                                                                         *)
(* The statement of C02 quantifies over "cross-section and correlated-k    *)
(* opacity modes".  Module Emission is the cross-section mode; this module *)
(* is the same state machine (surface + layers -> Integrate -> Normalise)  *)
(* with the transmittances of module KTable: along an angle with 1/mu = m  *)
(* the transmittance of layers l..NL is                                    *)
(*        2^-(m * tau_grey)  *  sum_g Wts[g] 2^-(m * tau_g)                *)
(* -- the slant factor multiplies every per-point optical depth INSIDE the *)
(* weighted sum, for the surface term exactly as for the layer terms, and  *)
(* the k-table branch never clamps.  Hence (for weights summing to one)    *)
(* the coefficients of the Planck terms telescope to exactly one and are   *)
(* non-negative: the isothermal identity and the hot/cold bounds hold      *)
(* without any slack, for the intensity, the flux and both normalisations. *)
(*                                                                         *)
(* KVariant = "code" is the documented integral; the other values are      *)
(* deliberately wrong readings used by expected-counterexample configs:    *)
(*   "slant_outside_surface"  surface transmittance (sum_g w 2^-tau_g)^m   *)
(* (only distinguishable from "code" when the coefficients differ across   *)
(* g, m > 1 and the column is not opaque; the same slip made consistently  *)
(* in EVERY term still telescopes, so it is the exported exact values, not *)
(* the consequences, that pin the formula down).                           *)
(***************************************************************************)
EXTENDS KTable

CONSTANT KVariant

\* (sum_g w_g 2^-tau_g)^m : slant factor applied to the EFFECTIVE optical depth
KTransOutside(l, w, m) == DPow(KTrans(kk, Wts, e, l, w, 1), m)

EKSurfaceTrans(w, m) ==
    IF KVariant = "slant_outside_surface" THEN KTransOutside(1, w, m) ELSE KTrans(kk, Wts, e, 1, w, m)
EKLayerTrans(l, w, m) == KTrans(kk, Wts, e, l, w, m)

RECURSIVE EKLayersUpTo(_, _, _)
EKLayersUpTo(l, w, m) ==
    IF l = 0 THEN <<>>
    ELSE EKLayersUpTo(l - 1, w, m)
         \o WithB(EKLayerTrans(l + 1, w, m), 1, tp[l]) \o WithB(EKLayerTrans(l, w, m), -1, tp[l])
EKIntensity(w, m) == WithB(EKSurfaceTrans(w, m), 1, tp[1]) \o EKLayersUpTo(NL, w, m)

\* ------------------------------------------------------------- state machine
\* kpc: "emit" -> "integrate" -> "normalise" -> "done"; ktr (transmission) is not used here
EKInit == /\ kpc = "emit"
          /\ kk \in KArrays /\ wid \in WIds /\ e \in EArrays /\ tp \in TProfiles /\ qid \in QuadIds
          /\ ktr = <<>> /\ kint = <<>>
          /\ pc = "unused" /\ lay = 0 /\ inten = <<>> /\ flux = <<>> /\ kind = "none" /\ out = <<>>
EKEmit == /\ kpc = "emit"
          /\ kint' = [a \in 1..NA |-> [w \in 1..NW |-> EKIntensity(w, QInvMu(Quad, a))]]
          /\ kpc' = "integrate"
          /\ UNCHANGED <<kk, wid, ktr, e, tp, qid, pc, lay, inten, flux, kind, out>>
EKIntegrate == /\ kpc = "integrate"
               /\ flux' = [w \in 1..NW |-> FluxUpTo(Quad, [a \in 1..NA |-> kint[a][w]], NA)]
               /\ kpc' = "normalise"
               /\ UNCHANGED <<kk, wid, ktr, kint, e, tp, qid, pc, lay, inten, kind, out>>
EKNormalise(k) == /\ kpc = "normalise"
                  /\ kind' = k
                  /\ out' = [w \in 1..NW |-> BScale(NormFactor(k, w), flux[w])]
                  /\ kpc' = "done"
                  /\ UNCHANGED <<kk, wid, ktr, kint, e, tp, qid, pc, lay, inten, flux>>
EKNext == EKEmit \/ EKIntegrate \/ EKNormalise("eclipse") \/ EKNormalise("direct")
EKSpec == EKInit /\ [][EKNext]_kvars

\* ------------------------------------------------------------------ clauses
EKLayersDone == kpc = "integrate"
\* the column is thin enough for the surface to be seen at some wavenumber and point (2^-tau >= 2^-8)
SurfaceVisible == \E w \in 1..NW : \E g \in 1..NG : KTauFrom(kk, 1, w, g) + TauFrom(e, 1, w) <= 8

EKTelescoping ==
    (EKLayersDone /\ WeightsOk(Wts)) => \A a \in 1..NA : \A w \in 1..NW : DEq(BCoefAll(kint[a][w]), One)
EKCoefNonNeg ==
    (EKLayersDone /\ WeightsOk(Wts)) => \A a \in 1..NA : \A w \in 1..NW : \A t \in 1..NT :
        DSign(BCoefOf(kint[a][w], t)) >= 0
EKIsothermalIdentity ==
    (EKLayersDone /\ WeightsOk(Wts) /\ Isothermal) => \A a \in 1..NA : \A w \in 1..NW :
        DEq(BEval(kint[a][w], Bcol(w)), DConst(Q(Btab[tp[1]][w])))
EKHotColdBounds ==
    (EKLayersDone /\ WeightsOk(Wts)) => \A a \in 1..NA : \A w \in 1..NW :
        LET v == BEval(kint[a][w], Bcol(w))
        IN  DLe(DConst(Q(Btab[TMinOf(tp)][w])), v) /\ DLe(v, DConst(Q(Btab[TMaxOf(tp)][w])))
\* with identical coefficients across the points the integral is the cross-section one (without clamp)
EKDegenerateIsXsec ==
    (EKLayersDone /\ WeightsOk(Wts) /\ Degenerate) => \A a \in 1..NA : \A w \in 1..NW :
        DEq(BEval(kint[a][w], Bcol(w)),
            BEval(Intensity(EffE, tp, w, QInvMu(Quad, a), NeverClamp, "code"), Bcol(w)))
EKFluxIsothermalIdentity ==
    (kpc = "normalise" /\ WeightsOk(Wts) /\ Isothermal /\ WeightsFacts(Quad)) => \A w \in 1..NW :
        DEq(BEval(flux[w], Bcol(w)), DConst(<<Btab[tp[1]][w], 2>>))
EKFluxBounds ==
    (kpc = "normalise" /\ WeightsOk(Wts) /\ WeightsFacts(Quad)) => \A w \in 1..NW :
        LET v == BEval(flux[w], Bcol(w))
        IN  DLe(DConst(<<Btab[TMinOf(tp)][w], 2>>), v) /\ DLe(v, DConst(<<Btab[TMaxOf(tp)][w], 2>>))
EKEclipseIsothermalRatio ==
    (kpc = "done" /\ kind = "eclipse" /\ WeightsOk(Wts) /\ Isothermal /\ WeightsFacts(Quad)) => \A w \in 1..NW :
        DEq(BEval(out[w], Bcol(w)), DConst(Norm(Btab[tp[1]][w] * Rp * Rp, Bstar[w] * Rs * Rs)))
EKEclipseBounds ==
    (kpc = "done" /\ kind = "eclipse" /\ WeightsOk(Wts) /\ WeightsFacts(Quad)) => \A w \in 1..NW :
        LET v == BEval(out[w], Bcol(w))
        IN  /\ DLe(DConst(Norm(Btab[TMinOf(tp)][w] * Rp * Rp, Bstar[w] * Rs * Rs)), v)
            /\ DLe(v, DConst(Norm(Btab[TMaxOf(tp)][w] * Rp * Rp, Bstar[w] * Rs * Rs)))
EKDirectProportional ==
    (kpc = "done" /\ kind = "direct") => \A w \in 1..NW :
        DEq(DScale(Q(KD * Dist * Dist), BEval(out[w], Bcol(w))), DScale(Q(2 * Rp * Rp), BEval(flux[w], Bcol(w))))
EKFitsInv ==
    /\ EKLayersDone => \A a \in 1..NA : \A w \in 1..NW : DFits(BEval(kint[a][w], Bcol(w)))
    /\ kpc = "done" => \A w \in 1..NW : DFits(DScale(Q(KD * Dist * Dist), BEval(out[w], Bcol(w))))
=============================================================================
