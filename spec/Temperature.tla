----------------------------- MODULE Temperature -----------------------------
(***************************************************************************)
(* C12 -- temperature profiles are finite, positive and bounded by their   *)
(* control values.  Layer l = 1 is the surface; LP[l] is the integer       *)
(* log-pressure of layer l (strictly decreasing), see Profiles.tla.        *)
(*                                                                         *)
(*  Isothermal  constant                                                   *)
(*  NPoint      nodes (Pn[i], Tn[i]), i = 1 (surface) .. m (top); rejected *)
(*              when a pressure node is inverted or a slope reaches the    *)
(*              limit; piecewise linear in log P with end clamping; moving *)
(*              average of odd window over the interior                    *)
(*  Array       linear in the layer fraction, or in log P with clamped ends*)
(*  Rodgers     T'[i] = sum_j C[i][j] T[j] / sum_j C[j][i] with            *)
(*              C[i][j] = 2^-(hinv |K[i]-K[j]|)   (pressures P0 2^-K[i],   *)
(*              correlation length 1/hinv in units of ln 2)                *)
(*  Guillot     T^4 = 3/4 Tint^4 (2/3 + tau) + 3/4 Tirr^4 ((1-a) eta1 +    *)
(*              a eta2), eta an uninterpreted table filled by the harness; *)
(*              outcome is a profile of finite positive values or Invalid  *)
(***************************************************************************)
EXTENDS Profiles, Json

\* ---------------------------------------------------------------------- NPoint
\* limit = <<ln, ld>> (temperature units per log-pressure unit)
SlopeTooHigh(Tn, Pn, limit, i) ==
    Abs(Tn[i + 1] - Tn[i]) * limit[2] >= limit[1] * Abs(Pn[i + 1] - Pn[i])
SlopeTie(Tn, Pn, limit, i) ==
    Abs(Tn[i + 1] - Tn[i]) * limit[2] = limit[1] * Abs(Pn[i + 1] - Pn[i])
NPointInverted(Pn) == \E i \in 1..(Len(Pn) - 1) : Pn[i] <= Pn[i + 1]
NPointInvalid(Tn, Pn, limit) ==
    \/ NPointInverted(Pn)
    \/ \E i \in 1..(Len(Pn) - 1) : SlopeTooHigh(Tn, Pn, limit, i)
\* rejected under every reading of "inverted" / "excessive": equal nodes and slopes exactly at the
\* limit are a measure-zero boundary on which the property accepts rejection and acceptance alike
NPointStrictlyInvalid(Tn, Pn, limit) ==
    \/ \E i \in 1..(Len(Pn) - 1) : Pn[i] < Pn[i + 1]
    \/ \E i \in 1..(Len(Pn) - 1) : Pn[i] > Pn[i + 1] /\ SlopeTooHigh(Tn, Pn, limit, i) /\ ~SlopeTie(Tn, Pn, limit, i)
NPointRaw(Tn, Pn, LP) ==
    [l \in 1..Len(LP) |-> Pwl(LP[l], Pn, [i \in 1..Len(Tn) |-> Q(Tn[i])])]
NPointProfile(Tn, Pn, LP, sw, rule) ==
    Smooth(NPointRaw(Tn, Pn, LP), WSize(Len(LP), sw, rule), rule)

\* ----------------------------------------------------------------------- Array
ArrayByFraction(arr, n) == ArrayLin([i \in 1..Len(arr) |-> Q(arr[i])], n)
ArrayByPressure(arr, Pp, LP) ==
    [l \in 1..Len(LP) |-> Pwl(LP[l], Pp, [i \in 1..Len(arr) |-> Q(arr[i])])]
Reversed(s) == [i \in 1..Len(s) |-> s[Len(s) + 1 - i]]

\* --------------------------------------------------------------------- Rodgers
RodgersC(K, hinv, i, j) == Pow2Neg(hinv * Abs(K[i] - K[j]))
RodgersProfile(K, hinv, T, variant) ==
    LET n == Len(K)
        colsum(i) == RSumSeq([j \in 1..n |-> RodgersC(K, hinv, j, i)])
    IN  [i \in 1..n |->
           IF variant = "norm_columns"
           THEN RSumSeq([j \in 1..n |-> RDiv(RMul(RodgersC(K, hinv, i, j), Q(T[j])), colsum(j))])
           ELSE RDiv(RSumSeq([j \in 1..n |-> RMul(RodgersC(K, hinv, i, j), Q(T[j]))]), colsum(i))]

\* --------------------------------------------------------------------- Guillot
\* p = [tint, tirr, kir, kv1, kv2 : integers (only signs and zeros matter), alpha : rational]
GuillotListed(p) == p.kir = 0 \/ p.kv1 = 0 \/ p.kv2 = 0 \/ p.tirr < 0 \/ p.tint < 0
GuillotPhysical(p) ==
    /\ p.kir > 0 /\ p.kv1 > 0 /\ p.kv2 > 0
    /\ RLe(RZero, p.alpha) /\ RLe(p.alpha, ROne)
    /\ p.tirr >= 0 /\ p.tint >= 0 /\ (p.tirr > 0 \/ p.tint > 0)
\* tint4, tirr4, tau, e1, e2 rationals
GuillotT4(tint4, tirr4, alpha, tau, e1, e2) ==
    RAdd(RMul(RMul(R(3, 4), tint4), RAdd(R(2, 3), tau)),
         RMul(RMul(R(3, 4), tirr4), RAdd(RMul(RSub(ROne, alpha), e1), RMul(alpha, e2))))
=============================================================================
