----------------------------- MODULE Temperature -----------------------------
(***************************************************************************)
(* C12 -- temperature profiles are finite, positive and bounded by their   *)
(* control values.  Layer l = 1 is the surface; LP[l] is the integer       *)
(* log-pressure of layer l (strictly decreasing), see Profiles.tla.        *)
(*                                                                         *)
(*  Isothermal  constant                                                   *)
(*  NPoint      nodes (Pn[i], Tn[i]), i = 1 (surface) .. m (top); rejected *)
(*              when a pressure node is inverted or a slope reaches the    *)
(*              limit; piecewise linear in log P with end clamping; moving *)
(*              average of odd window over the interior                    *)
(*  Array       linear in the layer fraction, or in log P with clamped ends*)
(*  Rodgers     T'[i] = sum_j C[i][j] T[j] / sum_j C[j][i] with            *)
(*              C[i][j] = 2^-(hinv |K[i]-K[j]|)   (pressures P0 2^-K[i],   *)
(*              correlation length 1/hinv in units of ln 2)                *)
(*  Guillot     T^4 = 3/4 Tint^4 (2/3 + tau) + 3/4 Tirr^4 ((1-a) eta1 +    *)
(*              a eta2), eta an uninterpreted table filled by the harness; *)
(*              outcome is a profile of finite positive values or Invalid  *)
(***************************************************************************)
EXTENDS Profiles, Json

\* ---------------------------------------------------------------------- NPoint
\* limit = <<ln, ld>> (temperature units per log-pressure unit)
SlopeTooHigh(Tn, Pn, limit, i) ==
    Abs(Tn[i + 1] - Tn[i]) * limit[2] >= limit[1] * Abs(Pn[i + 1] - Pn[i])
SlopeTie(Tn, Pn, limit, i) ==
    Abs(Tn[i + 1] - Tn[i]) * limit[2] = limit[1] * Abs(Pn[i + 1] - Pn[i])
NPointInverted(Pn) == \E i \in 1..(Len(Pn) - 1) : Pn[i] <= Pn[i + 1]
NPointInvalid(Tn, Pn, limit) ==
    \/ NPointInverted(Pn)
    \/ \E i \in 1..(Len(Pn) - 1) : SlopeTooHigh(Tn, Pn, limit, i)
\* rejected under every reading of "inverted" / "excessive": equal nodes and slopes exactly at the
\* limit are a measure-zero boundary on which the property accepts rejection and acceptance alike
NPointStrictlyInvalid(Tn, Pn, limit) ==
    \/ \E i \in 1..(Len(Pn) - 1) : Pn[i] < Pn[i + 1]
    \/ \E i \in 1..(Len(Pn) - 1) : Pn[i] > Pn[i + 1] /\ SlopeTooHigh(Tn, Pn, limit, i) /\ ~SlopeTie(Tn, Pn, limit, i)
\* ---- node pressures anywhere on the real line (round 4).  A control VALUE is a real number: the constructor
\* keyword pressure_points and the fitting parameter P_pointN accept any float, so the quantifier "control-point
\* values ... within and outside their documented bounds" includes zero and negative node pressures.  The node
\* pressure is P[i] = Sg[i] * 10^Pn[i] with Sg[i] \in {-1, 0, 1} (the magnitude of a zero is ignored); "inverted"
\* is a statement about the PRESSURES, not about their logarithms (which do not exist for Sg < 1).
RawLt(Pn, Sg, i, j) ==      \* P[i] < P[j]
    \/ Sg[i] < Sg[j]
    \/ Sg[i] = Sg[j] /\ ((Sg[i] = 1 /\ Pn[i] < Pn[j]) \/ (Sg[i] = -1 /\ Pn[i] > Pn[j]))
RawLe(Pn, Sg, i, j) == ~RawLt(Pn, Sg, j, i)
AllPositive(Sg) == \A i \in 1..Len(Sg) : Sg[i] = 1
NPointInvertedS(Pn, Sg) == \E i \in 1..(Len(Pn) - 1) : RawLe(Pn, Sg, i, i + 1)
NPointInvalidS(Tn, Pn, Sg, limit) ==
    \/ NPointInvertedS(Pn, Sg)
    \/ ~AllPositive(Sg)          \* no logarithm, no slope, no interpolant: nothing finite can be returned
    \/ \E i \in 1..(Len(Pn) - 1) : SlopeTooHigh(Tn, Pn, limit, i)
NPointStrictlyInvalidS(Tn, Pn, Sg, limit) ==
    \/ \E i \in 1..(Len(Pn) - 1) : RawLt(Pn, Sg, i, i + 1)
    \/ AllPositive(Sg) /\ NPointStrictlyInvalid(Tn, Pn, limit)
\* As-built reading "npoint_logorder" (expected counterexample): order and slope are judged on log10 P computed
\* in IEEE arithmetic: log10(negative) = NaN and every comparison with NaN is false; log10(0) = -inf.
\* LogCls: 0 = NaN, 1 = -inf, 2 = finite.
LogCls(Sg, i) == IF Sg[i] < 0 THEN 0 ELSE IF Sg[i] = 0 THEN 1 ELSE 2
LogDiffGe0(Pn, Sg, i) ==      \* log P[i+1] - log P[i] >= 0 in IEEE arithmetic
    LET a == LogCls(Sg, i)  b == LogCls(Sg, i + 1)
    IN  IF a = 0 \/ b = 0 THEN FALSE
        ELSE IF a = 1 /\ b = 1 THEN FALSE            \* -inf - -inf = NaN
        ELSE IF a = 1 THEN TRUE                       \* x - -inf = +inf
        ELSE IF b = 1 THEN FALSE                      \* -inf - x = -inf
        ELSE Pn[i + 1] >= Pn[i]
NPointRejectedLogOrder(Tn, Pn, Sg, limit) ==
    \/ \E i \in 1..(Len(Pn) - 1) : LogDiffGe0(Pn, Sg, i)
    \/ \E i \in 1..(Len(Pn) - 1) : Sg[i] = 1 /\ Sg[i + 1] = 1 /\ SlopeTooHigh(Tn, Pn, limit, i)
NPointRaw(Tn, Pn, LP) ==
    [l \in 1..Len(LP) |-> Pwl(LP[l], Pn, [i \in 1..Len(Tn) |-> Q(Tn[i])])]
NPointProfile(Tn, Pn, LP, sw, rule) ==
    Smooth(NPointRaw(Tn, Pn, LP), WSize(Len(LP), sw, rule), rule)

\* ----------------------------------------------------------------------- Array
ArrayByFraction(arr, n) == ArrayLin([i \in 1..Len(arr) |-> Q(arr[i])], n)
ArrayByPressure(arr, Pp, LP) ==
    [l \in 1..Len(LP) |-> Pwl(LP[l], Pp, [i \in 1..Len(arr) |-> Q(arr[i])])]
Reversed(s) == [i \in 1..Len(s) |-> s[Len(s) + 1 - i]]

\* ------------------------------------------------------------------------ File
\* A text table as TemperatureFile reads it (documented options: skiprows, temp_col, press_col, temp_units,
\* press_units, delimiter, reverse).  f = [pu, tu, lay, skip, delim, order]:
\*   lay    index into FileLayouts = <<press_col, temp_col, number of columns>> (0-based columns)
\*   tu     Kelvin per file temperature unit (K 1, kK 1000): a temperature cell holds T / tu
\*   pu     decades per file pressure unit (Pa 0, mbar = hPa 2, kPa 3, bar 5): a pressure cell holds the
\*          log10 of the pressure in file units, (log10 P[Pa]) - pu
\*   order  "boa": first row is the surface; "toa": first row is the top and the file is read with reverse
\*   skip, delim  header lines and cell separator: layout only, no effect on the numbers
\* Every other cell is filler.  Reading converts back: ONLY the temperature column is multiplied by tu and
\* ONLY the pressure column is shifted by pu; the profile is then the array profile of the converted
\* columns.  Rule # "spec" are deliberately wrong readers (expected counterexamples).
FileLayouts == << <<0, 1, 2>>, <<1, 0, 2>>, <<2, 0, 3>>, <<0, 2, 3>>, <<1, 3, 4>> >>
FileFiller == Q(7)
FileTable(arr, pp, f) ==
    LET lay  == FileLayouts[f.lay]
        rows == [i \in 1..Len(arr) |-> [c \in 1..lay[3] |->
                    IF c - 1 = lay[2] THEN RDiv(Q(arr[i]), Q(f.tu))
                    ELSE IF c - 1 = lay[1] /\ pp # <<>> THEN Q(pp[i] - f.pu)
                    ELSE FileFiller]]
    IN  IF f.order = "toa" THEN Reversed(rows) ELSE rows
FileRows(tab, f) == IF f.order = "toa" THEN Reversed(tab) ELSE tab
FileReadT(tab, f, haspp, rule) ==
    LET rows == FileRows(tab, f)
        col  == FileLayouts[f.lay][IF rule = "file_columns_swapped" /\ haspp THEN 1 ELSE 2] + 1
    IN  [i \in 1..Len(rows) |->
           LET t == RMul(rows[i][col], Q(IF rule = "file_tunit_ignored" THEN 1 ELSE f.tu))
           IN  IF rule = "file_punit_on_both" /\ haspp THEN RMul(t, Q(Pow(10, f.pu))) ELSE t]
FileReadP(tab, f) ==        \* integer log10 of the pressure in Pa
    LET rows == FileRows(tab, f)
    IN  [i \in 1..Len(rows) |-> rows[i][FileLayouts[f.lay][1] + 1][1] + f.pu]
FileProfile(tab, f, haspp, LP, rule) ==
    LET T == FileReadT(tab, f, haspp, rule)
    IN  IF haspp THEN [l \in 1..Len(LP) |-> Pwl(LP[l], FileReadP(tab, f), T)]
        ELSE ArrayLin(T, Len(LP))

\* --------------------------------------------------------------------- Rodgers
RodgersC(K, hinv, i, j) == Pow2Neg(hinv * Abs(K[i] - K[j]))
RodgersProfile(K, hinv, T, variant) ==
    LET n == Len(K)
        colsum(i) == RSumSeq([j \in 1..n |-> RodgersC(K, hinv, j, i)])
    IN  [i \in 1..n |->
           IF variant = "norm_columns"
           THEN RSumSeq([j \in 1..n |-> RDiv(RMul(RodgersC(K, hinv, i, j), Q(T[j])), colsum(j))])
           ELSE RDiv(RSumSeq([j \in 1..n |-> RMul(RodgersC(K, hinv, i, j), Q(T[j]))]), colsum(i))]

\* --------------------------------------------------------------------- Guillot
\* p = [tint, tirr, kir, kv1, kv2 : integers (only signs and zeros matter), alpha : rational]
GuillotListed(p) == p.kir = 0 \/ p.kv1 = 0 \/ p.kv2 = 0 \/ p.tirr < 0 \/ p.tint < 0
GuillotPhysical(p) ==
    /\ p.kir > 0 /\ p.kv1 > 0 /\ p.kv2 > 0
    /\ RLe(RZero, p.alpha) /\ RLe(p.alpha, ROne)
    /\ p.tirr >= 0 /\ p.tint >= 0 /\ (p.tirr > 0 \/ p.tint > 0)
\* tint4, tirr4, tau, e1, e2 rationals
GuillotT4(tint4, tirr4, alpha, tau, e1, e2) ==
    RAdd(RMul(RMul(R(3, 4), tint4), RAdd(R(2, 3), tau)),
         RMul(RMul(R(3, 4), tirr4), RAdd(RMul(RSub(ROne, alpha), e1), RMul(alpha, e2))))
=============================================================================
