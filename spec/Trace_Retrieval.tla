--------------------------- MODULE Trace_Retrieval ---------------------------
(* Validation of recorded retrievals (one trace per Optimizer object) against   *)
(* Retrieval.tla; same conventions as Trace_Pipeline.                           *)
EXTENDS Retrieval, Json, IOUtils, TLCExt
VARIABLES l, st, cur, dead
TraceLog == ndJsonDeserialize(IOEnv.TRACE_FILE)
Init == l = 1 /\ st = RInit /\ cur = -1 /\ dead = -1
Step == /\ l <= Len(TraceLog)
        /\ LET e  == TraceLog[l]
               s0 == IF e.tid = cur THEN st ELSE RInit
           IN  IF e.tid = dead THEN UNCHANGED <<st, cur, dead>>
               ELSE IF RGuard(e, s0)
                    THEN st' = RApply(e, s0) /\ cur' = e.tid /\ UNCHANGED dead
                    ELSE /\ PrintT(<<"BAD", ToJson([l |-> l, tid |-> e.tid, ev |-> e.ev, st |-> s0])>>)
                         /\ dead' = e.tid /\ cur' = e.tid /\ st' = s0
        /\ l' = l + 1
Spec == Init /\ [][Step]_<<l, st, cur, dead>>
Accepted == TLCGet("stats").diameter - 1 = Len(TraceLog)
=============================================================================
