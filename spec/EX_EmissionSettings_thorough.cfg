SPECIFICATION SSpec
CONSTANTS
  NV = 2
  NC = 3
  NR = 2
  Modes = {"xsec", "ktables"}
  RpRoutes = {"param", "attr"}
  Entries = {"model", "partial"}
  PhysSet = {"rp", "ts", "dist"}
  Record = TRUE
  MaxSets = 2
  SVariant = "code"
INVARIANT EvalUsesCurrent
INVARIANT RuleIsLastAskedFor
INVARIANT TypeOk
CONSTRAINT SEmit
CHECK_DEADLOCK FALSE
