----------------------------- MODULE MC_GridBin -----------------------------
(* C13, design-level model of clip + binning.  The native grid is grown point  *)
(* by point (every prefix is itself a native grid), the observation is chosen  *)
(* in Init.  The claim BinningCommutes is checked in every state.              *)
EXTENDS Grid, SequencesExt
CONSTANTS Starts,      \* first native point
          Gaps,        \* allowed gaps between neighbouring native points
          PMax,        \* last allowed native position
          MaxLen,      \* maximal number of native points
          ObsPos,      \* candidate observation bin centres
          ObsCard,     \* allowed numbers of observation bins (each >= 2)
          ObsW2,       \* candidate values of 2*width for every observation bin (besides the mid-point widths)
          Cond,        \* "literal" (gap < W/2) | "third" (gap < W/3) | "uniform" (literal + uniform grid) | "none"
          Export
VARIABLES nat, oc, ow2
vars == <<nat, oc, ow2>>

ObsSets == {S \in SUBSET ObsPos : Cardinality(S) \in ObsCard}
ObsSeqs == {SetToSortSeq(S, LAMBDA a, b : a < b) : S \in ObsSets}
\* explicit widths from ObsW2, the mid-point widths (binner default), the widest licensed width everywhere
WidthChoices(c) == [1..Len(c) -> ObsW2] \cup {GMidW2(c)} \cup {[j \in 1..Len(c) |-> GMaxW2(c)]}

Init == /\ nat \in {<<s>> : s \in Starts}
        /\ oc \in ObsSeqs
        /\ ow2 \in WidthChoices(oc)
Extend == /\ Len(nat) < MaxLen
          /\ \E g \in Gaps : GLast(nat) + g <= PMax /\ nat' = Append(nat, GLast(nat) + g)
          /\ UNCHANGED <<oc, ow2>>
Next == Extend
Spec == Init /\ [][Next]_vars

IsGrid == Len(nat) >= 2
CondHolds ==
    /\ GWidthCond(oc, ow2)
    /\ Cond = "literal" => GSpacingCond(nat, oc, 2)
    /\ Cond = "third"   => GSpacingCond(nat, oc, 3)
    /\ Cond = "uniform" => GSpacingCond(nat, oc, 2) /\ GUniform(nat)
InBand == GSpacingCond(nat, oc, 2) /\ ~GSpacingCond(nat, oc, 3) /\ ~GUniform(nat)

\* ---- the property's clause
BinningCommutes == (IsGrid /\ CondHolds) => GBinningCommutes(nat, oc, ow2)

\* ---- supporting design facts
\* every native point that contributes to some observation bin survives the clip (gap < W suffices)
NeededRetained == (IsGrid /\ GWidthCond(oc, ow2) /\ GSpacingCond(nat, oc, 1)) =>
    LET m2 == GMaxW2(oc) IN
    \A i \in 1..Len(nat) : (\E j \in 1..Len(oc) : GWt(nat, i, oc[j], ow2[j]) > 0) => GInClipM(nat[i], oc, m2)
\* the clip is a contiguous index range of the native grid, in order
ClipContiguous == IsGrid =>
    LET lo == GClipLo(nat, oc)  hi == GClipHi(nat, oc) IN
    IF lo = 0 THEN GClip(nat, oc) = <<>> ELSE GClip(nat, oc) = SubSeq(nat, lo, hi)
\* weights never negative, sums fit
FitsInv == IsGrid => \A j \in 1..Len(oc) : GWtSum(nat, oc[j], ow2[j]) < 100000

\* ---- non-vacuity (each of these must be REFUTED by TLC)
ClipKeepsAll   == IsGrid => GClip(nat, oc) = nat
NeverOverlaps  == IsGrid => \A j \in 1..Len(oc) : GWtSum(nat, oc[j], ow2[j]) = 0
EdgeWidthSame  == (IsGrid /\ Len(GClip(nat, oc)) >= 2) =>
    LET c == GClip(nat, oc)  lo == GClipLo(nat, oc) IN GHalfQi(c, 1) = GHalfQi(nat, lo)

\* CONSTRAINT: with Cond = "uniform" only uniform grids are explored (longer grids become affordable)
Prune == Cond = "uniform" => GUniform(nat)

Emit == (Export /\ IsGrid /\ GWidthCond(oc, ow2) /\ Len(GClip(nat, oc)) >= 2) =>
    PrintT(<<"VEC", ToJson([nat |-> nat, oc |-> oc, ow2 |-> ow2,
                            lo |-> GClipLo(nat, oc), hi |-> GClipHi(nat, oc),
                            W2 |-> GMaxW2(oc),
                            half |-> GSpacingCond(nat, oc, 2), third |-> GSpacingCond(nat, oc, 3),
                            uniform |-> GUniform(nat),
                            commutes |-> GBinningCommutes(nat, oc, ow2),
                            wfull |-> [j \in 1..Len(oc) |-> GWts(nat, oc[j], ow2[j])],
                            wclip |-> [j \in 1..Len(oc) |-> GWts(GClip(nat, oc), oc[j], ow2[j])]])>>)
=============================================================================
