--------------------------- MODULE FactoryParser ---------------------------
(***************************************************************************)
(* C15 -- the ParameterParser as a LONG-LIVED object.                      *)
(*                                                                         *)
(* "every key set under a section reaches that component's constructor     *)
(*  with the value given ... defaults otherwise" quantifies over input     *)
(* files, not over what the parser did before: a parser that has read a    *)
(* file is asked for components any number of times, in any order          *)
(* (taurex.py asks for the instrument once to collect citations and once   *)
(* to simulate; scripts build several models from one parser; a parser is  *)
(* pointed at another file with read()).  Every generate_* call must give  *)
(* what a FRESH parser of the current file gives, and must leave the       *)
(* parser's configuration as read.                                         *)
(*                                                                         *)
(* Abstract state                                                          *)
(*   file   the file the parser has read last: [id, v, absent] -- v names  *)
(*          the set of values written, absent the sections left out        *)
(*          (inputfile.rst: not all headers are required)                  *)
(*   live   the parser's configuration: section -> keys still in it        *)
(*   calls  history: what every call saw, and for the model what its       *)
(*          constructor was handed for each optional section (FactorySect) *)
(*   budget calls left in the walk (the parser may start with a file it    *)
(*          read earlier and has since replaced)                          *)
(* Actions  Gen(m)  one generate_* / setup_globals call                    *)
(*          Read(f) the same parser object reads another file              *)
(* Refuted readings (non-vacuity, must be refuted by TLC):                 *)
(*   Consuming # {}   a method works on the live configuration and         *)
(*                    consumes the parser-level keys it reads (selector,   *)
(*                    num_observations) instead of working on a copy       *)
(*   Prebuild = TRUE  the parser builds a default component itself for a   *)
(*                    section that is absent                               *)
(***************************************************************************)
EXTENDS Integers, Sequences, FiniteSets, TLC, Json, FactorySect
CONSTANTS MaxCalls,     \* length of the walks
          NFiles,       \* the first NFiles entries of FileTab take part
          Consuming,    \* {}
          Prebuild      \* FALSE
VARIABLES file, live, calls, budget
vars == <<file, live, calls, budget>>

\* ------------------------------------------------------------------ the files
\* keys of every section as the harness writes them ("Sub/key" = key of a [[Sub]] sub-section, "Sub/" = an empty one)
Keys == [Global      |-> {"xsec_path"},
         Chemistry   |-> {"chemistry_type", "fill_gases", "ratio", "H2O/gas_type", "H2O/mix_ratio", "CH4/gas_type", "CH4/mix_ratio"},
         Temperature |-> {"profile_type", "T"},
         Pressure    |-> {"profile_type", "nlayers", "atm_min_pressure", "atm_max_pressure"},
         Planet      |-> {"planet_type", "planet_mass", "planet_radius"},
         Star        |-> {"star_type", "temperature", "radius"},
         Model       |-> {"model_type", "nlayers", "atm_min_pressure", "Absorption/", "SimpleClouds/clouds_pressure"},
         Binning     |-> {"bin_type", "wavenumber_grid", "accurate"},
         Instrument  |-> {"instrument", "SNR", "num_observations"},
         Observation |-> {"observed_spectrum"},
         Optimizer   |-> {"optimizer", "num_live_points"},
         Fitting     |-> {"planet_radius:fit", "planet_radius:bounds", "planet_radius:mode", "T:fit", "T:prior"},
         Derive      |-> {"mu:compute"}]
Sections == DOMAIN Keys
\* two sets of values (v) x sections left out
FileTab == <<[id |-> 1, v |-> 1, absent |-> {}],
             [id |-> 2, v |-> 2, absent |-> {}],
             [id |-> 3, v |-> 1, absent |-> {"Pressure", "Star", "Binning", "Derive"}],
             [id |-> 4, v |-> 2, absent |-> {"Temperature", "Planet", "Instrument", "Observation", "Optimizer", "Fitting"}]>>
Files == {FileTab[i] : i \in 1..NFiles}
AsRead(f) == [s \in Sections \ f.absent |-> Keys[s]]
\* the class a written optional section resolves to (one fixed selector per section in these files)
ClassOf == [Temperature |-> "Isothermal", Pressure |-> "SimplePressureProfile", Chemistry |-> "TaurexChemistry",
            Planet |-> "Planet", Star |-> "BlackbodyStar"]

\* ------------------------------------------------------------------ the methods
ModelSections == {"Model"} \cup OptSections
Reads == [temperature |-> {"Temperature"}, pressure |-> {"Pressure"}, chemistry |-> {"Chemistry"}, planet |-> {"Planet"},
          star |-> {"Star"}, model |-> ModelSections, appropriate_model |-> ModelSections, binning |-> {"Binning"},
          instrument |-> {"Instrument"}, instrument_binner |-> {"Instrument"}, observation |-> {"Observation"},
          optimizer |-> {"Optimizer"}, fitting |-> {"Fitting"}, derived |-> {"Derive"}, globals |-> {"Global"}]
Methods == DOMAIN Reads
ModelMethods == {"model", "appropriate_model"}
\* keys the parser or the factory takes out of a section before the rest goes to the constructor
ParserKeys == [s \in Sections |->
    CASE s \in {"Temperature", "Pressure"} -> {"profile_type"}
      [] s = "Chemistry"  -> {"chemistry_type", "H2O/gas_type", "CH4/gas_type"}
      [] s = "Planet"     -> {"planet_type"}
      [] s = "Star"       -> {"star_type"}
      [] s = "Model"      -> {"model_type"}
      [] s = "Instrument" -> {"instrument", "num_observations"}
      [] s = "Optimizer"  -> {"optimizer"}
      [] OTHER            -> {}]

\* what a call of m sees in configuration c
Saw(m, c) == [s \in Reads[m] \cap DOMAIN c |-> c[s]]
\* what the model constructor is handed for every optional section
Args(m, c) == IF m \in ModelMethods /\ "Model" \in DOMAIN c
              THEN [s \in OptSections |-> ModelArgOf(Prebuild, OptSections \ DOMAIN c, s, ClassOf[s])]
              ELSE <<>>
Layers(m, c) == IF m \in ModelMethods /\ "Model" \in DOMAIN c
                THEN [k \in LayerKeys |-> LayerSrcOf(Args(m, c)["Pressure"], c["Model"], k)]
                ELSE <<>>

\* ------------------------------------------------------------------ behaviour
NoCall == [op |-> "read", m |-> "", fid |-> 0, saw |-> <<>>, args |-> <<>>, layers |-> <<>>]
Init == /\ file \in Files
        /\ live = AsRead(file)
        /\ \E p \in Files : calls = IF p = file THEN <<[NoCall EXCEPT !.fid = file.id]>>
                                      ELSE <<[NoCall EXCEPT !.fid = p.id], [NoCall EXCEPT !.fid = file.id]>>
        /\ budget = MaxCalls
Gen(m) ==
    /\ budget > 0
    /\ calls' = Append(calls, [op |-> "gen", m |-> m, fid |-> file.id, saw |-> Saw(m, live), args |-> Args(m, live),
                               layers |-> Layers(m, live)])
    /\ live' = IF m \in Consuming
               THEN [s \in DOMAIN live |-> IF s \in Reads[m] THEN live[s] \ ParserKeys[s] ELSE live[s]]
               ELSE live
    /\ budget' = budget - 1
    /\ UNCHANGED file
Read(f) ==
    /\ budget > 0
    /\ f # file
    /\ file' = f
    /\ live' = AsRead(f)
    /\ calls' = Append(calls, [NoCall EXCEPT !.fid = f.id])
    /\ budget' = budget - 1
Next == \/ \E m \in Methods : Gen(m)
        \/ \E f \in Files : Read(f)
Spec == Init /\ [][Next]_vars

\* ------------------------------------------------------------------ invariants
FileOf(id) == CHOOSE f \in Files : f.id = id
GenCalls == {i \in 1..Len(calls) : calls[i].op = "gen"}
\* every call gives what a fresh parser of the file read last gives
GenerateEqualsFresh ==
    \A i \in GenCalls : LET f == FileOf(calls[i].fid) IN
        /\ calls[i].saw = Saw(calls[i].m, AsRead(f))
        /\ calls[i].args = Args(calls[i].m, AsRead(f))
\* no call changes the parser's configuration
ParserConfigUnchanged == live = AsRead(file)
\* a section that is absent leaves the model constructor's keyword at its default
AbsentSectionIsDefaultArgument ==
    \A i \in GenCalls : calls[i].args # <<>> =>
        \A s \in OptSections \cap FileOf(calls[i].fid).absent : calls[i].args[s] = ""
\* ... so that the layer keys written under [Model] are the model's pressure grid
ModelLayerKeysEffective ==
    \A i \in GenCalls : (calls[i].layers # <<>> /\ "Pressure" \in FileOf(calls[i].fid).absent) =>
        \A k \in LayerKeys \cap Keys["Model"] : calls[i].layers[k] = "model-key"
\* the walks are not vacuous: some file leaves optional sections out and writes layer keys under [Model]
FilesCoverPresence == NFiles >= 3 => \E f \in Files : "Pressure" \in f.absent /\ LayerKeys \cap Keys["Model"] # {}

Emit == (budget = 0) =>
    PrintT(<<"WALK", ToJson([steps |-> [i \in 1..Len(calls) |->
                                          [op |-> calls[i].op, m |-> calls[i].m, fid |-> calls[i].fid,
                                           args |-> IF calls[i].args = <<>> THEN <<>>
                                                    ELSE [s \in OptSections |-> [kw |-> SlotOf[s], cls |-> calls[i].args[s]]],
                                           layers |-> calls[i].layers]]])>>)
EmitFiles == PrintT(<<"FILES", ToJson([f \in 1..NFiles |->
                                        [id |-> FileTab[f].id, v |-> FileTab[f].v, content |-> AsRead(FileTab[f])]])>>)
ASSUME EmitFiles
=============================================================================
