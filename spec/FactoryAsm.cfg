SPECIFICATION Spec
CONSTANT Prebuild = FALSE
INVARIANT AssemblyResolves
INVARIANT ChemFormAttachesGases
INVARIANT FittingWellFormed
INVARIANT AbsentSectionIsDefaultArgument
INVARIANT PresentSectionReachesModel
INVARIANT ModelLayerKeysEffective
INVARIANT LayerKeysTyped
CONSTRAINT Emit
CHECK_DEADLOCK FALSE
