SPECIFICATION Spec
INVARIANT AssemblyResolves
CONSTRAINT Emit
CHECK_DEADLOCK FALSE
