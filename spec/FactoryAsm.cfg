SPECIFICATION Spec
INVARIANT AssemblyResolves
INVARIANT ChemFormAttachesGases
INVARIANT FittingWellFormed
CONSTRAINT Emit
CHECK_DEADLOCK FALSE
