SPECIFICATION Spec
CONSTANTS
  N = 3
  NMin = 1
  D = 2
  Vals = {0,1,2}
  Wts = {0,1,2}
  Totals <- MCTotalsBig
  Export = FALSE
INVARIANT QuantilesOrdered
INVARIANT QuantilesWithinRange
INVARIANT QuantilesExist
INVARIANT MapIsASample
INVARIANT MeanWithinRange
INVARIANT TraceUnchanged
INVARIANT PointMass
INVARIANT ScaleFree
INVARIANT TotalFree
INVARIANT FitsInv
INVARIANT OrderReductionSound
CONSTRAINT Emit
CHECK_DEADLOCK FALSE
