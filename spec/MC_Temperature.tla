---------------------------- MODULE MC_Temperature ----------------------------
(* Exhaustive / export model for C12.  Layer grid LP[l] = 2(n-l)+2 (decades):    *)
(* nodes may sit on, between, below and above the layers.                        *)
EXTENDS Temperature, SequencesExt
CONSTANTS NMin, NMax, TVals, SWs, MaxNodes, Limits, Kinds, Rule, RodVariant, Export,
          SignedNodes  \* "no": node pressures are positive;  "any": an intermediate node pressure is any real number,
                       \* P = sign * 10^pn, sign \in {-1, 0, 1};  "some": at least one of them is zero or negative
VARIABLES phase, kind, n, tn, pn, sg, sw, lim, arr, pmode, K, hinv, gp, out
vars == <<phase, kind, n, tn, pn, sg, sw, lim, arr, pmode, K, hinv, gp, out>>
Signs == IF SignedNodes = "no" THEN {1} ELSE {-1, 0, 1}

LPOf(k) == [l \in 1..k |-> 2 * (k - l) + 2]
Nil == [st |-> "none", prof |-> <<>>]
NoG == [tint |-> 1, tirr |-> 1, kir |-> 1, kv1 |-> 1, kv2 |-> 1, alpha |-> RZero]
SeqsOf(S, lo, hi) == UNION {[1..k -> S] : k \in lo..hi}
EndNodes(k) == {<<2 * k, 2>>, <<2 * k - 1, 3>>, <<2 * k + 1, 1>>}
IncSeqs(k) == {s \in [1..k -> 0..4] : s[1] = 0 /\ \A i \in 1..(k - 1) : s[i + 1] - s[i] \in {1, 2}}
PpOf(m, k) == [i \in 1..m |-> 2 * k + 1 - 2 * i]
Alphas == {R(a - 1, 2) : a \in 0..4}
Quiet == /\ tn = <<>> /\ pn = <<>> /\ sg = <<>> /\ sw = 0 /\ lim = 0 /\ arr = <<>> /\ pmode = "none"
         /\ K = <<>> /\ hinv = 0 /\ gp = NoG

InitIso == /\ kind = "iso" /\ n \in NMin..NMax /\ arr \in [1..1 -> TVals]
           /\ tn = <<>> /\ pn = <<>> /\ sg = <<>> /\ sw = 0 /\ lim = 0 /\ pmode = "none" /\ K = <<>> /\ hinv = 0 /\ gp = NoG
InitNPoint ==
    /\ kind = "npoint" /\ n \in NMin..NMax
    /\ \E k \in 0..MaxNodes : \E ends \in EndNodes(n) :
          /\ tn \in [1..(k + 2) -> TVals]
          /\ \E mid \in [1..k -> 0..(2 * n + 2)] : pn = <<ends[1]>> \o mid \o <<ends[2]>>
          \* the end nodes are positive (a negative P_surface / P_top is documented to mean "take it from the
          \* grid"); an intermediate node is any real number; the magnitude of a zero is normalised to 10^0
          /\ \E ms \in [1..k -> Signs] : sg = <<1>> \o ms \o <<1>>
          /\ \A i \in 1..(k + 2) : sg[i] = 0 => pn[i] = 0
          /\ SignedNodes = "some" => ~AllPositive(sg)
    /\ sw \in SWs /\ lim \in Limits
    /\ arr = <<>> /\ pmode = "none" /\ K = <<>> /\ hinv = 0 /\ gp = NoG
InitArray ==
    /\ kind = "array" /\ n \in NMin..NMax
    /\ arr \in SeqsOf(TVals, 1, 3) /\ pmode \in {"none", "pp"}
    /\ (pmode = "pp" => Len(arr) >= 2 /\ Len(arr) <= n)
    /\ tn = <<>> /\ pn = <<>> /\ sg = <<>> /\ sw = 0 /\ lim = 0 /\ K = <<>> /\ hinv = 0 /\ gp = NoG
InitRodgers ==
    /\ kind = "rodgers" /\ n \in 2..3
    /\ K \in IncSeqs(n) /\ arr \in [1..n -> TVals] /\ hinv \in {1, 2}
    /\ tn = <<>> /\ pn = <<>> /\ sg = <<>> /\ sw = 0 /\ lim = 0 /\ pmode = "none" /\ gp = NoG
InitGuillot ==
    /\ kind = "guillot" /\ n = 2
    /\ gp \in [tint : {-1, 0, 1}, tirr : {-1, 0, 2}, kir : {-1, 0, 1}, kv1 : {-1, 0, 1}, kv2 : {-1, 0, 2}, alpha : Alphas]
    /\ tn = <<>> /\ pn = <<>> /\ sg = <<>> /\ sw = 0 /\ lim = 0 /\ arr = <<>> /\ pmode = "none" /\ K = <<>> /\ hinv = 0
Init == /\ phase = "in" /\ out = Nil
        /\ \/ ("iso" \in Kinds /\ InitIso)
           \/ ("npoint" \in Kinds /\ InitNPoint)
           \/ ("array" \in Kinds /\ InitArray)
           \/ ("rodgers" \in Kinds /\ InitRodgers)
           \/ ("guillot" \in Kinds /\ InitGuillot)

\* abstract eta table: NaN when its argument gamma*tau = kv*P/g is negative (E2 undefined),
\* positive in the physical region, otherwise an arbitrary (here negative) number
EtaNaN(kv) == kv < 0
EtaAbs(kv, kir, l) == IF kir > 0 THEN Q(l + kv) ELSE Q(-l)
PL == <<2, 1>>
GuillotEval ==
    LET t4(l) == GuillotT4(Q(gp.tint * gp.tint), Q(gp.tirr * gp.tirr), gp.alpha, Q(gp.kir * PL[l]),
                           EtaAbs(gp.kv1, gp.kir, l), EtaAbs(gp.kv2, gp.kir, l))
        nan == EtaNaN(gp.kv1) \/ EtaNaN(gp.kv2)
        bad == nan \/ \E l \in 1..n : RLe(t4(l), RZero)
    IN  IF GuillotListed(gp) THEN [st |-> "invalid", prof |-> <<>>]
        ELSE IF bad THEN (IF Rule = "guillot_asbuilt" THEN [st |-> "nan", prof |-> <<>>] ELSE [st |-> "invalid", prof |-> <<>>])
        ELSE [st |-> "ok", prof |-> [l \in 1..n |-> t4(l)]]
Wrap(p) == IF p = Fail THEN [st |-> "fail", prof |-> <<>>] ELSE [st |-> "ok", prof |-> p]
Limit == <<lim, 1>>
Evaluate ==
    CASE kind = "iso" -> Wrap([l \in 1..n |-> Q(arr[1])])
      [] kind = "npoint" -> IF Rule = "npoint_logorder"
                            THEN (IF NPointRejectedLogOrder(tn, pn, sg, Limit) THEN [st |-> "invalid", prof |-> <<>>]
                                  ELSE IF ~AllPositive(sg) THEN [st |-> "nan", prof |-> <<>>]
                                  ELSE Wrap(NPointProfile(tn, pn, LPOf(n), sw, "spec")))
                            ELSE IF NPointInvalidS(tn, pn, sg, Limit) THEN [st |-> "invalid", prof |-> <<>>]
                            ELSE Wrap(NPointProfile(tn, pn, LPOf(n), sw, Rule))
      [] kind = "array" -> IF pmode = "none" THEN Wrap(ArrayByFraction(arr, n))
                           ELSE Wrap(ArrayByPressure(arr, PpOf(Len(arr), n), LPOf(n)))
      [] kind = "rodgers" -> Wrap(RodgersProfile(K, hinv, arr, RodVariant))
      [] kind = "guillot" -> GuillotEval
Eval == /\ phase = "in"
        /\ out' = Evaluate
        /\ phase' = "done"
        /\ UNCHANGED <<kind, n, tn, pn, sg, sw, lim, arr, pmode, K, hinv, gp>>
Next == Eval
Spec == Init /\ [][Next]_vars

Done == phase = "done"
Ok == Done /\ out.st = "ok"
Controls == IF kind = "npoint" THEN {tn[i] : i \in 1..Len(tn)} ELSE {arr[i] : i \in 1..Len(arr)}
CLo == CHOOSE v \in Controls : \A u \in Controls : v <= u
CHi == CHOOSE v \in Controls : \A u \in Controls : v >= u
Bounded == kind \in {"iso", "npoint", "array", "rodgers"}

InvalidNeverNaN == Done => out.st \in {"ok", "invalid"}
OnePerLayer == Ok => Len(out.prof) = n
OnlyDocumentedRejections == (Done /\ kind \in {"iso", "array", "rodgers"}) => out.st = "ok"
PositiveFinite == Ok => \A l \in 1..Len(out.prof) : RLt(RZero, out.prof[l])
WithinControlRange == (Ok /\ Bounded) => SeqWithin(out.prof, Q(CLo), Q(CHi))
ConstantWhenControlsEqual == (Ok /\ Bounded /\ CLo = CHi) => SeqConst(out.prof, Q(CLo))
NPointRejectedIff == (Done /\ kind = "npoint") => ((out.st = "invalid") <=> NPointInvalidS(tn, pn, sg, Limit))
\* with positive end nodes a non-positive intermediate node is always a strict inversion of the PRESSURES
\* (it lies below the top node): rejecting it is the "inverted pressure nodes" clause, under every reading
NonPositiveNodeIsInverted == (kind = "npoint" /\ ~AllPositive(sg)) => \E i \in 1..(Len(pn) - 1) : RawLt(pn, sg, i, i + 1)
\* on positive nodes the signed operators are the old ones
SignedAgreesOnPositive == (kind = "npoint" /\ AllPositive(sg)) =>
    /\ NPointInvalidS(tn, pn, sg, Limit) <=> NPointInvalid(tn, pn, Limit)
    /\ NPointStrictlyInvalidS(tn, pn, sg, Limit) <=> NPointStrictlyInvalid(tn, pn, Limit)
GuillotListedRejected == (Done /\ kind = "guillot" /\ GuillotListed(gp)) => out.st = "invalid"
GuillotPhysicalAccepted == (Done /\ kind = "guillot" /\ GuillotPhysical(gp)) => out.st = "ok"
StrictImpliesInvalid == (Done /\ kind = "npoint" /\ NPointStrictlyInvalidS(tn, pn, sg, Limit)) => out.st = "invalid"
FitsInv == Ok => SeqFits(out.prof)

Emit == (Export /\ Done /\ kind # "guillot") =>
    PrintT(<<"VEC", ToJson([kind |-> kind, n |-> n, lp |-> LPOf(n), tn |-> tn, pn |-> pn, sg |-> sg, sw |-> sw, lim |-> lim,
                            arr |-> arr, pmode |-> pmode, pp |-> IF pmode = "pp" THEN PpOf(Len(arr), n) ELSE <<>>,
                            K |-> K, hinv |-> hinv, st |-> out.st,
                            strict |-> (kind = "npoint" /\ NPointStrictlyInvalidS(tn, pn, sg, Limit)), prof |-> out.prof,
                            lo |-> CLo, hi |-> CHi])>>)
=============================================================================
