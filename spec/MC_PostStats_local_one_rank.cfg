SPECIFICATION Spec
CONSTANTS
  NRs = {1}
  Ns = {0,1,2,3}
  SmpMode = "all"
  Vals = {0,3}
  Wts = {0,1,2}
  WDen = 1
  Gens = {1,2,3}
  SampleSpace <- MCSampleSpace
  Required = {"temp","active","inactive","native","binned"}
  Optional = {"cond"}
  LocalQs = {"cond","temp"}
  Ordered = FALSE
  Export = FALSE
INVARIANT ReportsEveryStatistic
INVARIANT EveryStatisticIsCombined
INVARIANT SameOnEveryRank
INVARIANT AffineLemma
INVARIANT FitsInv
CONSTRAINT Emit
CHECK_DEADLOCK FALSE
