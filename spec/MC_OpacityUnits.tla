--------------------------- MODULE MC_OpacityUnits ---------------------------
(* C14: every container that declares its pressure unit x every prefixed unit  *)
(* of the unit table x storage of the attribute x pressure grid.  The stored   *)
(* numbers are the SI grid divided by the unit factor; the loaded grid must be *)
(* the SI grid whatever the unit.  Exported for binding A.                     *)
EXTENDS OpacityFiles, FiniteSets, TLC, Json
CONSTANTS Containers,      \* {"hdf5-xsec", "hdf5-ktable"}
          AttrKinds,       \* how the 'units' attribute is stored: "str" | "bytes"
          GridIds          \* which SI pressure grids (see SIGrid)
VARIABLES phase, cont, pre, base, attr, gid
uvars == <<phase, cont, pre, base, attr, gid>>
\* SI pressure grids in Pa, <<mantissa, exp10>>, ascending
SIGrid(g) == CASE g = 1 -> << <<1, 2>>, <<1, 4>>, <<1, 6>> >>
               [] g = 2 -> << <<5, 0>>, <<25, 2>>, <<125, 4>> >>
               [] g = 3 -> << <<101325, 0 - 3>>, <<101325, 0>>, <<101325, 2>> >>
UInit == /\ phase = "in" /\ cont \in Containers /\ pre \in Prefixes /\ base \in BaseUnits
         /\ attr \in AttrKinds /\ gid \in GridIds
UEval == phase = "in" /\ phase' = "done" /\ UNCHANGED <<cont, pre, base, attr, gid>>
USpec == UInit /\ [][UEval]_uvars
Factor == UnitFactor(pre, base)
FileGrid == [i \in DOMAIN SIGrid(gid) |-> ToFile(SIGrid(gid)[i], Factor)]
Loaded == [i \in DOMAIN FileGrid |-> TriMul(FileGrid[i], Factor)]
\* the loaded grid is the SI grid, for every unit
RoundTrip == \A i \in DOMAIN Loaded : TriEq(Loaded[i], <<SIGrid(gid)[i][1], 1, SIGrid(gid)[i][2]>>)
\* a prefix changes the factor: a prefixed unit is never the base unit (nor any other prefix of it)
PrefixMatters == \A q \in Prefixes : q # pre => ~TriEq(UnitFactor(q, base), Factor)
\* one spelling, one factor
SpellingUnique == \A q \in Prefixes : \A c \in BaseUnits :
                     UnitName(q, c) = UnitName(pre, base) => TriEq(UnitFactor(q, c), Factor)
UFits == \A i \in DOMAIN FileGrid : FileGrid[i][1] < 1073741824 /\ FileGrid[i][2] < 1073741824
\* non-vacuity probe (expected to be refuted): some unit is not bar
AllBar == TriEq(Factor, <<1, 1, 5>>)
UEmit == (phase = "done") =>
    PrintT(<<"UVEC", ToJson([cont |-> cont, unit |-> UnitName(pre, base), prefix |-> pre, base |-> base, attr |-> attr, gid |-> gid,
                             factor |-> Factor, si |-> SIGrid(gid), stored |-> FileGrid])>>)
=============================================================================
