SPECIFICATION MSpec
CONSTANTS
  Models = {1, 2}
  Cfgs = {0, 1}
  Kinds = {"model", "contrib"}
  Shapes = {"native", "cut"}
  Sizes = {"heavy", "light", "lighter"}
  Variants = {"sound", "work-tau", "work-flux", "work-tau-class", "outmut"}
  MaxCalls = 2
  MaxDicts = 1
  MaxFiles = 1
  Depth = 0
  Export = "none"
INVARIANT HoldStable
INVARIANT HoldFile
INVARIANT RefuteWorkTau
INVARIANT RefuteWorkFlux
INVARIANT RefuteWorkTauClass
INVARIANT RefuteOutMut
CHECK_DEADLOCK FALSE
