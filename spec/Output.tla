------------------------------- MODULE Output -------------------------------
(***************************************************************************)
(* C16 -- output files hold what was computed and reload to the same model *)
(*                                                                         *)
(* Part 1  nested result dictionaries.  Python values are                   *)
(*   [k |-> "int"|"float"|"bool", n, d]      scalars (exact rationals n/d)  *)
(*   [k |-> "str", v]                        strings over the whole value   *)
(*        alphabet: ASCII, the empty string, spaces / newlines, accents,    *)
(*        typographic quotes, the micro sign ...  A character outside        *)
(*        printable ASCII is written as the token <U+XXXX> (its code point); *)
(*        the binding translates tokens <-> characters one to one, so Store  *)
(*        / Canon being the identity on v means "every character survives". *)
(*        Entries of string lists are at most 64 bytes of UTF-8 (S64).      *)
(*   [k |-> "arr", dt, shape, data]          numpy arrays (row-major data)  *)
(*   [k |-> "list"|"tuple", items]           sequences                       *)
(*   [k |-> "dict", items]                   items: function name -> value  *)
(* File nodes (the h5py view of what HDF5Output wrote):                     *)
(*   [n |-> "scalar", dt, v], [n |-> "array", dt, shape, data],             *)
(*   [n |-> "string", v], [n |-> "strarr", data]  (shape (len,1), S64),     *)
(*   [n |-> "group", m]  with m: function name -> node, [n |-> "error", why]*)
(*                                                                         *)
(* Store*  follows the code's dispatch (util.store_thing): isinstance order,*)
(*         "any item is a str" => string array, else np.array(item) and    *)
(*         write_array; an exception of the kinds in Caught falls back to   *)
(*         key0, key1, ...; any other exception aborts the whole store.     *)
(* Canon*  is the documented flattening, written declaratively.             *)
(* RoundTrip:  Load(Store(d)) = Canon(d), Load being the identity on trees. *)
(*                                                                         *)
(* Part 2  SpectrumOutput: required keys per binner and output size, and    *)
(*         the exact grid relations.   Part 3  ModelFile / Rebuild.         *)
(***************************************************************************)
EXTENDS Integers, Sequences, FiniteSets, TLC, Json, Rat

\* ----------------------------------------------------------------- values
IsScalar(v) == v.k \in {"int", "float", "bool"}
IsSeq(v)    == v.k \in {"list", "tuple"}
DigitStr(i) == ToString(i)

\* dtype join of numpy for the scalar kinds in play
DtJoin(a, b) == IF a = b THEN a
                ELSE IF "float" \in {a, b} THEN "float" ELSE "int"
RECURSIVE SeqDt(_)
SeqDt(s) == IF Len(s) = 1 THEN s[1] ELSE DtJoin(s[1], SeqDt(Tail(s)))

\* np.array(nested sequence): [ok, dt, shape, data] or [ok |-> FALSE, why]
\*   "ragged": inhomogeneous shape  (ValueError since numpy 1.24)
\*   "object": dict / str elements give an object or unicode array that h5py refuses (TypeError)
RECURSIVE AsArray(_), Flatten(_)
Flatten(ss) == IF Len(ss) = 0 THEN <<>> ELSE Head(ss) \o Flatten(Tail(ss))
AsArray(v) ==
    IF IsScalar(v) THEN [ok |-> TRUE, dt |-> v.k, shape |-> <<>>, data |-> <<<<v.n, v.d>>>>]
    ELSE IF v.k = "arr" THEN [ok |-> TRUE, dt |-> v.dt, shape |-> v.shape, data |-> v.data]
    ELSE IF v.k \in {"dict", "str"} THEN [ok |-> FALSE, why |-> "object"]
    ELSE LET n == Len(v.items)
             subs == [i \in 1..n |-> AsArray(v.items[i])]
         IN  IF n = 0 THEN [ok |-> TRUE, dt |-> "float", shape |-> <<0>>, data |-> <<>>]
             ELSE IF \E i \in 1..n : ~subs[i].ok /\ subs[i].why = "object" THEN [ok |-> FALSE, why |-> "object"]
             ELSE IF \E i \in 1..n : ~subs[i].ok THEN [ok |-> FALSE, why |-> "ragged"]
             ELSE IF \E i \in 1..n : subs[i].shape # subs[1].shape THEN [ok |-> FALSE, why |-> "ragged"]
             ELSE [ok |-> TRUE, dt |-> SeqDt([i \in 1..n |-> subs[i].dt]),
                   shape |-> <<n>> \o subs[1].shape, data |-> Flatten([i \in 1..n |-> subs[i].data])]

Err(why) == [n |-> "error", why |-> why]
HasErr(m) == \E x \in DOMAIN m : m[x].n = "error"
FirstErr(m) == m[CHOOSE x \in DOMAIN m : m[x].n = "error"]
\* merge of member functions with disjoint domains
Merge(f, g) == [x \in DOMAIN f \cup DOMAIN g |-> IF x \in DOMAIN f THEN f[x] ELSE g[x]]

\* ------------------------------------------------- the code's type dispatch
CONSTANT Caught        \* exception kinds caught around write_array: subset of {"TypeError","ValueError"}
RECURSIVE StoreMember(_, _), StoreDict(_), StoreItems(_, _, _)
StoreItems(key, items, i) ==
    IF i > Len(items) THEN <<>>
    ELSE Merge(StoreMember(key \o DigitStr(i - 1), items[i]), StoreItems(key, items, i + 1))
StoreMember(key, v) ==
    IF IsScalar(v) THEN key :> [n |-> "scalar", dt |-> v.k, v |-> <<v.n, v.d>>]
    ELSE IF v.k = "arr" THEN key :> [n |-> "array", dt |-> v.dt, shape |-> v.shape, data |-> v.data]
    ELSE IF v.k = "str" THEN key :> [n |-> "string", v |-> v.v]
    ELSE IF IsSeq(v) THEN
         IF \E i \in 1..Len(v.items) : v.items[i].k = "str"
         THEN IF \A i \in 1..Len(v.items) : v.items[i].k = "str"
              THEN key :> [n |-> "strarr", data |-> [i \in 1..Len(v.items) |-> v.items[i].v]]
              ELSE key :> Err("AttributeError")                 \* n.encode on a non-string item
         ELSE LET a == AsArray(v) IN
              IF a.ok THEN key :> [n |-> "array", dt |-> a.dt, shape |-> a.shape, data |-> a.data]
              ELSE LET exc == IF a.why = "ragged" THEN "ValueError" ELSE "TypeError" IN
                   IF exc \in Caught THEN StoreItems(key, v.items, 1)
                   ELSE key :> Err(exc)
    ELSE key :> StoreDict(v.items)
StoreDict(items) ==
    LET ms == [x \in DOMAIN items |-> StoreMember(x, items[x])]
        all == UNION {{<<y, ms[x][y]>> : y \in DOMAIN ms[x]} : x \in DOMAIN items}
        m == [y \in {p[1] : p \in all} |-> (CHOOSE p \in all : p[1] = y)[2]]
    IN  IF HasErr(m) THEN FirstErr(m) ELSE [n |-> "group", m |-> m]

\* ------------------------------------------------ the documented flattening
\* shape of a rectangular numeric nesting, <<-1>> if there is none
RECURSIVE RectShape(_), NumLeaves(_), LeafDt(_)
NoShape == <<-1>>
RectShape(v) ==
    IF IsScalar(v) THEN <<>>
    ELSE IF v.k = "arr" THEN v.shape
    ELSE IF ~IsSeq(v) THEN NoShape
    ELSE IF Len(v.items) = 0 THEN <<0>>
    ELSE LET s1 == RectShape(v.items[1]) IN
         IF s1 # NoShape /\ \A i \in 1..Len(v.items) : RectShape(v.items[i]) = s1
         THEN <<Len(v.items)>> \o s1 ELSE NoShape
NumLeaves(v) == IF IsScalar(v) THEN <<<<v.n, v.d>>>>
                ELSE IF v.k = "arr" THEN v.data
                ELSE Flatten([i \in 1..Len(v.items) |-> NumLeaves(v.items[i])])
LeafDt(v) == IF IsScalar(v) THEN v.k
             ELSE IF v.k = "arr" THEN v.dt
             ELSE IF Len(v.items) = 0 THEN "float"
             ELSE SeqDt([i \in 1..Len(v.items) |-> LeafDt(v.items[i])])

RECURSIVE CanonMember(_, _), CanonDict(_)
CanonMember(key, v) ==
    IF IsScalar(v) THEN key :> [n |-> "scalar", dt |-> v.k, v |-> <<v.n, v.d>>]
    ELSE IF v.k = "arr" THEN key :> [n |-> "array", dt |-> v.dt, shape |-> v.shape, data |-> v.data]
    ELSE IF v.k = "str" THEN key :> [n |-> "string", v |-> v.v]
    ELSE IF v.k = "dict" THEN key :> CanonDict(v.items)
    ELSE IF Len(v.items) > 0 /\ \A i \in 1..Len(v.items) : v.items[i].k = "str"
         THEN key :> [n |-> "strarr", data |-> [i \in 1..Len(v.items) |-> v.items[i].v]]
    ELSE IF RectShape(v) # NoShape
         THEN key :> [n |-> "array", dt |-> LeafDt(v), shape |-> RectShape(v), data |-> NumLeaves(v)]
    ELSE LET parts == [i \in 1..Len(v.items) |-> CanonMember(key \o DigitStr(i - 1), v.items[i])]
             all == UNION {{<<y, parts[i][y]>> : y \in DOMAIN parts[i]} : i \in 1..Len(v.items)}
         IN  [y \in {p[1] : p \in all} |-> (CHOOSE p \in all : p[1] = y)[2]]
CanonDict(items) ==
    LET ms == [x \in DOMAIN items |-> CanonMember(x, items[x])]
        all == UNION {{<<y, ms[x][y]>> : y \in DOMAIN ms[x]} : x \in DOMAIN items}
    IN  [n |-> "group", m |-> [y \in {p[1] : p \in all} |-> (CHOOSE p \in all : p[1] = y)[2]]]

\* well-formed = inside the property's quantifier: sequences are homogeneous (all strings, or no string)
RECURSIVE WellFormed(_)
WellFormed(v) ==
    IF IsSeq(v) THEN /\ (\E i \in 1..Len(v.items) : v.items[i].k = "str") => (\A i \in 1..Len(v.items) : v.items[i].k = "str")
                     /\ \A i \in 1..Len(v.items) : WellFormed(v.items[i])
    ELSE IF v.k = "dict" THEN \A x \in DOMAIN v.items : WellFormed(v.items[x])
    ELSE TRUE

RoundTripOf(items) == StoreDict(items) = CanonDict(items)

\* --------------------------------------------------------- spectrum output
\* EVERY binner class of taurex.binning that can write a spectrum dictionary (the driver enumerates the package and
\* refuses a class this set does not name): NativeBinner, SimpleBinner, FluxBinner and the light-curve binner
\* (the binner of light-curve forward models and observed light curves; its output is on the model's binned grid).
Binners == {"native", "simple", "flux", "lightcurve"}
Sizes   == {"heavy", "light", "lighter"}
HasBinned(binner) == binner # "native"          \* the output carries binned quantities next to the native ones
NativeKeys == {"native_wngrid", "native_wlgrid", "native_spectrum"}
BinnedKeys == {"binned_spectrum", "native_wnwidth", "native_wlwidth", "binned_wngrid", "binned_wlgrid",
               "binned_wnwidth", "binned_wlwidth"}
LightcurveKeys == {"binned_spectrum", "binned_wngrid", "binned_wlgrid", "lightcurve"}
\* optical depths according to the requested size: heavy = native and binned, light = binned only, lighter = none
\* -- ONE rule for every binner kind
TauKeys(binner, size) ==
    (IF size = "heavy" THEN {"native_tau"} ELSE {})
    \cup (IF size \in {"heavy", "light"} /\ HasBinned(binner) THEN {"binned_tau"} ELSE {})
SpectrumKeys(binner, size) ==
    NativeKeys \cup (CASE binner = "native" -> {} [] binner = "lightcurve" -> LightcurveKeys [] OTHER -> BinnedKeys)
               \cup TauKeys(binner, size)
SpectrumTable == {[binner |-> b, size |-> s, keys |-> SpectrumKeys(b, s)] : b \in Binners, s \in Sizes}

\* Every place where the requested output size is consumed.  Callers:
\*   "direct"        binner.generate_spectrum_output(result, output_size)         -> the dictionary itself
\*   "contributions" util.output.store_contributions(binner, model, output_size)  -> one block per contribution
\*                   and, nested in it, one per component of the contribution
\*   "program"       the taurex program (taurex.py main): Output/Spectra (Output/Priors/Spectra after a retrieval)
\*                   with the nested Contributions block
\*   "optimizer"     Optimizer.generate_solution: Output/Solutions/solution<k>/Spectra with its Contributions
\* The program and the optimizer store the per-contribution blocks ONE STEP LIGHTER than the run (heavy run:
\* binned optical depths only; light and lighter runs: none); a lighter run holds no optical depth anywhere and a
\* light run no native one.
Callers == {"direct", "contributions", "program", "optimizer"}
Places  == {"Spectra", "Contribution", "Component"}
PlacesOf(caller) == IF caller = "direct" THEN {"Spectra"}
                    ELSE IF caller = "contributions" THEN {"Contribution", "Component"} ELSE Places
StepLighter(size) == IF size = "heavy" THEN "light" ELSE "lighter"
PlaceSize(caller, place, size) == IF place = "Spectra" \/ caller = "contributions" THEN size ELSE StepLighter(size)
TauAt(caller, place, binner, size) == TauKeys(binner, PlaceSize(caller, place, size))
TauTable == {[caller |-> c, place |-> p, binner |-> b, size |-> s, tau |-> TauAt(c, p, b, s)] :
             c \in Callers, p \in Places, b \in Binners, s \in Sizes} 
\* the light-curve binner takes the output tuple of a light-curve forward model only: it is reached by the direct call
\* (contribution blocks / program / optimizer would need the pylightcurve model and its instrument files)
CallersOf(binner) == IF binner = "lightcurve" THEN {"direct"} ELSE Callers
TauRows == {r \in TauTable : r.place \in PlacesOf(r.caller) /\ r.caller \in CallersOf(r.binner)}
\* firm reading of the three sizes, whatever the caller: nothing in a lighter run, nothing native below heavy
SizeBounds == \A r \in TauRows : /\ (r.size = "lighter" => r.tau = {})
                                 /\ (r.size # "heavy" => "native_tau" \notin r.tau)
                                 /\ (r.place # "Spectra" /\ r.caller # "contributions" => "native_tau" \notin r.tau)

\* The callers hand the size on as an INTEGER (OutputSize is an IntEnum: heavy 6, light 3, lighter 1; the program
\* and the optimizer pass  size - 3  for the contribution blocks, i.e. 3, 0, -2).  How the binner decides from the
\* integer r it receives:  "order" = ordering comparisons (r > light, r > lighter), "identity" = tests for being
\* one particular member.  SizeArith: the decision on the integer implements TauAt.
SizeVal(size) == CASE size = "heavy" -> 6 [] size = "light" -> 3 [] size = "lighter" -> 1
RequestInt(caller, place, size) == IF place = "Spectra" \/ caller = "contributions" THEN SizeVal(size) ELSE SizeVal(size) - 3
\* "swapped:<kind>" = ordering comparisons, but binner kind <kind> has the two payloads exchanged (native above
\* lighter, binned above light): refuted at the light size of that kind only -- hence binner kind x size is a product
\* the bindings must cover cell by cell (MC_Output_sizeswapped.cfg).
OrderTau(binner, r) == (IF r > 3 THEN {"native_tau"} ELSE {}) \cup (IF r > 1 /\ HasBinned(binner) THEN {"binned_tau"} ELSE {})
TauByInt(test, binner, r) ==
    IF test = "identity"
    THEN (IF r = 6 THEN {"native_tau"} ELSE {}) \cup (IF r # 1 /\ HasBinned(binner) THEN {"binned_tau"} ELSE {})
    ELSE IF test = "swapped:" \o binner
    THEN (IF r > 1 THEN {"native_tau"} ELSE {}) \cup (IF r > 3 /\ HasBinned(binner) THEN {"binned_tau"} ELSE {})
    ELSE OrderTau(binner, r)
SizeArithOf(test) == \A r \in TauRows : TauByInt(test, r.binner, RequestInt(r.caller, r.place, r.size)) = r.tau

\* exact grid relations (per bin, exact rationals): wl = 10000/wn ; wlwidth = 10000*wnwidth/wn^2
WlOf(wn) == RDiv(Q(10000), wn)
WlWidthOf(wn, w) == RDiv(RMul(Q(10000), w), RMul(wn, wn))
GridOk(e) == /\ e.wl = WlOf(e.wn)
             /\ e.wlw = WlWidthOf(e.wn, e.w)

\* ------------------------------------------------------ ModelFile / Rebuild
\* A component class c = [name, params, written, supplied]: constructor keywords, the dataset names its
\* write() produces, and the keywords the loader fills from other parts of the file.  Rebuild passes
\* exactly written \cap params to the constructor; every other keyword silently takes its default.
Rebuilt(c)   == c.params \cap c.written
LostKeys(c)  == c.params \ (c.written \cup c.supplied)
WriteCoversCtor(c) == LostKeys(c) = {}
=============================================================================
