SPECIFICATION HSpec
CONSTANTS
  Alphabet = "U"
  HNat <- MCNat
  HMol <- MCMol
  HWins <- MCWins
  HLevels = {"request", "clip"}
  HKeys = {"none", "content", "points", "size", "first", "ends"}
  HWhats = {"grid", "sed", "op"}
  HStores = {"last", "all"}
INVARIANT HoldFull
INVARIANT HoldFresh
INVARIANT HoldClipped
INVARIANT HFits
INVARIANT Ref_request_size_grid
INVARIANT Ref_request_size_sed
INVARIANT Ref_request_size_op
INVARIANT Ref_request_first_grid
INVARIANT Ref_request_first_sed
INVARIANT Ref_request_first_op
INVARIANT Ref_request_ends_grid
INVARIANT Ref_request_ends_sed
INVARIANT Ref_request_ends_op
INVARIANT Ref_request_points_grid
INVARIANT Ref_request_points_sed
INVARIANT Ref_request_points_op
INVARIANT Ref_clip_size_sed
INVARIANT Ref_clip_size_op
INVARIANT Ref_clip_first_sed
INVARIANT Ref_clip_first_op
INVARIANT Ref_kept_across_full
CHECK_DEADLOCK FALSE
