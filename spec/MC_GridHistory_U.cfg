SPECIFICATION HSpec
CONSTANTS
  Alphabet = "U"
  HNat <- MCNat
  HMol <- MCMol
  HWins <- MCWins
  HEntries = {"model", "contrib", "full"}
  HSlipKinds = {"swap", "nocut", "left", "leftfail"}
  HLevels = {"request", "clip"}
  HKeys = {"none", "content", "points", "size", "first", "ends"}
  HWhats = {"grid", "sed", "op"}
  HStores = {"last", "all"}
INVARIANT HoldFull
INVARIANT HoldFresh
INVARIANT HoldClipped
INVARIANT HFits
INVARIANT Ref_request_size_grid
INVARIANT Ref_request_size_sed
INVARIANT Ref_request_size_op
INVARIANT Ref_request_first_grid
INVARIANT Ref_request_first_sed
INVARIANT Ref_request_first_op
INVARIANT Ref_request_ends_grid
INVARIANT Ref_request_ends_sed
INVARIANT Ref_request_ends_op
INVARIANT Ref_request_points_grid
INVARIANT Ref_request_points_sed
INVARIANT Ref_request_points_op
INVARIANT Ref_clip_size_sed
INVARIANT Ref_clip_size_op
INVARIANT Ref_clip_first_sed
INVARIANT Ref_clip_first_op
INVARIANT Ref_kept_across_full
INVARIANT Ref_slip_swap_model
INVARIANT Ref_slip_swap_contrib
INVARIANT Ref_slip_swap_full
INVARIANT Ref_slip_nocut_model
INVARIANT Ref_slip_nocut_contrib
INVARIANT Ref_slip_nocut_full
INVARIANT Ref_slip_left_contrib
INVARIANT Ref_slip_left_full
INVARIANT Ref_slip_leftfail_contrib
INVARIANT Ref_slip_leftfail_full
CHECK_DEADLOCK FALSE
