----------------------------- MODULE FactoryVal -----------------------------
(***************************************************************************)
(* C15 -- value typing over the WHOLE value grammar of the input file.     *)
(*                                                                         *)
(* "every key set under a section reaches that component's constructor     *)
(*  with the value given (numbers, booleans and lists typed as             *)
(*  documented)".                                                          *)
(*                                                                         *)
(* Factory.tla gives every documented key two spellings.  Here ONE key of   *)
(* ONE component is written with every raw value of the grammar configobj   *)
(* hands to ParameterParser.transform:                                      *)
(*   scalars   every float() spelling in play (sign, exponent, bare point), *)
(*             every boolean word in three cases, plain strings             *)
(*   lists     LENGTH 0, 1 (written with the trailing comma), 2, 3          *)
(*             x element kind: numbers / strings / mixed / boolean words    *)
(* for every constructor keyword of every built-in class that an input      *)
(* file can select (ValClasses, generated: the documented type of the key,  *)
(* else the type of its constructor default) and for a custom python_file   *)
(* class that records what it is given.                                     *)
(*                                                                         *)
(* What reaches the constructor is Transform(raw): a list stays a list     *)
(* whatever its length, a list of numbers is a list of floats element by    *)
(* element, any other list keeps its tokens verbatim, a scalar is never a   *)
(* list.  The driver writes each configuration as an input file, compares   *)
(* the recorded constructor argument with `typed` (exact type and value)    *)
(* and the object built with the one the library builds from the same       *)
(* Python value.                                                            *)
(***************************************************************************)
EXTENDS FactoryOps
CONSTANTS Collapse1,    \* FALSE.  TRUE = the (refuted) reading "a one-element list is its element"
          ScalarTier    \* "some": scalar grammar on the classes marked `scalars` only;  "all": on every class
VARIABLES phase, vc, par, raw, out
vars == <<phase, vc, par, raw, out>>

\* ----------------------------------------------------------------- the grammar
NumScalars  == {Sc(t) : t \in {"0.25", "1250", "1e3", "2.5e-1", "1e-2", "-1.5", "1E3", ".5", "5.", "+2", "0"}}
IntScalars  == {Sc(t) : t \in {"3", "12", "0", "+2"}}
BoolScalars == {Sc(t) : t \in {"True", "true", "TRUE", "yes", "Yeah", "yup", "certainly", "uh-huh",
                               "False", "no", "NO", "nope", "no-way", "hell-no"}}
StrScalars  == {Sc(t) : t \in {"K", "abc", "H2"}}
ListRaws == {Li(<<>>),
             Li(<<"1250">>), Li(<<"0.5">>), Li(<<"1e3">>), Li(<<"H2">>), Li(<<"H2-He">>), Li(<<"True">>),
             Li(<<"0.5", "0.25">>), Li(<<"1e3", "1250">>), Li(<<"H2", "He">>), Li(<<"H2-He", "He-He">>),
             Li(<<"0.5", "H2">>), Li(<<"H2", "0.5">>), Li(<<"True", "no">>),
             Li(<<"1250", "1e3", "0.5">>), Li(<<"-1.5", "0", "1e-2">>), Li(<<"H2", "He", "N2">>),
             Li(<<"0.5", "0.25", "K">>), Li(<<"1", "True", "0.5">>)}
IsListy(typ) == typ \in {"list", "float|list", "str|list", "any"}
Grammar(typ, name) ==
    IF name \in PathKeys THEN {Sc("@P1"), Sc("@P2")}
    ELSE CASE typ = "float"      -> NumScalars
           [] typ = "int"        -> IntScalars
           [] typ = "bool"       -> BoolScalars
           [] typ = "list"       -> ListRaws
           [] typ = "float|list" -> {Sc("2.5e-1"), Sc("-1.5")} \cup ListRaws
           [] typ = "str|list"   -> {Sc("H2")} \cup ListRaws
           [] typ = "any"        -> NumScalars \cup BoolScalars \cup StrScalars \cup ListRaws   \* the recording custom class
           [] typ = "opt"        -> {Sc("0.25"), Sc("K"), Li(<<"0.5">>)}      \* default None: nothing is documented
           [] OTHER              -> StrScalars

TransformV(r) == IF Collapse1 /\ r.k = "list" /\ Len(r.toks) = 1 THEN Transform(Sc(r.toks[1])) ELSE Transform(r)

ElemKind(r) == IF r.toks = <<>> THEN "empty"
               ELSE IF \A i \in 1..Len(r.toks) : IsNum(r.toks[i]) THEN "num"
               ELSE IF \A i \in 1..Len(r.toks) : ~IsNum(r.toks[i]) THEN "str" ELSE "mixed"
ShapeOf(r) == IF r.k = "list" THEN "list" \o ToString(Len(r.toks)) \o ElemKind(r) ELSE "scalar" \o ElemKind(r)

\* ----------------------------------------------------------------- behaviour
InTier(c, p) == IsListy(p.typ) \/ c.scalars \/ ScalarTier = "all"
Init == /\ phase = "cfg"
        /\ vc \in ValClasses
        /\ par \in {p \in vc.params : InTier(vc, p)}
        /\ raw \in Grammar(par.typ, par.name)
        /\ out = [err |-> "pending"]

GivenRaw == [n \in {par.name} \cup {f.name : f \in {g \in vc.fixed : g.name # par.name}} |->
                IF n = par.name THEN raw ELSE (CHOOSE f \in vc.fixed : f.name = n).raw]

\* ParameterParser.read walks the raw tree once: every value, whatever its key, goes through transform
Deliver ==
    /\ phase = "cfg"
    /\ out' = [err |-> "none", typed |-> TransformV(raw), kwargs |-> [n \in DOMAIN GivenRaw |-> TransformV(GivenRaw[n])]]
    /\ phase' = "done"
    /\ UNCHANGED <<vc, par, raw>>
Next == Deliver
Spec == Init /\ [][Next]_vars

\* ---------------------------------------------------------------- invariants
Done == phase = "done"
ListStaysList ==
    (Done /\ raw.k = "list") => /\ out.typed.t \in {"floatlist", "strlist"}
                                /\ Len(out.typed.v) = Len(raw.toks)
ScalarStaysScalar ==
    (Done /\ raw.k = "scalar") => out.typed.t \in {"bool", "float", "str"}
\* numbers element by element, and no partial conversion: one non-number keeps every token as written
ElementsTyped ==
    (Done /\ raw.k = "list") =>
        IF \A i \in 1..Len(raw.toks) : IsNum(raw.toks[i])
        THEN /\ out.typed.t = "floatlist"
             /\ \A i \in 1..Len(raw.toks) : out.typed.v[i] = NumTokens[raw.toks[i]]
        ELSE out.typed = [t |-> "strlist", v |-> raw.toks]
ScalarsTyped ==
    (Done /\ raw.k = "scalar") =>
        LET tok == raw.toks[1] IN
        /\ (LowerOf(tok) \in BoolTrueWords)  => out.typed = [t |-> "bool", v |-> TRUE]
        /\ (LowerOf(tok) \in BoolFalseWords) => out.typed = [t |-> "bool", v |-> FALSE]
        /\ IsNum(tok) => out.typed = [t |-> "float", v |-> NumTokens[tok]]
\* a value written in the documented form of the key has the documented type at the constructor
WellTyped(typ, r) ==
    CASE typ \in {"float", "int"} -> r.k = "scalar" /\ IsNum(r.toks[1])
      [] typ = "bool"             -> r.k = "scalar" /\ LowerOf(r.toks[1]) \in BoolTrueWords \cup BoolFalseWords
      [] typ = "list"             -> r.k = "list"
      [] typ = "float|list"       -> \A i \in 1..Len(r.toks) : IsNum(r.toks[i])
      [] typ = "str|list"         -> \A i \in 1..Len(r.toks) : ~IsNum(r.toks[i]) /\ LowerOf(r.toks[i]) \notin BoolTrueWords \cup BoolFalseWords
      [] typ \in {"any", "opt"}   -> FALSE
      [] OTHER                    -> r.k = "scalar" /\ ~IsNum(r.toks[1]) /\ LowerOf(r.toks[1]) \notin BoolTrueWords \cup BoolFalseWords
\* (an empty list has no element type: it satisfies either list type)
EmptyList(tv) == tv.t \in {"floatlist", "strlist"} /\ tv.v = <<>>
DocumentedTypeHolds ==
    (Done /\ par.src = "doc" /\ WellTyped(par.typ, raw)) =>
        \/ DocTypeOK(par.typ, out.typed)
        \/ (EmptyList(out.typed) /\ par.typ \in {"list", "float|list", "str|list"})
ValFits == Done => (out.typed.t = "float" => out.typed.v[2] > 0)

Emit == Done =>
    PrintT(<<"VAL", ToJson([kind |-> vc.kind, cls |-> vc.name, sel |-> vc.sel, by |-> vc.by, custom |-> vc.custom,
                            par |-> par.name, typ |-> par.typ, src |-> par.src, shape |-> ShapeOf(raw),
                            welltyped |-> WellTyped(par.typ, raw),
                            given |-> GivenRaw, kwargs |-> out.kwargs])>>)
=============================================================================
