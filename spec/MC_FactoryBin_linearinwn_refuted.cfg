SPECIFICATION Spec
CONSTANTS
  NTriples = 1
  Accurates = {""}
  Spells = {"lower"}
  ObsOverridesNative = FALSE
  WlGridLinearInWn = TRUE
INVARIANT GridAsDocumented
CHECK_DEADLOCK FALSE
