--------------------------- MODULE MC_ProofLinks ---------------------------
(***************************************************************************)
(* Links between the exact-rational operators the specifications use and   *)
(* the cleared-denominator polynomials of spec/proofs/*.tla (TLAPS).       *)
(* TLC evaluates the links exhaustively on a small integer box; TLAPS      *)
(* proves the inequalities / identities about the polynomials for all      *)
(* integers.  Together: the specification's interpolants stay in the hull  *)
(* of their nodes for every table, not only the tables TLC enumerates.     *)
(***************************************************************************)
EXTENDS Integers, Sequences, Rat, TLC

CONSTANTS Lo, Hi, XMax
MinusThree == -3
Vals == Lo..Hi
LinNum(a, b, x, x0, x1) == a * (x1 - x0) + (x - x0) * (b - a)
BilNum(a, b, c, d, u, w, dx, dy) == (a * (dx - u) + b * u) * (dy - w) + (c * (dx - u) + d * u) * w

LinLink == \A a, b \in Vals : \A x0, x1, x \in 0..XMax :
              (x0 < x1 /\ x0 <= x /\ x <= x1) =>
                 REq(RLin(Q(a), Q(b), x, x0, x1), <<LinNum(a, b, x, x0, x1), x1 - x0>>)
BilLink == \A a, b, c, d \in {Lo, 0, Hi} : \A x0, x1, x, y0, y1, y \in 0..3 :
              (x0 < x1 /\ x0 <= x /\ x <= x1 /\ y0 < y1 /\ y0 <= y /\ y <= y1) =>
                 REq(RLin(RLin(Q(a), Q(b), x, x0, x1), RLin(Q(c), Q(d), x, x0, x1), y, y0, y1),
                     <<BilNum(a, b, c, d, x - x0, y - y0, x1 - x0, y1 - y0), (x1 - x0) * (y1 - y0)>>)
\* the streaming update of OnlineVariance on exact rationals against the two-pass sums
Mean(S1, W) == Norm(S1, W)
WelfordLink == \A W \in 1..3, w \in 0..2, S1 \in Lo..Hi, S2 \in 0..Hi, x \in Lo..Hi :
      LET mean  == Mean(S1, W)
          M2    == RSub(Q(S2), RDiv(RMul(Q(S1), Q(S1)), Q(W)))
          Wn    == W + w
          meann == RAdd(mean, RMul(Norm(w, Wn), RSub(Q(x), mean)))
          M2n   == RAdd(M2, RMul(Q(w), RMul(RSub(Q(x), mean), RSub(Q(x), meann))))
          S1n   == S1 + w * x
          S2n   == S2 + w * x * x
      IN  /\ REq(meann, Norm(S1n, Wn))
          /\ REq(M2n, RSub(Q(S2n), RDiv(RMul(Q(S1n), Q(S1n)), Q(Wn))))
ASSUME LinLink
ASSUME BilLink
ASSUME WelfordLink
VARIABLE dummy
Init == dummy = 0
Next == UNCHANGED dummy
Spec == Init /\ [][Next]_dummy
=============================================================================
