SPECIFICATION Spec
CONSTANTS
  NL = 2
  MaxFill = 2
  MaxTrace = 2
  RatioNums = {1}
  RatioDen = 4
  AbNums = {0,3,5,8}
  AbDen = 8
  EShift = 1
  ENums = {0,1,2}
  Variant = "forgive_close"
  Export = FALSE
INVARIANT NonNegative
INVARIANT SumsToOne
INVARIANT FillRatiosExact
INVARIANT TracesUntouched
INVARIANT InvalidIffExceedsOne
CHECK_DEADLOCK FALSE
