SPECIFICATION Spec
CONSTANTS
  NL = 2
  NC = 3
  NWSet = {8, 9, 13}
  HVals = {0, 3}
  ExitStride = 2
  Export = FALSE
INVARIANT ExitOnlySaturatedEverywhere
INVARIANT SameRuleAsSmallGrids
INVARIANT NoExitWhileThin
INVARIANT LicensedExitTaken
CONSTRAINT Emit
CHECK_DEADLOCK FALSE
