SPECIFICATION Spec
CONSTANTS
  NL = 3
  NW = 2
  NT = 3
  ECodes = {1, 205, 1515}
  TCodes = {222,312,231}
  QuadIds = {1, 2, 3, 5}
  ClampE = 15
  SlackE = 14
  Variant = "code"
  Btab <- MCBtab
  Bstar <- MCBstar
  TabId = 1
  Rp = 2
  Rs = 5
  Dist = 3
  KD = 2
  Export = TRUE
  InterpIds = {}
INVARIANT Telescoping
INVARIANT HotColdBounds
INVARIANT FitsInv
CONSTRAINT Emit
CHECK_DEADLOCK FALSE
