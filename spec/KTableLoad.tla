----------------------------- MODULE KTableLoad -----------------------------
(***************************************************************************)
(* C20 -- the k-table LOADING part: "the transmittance along a path is the *)
(* weight-averaged exponential of the per-point optical depths" pairs every*)
(* quadrature weight with ITS coefficient.  A k-table file of any format   *)
(* (pickle, HDF5, NEMESIS .kta) stores weights w[g] and coefficients       *)
(* k[wn][g]; the loaded pairing must be the file's.  Dimensions:           *)
(*   format  x  weight symmetry under g -> n+1-g  x  coefficient profile   *)
(*   (equal / rising / falling / unordered across g)  x  path length.      *)
(* Weights are numerators over a power of two (exact in every container:   *)
(* NEMESIS stores float32), coefficients small integers in ln 2 units per  *)
(* unit path, so that T(n) = sum_g w[g] 2^(-k[g] n) / sum_g w[g] is an     *)
(* exact rational.                                                         *)
(* Variant for the expected counterexample: the formats in Reversed load   *)
(* the quadrature axis of the coefficients reversed and the weights as     *)
(* stored.  With symmetric weights only, the variant is NOT refuted (which *)
(* is why that dimension is needed): MC_KTableLoad_symmetric_blind.cfg.    *)
(***************************************************************************)
EXTENDS Integers, Sequences, FiniteSets, TLC, Json

CONSTANTS Formats, WeightSets, KSeqs, PathLens, KMax, Reversed, Export
VARIABLE x

RECURSIVE Pow2(_), SumTo(_, _)
Pow2(e) == IF e = 0 THEN 1 ELSE 2 * Pow2(e - 1)
SumTo(s, i) == IF i = 0 THEN 0 ELSE s[i] + SumTo(s, i - 1)
Rev(s) == [i \in 1..Len(s) |-> s[Len(s) + 1 - i]]
Symmetric(w) == w = Rev(w)
IsPow2(d) == \E e \in 0..8 : d = Pow2(e)

\* what a reader of format f hands over for the coefficients ks stored in the file (weights: as stored)
Load(f, ks) == IF f \in Reversed THEN Rev(ks) ELSE ks

\* numerator of the weight-averaged exponential over the denominator Den(w, n)
Num(w, ks, n) == LET t[g \in 0..Len(w)] == IF g = 0 THEN 0 ELSE t[g - 1] + w[g] * Pow2((KMax - ks[g]) * n) IN t[Len(w)]
Den(w, n) == SumTo(w, Len(w)) * Pow2(KMax * n)
\* the transmittance of the weight-averaged coefficient, 2^(-(sum w k / sum w) n), is not rational in general: the bound
\* T >= exp(-sum_g w_g tau_g) is evaluated by the binding from the same file numbers

Tables == {<<w, k1, k2>> \in WeightSets \X KSeqs \X KSeqs : Len(w) = Len(k1) /\ Len(w) = Len(k2)}
WeightsOk == \A w \in WeightSets : IsPow2(SumTo(w, Len(w))) /\ \A g \in 1..Len(w) : w[g] > 0
KOk == \A ks \in KSeqs : \A g \in 1..Len(ks) : ks[g] \in 0..KMax

\* the property: whatever the format, the transmittance computed from what was loaded is the file's
PairingIsTheFiles == x = 0 =>
    \A f \in Formats : \A t \in Tables : \A n \in PathLens :
        /\ Num(t[1], Load(f, t[2]), n) = Num(t[1], t[2], n)
        /\ Num(t[1], Load(f, t[3]), n) = Num(t[1], t[3], n)
\* degenerate tables cannot tell (the first sentence of the property holds under the variant)
DegenerateBlind == x = 0 =>
    \A f \in Formats : \A t \in Tables : \A n \in PathLens :
        (\A g \in 1..Len(t[2]) : t[2][g] = t[2][1]) => Num(t[1], Load(f, t[2]), n) = Num(t[1], t[2], n)
\* non-vacuity: the model holds asymmetric weights with unequal coefficients, and every format
NeverAsymmetric == x = 0 => \A t \in Tables : Symmetric(t[1]) \/ \A g \in 1..Len(t[2]) : t[2][g] = t[2][1]

Vec(f, t) == [fmt |-> f, w |-> t[1], k |-> <<t[2], t[3]>>, sym |-> Symmetric(t[1]),
              expect |-> [n \in PathLens |-> <<Num(t[1], t[2], n), Num(t[1], t[3], n), Den(t[1], n)>>],
              paths |-> PathLens]
Init == /\ x = 0
        /\ WeightsOk /\ KOk
        /\ Export => \A f \in Formats : \A t \in Tables : PrintT(<<"LVEC", ToJson(Vec(f, t))>>)
Next == UNCHANGED x
Spec == Init /\ [][Next]_x
=============================================================================
