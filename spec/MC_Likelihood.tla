---------------------------- MODULE MC_Likelihood ----------------------------
(* Toy worlds for C06 (cfg files cannot hold tuples / functions).            *)
(* Layout "two":   a (lin, fitted), b (log, fitted), c (lin, NOT fitted)      *)
(* Layout "three": a (lin, fit), b (log, fit), c (lin, unfitted), d (lin, fit)*)
(* native_k = SUM_p Coef[p][k] v[p];  bins {1,2} and {3,4}; data chosen so    *)
(* that one grid point reproduces the observation exactly (chi2 = 0):        *)
(*   "two":   a=2, b=10^1, c=6       bin1 = (3a+b+2c)/2 = 14,  bin2 = (7a+b)/2 = 12        *)
(*   "three": a=2, b=10^1, c=6, d=2  bin1 = (3a+b+2c+d)/2 = 15, bin2 = (7a+b+2d)/2 = 14    *)
(* InvalidChemistry iff some layer is above the limit: a + b > 50 (b = 100) in the deep layer (the upper layer  *)
(* holds a only); InvalidTemperature iff a >= c.                                                                  *)
EXTENDS Likelihood
CONSTANTS Layout, Depth

\* Layout "mixed" (and "mixedref", the same world with a smaller vector set for the expected-counterexample
\* run): priors given through set_prior in the OTHER space than the parameter's mode, both directions
\*   a: mode lin, prior LogUniform(bounds = [0, 2])   x = 0, 1, 2  ->  a = 1, 10, 100
\*   b: mode log, prior Uniform(bounds = [0, 48])     x           ->  b = x
\*   c: lin, NOT fitted (12)
\* perfect fit at a = 10, b = 2:  bin1 = (3a+b+2c)/2 = 28,  bin2 = (7a+b)/2 = 36
\* Layout "obs": the world "two" plus two fitted parameters that live on the OBSERVATION (compile_params appends
\* them after the model's):  o = additive offset of the observed spectrum (lin, bounds [-4, 4], initially 0),
\*                           s = multiplicative scale (log mode, exponent bounds [0, 1], initially 1)
\*   observed spectrum = Data * s + o;  perfect fit at a=2, b=10^1, (c=6,) o=0, s=10^0, i.e. x = <<2, 1, 0, 0>>
\* Layout "hist": the world "two" (fewer vectors) whose ONE long-lived optimizer is pointed at three observations, one
\* after the other (set_observed ; compile_params ; compute_fit):
\*   observation 1: bins {1,2} {3,4}      data 14, 12       sigma 2, 3   (the observation of "two")
\*   observation 2: bins {1} {2,3,4}      data 18, 11       sigma 1, 2   (same number of bins, other layout)
\*   observation 3: bins {1} {2,3} {4}    data 18, 8, 18    sigma 2, 1, 3 (another number of bins; perfect fit at a=2, b=10)
Mixed   == Layout \in {"mixed", "mixedref"}
\* ("histsim": the same world with three vectors only, for the simulated walks -- they switch observation more often)
Hist    == Layout \in {"hist", "histsim"}
MCMoreObs == IF Hist
             THEN <<[bins |-> <<{1}, {2, 3, 4}>>, data |-> <<18, 11>>, sig |-> <<1, 2>>],
                    [bins |-> <<{1}, {2, 3}, {4}>>, data |-> <<18, 8, 18>>, sig |-> <<2, 1, 3>>]>>
             ELSE <<>>
Obs     == Layout = "obs"
MCNP    == IF Layout = "three" THEN 4 ELSE IF Obs THEN 5 ELSE 3
MCFit   == IF Layout = "three" THEN <<TRUE, TRUE, FALSE, TRUE>> ELSE IF Obs THEN <<TRUE, TRUE, FALSE, TRUE, TRUE>>
           ELSE <<TRUE, TRUE, FALSE>>
MCMode  == IF Layout = "three" THEN <<"lin", "log", "lin", "lin">> ELSE IF Obs THEN <<"lin", "log", "lin", "lin", "log">>
           ELSE <<"lin", "log", "lin">>
MCRole  == IF Obs THEN <<"model", "model", "model", "offset", "scale">> ELSE [p \in 1..MCNP |-> "model"]
MCLo    == IF Layout = "three" THEN <<0, 0, 0, 4>> ELSE IF Obs THEN <<0, 0, 0, -4, 0>> ELSE <<0, 0, 0>>
MCHi    == IF Layout = "three" THEN <<8, 2, 0, 1>> ELSE IF Obs THEN <<8, 2, 0, 4, 1>> ELSE <<8, 2, 0>>      \* d's bounds are given reversed
MCUser  == IF Mixed THEN <<TRUE, TRUE, FALSE>> ELSE [p \in 1..MCNP |-> FALSE]
MCUMode == IF Mixed THEN <<"log", "lin", "lin">> ELSE [p \in 1..MCNP |-> "lin"]
MCULo   == [p \in 1..MCNP |-> 0]
MCUHi   == IF Mixed THEN <<2, 48, 0>> ELSE [p \in 1..MCNP |-> 0]
MCVal0  == IF Mixed THEN <<1, 1, 12>> ELSE IF Layout = "two" \/ Hist THEN <<1, 1, 6>> ELSE IF Obs THEN <<1, 1, 6, 0, 1>>
           ELSE <<1, 1, 6, 3>>
MCXSet  == IF Layout = "mixed" THEN <<{0, 1, 2}, {0, 2, 10, 45}, {}>>
           ELSE IF Layout = "mixedref" THEN <<{0, 1}, {0, 2, 3}, {}>>
           ELSE IF Layout = "two" THEN <<0..7, 0..2, {}>>
           ELSE IF Layout = "hist" THEN <<{2, 3, 6}, {1, 2}, {}>>
           ELSE IF Layout = "histsim" THEN <<{2, 3, 6}, {1}, {}>>
           ELSE IF Obs THEN <<{2, 3, 6}, {0, 1}, {}, {-2, 0}, {0, 1}>>
           ELSE <<{0, 2, 3, 6}, 0..2, {}, {2, 3}>>
MCCoef  == IF Layout = "three" THEN <<<<1, 2, 3, 4>>, <<1, 0, 0, 1>>, <<1, 1, 0, 0>>, <<0, 1, 2, 0>>>>
           ELSE IF Obs THEN <<<<1, 2, 3, 4>>, <<1, 0, 0, 1>>, <<1, 1, 0, 0>>, <<0, 0, 0, 0>>, <<0, 0, 0, 0>>>>
           ELSE <<<<1, 2, 3, 4>>, <<1, 0, 0, 1>>, <<1, 1, 0, 0>>>>
MCBins  == <<{1, 2}, {3, 4}>>
MCData  == IF Mixed THEN <<28, 36>> ELSE IF Layout \in {"two", "obs"} \/ Hist THEN <<14, 12>> ELSE <<15, 14>>
MCSig   == <<2, 3>>
\* the atmosphere has two layers: the deep one holds the gases a and b, the upper one a only (b's profile vanishes towards the
\* top): with b = 100 only ONE layer is above the limit.  Under the statement's rule ("any") that is InvalidChemistry iff a + b > 50
MCChemLayers == <<{1, 2}, {1}>>
MCNaNBins == {1}                 \* "NaNSome": the native points of bin 1 are NaN, bin 2 is comparable

\* binding C: print every simulated behaviour of length Depth (history of calls with the
\* specification's expected written values and expected result)
EmitHist == (TLCGet("level") = Depth) =>
              PrintT(<<"BEH", ToJson([layout |-> Layout, hist |-> hist,
                                      \* the observations the optimizer is pointed at (bins = sets of native indices)
                                      obs |-> [o \in 1..NObs |-> ObsRec(o)]])>>)
=============================================================================
