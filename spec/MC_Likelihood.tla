---------------------------- MODULE MC_Likelihood ----------------------------
(* Toy worlds for C06 (cfg files cannot hold tuples / functions).            *)
(* Layout "two":   a (lin, fitted), b (log, fitted), c (lin, NOT fitted)      *)
(* Layout "three": a (lin, fit), b (log, fit), c (lin, unfitted), d (lin, fit)*)
(* native_k = SUM_p Coef[p][k] v[p];  bins {1,2} and {3,4}; data chosen so    *)
(* that one grid point reproduces the observation exactly (chi2 = 0):        *)
(*   "two":   a=2, b=10^1, c=6       bin1 = (3a+b+2c)/2 = 14,  bin2 = (7a+b)/2 = 12        *)
(*   "three": a=2, b=10^1, c=6, d=2  bin1 = (3a+b+2c+d)/2 = 15, bin2 = (7a+b+2d)/2 = 14    *)
(* InvalidChemistry iff a + b > 50 (b = 100); InvalidTemperature iff a >= c.  *)
EXTENDS Likelihood
CONSTANTS Layout, Depth

MCNP    == IF Layout = "two" THEN 3 ELSE 4
MCFit   == IF Layout = "two" THEN <<TRUE, TRUE, FALSE>> ELSE <<TRUE, TRUE, FALSE, TRUE>>
MCMode  == IF Layout = "two" THEN <<"lin", "log", "lin">> ELSE <<"lin", "log", "lin", "lin">>
MCLo    == IF Layout = "two" THEN <<0, 0, 0>> ELSE <<0, 0, 0, 4>>
MCHi    == IF Layout = "two" THEN <<8, 2, 0>> ELSE <<8, 2, 0, 1>>      \* d's bounds are given reversed
MCVal0  == IF Layout = "two" THEN <<1, 1, 6>> ELSE <<1, 1, 6, 3>>
MCXSet  == IF Layout = "two" THEN <<0..7, 0..2, {}>> ELSE <<{0, 2, 3, 6}, 0..2, {}, {2, 3}>>
MCCoef  == IF Layout = "two" THEN <<<<1, 2, 3, 4>>, <<1, 0, 0, 1>>, <<1, 1, 0, 0>>>>
           ELSE <<<<1, 2, 3, 4>>, <<1, 0, 0, 1>>, <<1, 1, 0, 0>>, <<0, 1, 2, 0>>>>
MCBins  == <<{1, 2}, {3, 4}>>
MCData  == IF Layout = "two" THEN <<14, 12>> ELSE <<15, 14>>
MCSig   == <<2, 3>>
MCChem  == {1, 2}

\* binding C: print every simulated behaviour of length Depth (history of calls with the
\* specification's expected written values and expected result)
EmitHist == (TLCGet("level") = Depth) =>
              PrintT(<<"BEH", ToJson([layout |-> Layout, hist |-> hist])>>)
=============================================================================
