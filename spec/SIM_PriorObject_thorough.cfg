SPECIFICATION Spec
CONSTANTS
  UN = 16
  Ordering = "minmax"
  ZS = 100
  Z <- MCZ
  TK = {5,30,53,1074}
  HiMax = 53
  ZTS = 100
  TD = {3,12,300}
  HiDecMax = 12
  ZTCode = {10000,20067,30115,40153,50186,300601,530821,10743847}
  ZDCode = {30309,120703,3003705}
  Delivery = "by_prior"
  Passes = "user_table"
  QNum = {0,7,12,15,112,1012}
  QShift = 12
  QDen = {4}
  ENum = {0,6,14,18}
  EShift = 12
  SNum = {3,10}
  SDen = {4}
  Conts = {"tuple","list","ndarray","ndarray_readonly"}
  Hows = {"direct","text"}
  Depth = 10
  Export = TRUE
  SetWeight = 5
  RareWeight = 250
  Setter = "rebuilds"
INVARIANT ObjectInv
CONSTRAINT Bound
CONSTRAINT Emit
CHECK_DEADLOCK FALSE
