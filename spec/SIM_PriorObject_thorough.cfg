SPECIFICATION Spec
CONSTANTS
  UN = 16
  Ordering = "minmax"
  ZS = 100
  Z <- MCZ
  TK = {5,30,53,1074}
  HiMax = 53
  ZTS = 100
  TD = {3,12,300}
  HiDecMax = 12
  ZTCode = {10000,20067,30115,40153,50186,300601,530821,10743847}
  ZDCode = {30309,120703,3003705}
  Delivery = "by_prior"
  Passes = "user_table"
  QNum = {0,2,7,11,12,13,15,24,112,1012,3012}
  QShift = 12
  QDen = {1,4,8}
  ENum = {0,3,6,10,12,14,18}
  EShift = 12
  SNum = {1,3,10}
  SDen = {4}
  Conts = {"tuple","list","ndarray","ndarray_readonly"}
  Hows = {"direct","text"}
  Depth = 10
  Export = TRUE
  SetWeight = 3
  Setter = "rebuilds"
INVARIANT ObjectInv
CONSTRAINT Bound
CONSTRAINT Emit
CHECK_DEADLOCK FALSE
