--------------------------- MODULE MC_CacheNames ---------------------------
(* Three molecules whose names form a chain A < B < C under "is a substring of"      *)
(* (the harness binds them to H2 / H2O / H2O2, C / CO / CO2, O / O2 / CO2 ... and to  *)
(* every permutation: the documented cache does not depend on Sub), two paths: p1     *)
(* holds all three (tables 1, 2, 3), p2 holds A and B with other tables (4, 5).       *)
EXTENDS CacheNames
MCDisk(p, m) == IF p = "p1" THEN (IF m = "A" THEN 1 ELSE IF m = "B" THEN 2 ELSE 3)
                ELSE IF m = "A" THEN 4 ELSE IF m = "B" THEN 5 ELSE 0
MCSub(x, m) == <<x, m>> \in {<<"A", "B">>, <<"A", "C">>, <<"B", "C">>}
SubRel == {<<x, m>> \in Mols \X Mols : MCSub(x, m)}
ASSUME PrintT(<<"SUBREL", ToJson([rel |-> SubRel, disk |-> {<<p, m, MCDisk(p, m)>> : p \in Paths, m \in Mols}])>>)
=============================================================================
