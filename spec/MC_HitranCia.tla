---------------------------- MODULE MC_HitranCia ----------------------------
(* C14: model-checking / export / simulation wrapper of HitranCia.            *)
EXTENDS HitranCia, Json
CONSTANTS QTemps,      \* query temperatures in K (those inside the file's master grid are exported)
          Export       \* TRUE: print one CIA vector per closed file
MCTemp2 == <<200, 400>>
MCTemp3 == <<200, 400, 1000>>
MCTemp4 == <<200, 300, 600, 1000>>
MCTemp5 == <<100, 200, 300, 600, 1000>>
RECURSIVE AscQ(_)
AscQ(S) == IF S = {} THEN <<>> ELSE LET m == SetMin(S) IN <<m>> \o AscQ(S \ {m})
Queries == LET qs == AscQ({K \in QTemps : QueryInside(K)}) IN [i \in DOMAIN qs |-> QueryOf(qs[i])]
HEmit == (Export /\ HClosed) =>
    PrintT(<<"CIA", ToJson([file |-> [i \in DOMAIN file |-> <<file[i][1], file[i][2]>>], layouts |-> [i \in DOMAIN file |-> file[i][3]], temps |-> TempK, master |-> HMasterSeq, bands |-> HBandSeq,
                            table |-> PhysTable, queries |-> Queries])>>)
=============================================================================
