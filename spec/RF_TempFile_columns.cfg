SPECIFICATION Spec
CONSTANTS
  NMin = 2
  NMax = 3
  TVals = {1,2,4}
  MaxLen = 2
  PUnits = {0}
  TUnits = {1}
  Lays = {1,2}
  Skips = {0}
  Delims = {"ws"}
  Orders = {"boa"}
  Rule = "file_columns_swapped"
  Export = FALSE
INVARIANT FileTransparent
CONSTRAINT Emit

CHECK_DEADLOCK FALSE
