SPECIFICATION Spec
CONSTANTS
  E = 5
  KMin = 1
  KMax = 3
  TES = {0,1,2,3,4,5,6,7,8,9,10}
  TShift = 2
  NTgtMin = 1
  NTgtMax = 1
  Vals = {0}
  FMode = "basis"
  Kinds = {"flux"}
  Variant = "ok"
  Export = TRUE
INVARIANT WellFormed
INVARIANT OutIsSortedOrder
INVARIANT FitsInv
CONSTRAINT Emit
CHECK_DEADLOCK FALSE
