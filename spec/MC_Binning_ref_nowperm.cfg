SPECIFICATION Spec
CONSTANTS
  E = 5
  KMin = 1
  KMax = 3
  TES = {0,1,2,3,4,5,6,7}
  TShift = 1
  NTgtMin = 1
  NTgtMax = 1
  Vals = {0,1,3}
  FMode = "generic"
  Kinds = {"flux"}
  Variant = "nowperm"
  Export = FALSE
INVARIANT AlgRefinesDef
CONSTRAINT Emit
CHECK_DEADLOCK FALSE
