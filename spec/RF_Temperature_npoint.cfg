SPECIFICATION Spec
CONSTANTS
  NMin = 2
  NMax = 5
  TVals = {1,2,4}
  SWs = {150}
  MaxNodes = 0
  Limits = {1000}
  Kinds = {"npoint"}
  Rule = "npoint_asbuilt"
  RodVariant = "spec"
  SignedNodes = "no"
  Export = FALSE
INVARIANT InvalidNeverNaN
INVARIANT OnePerLayer
INVARIANT OnlyDocumentedRejections
INVARIANT PositiveFinite
INVARIANT WithinControlRange
INVARIANT ConstantWhenControlsEqual
INVARIANT NPointRejectedIff
INVARIANT StrictImpliesInvalid
INVARIANT GuillotListedRejected
INVARIANT GuillotPhysicalAccepted
INVARIANT FitsInv
CONSTRAINT Emit
CHECK_DEADLOCK FALSE
