--------------------------- MODULE MC_PriorHistory ---------------------------
(* C08 over the life of ONE optimizer.  "Default priors derive from a parameter's bounds and mode" and "a prior     *)
(* [given by the user] produces the same object as constructing it directly" are statements about the CURRENT       *)
(* settings of a fitted parameter, whatever happened to the optimizer before: an optimizer is set up, compiled,     *)
(* looked at, adjusted (another mode, other bounds, a prior after all) and compiled again -- fit() itself compiles   *)
(* anew --, and the settings arrive as text from an input file or as Python objects from a script.                  *)
(*                                                                                                                 *)
(* One parameter is under focus (declared linear or log, owned by the model or by the observation) in company of a  *)
(* second fitted parameter of the opposite declared mode that never gets a prior of its own.  The bounds of both    *)
(* are powers of ten (10^e, 10^f, either order), so that every bounds object is legal under either mode.  Edits:      *)
(*    SetMode(text, via)        set_mode(name, text) / "name:mode = text" in a [Fitting] section; text in any of   *)
(*                              the spellings of Priors.tla: ModeSpellings                                         *)
(*    SetBoundary(b, ct, via)   set_boundary(name, <container ct holding b>) / "name:bounds = .." (a list), or -- the   *)
(*                              other public route to the bounds (round 4) -- set_factor_boundary(name, (f, g)) /      *)
(*                              "name:factor = f, g": the bounds become f, g times the present value of the parameter  *)
(*                              (via = "factor" / "factor_file"; the harness chooses value and factors so that the      *)
(*                              products are the bounds b of the step)                                                 *)
(*    SetOther(b, ct)           the same for the companion                                                         *)
(*    SetPrior(c, via)          set_prior(name, object) / create_prior(text) / "name:prior = .."                    *)
(*    Again                     nothing is changed                                                                  *)
(* each followed by n compile_params() in a row (n may be 0: the next edit follows at once).  After every compile    *)
(* the prior in force of either parameter is a function of its current settings:                                    *)
(*    the user's prior when one was given, else Build(DefaultCall(mode named by the text, bounds)),                 *)
(* what update_model hands to the owner's setter is Deliver(that prior, .) and the bounds objects the caller handed  *)
(* over are as they were (they are read at every compile).                                                          *)
(*                                                                                                                 *)
(* Expected-counterexample variants (TLC must refute the named invariant):                                           *)
(*    Defaults = "cached_by_bounds"   default priors kept per (parameter, bounds) from compile to compile -- the     *)
(*                                    mode is not part of the key                      -> HistoryInv                 *)
(*    ModeText = "as_typed"           the mode is stored as typed and compared with "log" -> ModeSpellingInv           *)
(*    Args     = "lin_in_place"       linear-space bounds converted in the caller's container -> ArgsFrameInv          *)
EXTENDS Priors, IOUtils
CONSTANTS ENum, EShift,          \* exponents of the bounds of the parameters {e - EShift : e \in ENum}
          QNum, QShift, QDen, SNum, SDen,      \* arguments of the priors a user attaches
          UserIdx,               \* which of the five user calls (one per constructor form) are used
          Conts, OConts,         \* containers of the bounds objects of the focus / of the companion
          Spells,                \* positions (1 lower case, 2 capitalised, 3 upper case, 4 mixed) of the mode spellings used
          FocusOwners, CompOwners,
          MaxCompiles, Depth, Export, ModeWeight, AgainWeight,
          Defaults, ModeText, Args
VARIABLES owner, cown, decl, st, hist, trail
vars == <<owner, cown, decl, st, hist, trail>>

MCZ == ndJsonDeserialize(IOEnv.PRIORS_Z_FILE)[1].z
ES == {e - EShift : e \in ENum}
QS == {R(n - QShift, d) : n \in QNum, d \in QDen}
SS == {R(n, d) : n \in SNum, d \in SDen}
Pairs(S) == {<<x, y>> \in S \X S : x # y}
QLeast == CHOOSE x \in QS : \A y \in QS : RLe(x, y)
QMost  == CHOOSE x \in QS : \A y \in QS : RLe(y, x)
ELeast == CHOOSE x \in ES : \A y \in ES : x <= y
EMost  == CHOOSE x \in ES : \A y \in ES : y <= x
SLeast == CHOOSE x \in SS : \A y \in SS : RLe(x, y)
\* one user prior per constructor form (none of them a default of the bounds used here, except the third on purpose)
HistCalls == << [cls |-> "Uniform",     key1 |-> "bounds",     v1 |-> <<QMost, QLeast>>, key2 |-> "",    v2 |-> 0],
                [cls |-> "LogUniform",  key1 |-> "bounds",     v1 |-> <<QLeast, QMost>>, key2 |-> "",    v2 |-> 0],
                [cls |-> "LogUniform",  key1 |-> "lin_bounds", v1 |-> <<EMost, ELeast>>, key2 |-> "",    v2 |-> 0],
                [cls |-> "Gaussian",    key1 |-> "mean",       v1 |-> QMost,             key2 |-> "std", v2 |-> SLeast],
                [cls |-> "LogGaussian", key1 |-> "lin_mean",   v1 |-> ELeast,            key2 |-> "std", v2 |-> SLeast] >>
UserCalls == {HistCalls[i] : i \in UserIdx}
SpellSeq == [linear |-> <<"linear", "Linear", "LINEAR", "liNEar">>, log |-> <<"log", "Log", "LOG", "lOg">>]
ModeTexts == {SpellSeq[m][i] : m \in Modes, i \in Spells}
Opposite(m) == IF m = "log" THEN "linear" ELSE "log"

\* ---- the settings of the long-lived optimizer
\* mtext: the mode as the user typed it last ("": never, the declared mode holds); bounds / cont / depth: the bounds object
\* of the focus (exponents, container, state of the caller's object, Priors.tla: ArgAfter); ob, oct, odepth: the companion's;
\* user: the prior the user attached (NoPrior: none); compiled, pf, pc: the priors in force after the last compile;
\* cache: what the "cached_by_bounds" variant keeps from compile to compile
NotCompiled == [compiled |-> FALSE, pf |-> NoPrior, pc |-> NoPrior]
InitSt(b, ct, ob, oct) == [mtext |-> "", bounds |-> b, cont |-> ct, depth |-> 0, ob |-> ob, oct |-> oct, odepth |-> 0,
                           user |-> NoPrior, compiled |-> FALSE, pf |-> NoPrior, pc |-> NoPrior, cache |-> {}]
\* the mode the text NAMES, and the mode compile_params acts on
NamedMode(s) == IF s.mtext = "" THEN decl ELSE ModeLookup(s.mtext)
ActedMode(s) == IF s.mtext = "" THEN decl
                ELSE IF ModeText = "normalised" THEN ModeLookup(s.mtext)
                ELSE IF s.mtext = "log" THEN "log" ELSE "linear"           \* "as_typed": compared with "log" as it was typed
\* default call of a parameter whose bounds are 10^b[1], 10^b[2]
HDefaultCall(mode, b) == IF mode = "log" THEN DefaultCall("log", b) ELSE DefaultCall("linear", <<P10(b[1]), P10(b[2])>>)
BuiltDefault(mode, b, depth) == BuildAt(HDefaultCall(mode, b), depth)
CacheHit(s, who, b) == {x \in s.cache : x.who = who /\ x.b = b}
DefaultFor(s, who, mode, b, depth) ==
    IF Defaults = "cached_by_bounds" /\ CacheHit(s, who, b) # {} THEN (CHOOSE x \in CacheHit(s, who, b) : TRUE).p
    ELSE BuiltDefault(mode, b, depth)
Bump(d) == IF d >= 2 THEN 2 ELSE d + 1
Compile1(s) ==
    LET fm == ActedMode(s)
        cm == Opposite(decl)
        fdef == s.user = NoPrior
        pf == IF fdef THEN DefaultFor(s, "focus", fm, s.bounds, s.depth) ELSE s.user
        pc == DefaultFor(s, "company", cm, s.ob, s.odepth)
        builtf == fdef /\ ~(Defaults = "cached_by_bounds" /\ CacheHit(s, "focus", s.bounds) # {})
        builtc == ~(Defaults = "cached_by_bounds" /\ CacheHit(s, "company", s.ob) # {})
    IN  [s EXCEPT !.compiled = TRUE, !.pf = pf, !.pc = pc,
                  !.depth = IF builtf /\ ArgAfter(Args, HDefaultCall(fm, s.bounds), s.cont, 0) # 0 THEN Bump(@) ELSE @,
                  !.odepth = IF builtc /\ ArgAfter(Args, HDefaultCall(cm, s.ob), s.oct, 0) # 0 THEN Bump(@) ELSE @,
                  !.cache = IF Defaults = "cached_by_bounds"
                            THEN @ \cup (IF builtf THEN {[who |-> "focus", b |-> s.bounds, p |-> pf]} ELSE {})
                                   \cup (IF builtc THEN {[who |-> "company", b |-> s.ob, p |-> pc]} ELSE {})
                            ELSE @]
RECURSIVE CompileN(_, _)
CompileN(s, n) == IF n = 0 THEN s ELSE CompileN(Compile1(s), n - 1)
\* an edit makes what the last compile produced a thing of the past
Stale(s) == [s EXCEPT !.compiled = FALSE, !.pf = NoPrior, !.pc = NoPrior]

\* ---- what is observed after a compile: the prior in force and what the owners' setters receive on the grid
Recv(p, mode) == [k \in 1..(UN + 1) |-> IF (k - 1) \in Grid(p) THEN Deliver(p, mode, Sample(p, k - 1)) ELSE [sp |-> "none", x |-> Q(0)]]
Obs(s) == [focus   |-> [p |-> s.pf, space |-> SpaceOf(s.pf.kind), given |-> s.user # NoPrior, mode |-> NamedMode(s), recv |-> Recv(s.pf, NamedMode(s))],
           company |-> [p |-> s.pc, space |-> SpaceOf(s.pc.kind), given |-> FALSE, mode |-> Opposite(decl), recv |-> Recv(s.pc, Opposite(decl))]]
NoObs == [focus |-> [p |-> NoPrior], company |-> [p |-> NoPrior]]
\* hist: the edits with the number of compiles that followed; trail: the settings after each (what was observable then is
\* computed when the walk is exported)
Log(e, n) == IF Export THEN Append(hist, [op |-> e.op, text |-> e.text, via |-> e.via, b |-> e.b, ct |-> e.ct, call |-> e.call, n |-> n])
             ELSE hist
NoCall == [cls |-> "", key1 |-> "", v1 |-> 0, key2 |-> "", v2 |-> 0]
Edit(op, text, via, b, ct, call) == [op |-> op, text |-> text, via |-> via, b |-> b, ct |-> ct, call |-> call]
Do(e, s1, n) == /\ st' = CompileN(s1, n)
                /\ hist' = Log(e, n)
                /\ trail' = IF Export THEN Append(trail, CompileN(s1, n)) ELSE trail
                /\ UNCHANGED <<owner, cown, decl>>

\* the optimizer is made, both parameters are enabled and given their first bounds objects (the first two entries of hist)
Init == /\ owner \in FocusOwners /\ cown \in CompOwners /\ decl \in Modes
        /\ \E b \in Pairs(ES), ct \in Conts, ob \in Pairs(ES), oct \in OConts :
              /\ st = InitSt(b, ct, ob, oct)
              /\ hist = IF Export THEN << [op |-> "bounds", text |-> "", via |-> "call", b |-> b, ct |-> ct, call |-> NoCall, n |-> 0],
                                          [op |-> "other", text |-> "", via |-> "call", b |-> ob, ct |-> oct, call |-> NoCall, n |-> 0] >>
                        ELSE <<>>
              /\ trail = IF Export THEN <<InitSt(b, ct, ob, oct), InitSt(b, ct, ob, oct)>> ELSE <<>>
\* (rep is not used: the simulator draws uniformly from the instances of the actions, and the edits with few instances -- a
\* change of the mode alone, compiling again -- are the ones this module is about)
SetMode == \E text \in ModeTexts, via \in {"call", "file"}, n \in 0..MaxCompiles, rep \in 1..ModeWeight :
              /\ text # st.mtext
              /\ Do(Edit("mode", text, via, <<0, 0>>, "", NoCall), [Stale(st) EXCEPT !.mtext = text], n)
\* (the route is part of the exported walk only, not of the state: the exhaustive configs need one route per kind of bounds object)
BoundaryVias == IF Export THEN {"call", "file", "factor", "factor_file"} ELSE {"call", "factor"}
SetBoundary == \E b \in Pairs(ES), ct \in Conts, via \in BoundaryVias, n \in 0..MaxCompiles :
              /\ via = "file" => ct = "list"              \* the parser hands a list to set_boundary
              /\ via \in {"factor", "factor_file"} => ct = "tuple"       \* set_factor_boundary makes the bounds object itself (a tuple)
              /\ Do(Edit("bounds", "", via, b, ct, NoCall), [Stale(st) EXCEPT !.bounds = b, !.cont = ct, !.depth = 0], n)
SetOther == \E b \in Pairs(ES), ct \in OConts, n \in 0..MaxCompiles :
              /\ ct \in Containers
              /\ Do(Edit("other", "", "call", b, ct, NoCall), [Stale(st) EXCEPT !.ob = b, !.oct = ct, !.odepth = 0], n)
SetPrior == \E c \in UserCalls, via \in {"object", "text", "file"}, n \in 0..MaxCompiles :
              /\ Build(c) # st.user
              /\ Do(Edit("prior", "", via, <<0, 0>>, "", c), [Stale(st) EXCEPT !.user = Build(c)], n)
Again == \E n \in 1..MaxCompiles, rep \in 1..AgainWeight : /\ n > 0
                                    /\ Do(Edit("again", "", "call", <<0, 0>>, "", NoCall), st, n)
Next == SetMode \/ SetBoundary \/ SetOther \/ SetPrior \/ Again
Spec == Init /\ [][Next]_vars
Bound == Len(hist) <= Depth

\* ---- the clauses
ZOk == (~st.compiled /\ st.mtext = "" /\ st.user = NoPrior) => ZAssumption      \* constant-level: the start states are enough
\* the prior in force is a function of the current settings (and a user prior is the prior in force)
ExpectedFocus(s) == IF s.user # NoPrior THEN s.user ELSE Build(HDefaultCall(NamedMode(s), s.bounds))
ExpectedComp(s) == Build(HDefaultCall(Opposite(decl), s.ob))
HistoryInv == st.compiled => st.pf = ExpectedFocus(st) /\ st.pc = ExpectedComp(st)
\* a default prior lives in the space the mode text names, in any spelling
ModeSpellingInv == (st.compiled /\ st.user = NoPrior) => SpaceOf(st.pf.kind) = NamedMode(st)
\* the bounds objects are read, never written
ArgsFrameInv == st.depth = 0 /\ st.odepth = 0
\* compiling again changes nothing
RecompileInv == st.compiled => (Compile1(st).pf = st.pf /\ Compile1(st).pc = st.pc)
\* the support of a default prior is the bounds (log10 of them for a log-mode parameter), whatever their order
DefaultSupportInv == (st.compiled /\ st.user = NoPrior /\ st.pf.kind \in UniKinds) =>
    LET lo == IF st.bounds[1] < st.bounds[2] THEN st.bounds[1] ELSE st.bounds[2]
        hi == IF st.bounds[1] < st.bounds[2] THEN st.bounds[2] ELSE st.bounds[1]
    IN  IF NamedMode(st) = "log" THEN st.pf.a = Q(lo) /\ st.pf.b = Q(hi) ELSE st.pf.a = P10(lo) /\ st.pf.b = P10(hi)
SpellingsInv == \A t \in ModeTexts : ModeLookup(t) \in Modes /\ \A m \in Modes : \A i \in Spells : SpellSeq[m][i] \in ModeSpellings[m]
FitsInv == st.compiled => \A p \in {st.pf, st.pc} : p.kind \in UniKinds => \A k \in Grid(p) : Fits(Sample(p, k))

Emit == (Export /\ Len(hist) = Depth) =>
    PrintT(<<"HIST", ToJson([owner |-> owner, cown |-> cown, decl |-> decl, un |-> UN,
                             modes |-> [m \in Modes |-> {SpellSeq[m][i] : i \in Spells}], conts |-> Conts,
                             walk |-> [i \in 1..Len(hist) |->
                                         [e |-> hist[i], obs |-> IF hist[i].n = 0 THEN NoObs ELSE Obs(trail[i]),
                                          settings |-> [mode |-> NamedMode(trail[i]), bounds |-> trail[i].bounds, ob |-> trail[i].ob,
                                                        given |-> trail[i].user # NoPrior]]]])>>)
=============================================================================
