SPECIFICATION Spec
CONSTANTS
  Grids = {1, 2}
  MaxVer = 3
  MaxOps = 5
  Variant = "alt_before_chem"
INVARIANT GuardsHold
CHECK_DEADLOCK FALSE
