-------------------------- MODULE ParallelStatsOps --------------------------
(***************************************************************************)
(* C18 -- operators shared by the design-level model (ParallelStats), the  *)
(* export model (MC_ParallelStats) and the trace specification             *)
(* (Trace_ParallelStats).  Everything is exact rational arithmetic (Rat).  *)
(*                                                                         *)
(* Extended values.  Python has ONE object np.nan; `x is np.nan` is an     *)
(* identity test.  A NaN that has been pickled and unpickled (every value  *)
(* that passes through mpi4py's allgather/allreduce/bcast is) is a NaN     *)
(* *value* but no longer that object.  The model therefore distinguishes   *)
(*    NanObj   the in-process singleton np.nan                             *)
(*    NanVal   any other float NaN                                         *)
(*    Num(r)   the finite number r                                         *)
(* and Ser (the model of serialisation) maps NanObj to NanVal.             *)
(***************************************************************************)
EXTENDS Rat, FiniteSets, TLC

NanObj == <<"nanobj">>
NanVal == <<"nan">>
NoneV  == <<"none">>
ErrV   == <<"error">>          \* the code would raise (TypeError on None)
Num(r) == <<"num", r>>
IsNum(x)      == x[1] = "num"
IsNaNValue(x) == x[1] = "nan" \/ x[1] = "nanobj"
Ser(x)        == IF x = NanObj THEN NanVal ELSE x
SameX(a, b)   == (IsNaNValue(a) /\ IsNaNValue(b)) \/ a = b

\* NaN-propagating arithmetic (ext op ext, ext op rational)
XAdd(a, b)  == IF IsNum(a) /\ IsNum(b) THEN Num(RAdd(a[2], b[2])) ELSE NanVal
XSub(a, b)  == IF IsNum(a) /\ IsNum(b) THEN Num(RSub(a[2], b[2])) ELSE NanVal
XMul(a, b)  == IF IsNum(a) /\ IsNum(b) THEN Num(RMul(a[2], b[2])) ELSE NanVal
XMulR(a, c) == IF IsNum(a) THEN Num(RMul(a[2], c)) ELSE NanVal
XDivR(a, c) == IF IsNum(a) THEN Num(RDiv(a[2], c)) ELSE NanVal
RECURSIVE XSumSeq(_)
XSumSeq(s)  == IF s = <<>> THEN Num(RZero) ELSE XAdd(Head(s), XSumSeq(Tail(s)))

\* the two candidate NaN tests of combine_variance
TestNaN(test, x) == IF test = "identity" THEN x = NanObj     \* `var is np.nan`
                    ELSE IsNaNValue(x)                       \* a test on the value

(***************************************************************************)
(* Samples are sequences of records [v |-> rational, w |-> rational].      *)
(* Two-pass (textbook) weighted statistics: the reference of the property. *)
(***************************************************************************)
SumW(s)  == RSumSeq([i \in 1..Len(s) |-> s[i].w])
SumWV(s) == RSumSeq([i \in 1..Len(s) |-> RMul(s[i].w, s[i].v)])
WMean(s) == RDiv(SumWV(s), SumW(s))
TwoPassM2(s) == LET m == WMean(s)
                IN  RSumSeq([i \in 1..Len(s) |-> RMul(s[i].w, RMul(RSub(s[i].v, m), RSub(s[i].v, m)))])
TwoPassVar(s) == RDiv(TwoPassM2(s), SumW(s))
\* the same number as E[v^2] - E[v]^2 (small denominators; used by the trace specification, whose inputs
\* are larger; the design-level configs check DirectVar = TwoPassVar as a lemma)
SumWV2(s) == RSumSeq([i \in 1..Len(s) |-> RMul(s[i].w, RMul(s[i].v, s[i].v))])
DirectVar(s) == RSub(RDiv(SumWV2(s), SumW(s)), RMul(WMean(s), WMean(s)))
SubSamples(s, idx) == [k \in 1..Len(idx) |-> s[idx[k]]]    \* idx: sequence of sample indices
\* the same samples with every weight multiplied by c > 0 (another unit / no normalisation of the weights)
ScaleW(s, c) == [i \in 1..Len(s) |-> [v |-> s[i].v, w |-> RMul(c, s[i].w)]]
\* zero weights: the statistics are those of the samples with positive weight, and are defined
\* as soon as one weight is positive
Defined(s)   == SumW(s) # RZero
PosIdx(s)    == {i \in 1..Len(s) : s[i].w # RZero}
RECURSIVE PosSamples(_)
PosSamples(s) == IF s = <<>> THEN <<>>
                 ELSE IF Head(s).w = RZero THEN PosSamples(Tail(s)) ELSE <<Head(s)>> \o PosSamples(Tail(s))

(***************************************************************************)
(* OnlineVariance: streaming accumulator (count, wcount, mean, M2).        *)
(*                                                                         *)
(* Weights are NON-NEGATIVE and may be EXACTLY ZERO (nested-sampling       *)
(* weights that underflowed): a zero-weight sample is counted (`count`)    *)
(* but must leave no other mark.  The update computes                      *)
(*     W' = W + w,   mean' = mean + (w / W') (v - mean),                   *)
(*     M2' = M2 + w (v - mean)(v - mean')                                  *)
(* and w / W' is 0/0 when nothing has been weighed yet and w = 0.  That    *)
(* case is an explicit branch of the specification:                        *)
(*   guard = "guarded"    the 0/0 is intercepted: mean' = 0 * v, M2' = M2  *)
(*                        (python floats raise ZeroDivisionError, which    *)
(*                        update catches; sample_parameters shifts every   *)
(*                        weight by 1e-300 so that W' is never 0)          *)
(*   guard = "unguarded"  0/0 evaluates to NaN (numpy floats do not        *)
(*                        raise): mean and M2 are NaN from then on         *)
(*   guard = "tolerant"   the test "nothing weighed yet" is made with an   *)
(*                        ABSOLUTE threshold (W' < GuardEps, e.g.          *)
(*                        np.isclose(W', 0)): while the weight sum of a    *)
(*                        rank is below the threshold its mean is reset to *)
(*                        0 * v at every update and M2 collects            *)
(*                        w (v - mean)(v - 0).  Invisible for weights of   *)
(*                        ordinary size, wrong as soon as the weights are  *)
(*                        small as a whole (WScale in ParallelStats): the  *)
(*                        statistics must not depend on the unit of the    *)
(*                        weights.                                         *)
(* A NaN accumulator is the extended value NanVal; a finite one a rational.*)
(***************************************************************************)
Acc0 == [count |-> 0, wcount |-> RZero, mean |-> NoneV, M2 |-> NoneV]
GuardEps == R(1, 100)
UpdAccG(guard, a, v, w) ==
    LET wc   == RAdd(a.wcount, w)
        mold == IF a.mean = NoneV THEN RZero ELSE a.mean
        m2o  == IF a.mean = NoneV THEN RZero ELSE a.M2
    IN  IF a.mean = NanVal \/ (wc = RZero /\ guard = "unguarded")
        THEN [count |-> a.count + 1, wcount |-> wc, mean |-> NanVal, M2 |-> NanVal]
        ELSE IF guard = "tolerant" /\ RLt(wc, GuardEps)   \* absolute threshold on the weight sum
        THEN [count |-> a.count + 1, wcount |-> wc, mean |-> RZero,
              M2 |-> RAdd(m2o, RMul(w, RMul(RSub(v, mold), v)))]
        ELSE IF wc = RZero                                \* guarded 0/0: the sample leaves no mark
        THEN [count |-> a.count + 1, wcount |-> wc, mean |-> RZero, M2 |-> m2o]
        ELSE LET mnew == RAdd(mold, RMul(RDiv(w, wc), RSub(v, mold)))
             IN  [count |-> a.count + 1, wcount |-> wc, mean |-> mnew,
                  M2 |-> RAdd(m2o, RMul(w, RMul(RSub(v, mold), RSub(v, mnew))))]
UpdAcc(a, v, w) == UpdAccG("guarded", a, v, w)
RECURSIVE FoldAccG(_, _, _, _)
FoldAccG(guard, a, s, k) == IF k > Len(s) THEN a ELSE FoldAccG(guard, UpdAccG(guard, a, s[k].v, s[k].w), s, k + 1)
FoldAcc(a, s, k) == FoldAccG("guarded", a, s, k)

\* what a rank hands to the gather: `variance` is the np.nan object when count < 2,
\* M2 / wcount otherwise (NaN when the rank weighed nothing: 0/0 on arrays does not raise);
\* the mean placeholder is the np.nan object when the rank never updated
AccVar(a)  == IF a.count < 2 THEN NanObj
              ELSE IF a.M2 = NanVal \/ a.wcount = RZero THEN NanVal
              ELSE Num(RDiv(a.M2, a.wcount))
AccMean(a) == IF a.mean = NoneV THEN NanObj ELSE IF a.mean = NanVal THEN NanVal ELSE Num(a.mean)
Contribution(a) == [var |-> AccVar(a), mean |-> AccMean(a), wcount |-> a.wcount, count |-> a.count]
SerC(c) == [var |-> Ser(c.var), mean |-> Ser(c.mean), wcount |-> c.wcount, count |-> c.count]

(***************************************************************************)
(* combine_variance over the gathered contributions g (sequence by rank),  *)
(* with the NaN test `test` applied to the per-rank variances.             *)
(***************************************************************************)
CombineOp(test, g) ==
    LET size == RSumSeq([q \in 1..Len(g) |-> g[q].wcount])
        \* first loop: skip cnt == 0; `avg is not None and not avg is np.nan` (identity, unchanged by the repair)
        used == {q \in 1..Len(g) : g[q].wcount # RZero /\ g[q].mean # NanObj}
        avgsum  == XSumSeq([q \in 1..Len(g) |-> IF q \in used THEN XMulR(g[q].mean, g[q].wcount) ELSE Num(RZero)])
        average == IF used = {} THEN ErrV ELSE XDivR(avgsum, size)
        SqTerm(q) == IF g[q].wcount = RZero THEN Num(RZero)
                     ELSE LET dev == XSub(average, g[q].mean)
                              a   == XMulR(XMul(dev, dev), g[q].wcount)
                          IN  IF TestNaN(test, g[q].var) THEN a
                              ELSE XAdd(a, XMulR(g[q].var, g[q].wcount))
        squares == XSumSeq([q \in 1..Len(g) |-> SqTerm(q)])
    IN  IF used = {} THEN [mean |-> ErrV, var |-> ErrV]
        ELSE [mean |-> average, var |-> XDivR(squares, size)]

RECURSIVE SumInt(_)
SumInt(s) == IF s = <<>> THEN 0 ELSE Head(s) + SumInt(Tail(s))
\* parallelVariance: fewer than two samples in total -> np.nan (no mean is produced)
ParVar(test, g) == IF SumInt([q \in 1..Len(g) |-> g[q].count]) < 2
                   THEN [mean |-> NoneV, var |-> NanObj]
                   ELSE CombineOp(test, g)

\* the single-process run: no communicator, gather is the identity, as-built code
SerialResG(guard, s) == ParVar("identity", <<Contribution(FoldAccG(guard, Acc0, s, 1))>>)
SerialRes(s) == SerialResG("guarded", s)

(***************************************************************************)
(* Partition of the sample list.  Python `lst[r0::stride]` over 0-based    *)
(* positions; sample ids here are 1-based.                                 *)
(***************************************************************************)
Slice(r0, stride, n) == [k \in 1..((n - r0 + stride - 1) \div stride) |-> r0 + 1 + (k - 1) * stride]
RECURSIVE ConcatUpTo(_, _)
ConcatUpTo(f, k) == IF k = 0 THEN <<>> ELSE ConcatUpTo(f, k - 1) \o f[k]
\* how often sample i occurs in the per-rank lists, each truncated to upto[r] entries
Occurrences(lists, upto, i) ==
    Cardinality({rk \in UNION {{<<r, k>> : k \in 1..upto[r]} : r \in DOMAIN lists} : lists[rk[1]][rk[2]] = i})

(***************************************************************************)
(* Derived-parameter traces: per-rank lists are concatenated in rank order *)
(* (allreduce SUM on Python lists) and then put back into sample order.    *)
(***************************************************************************)
IsArgSort(p, w) == \A k \in 1..(Len(w) - 1) : RLe(w[p[k]], w[p[k + 1]])
ArgSorts(w) == {p \in Permutations(1..Len(w)) : IsArgSort(p, w)}
\* as built:  out[p[k]] = c[q[k]]   (p: argsort of the original weights, q: argsort of the concatenated ones)
PlaceBy(p, q, c) == [j \in 1..Len(c) |-> c[q[CHOOSE k \in 1..Len(c) : p[k] = j]]]
\* repaired: position k of the concatenation holds sample order[k]
PlaceByLayout(order, c) == [j \in 1..Len(c) |-> c[CHOOSE k \in 1..Len(c) : order[k] = j]]
PairBagEq(t1, w1, t2, w2) ==
    /\ Len(t1) = Len(t2)
    /\ \A i \in 1..Len(t1) :
          Cardinality({j \in 1..Len(t1) : t1[j] = t1[i] /\ w1[j] = w1[i]}) =
          Cardinality({j \in 1..Len(t2) : t2[j] = t1[i] /\ w2[j] = w1[i]})
WMeanSeq(t, w) == RDiv(RSumSeq([i \in 1..Len(t) |-> RMul(t[i], w[i])]), RSumSeq(w))
=============================================================================
