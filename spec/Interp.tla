------------------------------ MODULE Interp ------------------------------
(***************************************************************************)
(* C04 -- opacity interpolation in temperature and log10-pressure.         *)
(*                                                                         *)
(* Structure follows InterpolatingOpacity.compute_opacity:                 *)
(*   find_closest_index  -> Bracket (searchsorted-left, clamped to [2,n])  *)
(*   interp_bilinear_grid-> Region dispatch, one-variable / bilinear forms *)
(* The table is tab[p][t] (pressure index first, as xsecGrid[P,T,wn]).     *)
(* Node coordinates are strictly increasing integer sequences TN (K) and   *)
(* PN (log10 Pa).  In "exp" mode the temperature interpolation is the      *)
(* weighted geometric mean a^(1-w) b^w, w = Tmax(T-Tmin)/(T(Tmax-Tmin));    *)
(* a, b, w are rational and the result is carried as the triple <<a,b,w>>. *)
(***************************************************************************)
EXTENDS Integers, Sequences, FiniteSets, TLC, Json, Rat

\* ---------------------------------------------------------------- brackets
\* first (1-based) index whose node is >= x, n+1 if none   [np.searchsorted(.., 'left')]
SearchLeft(nodes, x) ==
    LET n == Len(nodes)
        cand == {i \in 1..n : nodes[i] >= x}
    IN  IF cand = {} THEN n + 1 ELSE CHOOSE i \in cand : \A j \in cand : i <= j

\* find_closest_pair: right clamped to [2, n] (0-based [1, n-1]); left = right - 1
RightIdx(nodes, x) == LET r == SearchLeft(nodes, x)
                          n == Len(nodes)
                      IN  IF r < 2 THEN 2 ELSE IF r > n THEN n ELSE r
LeftIdx(nodes, x)  == RightIdx(nodes, x) - 1

NFirst(nodes) == nodes[1]
NLast(nodes)  == nodes[Len(nodes)]
ClampTo(nodes, x) == IF x < NFirst(nodes) THEN NFirst(nodes)
                     ELSE IF x > NLast(nodes) THEN NLast(nodes) ELSE x
\* bracketing node indices of the query (nearest edge node when outside)
Br(nodes, x) == LET c == ClampTo(nodes, x)
                    l == LeftIdx(nodes, c)
                    r == RightIdx(nodes, c)
                IN  IF c = nodes[r] THEN {r} ELSE IF c = nodes[l] THEN {l} ELSE {l, r}

\* ----------------------------------------------------------------- regions
\* The dispatch is EXACT: a query one lattice unit (however fine the lattice: the coordinates may be scaled,
\* see MC_InterpEdge.tla) below the first node is below the grid, one unit below the last node is inside the
\* last cell.  RegionT is the dispatch with comparison tolerances tx, ty; the specification is RegionT with
\* zero tolerances.  A positive tolerance is NOT a refinement: MC_InterpEdge's expected-counterexample config
\* shows that it extrapolates (BracketBounded fails a hair outside an edge).
RegionT(TN, PN, x, y, tx, ty) ==
    LET pmax == y >= NLast(PN) - ty
        tmax == x >= NLast(TN) - tx
        pmin == y < NFirst(PN) - ty
        tmin == x < NFirst(TN) - tx
    IN  IF pmax /\ tmax THEN "last"
        ELSE IF pmin /\ tmin THEN "zero"
        ELSE IF pmax /\ tmin THEN "corner_pmax_tmin"
        ELSE IF tmax /\ pmin THEN "corner_tmax_pmin"
        ELSE IF pmax THEN "tonly_lastp"
        ELSE IF tmax THEN "ponly_lastt"
        ELSE IF pmin THEN "tonly_firstp"
        ELSE IF tmin THEN "ponly_firstt"
        ELSE "interior"
Region(TN, PN, x, y) == RegionT(TN, PN, x, y, 0, 0)

Inside(TN, PN, x, y) == x >= NFirst(TN) /\ x <= NLast(TN) /\ y >= NFirst(PN) /\ y <= NLast(PN)

\* ------------------------------------------------------------- linear mode
\* (the region is a parameter so that the tolerant dispatch can be evaluated as an expected counterexample;
\*  pfirst chooses the order of the two one-dimensional interpolations inside a cell: the bilinear form does not
\*  depend on it -- invariant BilinearOrderIrrelevant of MC_Interp -- but the intermediate fractions do, and the
\*  fine-lattice configs of MC_InterpEdge interpolate first in the variable that is on the coarse lattice)
ExpectedLinRO(TN, PN, tab, x, y, reg, pfirst) ==
    LET nt == Len(TN)  np == Len(PN)
        tl == LeftIdx(TN, x)  tr == RightIdx(TN, x)
        pl == LeftIdx(PN, y)  pr == RightIdx(PN, y)
        V(p, t) == Q(tab[p][t])
    IN  CASE reg = "last"             -> V(np, nt)
          [] reg = "zero"             -> Q(0)
          [] reg = "corner_pmax_tmin" -> V(np, 1)
          [] reg = "corner_tmax_pmin" -> V(1, nt)
          [] reg = "tonly_lastp"      -> RLin(V(np, tl), V(np, tr), x, TN[tl], TN[tr])
          [] reg = "ponly_lastt"      -> RLin(V(pl, nt), V(pr, nt), y, PN[pl], PN[pr])
          [] reg = "tonly_firstp"     -> RLin(V(1, tl), V(1, tr), x, TN[tl], TN[tr])
          [] reg = "ponly_firstt"     -> RLin(V(pl, 1), V(pr, 1), y, PN[pl], PN[pr])
          [] OTHER -> IF pfirst
                      THEN RLin(RLin(V(pl, tl), V(pr, tl), y, PN[pl], PN[pr]),
                                RLin(V(pl, tr), V(pr, tr), y, PN[pl], PN[pr]), x, TN[tl], TN[tr])
                      ELSE RLin(RLin(V(pl, tl), V(pl, tr), x, TN[tl], TN[tr]),
                                RLin(V(pr, tl), V(pr, tr), x, TN[tl], TN[tr]), y, PN[pl], PN[pr])
ExpectedLinR(TN, PN, tab, x, y, reg) == ExpectedLinRO(TN, PN, tab, x, y, reg, FALSE)

ExpectedLin(TN, PN, tab, x, y) == ExpectedLinR(TN, PN, tab, x, y, Region(TN, PN, x, y))

\* ---------------------------------------------------------------- exp mode
\* weight of the upper temperature node in the geometric mean
\* = Tmax (T - Tmin) / (T (Tmax - Tmin)), multiplied with cross-reduction so that temperatures on a fine
\* lattice (milli-kelvin coordinates) do not overflow TLC's 32-bit integers before the fraction is reduced
RMulX(a, b) == RMul(Norm(a[1], b[2]), Norm(b[1], a[2]))
ExpW(T, Tmin, Tmax) == RMulX(Norm(Tmax, Tmax - Tmin), Norm(T - Tmin, T))
ExpectedExpR(TN, PN, tab, x, y, reg) ==
    LET nt == Len(TN)  np == Len(PN)
        tl == LeftIdx(TN, x)  tr == RightIdx(TN, x)
        pl == LeftIdx(PN, y)  pr == RightIdx(PN, y)
        V(p, t) == Q(tab[p][t])
        w  == ExpW(x, TN[tl], TN[tr])
        Same(v) == <<v, v, Q(0)>>
    IN  CASE reg = "last"             -> Same(V(np, nt))
          [] reg = "zero"             -> Same(Q(0))
          [] reg = "corner_pmax_tmin" -> Same(V(np, 1))
          [] reg = "corner_tmax_pmin" -> Same(V(1, nt))
          [] reg = "tonly_lastp"      -> <<V(np, tl), V(np, tr), w>>
          [] reg = "ponly_lastt"      -> Same(RLin(V(pl, nt), V(pr, nt), y, PN[pl], PN[pr]))
          [] reg = "tonly_firstp"     -> <<V(1, tl), V(1, tr), w>>
          [] reg = "ponly_firstt"     -> Same(RLin(V(pl, 1), V(pr, 1), y, PN[pl], PN[pr]))
          [] OTHER -> <<RLin(V(pl, tl), V(pr, tl), y, PN[pl], PN[pr]),
                        RLin(V(pl, tr), V(pr, tr), y, PN[pl], PN[pr]), w>>

ExpectedExp(TN, PN, tab, x, y) == ExpectedExpR(TN, PN, tab, x, y, Region(TN, PN, x, y))

\* ---------------------------------------------------- hull of bracketing nodes
HullVals(TN, PN, tab, x, y) == {tab[p][t] : p \in Br(PN, y), t \in Br(TN, x)}
SetMin(S) == CHOOSE v \in S : \A u \in S : v <= u
SetMax(S) == CHOOSE v \in S : \A u \in S : v >= u
HullLo(TN, PN, tab, x, y) == SetMin(HullVals(TN, PN, tab, x, y))
HullHi(TN, PN, tab, x, y) == SetMax(HullVals(TN, PN, tab, x, y))

InHull(TN, PN, tab, x, y, v) ==
    /\ RLe(Q(HullLo(TN, PN, tab, x, y)), v)
    /\ RLe(v, Q(HullHi(TN, PN, tab, x, y)))
=============================================================================
