SPECIFICATION Spec
CONSTANTS
  Starts = {0}
  Gaps = {1,2,3}
  PMax = 8
  MaxLen = 4
  ObsPos = {7,8,13,14,15,20,21,26}
  ObsCard = {2,3,4}
  ObsW2 = {}
  Cond = "literal"
  Export = FALSE
INVARIANT BinningCommutes
CONSTRAINT Prune
CONSTRAINT Emit
CHECK_DEADLOCK FALSE
