SPECIFICATION Spec
CONSTANTS
  Collapse1 = FALSE
  ScalarTier = "some"
INVARIANT ListStaysList
INVARIANT ScalarStaysScalar
INVARIANT ElementsTyped
INVARIANT ScalarsTyped
INVARIANT DocumentedTypeHolds
INVARIANT ValFits
CONSTRAINT Emit
CHECK_DEADLOCK FALSE
