---------------------------- MODULE Trace_Interp ----------------------------
(* C04, binding B: every event is one real call Opacity.opacity(T, P) on a     *)
(* random integer table; TLC re-evaluates the Interp operators on the logged   *)
(* inputs and requires the logged (scaled) result to satisfy the property.     *)
(* Stateless stream: the step always advances, rejected events are printed as  *)
(* <<"BAD", ..>> so that one run gives a verdict for every event.              *)
EXTENDS Interp, IOUtils, TLCExt
VARIABLE l
TraceLog == ndJsonDeserialize(IOEnv.TRACE_FILE)

\* e = [tn, pn, tab, x, y, S, m, mode, tol];  m = round(value * S)
Ok(e) ==
    LET reg == Region(e.tn, e.pn, e.x, e.y)
        lo  == HullLo(e.tn, e.pn, e.tab, e.x, e.y)
        hi  == HullHi(e.tn, e.pn, e.tab, e.x, e.y)
    IN  /\ e.m >= 0                                             \* NonNegative (exact: 0 scales to 0)
        /\ IF reg = "zero" THEN e.m = 0 \/ (e.m >= lo * e.S - e.tol /\ e.m <= hi * e.S + e.tol)
           ELSE /\ e.m >= lo * e.S - e.tol                      \* BracketBounded
                /\ e.m <= hi * e.S + e.tol
        /\ (Inside(e.tn, e.pn, e.x, e.y) /\ e.mode = "linear") =>
               Close(e.m, e.S, ExpectedLin(e.tn, e.pn, e.tab, e.x, e.y), e.tol)
        /\ (Inside(e.tn, e.pn, e.x, e.y) /\ e.mode = "exp") =>
               LET t == ExpectedExp(e.tn, e.pn, e.tab, e.x, e.y)
                   a == RMin(t[1], t[2])  b == RMax(t[1], t[2])
               IN  /\ RLe(Q(0), t[3]) /\ RLe(t[3], Q(1))
                   /\ e.m * a[2] >= a[1] * e.S - e.tol * a[2]
                   /\ e.m * b[2] <= b[1] * e.S + e.tol * b[2]
Init == l = 1
Step == /\ l <= Len(TraceLog)
        /\ LET e == TraceLog[l] IN
             IF Ok(e) THEN TRUE
             ELSE PrintT(<<"BAD", ToJson([l |-> l, id |-> e.id, reg |-> Region(e.tn, e.pn, e.x, e.y)])>>)
        /\ l' = l + 1
Spec == Init /\ [][Step]_l
Accepted == TLCGet("stats").diameter - 1 = Len(TraceLog)
=============================================================================
