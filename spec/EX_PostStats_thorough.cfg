SPECIFICATION Spec
CONSTANTS
  NRs = {1,2,3,4,5,6}
  Ns = {1,2,3,4,5,6,7,9,12}
  SmpMode = "generic"
  Vals = {0}
  Wts = {1}
  WDen = 4
  Gens = {1,2,3}
  SampleSpace <- MCSampleSpace
  Required = {"temp","active","inactive","native","binned"}
  Optional = {"cond"}
  LocalQs = {}
  Ordered = TRUE
  Export = TRUE
INVARIANT ReportsEveryStatistic
INVARIANT EveryStatisticIsCombined
INVARIANT SameOnEveryRank
INVARIANT AffineLemma
INVARIANT FitsInv
CONSTRAINT Emit
CHECK_DEADLOCK FALSE
