SPECIFICATION Spec
CONSTANTS
  WLS = {4,6,9,12}
  NMin = 3
  NMax = 3
  NCols = {4}
  NMax3 = 4
  Wids = {1,5}
  H = 120
  U = 0
  AlgVariant = "ok"
  Cuts = {"low", "high", "both", "gap"}
  Export = TRUE
INVARIANT ModelBetween
INVARIANT FitsInv
CONSTRAINT Emit
CHECK_DEADLOCK FALSE
