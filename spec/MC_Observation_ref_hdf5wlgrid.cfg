SPECIFICATION Spec
CONSTANTS
  WLS = {4,5,8}
  NMin = 2
  NMax = 3
  NCol = 4
  Vals = {1,2}
  RowMode = "all"
  Variant = "hdf5wlgrid"
  Export = FALSE
INVARIANT RoutesAgree
CONSTRAINT Emit
CHECK_DEADLOCK FALSE
