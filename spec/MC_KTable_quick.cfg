SPECIFICATION KSpec
CONSTANTS
  NL = 2
  NW = 2
  NT = 3
  NG = 2
  KCodes = {0, 1030000, 3000100, 1010303, 15150101, 15151515, 15000015}
  WIds = {2, 3, 4}
  LMode = "mixed"
  ECodes = {0, 1500}
  TCodes = {11,12,31}
  QuadIds = {2}
  ClampE = 15
  SlackE = 14
  Variant = "code"
  Btab <- MCBtab
  Bstar <- MCBstar
  TabId = 1
  Rp = 2
  Rs = 5
  Dist = 3
  KD = 2
  Export = FALSE
INVARIANT DegenerateEqualsXsec
INVARIANT TransmittanceInUnitInterval
INVARIANT BetweenExtremes
INVARIANT JensenLowerBound
INVARIANT KTelescoping
INVARIANT KHotColdBounds
INVARIANT KFitsInv
CONSTRAINT KEmitVec
CHECK_DEADLOCK FALSE
