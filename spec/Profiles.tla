------------------------------ MODULE Profiles ------------------------------
(***************************************************************************)
(* Shared per-layer profile mechanisms of C10 (abundance profiles) and C12 *)
(* (temperature profiles), over exact rationals (Rat).                     *)
(*                                                                         *)
(* Coordinates: layer l = 1..n, l = 1 is the surface (highest pressure).   *)
(* Log-pressure is an INTEGER sequence LP[1..n], strictly decreasing; the  *)
(* harness owns the unit (one decade for the exhaustive configs, 1/(n-1)   *)
(* of the decade span for logspace grids of any layer count).              *)
(*                                                                         *)
(*  Pwl      np.interp: piecewise linear through nodes, clamped at the ends *)
(*  MovAvg   taurex.util.movingaverage ("valid" moving average)            *)
(*  WSize    window length from the smoothing percentage                   *)
(*  Smooth   replace the interior by the moving average, keep the borders  *)
(*  ArrayLin array profile: linear in the layer fraction (l-1)/(n-1)       *)
(*                                                                         *)
(* Rule = "spec" is what the properties require (always one value per      *)
(* layer).  "twolayer_asbuilt" / "npoint_asbuilt" transcribe the window    *)
(* arithmetic of the unchanged tree; they exist only so that TLC can       *)
(* exhibit the defects L-C10b / L-C12c at design level (expected           *)
(* counterexamples), the conformance checks always use "spec".             *)
(***************************************************************************)
EXTENDS Integers, Sequences, FiniteSets, TLC, Rat

Fail == <<>>       \* the as-built code raises: no profile

\* ------------------------------------------------------------------ np.interp
\* nodes xs[1..m] strictly DEcreasing integers (surface .. top), values fs[1..m] rationals
Pwl(x, xs, fs) ==
    LET m == Len(xs)
    IN  IF x >= xs[1] THEN fs[1]
        ELSE IF x <= xs[m] THEN fs[m]
        ELSE LET i == CHOOSE i \in 1..(m - 1) : xs[i] > x /\ x >= xs[i + 1]
             IN  RLin(fs[i + 1], fs[i], x, xs[i + 1], xs[i])

\* ------------------------------------------------------------- moving average
\* balanced recursion (depth log2 of the window) keeps TLC's evaluation stack shallow for windows of ~100 layers
RECURSIVE RSumRange(_, _, _)
RSumRange(s, a, b) == IF a > b THEN RZero
                      ELSE IF a = b THEN s[a]
                      ELSE LET m == (a + b) \div 2 IN RAdd(RSumRange(s, a, m), RSumRange(s, m + 1, b))

\* valid-mode moving average of window w >= 1: length max(n - w + 1, 0)
MovAvg(s, w) ==
    LET n == Len(s)
    IN  IF w > n THEN <<>>
        ELSE [j \in 1..(n - w + 1) |-> RDiv(RSumRange(s, j, j + w - 1), Q(w))]

\* window length (number of layers) for a smoothing percentage sw >= 0 (integer)
WSize(n, sw, rule) ==
    IF rule = "twolayer_asbuilt"
    THEN \* wsize = n*sw/100.0 ; if wsize % 2 == 0: wsize += 1 ; int(wsize)
         LET num == n * sw
             isint == (num % 100) = 0
             fl == num \div 100
         IN  IF isint /\ (fl % 2) = 0 THEN fl + 1 ELSE fl
    ELSE LET w0 == (n * sw) \div 100
         IN  IF (w0 % 2) = 0 THEN w0 + 1 ELSE w0

\* borders keep the unsmoothed value, the interior takes the moving average
Smooth(s, w, rule) ==
    LET n  == Len(s)
        sm == IF w >= 1 THEN MovAvg(s, w) ELSE <<>>
        k  == Len(sm)
        border == (n - k) \div 2
        merged == [l \in 1..n |-> IF l > border /\ l <= n - border /\ (l - border) <= k
                                  THEN sm[l - border] ELSE s[l]]
    IN  IF rule = "spec"
        THEN IF k = n THEN sm ELSE IF k = 0 THEN s ELSE merged
        ELSE IF rule = "twolayer_asbuilt"
        THEN \* x[border:-border] = smooth  (border = 0 gives an empty slice)
             IF w = 0 THEN Fail
             ELSE LET slice == IF border = 0 THEN 0 ELSE n - 2 * border
                  IN  IF slice # k THEN Fail ELSE merged
        ELSE \* npoint_asbuilt: same-length shortcut, otherwise the slice assignment
             IF k = n THEN sm
             ELSE LET slice == IF border = 0 THEN 0 ELSE n - 2 * border
                  IN  IF slice # k THEN Fail ELSE merged

\* ---------------------------------------------------------------- array profile
\* np.interp(linspace(0,1,n), linspace(0,1,m), arr), layer l at fraction (l-1)/(n-1)
ArrayLin(arr, n) ==
    LET m == Len(arr)
    IN  [l \in 1..n |->
            IF m = 1 \/ n = 1 THEN arr[1]
            ELSE LET num == (l - 1) * (m - 1)
                     den == n - 1
                     k   == num \div den
                 IN  IF k >= m - 1 THEN arr[m]
                     ELSE RLin(arr[k + 1], arr[k + 2], num, k * den, (k + 1) * den)]

\* ---------------------------------------------------------------------- clauses
SeqWithin(s, lo, hi) == \A l \in 1..Len(s) : RLe(lo, s[l]) /\ RLe(s[l], hi)
SeqConst(s, v) == \A l \in 1..Len(s) : REq(s[l], v)
SeqFits(s) == \A l \in 1..Len(s) : Fits(s[l])
=============================================================================
