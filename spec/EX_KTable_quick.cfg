SPECIFICATION KSpec
CONSTANTS
  NL = 3
  NW = 2
  NT = 3
  NG = 2
  KCodes = {0, 1030002, 15150101, 2020505}
  WIds = {3, 4}
  LMode = "mixed"
  ECodes = {0, 100}
  TCodes = {132}
  QuadIds = {4}
  ClampE = 15
  SlackE = 14
  Variant = "code"
  Btab <- MCBtab
  Bstar <- MCBstar
  TabId = 1
  Rp = 2
  Rs = 5
  Dist = 3
  KD = 2
  Export = TRUE
INVARIANT DegenerateEqualsXsec
INVARIANT TransmittanceInUnitInterval
INVARIANT KFitsInv
CONSTRAINT KEmitVec
CHECK_DEADLOCK FALSE
