SPECIFICATION Spec
CONSTANTS
  TNodes = {300,302,305}
  PNodes = {1,3,4}
  XScale = 1048576
  FracX = {1,524288,1048575}
  GridTypes = {"i8","i4","i2","f4","f8"}
  Needle = "exact"
  Mode = "linear"
  Export = TRUE
INVARIANT CellBracketsRequest
INVARIANT CellIsInterpCell
INVARIANT NonNegative
INVARIANT BracketBounded
INVARIANT NeverExtrapolated
INVARIANT FitsInv
CONSTRAINT Emit
CHECK_DEADLOCK FALSE
