---------------------------- MODULE MC_GridLength ----------------------------
(* C13, round 4: the NUMBER of computed wavenumbers is a dimension of the quantifier.                              *)
(*                                                                                                                 *)
(* "The value of a model spectrum at a wavenumber does not depend on which other wavenumbers are computed" also    *)
(* forbids a dependence on HOW MANY are computed, and on where a point sits inside the computed grid.  A per-point *)
(* kernel (Planck function, exp, interpolation, ...) may exist in several implementations; a design that selects   *)
(* the implementation from the shape of the computed grid makes the value at native point i a function of the      *)
(* request.  Slips of this class (LKernel):                                                                        *)
(*   below(K)  another implementation when fewer than K points are computed   (a short-grid fast path)             *)
(*   from(K)   another implementation from K points on                        (a long-grid / parallel path)        *)
(*   only(K)   another implementation for exactly K points                    (a band of sizes, unrolled kernels)  *)
(*   tail(K)   the last (L mod K) computed points go through another one      (remainder loop of a K-wide kernel)  *)
(*   edge      the first and the last computed point are treated differently  (one-sided formulas at the ends)     *)
(* The documented design (pointwise) is length independent for every request; every slip with K <= KMax must be    *)
(* SEPARATED by the requests the bindings replay (SlipSeparated): that needs a native grid LONGER than every       *)
(* threshold of interest and clipped grids of EVERY length 1 .. N-1 (only(K)), at the low end, inside and at the   *)
(* high end of the native grid.  The 20-point native grids of the history alphabets separate no threshold above    *)
(* 20 (expected counterexample MC_GridLength_short_refuted.cfg).                                                   *)
(*                                                                                                                 *)
(* Requests (observation grids passed to model(wngrid=..)), on the uniform native grid LNat[i] = Step * i:          *)
(*   "pair"   two bin centres <<c, c+d>>, c from Starts, d in 1..DMax -- anywhere between native points; the clip  *)
(*            Grid!GClipIdx keeps the points in [c - d, c + 2d]                                                    *)
(*   "range"  the native points a .. a+k themselves, a from RStarts (the clip adds one point on each side)         *)
(* Requests whose clip is empty (refused) or the whole grid are left to GridHistory.tla.  A request with no native *)
(* point inside the observation's own range (ilo = 0) lives on the documented margin W alone, which the statement  *)
(* does not prescribe: the binding does not judge it when the implementation refuses it.                           *)
EXTENDS Grid
CONSTANTS N,        \* native points
          Step,     \* native spacing (integer coordinates)
          Starts,   \* first centres of the "pair" requests
          RStarts,  \* first native index of the "range" requests
          DMax,     \* largest distance of the two centres
          KMax,     \* thresholds / kernel widths of the slips: 2..KMax
          Mode,     \* "requests": every request under the documented design; "slips": every slip against the cover
          Export
VARIABLES phase, des, req
vars == <<phase, des, req>>

LNat == [i \in 1..N |-> Step * i]
\* a second molecule on a coarser grid that is not a subset and reaches beyond the native range (fixture only)
LMol == [j \in 1..(((N * Step) \div 11) + 2) |-> (11 * j) - 9]

PairReqs  == {<<"pair", <<c, c + d>>>> : c \in Starts, d \in 1..DMax}
RangeReqs == {<<"range", SubSeq(LNat, p[1], p[1] + p[2])>> : p \in {q \in RStarts \X (1..(N - 1)) : q[1] + q[2] <= N}}
ClipOf(r) == GClipIdx(LNat, r[2])
\* a clip is a range of native points (ClipIsRange): <<first, last>> index, <<0, 0>> when empty
RangeOf(I) == IF I = {} THEN <<0, 0>> ELSE <<CHOOSE i \in I : (i - 1) \notin I, CHOOSE i \in I : (i + 1) \notin I>>
Requests  == {r \in PairReqs \cup RangeReqs : ClipOf(r) # {} /\ ClipOf(r) # 1..N}
\* the computed grids the bindings replay
Cover == {RangeOf(ClipOf(r)) : r \in Requests}

\* ---- designs: which implementation of a per-point kernel serves native point i when the points a..b are computed
Slips == ({"below", "from", "only", "tail"} \X (2..KMax)) \cup {<<"edge", 1>>}
LKernel(d, i, a, b) ==
    LET L == b - a + 1
        K == d[2]
    IN  CASE d[1] = "pointwise" -> "std"
          [] d[1] = "below" -> IF L < K THEN "alt" ELSE "std"
          [] d[1] = "from"  -> IF L >= K THEN "alt" ELSE "std"
          [] d[1] = "only"  -> IF L = K THEN "alt" ELSE "std"
          [] d[1] = "tail"  -> IF i > b - (L % K) THEN "alt" ELSE "std"
          [] d[1] = "edge"  -> IF i = a \/ i = b THEN "alt" ELSE "std"
\* the value at native point i as computed within the grid C = <<first, last>> (a contiguous range of native points)
LVal(d, i, C) == <<i, LKernel(d, i, C[1], C[2])>>
LDiffers(d, C) == \E i \in C[1]..C[2] : LVal(d, i, C) # LVal(d, i, <<1, N>>)

Init == /\ phase = "in"
        /\ \/ Mode = "requests" /\ des = <<"pointwise", 0>> /\ req \in Requests
           \/ Mode = "slips" /\ des \in Slips /\ req = <<"none", <<>>>>
Eval == phase = "in" /\ phase' = "done" /\ UNCHANGED <<des, req>>
Spec == Init /\ [][Eval]_vars
Done == phase = "done"
S == ClipOf(req)

\* ---- Mode = "requests": the property's clause for the documented design, and what a clip is
LengthIndependent == (Done /\ Mode = "requests") => ~LDiffers(des, RangeOf(S))
ClipIsRange == (Done /\ Mode = "requests") => S = RangeOf(S)[1]..RangeOf(S)[2]
\* native points inside the observation's own range (the least every restricted evaluation must compute)
Inner == {i \in 1..N : LNat[i] >= GFirst(req[2]) /\ LNat[i] <= GLast(req[2])}
ClipCoversInner == (Done /\ Mode = "requests") => Inner \subseteq S
\* ---- Mode = "slips": every slip is told apart from the documented design by a replayed request ...
SlipSeparated == (Done /\ Mode = "slips") => \E C \in Cover : LDiffers(des, C)
\* ... (non-vacuity, must be refuted) and is really not length independent
SlipIndependent == (Done /\ Mode = "slips") => \A C \in Cover : ~LDiffers(des, C)

\* ---- export (binding A): the requests with the clip TLC computes for them
Emit == /\ (Export /\ Done /\ Mode = "requests") =>
             PrintT(<<"REQ", ToJson([fam |-> req[1], oc |-> req[2], lo |-> RangeOf(S)[1], hi |-> RangeOf(S)[2],
                                     len |-> Cardinality(S),
                                     ilo |-> RangeOf(Inner)[1],
                                     ihi |-> RangeOf(Inner)[2]])>>)
        /\ (Export /\ ~Done /\ Mode = "slips" /\ des = <<"edge", 1>>) =>
             PrintT(<<"ALPHA", ToJson([nat |-> LNat, mol |-> LMol, kmax |-> KMax,
                                       lengths |-> {C[2] - C[1] + 1 : C \in Cover}])>>)
=============================================================================
