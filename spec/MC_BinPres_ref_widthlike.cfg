SPECIFICATION Spec
CONSTANTS
  U = 4
  NES = {2,3,5,6,7,9,10}
  NESb = {2,5,6,10}
  KMin = 2
  KMax = 2
  TES = {1,3,5,7,11}
  NTgtMin = 1
  NTgtMax = 2
  Variant = "widthlike"
  Export = FALSE
INVARIANT PresRefinesDef
CONSTRAINT EmitP
CHECK_DEADLOCK FALSE
