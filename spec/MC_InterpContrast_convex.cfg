SPECIFICATION Spec
CONSTANTS
  TNS = {200,300,700,800}
  PNS = {3,6,7}
  Mode = "linear"
  QX = {100,200,250,300,500,700,750,800,900}
  QYS = {4,5,6,7,8,9,10,11}
  YShift = 2
  NLev = 3
  UpperT = "closed"
  Kernel = "convex"
  Export = FALSE
INVARIANT NodeExactG
INVARIANT NonNegativeG
INVARIANT ZeroBelowBothMinimaG
CHECK_DEADLOCK FALSE
