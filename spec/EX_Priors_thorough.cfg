SPECIFICATION Spec
CONSTANTS
  UN = 16
  Ordering = "minmax"
  ZS = 100
  Z <- MCZ
  TK = {5,6,8,10,12,16,20,25,30,34,40,47,50,52,53,54,55,60,64,80,100,200,350,500,1000,1010,1022,1023,1050,1074}
  HiMax = 53
  ZTS = 100
  TD = {2,3,4,5,6,7,8,9,10,11,12,13,14,15,16,17,18,20,30,50,100,200,300,307}
  HiDecMax = 12
  ZTCode = {10000,20067,30115,40153,50186,60215,80266,100310,120349,160417,200476,250542,300601,340644,400705,470769,500796,520813,530821,540829,550837,600877,640908,801022,1001148,2001643,3502184,5002617,10003711,10103730,10223752,10233754,10503803,10743847}
  ZDCode = {20233,30309,40372,50426,60475,70520,80561,90600,100636,110671,120703,130735,140765,150794,160822,170849,180876,200926,301146,501493,1002127,2003021,3003705,3073748}
  Delivery = "by_prior"
  Passes = "user_table"
  QNum = {0,2,7,11,12,13,15,24,112,1012}
  QShift = 12
  QDen = {1,4}
  ENum = {0,3,6,9,11,12,13,14,18}
  EShift = 12
  SNum = {1,3,25}
  SDen = {1,10}
  LSNum = {1,2,3}
  Keywords = "independent"
  Args = "read_only"
  Export = TRUE
INVARIANT ZOk
INVARIANT TZOk
INVARIANT MonotoneInv
INVARIANT TailMonotoneInv
INVARIANT TailSymmetricInv
INVARIANT OntoSupportInv
INVARIANT InverseCDFInv
INVARIANT LinArgsInv
INVARIANT OmittedInv
INVARIANT FormsInv
INVARIANT TextInv
INVARIANT SpaceInv
INVARIANT DefaultInv
INVARIANT ArgsFrameInv
INVARIANT FitsInv
CONSTRAINT Emit
CHECK_DEADLOCK FALSE
