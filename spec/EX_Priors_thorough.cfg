SPECIFICATION Spec
CONSTANTS
  UN = 16
  Ordering = "minmax"
  ZS = 100
  Z <- MCZ
  TK = {5,6,8,10,12,16,20,25,30,34,40,47,50,52,53,54,55,60,64,80,100,200,332,500,997,1000,1022,1023,1050,1074}
  HiMax = 53
  ZTS = 100
  ZT <- MCZT
  Delivery = "by_prior"
  QNum = {0,2,7,11,12,13,15,24,112,1012}
  QShift = 12
  QDen = {1,4}
  ENum = {0,3,6,9,11,12,13,14,18}
  EShift = 12
  SNum = {1,3,25}
  SDen = {1,10}
  Export = TRUE
INVARIANT ZOk
INVARIANT TZOk
INVARIANT MonotoneInv
INVARIANT TailMonotoneInv
INVARIANT TailSymmetricInv
INVARIANT OntoSupportInv
INVARIANT InverseCDFInv
INVARIANT LinArgsInv
INVARIANT TextInv
INVARIANT SpaceInv
INVARIANT DefaultInv
INVARIANT FitsInv
CONSTRAINT Emit
CHECK_DEADLOCK FALSE
