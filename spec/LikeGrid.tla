------------------------------ MODULE LikeGrid ------------------------------
(***************************************************************************)
(* C06 -- "chi^2 compares the observation with the forward model ...       *)
(* binned to the observation's bins", for ALL observations (any bin layout *)
(* and error bars), when the model's native grid is much wider than the    *)
(* observation.                                                            *)
(*                                                                         *)
(* DEFINITION (what the statement says): the forward model is evaluated on *)
(* its FULL native grid and every observation bin receives the overlap-    *)
(* weighted mean of the native bins (native bin i is centred on its point, *)
(* as wide as the mid-point width -- the convention of FluxBinner, written *)
(* in Grid.tla as GWt / GBinnedRaw); chi2 = SUM ((data - binned)/sigma)^2. *)
(*                                                                         *)
(* MECHANISM (Optimizer.chisq_trans): model(wngrid = observation centres)  *)
(* evaluates only the native points inside the clip window                 *)
(*   [cmin - M, cmax + M]    (clip_native_to_wngrid; M = the widest        *)
(* mid-point width of the CENTRES, it never sees the bin widths), then     *)
(* bin_model bins those points.                                            *)
(*                                                                         *)
(* CLIPPING CONTRACT: the native points handed to the binner cover every   *)
(* observation bin -- every native bin that overlaps some observation bin  *)
(* is retained, with the same mid-point width as on the full grid (its     *)
(* neighbours are retained too, unless it is an end of the native grid).   *)
(* Under the contract the mechanism equals the definition (CoverLemma of   *)
(* MC_LikeGrid).  The margin rule of the code meets the contract for the   *)
(* layout families of MC_LikeGrid (contiguous constant-resolution layouts  *)
(* with widths growing up to 9x end to end, either direction, gaps, broad  *)
(* photometric bins separated from narrow ones, two instruments) and, in   *)
(* general, whenever every bin lies 1.5 native spacings inside the window  *)
(* (LGInsideWindow); margins taken from the first / last / narrowest bin   *)
(* or half the widest do not (expected counterexamples), and NO margin     *)
(* computed from the centres alone covers a broad bin that reaches beyond  *)
(* the window (overlapping broad bins: expected counterexample = design-   *)
(* level finding, see the report).                                         *)
(*                                                                         *)
(* BIN SEARCH (round 4): "any bin layout" includes bins that OVERLAP each  *)
(* other inside the window -- two instruments observing the same range, a  *)
(* photometric band on top of spectroscopic bins, the same band measured   *)
(* twice, and the slivers by which neighbouring bins overlap when their    *)
(* widths are derived from the centres or converted from wavelength.  The  *)
(* definition treats every bin on its own.  The mechanism does so too when *)
(* the binner looks for the native cells of every bin in the WHOLE grid    *)
(* handed to it (Search = "each", the code); a binner whose search resumes *)
(* at the last cell the previous bin used (Search = "resume") is right     *)
(* only if no bin starts before the previous one ended: expected           *)
(* counterexample on the family "ovl" of MC_LikeGrid.                      *)
(* Grid.tla (C13) is extended read-only.                                   *)
(***************************************************************************)
EXTENDS Grid

\* ---------------------------------------------------------------- toy forward model
\* native value at point i for the fitted parameter value a (exact integers)
LGSpectrum(c0, c1, a) == [i \in 1..Len(c0) |-> c0[i] + a * c1[i]]

\* ---------------------------------------------------------------- definition
\* binned value of bin (c, w2) over grid g: overlap-weighted mean; a bin no native bin overlaps is left at 0
LGBinned(g, f, c, w2) == LET r == GBinnedRaw(g, f, c, w2) IN IF r[2] = 0 THEN RZero ELSE Norm(r[1], r[2])
\* the terms of chi2 of the spectrum f on grid g against the observation (oc, ow2, data, sig): one exact rational
\* per bin, ((data_j - binned_j) / sigma_j)^2  (kept per bin: 32-bit rationals; chi2 / 2 = half their sum)
LGBinnedSeq(g, f, oc, ow2) == [j \in 1..Len(oc) |-> LGBinned(g, f, oc[j], ow2[j])]
LGChiTerms(g, f, oc, ow2, data, sig) ==
    [j \in 1..Len(oc) |-> LET z == RDiv(RSub(Q(data[j]), LGBinned(g, f, oc[j], ow2[j])), Q(sig[j])) IN RMul(z, z)]

\* ---------------------------------------------------------------- mechanism
\* the first native cell the binner looks at for bin j when its search resumes at the last cell used by bin j - 1
RECURSIVE LGResumeAt(_, _, _, _)
LGResumeAt(g, oc, ow2, j) ==
    IF j = 1 THEN 1
    ELSE LET p == LGResumeAt(g, oc, ow2, j - 1)
             used == {i \in p..Len(g) : GWt(g, i, oc[j - 1], ow2[j - 1]) > 0}
         IN  IF used = {} THEN p ELSE GSetMax(used)
\* overlap-weighted mean over the native cells from index `from` on (0 if none overlaps, as LGBinned)
LGBinnedFrom(g, f, c, w2, from) ==
    LET w == [i \in 1..Len(g) |-> IF i >= from THEN GWt(g, i, c, w2) ELSE 0]
        den == GSumTo(w, Len(g))
    IN  IF den = 0 THEN RZero ELSE Norm(GSumTo([i \in 1..Len(g) |-> w[i] * f[i]], Len(g)), den)
LGChiTermsBy(g, f, oc, ow2, data, sig, search) ==
    IF search = "each" THEN LGChiTerms(g, f, oc, ow2, data, sig)
    ELSE [j \in 1..Len(oc) |-> LET b == LGBinnedFrom(g, f, oc[j], ow2[j], LGResumeAt(g, oc, ow2, j))
                                   z == RDiv(RSub(Q(data[j]), b), Q(sig[j])) IN RMul(z, z)]
\* 2 * margin of the clip window, by rule ("max" is the code)
LGMargin2(oc, rule) ==
    IF rule = "max" THEN GMaxW2(oc)
    ELSE IF rule = "first" THEN GMidW2i(oc, 1)
    ELSE IF rule = "last" THEN GMidW2i(oc, Len(oc))
    ELSE IF rule = "min" THEN GSetMin({GMidW2i(oc, i) : i \in 1..Len(oc)})
    ELSE IF rule = "halfmax" THEN GMaxW2(oc) \div 2
    ELSE 0
LGClipIdx(nat, oc, rule) == LET m2 == LGMargin2(oc, rule) IN {i \in 1..Len(nat) : GInClipM(nat[i], oc, m2)}
LGLo(nat, oc, rule) == LET I == LGClipIdx(nat, oc, rule) IN IF I = {} THEN 0 ELSE GSetMin(I)
LGHi(nat, oc, rule) == LET I == LGClipIdx(nat, oc, rule) IN IF I = {} THEN 0 ELSE GSetMax(I)
\* the chi2 terms as the mechanism computes them; "degenerate" if fewer than two native points survive the clip
LGMechBy(nat, f, oc, ow2, data, sig, rule, search) ==
    LET lo == LGLo(nat, oc, rule)
        hi == LGHi(nat, oc, rule)
    IN  IF lo = 0 \/ hi <= lo THEN [k |-> "degenerate", t |-> <<>>]
        ELSE [k |-> "num", t |-> LGChiTermsBy(SubSeq(nat, lo, hi), SubSeq(f, lo, hi), oc, ow2, data, sig, search)]
LGMech(nat, f, oc, ow2, data, sig, rule) == LGMechBy(nat, f, oc, ow2, data, sig, rule, "each")

\* ---------------------------------------------------------------- the clipping contract
\* native bin i of the full grid overlaps some observation bin
LGNeeded(nat, oc, ow2, i) == \E j \in 1..Len(oc) : GWt(nat, i, oc[j], ow2[j]) > 0
LGCovers(nat, oc, ow2, lo, hi) ==
    /\ lo > 0 /\ hi > lo
    /\ \A i \in 1..Len(nat) : LGNeeded(nat, oc, ow2, i) =>
          /\ i >= lo /\ i <= hi                                                   \* retained
          /\ GHalfQi(SubSeq(nat, lo, hi), i - lo + 1) = GHalfQi(nat, i)           \* with the same mid-point width
\* every observation bin overlaps the native grid at all (observations inside the model's range)
LGObserved(nat, oc, ow2) == \A j \in 1..Len(oc) : GWtSum(nat, oc[j], ow2[j]) > 0

\* ---------------------------------------------------------------- licensed layouts
\* every observation bin lies at least 1.5 native spacings inside the clip window of the code
\* (quarter units: bin j = [4 c_j - w2_j, 4 c_j + w2_j], window = [4 cmin - 2 m2, 4 cmax + 2 m2], guard = 6 maxgap)
LGInsideWindow(nat, oc, ow2) ==
    LET m2 == GMaxW2(oc)
        guard == 6 * GSetMax(GGaps(nat))
    IN  \A j \in 1..Len(oc) : /\ 4 * oc[j] - ow2[j] >= 4 * GFirst(oc) - 2 * m2 + guard
                              /\ 4 * oc[j] + ow2[j] <= 4 * GLast(oc) + 2 * m2 - guard
\* layout classes (reported with every exported vector)
LGGrowth2(ow2)  == 2 * GSetMin({ow2[j] : j \in 1..Len(ow2)}) < GSetMax({ow2[j] : j \in 1..Len(ow2)})   \* widths vary > 2x
LGHasGap(oc, ow2) == \E j \in 1..(Len(oc) - 1) : 4 * oc[j] + ow2[j] < 4 * oc[j + 1] - ow2[j + 1]
LGOverlapping(oc, ow2) == \E j \in 1..(Len(oc) - 1) : 4 * oc[j] + ow2[j] > 4 * oc[j + 1] - ow2[j + 1]
\* how far (quarter units) some bin reaches back over an EARLIER bin (order of the centres); 0 = no two bins overlap
LGOverlapQ(oc, ow2) == GSetMax({0} \cup {(4 * oc[p[1]] + ow2[p[1]]) - (4 * oc[p[2]] - ow2[p[2]]) :
                                         p \in {q \in (1..Len(oc)) \X (1..Len(oc)) : q[1] < q[2]}})
=============================================================================
