-------------------------- MODULE MC_ParallelStats --------------------------
(* Exhaustive / export model for C18.  The cfg language has no tuples and no *)
(* rationals: sample spaces are built here from integer sets.                *)
EXTENDS ParallelStats, Json
CONSTANTS Ns,        \* set of sample counts
          Vals,      \* integer sample values
          Wts,       \* integer weights (0 allowed in Part = "trace" only)
          WDen,      \* weights are Wts / WDen
          SmpMode,   \* "all": every sequence over Vals x Wts;  "generic": fixed patterns cut to length n
          Export

QPairs == {[v |-> Q(a), w |-> R(b, WDen)] : a \in Vals, b \in Wts}
GenV == << <<2, 0, 5, 1, 3, 3, 0, 4, 2, 5, 1, 0>>,
           <<1, 1, 1, 4, 0, 2, 5, 5, 3, 0, 2, 4>>,
           <<0, 3, 1, 3, 0, 1, 3, 0, 1, 3, 0, 1>> >>
GenW == << <<1, 2, 1, 4, 3, 1, 2, 2, 1, 3, 4, 1>>,
           <<4, 1, 3, 1, 2, 2, 1, 4, 1, 1, 3, 2>>,
           <<1, 1, 2, 2, 1, 1, 2, 2, 3, 3, 1, 1>> >>
Generic(g, n) == [i \in 1..n |-> [v |-> Q(GenV[g][i]), w |-> R(GenW[g][i], WDen)]]
MCSampleSpace == IF SmpMode = "all" THEN UNION {[1..n -> QPairs] : n \in Ns}
                 ELSE {Generic(g, n) : g \in 1..3, n \in Ns}

DoneVar == Part = "var" /\ \A r \in Ranks : Finished(r)
DoneTrace == Part = "trace" /\ \A r \in Ranks : out[r] # <<>>
XJ(x) == IF IsNum(x) THEN [k |-> "num", q |-> x[2]] ELSE [k |-> x[1], q |-> <<0, 1>>]
Emit ==
    /\ (Export /\ DoneVar) =>
         PrintT(<<"VEC", ToJson([nr |-> nr, n |-> N,
                                 v |-> [i \in 1..N |-> smp[i].v], w |-> [i \in 1..N |-> smp[i].w],
                                 mine |-> mine,
                                 acc |-> [r \in 1..nr |-> [count |-> acc[r].count, wcount |-> acc[r].wcount,
                                                           mean |-> IF acc[r].mean = NoneV THEN <<0, 1>> ELSE acc[r].mean,
                                                           M2 |-> IF acc[r].mean = NoneV THEN <<0, 1>> ELSE acc[r].M2]],
                                 mean |-> XJ(res[1][1].mean), var |-> XJ(res[1][1].var),
                                 serialvar |-> XJ(SerialRes(smp).var)])>>)
    /\ (Export /\ DoneTrace) =>
         PrintT(<<"VEC", ToJson([nr |-> nr, n |-> N,
                                 v |-> [i \in 1..N |-> smp[i].v], w |-> [i \in 1..N |-> smp[i].w],
                                 tr |-> out[1][1].tr, wt |-> out[1][1].wt,
                                 wsum |-> SumW(smp),
                                 mean |-> IF SumW(smp) = RZero THEN <<0, 1>> ELSE WMean(smp)])>>)
=============================================================================
