-------------------------- MODULE MC_ParallelStats --------------------------
(* Exhaustive / export model for C18.  The cfg language has no tuples and no *)
(* rationals: sample spaces are built here from integer sets.                *)
EXTENDS ParallelStats, Json
CONSTANTS Ns,        \* set of sample counts
          Vals,      \* integer sample values
          Wts,       \* integer weights >= 0 (0: an underflowed weight)
          WDen,      \* weights are Wts / WDen
          SmpMode,   \* "all": every sequence over Vals x Wts;  "generic": fixed patterns cut to length n;
                     \* "zeromask": the patterns with the weights of a set Z of positions set to exactly zero
          Gens,      \* which of the fixed patterns
          WSNum, WSDen, \* WScale = WSNum / WSDen (cfg files have no rationals)
          Export

MCWScale == R(WSNum, WSDen)
QPairs == {[v |-> Q(a), w |-> R(b, WDen)] : a \in Vals, b \in Wts}
GenV == << <<2, 0, 5, 1, 3, 3, 0, 4, 2, 5, 1, 0>>,
           <<1, 1, 1, 4, 0, 2, 5, 5, 3, 0, 2, 4>>,
           <<0, 3, 1, 3, 0, 1, 3, 0, 1, 3, 0, 1>> >>
GenW == << <<1, 2, 1, 4, 3, 1, 2, 2, 1, 3, 4, 1>>,
           <<4, 1, 3, 1, 2, 2, 1, 4, 1, 1, 3, 2>>,
           <<1, 1, 2, 2, 1, 1, 2, 2, 3, 3, 1, 1>> >>
Generic(g, n) == [i \in 1..n |-> [v |-> Q(GenV[g][i]), w |-> R(GenW[g][i], WDen)]]
(* Zero-weight positions that matter for k ranks and a list of n samples (round-robin split):           *)
(* the first sample of one rank; the first sample of every rank; every sample of one rank; every sample  *)
(* but one; every sample but two neighbours; the last sample only (never the first of a rank when        *)
(* n > k).  Never all of them.                                                                           *)
MinI(a, b) == IF a < b THEN a ELSE b
MasksFor(k, n) ==
    ( {{j} : j \in 1..MinI(k, n)}
      \cup {1..MinI(k, n - 1)}
      \cup {{i \in 1..n : (i - 1) % k = r} : r \in 0..(k - 1)}
      \cup {(1..n) \ {j} : j \in 1..n}
      \cup {(1..n) \ {j, j + 1} : j \in 1..(n - 1)}
      \cup {{n}} ) \ {{}, 1..n}
Masked(g, n, Z) == [i \in 1..n |-> [v |-> Q(GenV[g][i]), w |-> IF i \in Z THEN RZero ELSE R(GenW[g][i], WDen)]]
MCSampleSpace == IF SmpMode = "all" THEN UNION {[1..n -> QPairs] : n \in Ns}
                 ELSE IF SmpMode = "generic" THEN {Generic(g, n) : g \in Gens, n \in Ns}
                 ELSE UNION {{Masked(g, n, Z) : g \in Gens, Z \in UNION {MasksFor(k, n) : k \in NRs}} : n \in Ns}
\* (export) a zero mask is paired with the rank counts it was made for
Relevant == SmpMode = "zeromask" => {i \in 1..N : smp[i].w = RZero} \in MasksFor(nr, N)

DoneVar == Part = "var" /\ \A r \in Ranks : Finished(r)
DoneTrace == Part = "trace" /\ \A r \in Ranks : out[r] # <<>>
XJ(x) == IF IsNum(x) THEN [k |-> "num", q |-> x[2]] ELSE [k |-> x[1], q |-> <<0, 1>>]
Emit ==
    /\ Relevant
    /\ (Export /\ DoneVar) =>
         PrintT(<<"VEC", ToJson([nr |-> nr, n |-> N,
                                 v |-> [i \in 1..N |-> smp[i].v], w |-> [i \in 1..N |-> smp[i].w],
                                 mine |-> mine,
                                 acc |-> [r \in 1..nr |-> [count |-> acc[r].count, wcount |-> acc[r].wcount,
                                                           mean |-> IF acc[r].mean = NoneV THEN <<0, 1>> ELSE acc[r].mean,
                                                           M2 |-> IF acc[r].mean = NoneV THEN <<0, 1>> ELSE acc[r].M2]],
                                 mean |-> XJ(res[1][1].mean), var |-> XJ(res[1][1].var),
                                 defined |-> HasStats,
                                 serialvar |-> XJ(SerialResG(ZeroGuard, smp).var)])>>)
    /\ (Export /\ DoneTrace) =>
         PrintT(<<"VEC", ToJson([nr |-> nr, n |-> N,
                                 v |-> [i \in 1..N |-> smp[i].v], w |-> [i \in 1..N |-> smp[i].w],
                                 tr |-> out[1][1].tr, wt |-> out[1][1].wt,
                                 wsum |-> SumW(smp),
                                 mean |-> IF SumW(smp) = RZero THEN <<0, 1>> ELSE WMean(smp)])>>)
=============================================================================
