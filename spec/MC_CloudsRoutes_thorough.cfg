SPECIFICATION Spec
CONSTANTS
  NMax = 3
  L0 = 12
  Spacings = {2,4}
  BStep = 2
  RKinds = {"flat","lee","deck"}
  Routes = {"prepare","model","contrib","each","full"}
  Store = "component"
  MaxUses = 2
  Export = FALSE
VIEW ViewNoHist
INVARIANT IntegratedOwnRange
INVARIANT RouteIndependent
INVARIANT YieldedOwnRange
CONSTRAINT Emit
CHECK_DEADLOCK FALSE
