SPECIFICATION Spec
CONSTANTS
  NL = 2
  MaxFill = 3
  MaxTrace = 3
  RatioNums = {1,3}
  RatioDen = 4
  AbNums = {0,3,5}
  AbDen = 8
  Variant = "spec"
  Export = TRUE
INVARIANT NonNegative
INVARIANT SumsToOne
INVARIANT FillRatiosExact
INVARIANT TracesUntouched
INVARIANT OneRowPerGas
INVARIANT InvalidIffExceedsOne
INVARIANT MuIsWeightedMean
INVARIANT ScalarMuAtSurface
INVARIANT ActiveSplit
INVARIANT FitsInv
CONSTRAINT Emit
CONSTRAINT ExportPick
CHECK_DEADLOCK FALSE
