------------------------------- MODULE Priors -------------------------------
(***************************************************************************)
(* C08 -- prior transforms of taurex.core.priors.                           *)
(*                                                                         *)
(* A constructor call is  [cls, key1, v1, key2, v2]  in the documented      *)
(* keyword syntax  Name(key=value, ...):                                   *)
(*   Uniform(bounds=(x,y))                                                 *)
(*   LogUniform(bounds=(x,y))  |  LogUniform(lin_bounds=(10^e,10^f))        *)
(*   Gaussian(mean=m, std=s)                                               *)
(*   LogGaussian(mean=m, std=s) | LogGaussian(lin_mean=10^e, std=s)         *)
(* x, y, m, s are exact rationals; linear-space arguments are powers of     *)
(* ten carried as exponents (the harness passes 10**e).                     *)
(* Build(call) is the prior in normal form [kind, a, b] in its own space:   *)
(*   uniform kinds: a = lower, b = upper bound (ordered)                    *)
(*   gaussian kinds: a = mean, b = standard deviation                       *)
(* Sample(p, k) is the inverse CDF at u = k / UN, exact for the uniform     *)
(* kinds; for the gaussian kinds mean + std * Z[k] where Z is an            *)
(* uninterpreted table (filled by the harness from statistics.NormalDist,   *)
(* scaled by ZS) of which the specification only assumes that it is         *)
(* strictly increasing, odd about u = 1/2 and zero there.                   *)
(* ToModel: log kinds hand 10^x to the model, linear kinds x (tagged).      *)
(***************************************************************************)
EXTENDS Integers, Sequences, FiniteSets, TLC, Json, Rat

CONSTANTS UN,       \* u grid: u = k / UN, k \in 0..UN
          Ordering, \* "minmax": bounds are ordered by the constructor (the code); "as_given": not (self-test)
          ZS, Z     \* Z[k] ~ ZS * Phi^-1(k/UN), k \in 1..UN-1

LogKinds == {"LogUniform", "LogGaussian"}
UniKinds == {"Uniform", "LogUniform"}
SpaceOf(kind) == IF kind \in LogKinds THEN "log" ELSE "linear"

ZAssumption == /\ \A k \in 1..(UN - 2) : Z[k] < Z[k + 1]
               /\ \A k \in 1..(UN - 1) : Z[k] = -Z[UN - k]
               /\ UN % 2 = 0 /\ Z[UN \div 2] = 0

\* -------------------------------------------------------------- construction
Lower(bd) == IF Ordering = "minmax" THEN RMin(bd[1], bd[2]) ELSE bd[1]
Upper(bd) == IF Ordering = "minmax" THEN RMax(bd[1], bd[2]) ELSE bd[2]
Build(c) ==
    CASE c.cls = "Uniform"    -> [kind |-> "Uniform", a |-> Lower(c.v1), b |-> Upper(c.v1)]
      [] c.cls = "LogUniform" ->
            \* lin_bounds are replaced by their log10 before anything else happens
            LET bd == IF c.key1 = "lin_bounds" THEN <<Q(c.v1[1]), Q(c.v1[2])>> ELSE c.v1
            IN  [kind |-> "LogUniform", a |-> Lower(bd), b |-> Upper(bd)]
      [] c.cls = "Gaussian"   -> [kind |-> "Gaussian", a |-> c.v1, b |-> c.v2]
      [] c.cls = "LogGaussian" ->
            [kind |-> "LogGaussian", a |-> IF c.key1 = "lin_mean" THEN Q(c.v1) ELSE c.v1, b |-> c.v2]

\* the same call with its linear-space argument replaced by its log10
LogForm(c) == IF c.key1 = "lin_bounds" THEN [c EXCEPT !.key1 = "bounds", !.v1 = <<Q(c.v1[1]), Q(c.v1[2])>>]
              ELSE IF c.key1 = "lin_mean" THEN [c EXCEPT !.key1 = "mean", !.v1 = Q(c.v1)]
              ELSE c

\* ------------------------------------------------------------------ sampling
U(k) == R(k, UN)
Sample(p, k) == IF p.kind \in UniKinds THEN RAdd(p.a, RMul(U(k), RSub(p.b, p.a)))
                ELSE RAdd(p.a, RMul(p.b, R(Z[k], ZS)))
Grid(p) == IF p.kind \in UniKinds THEN 0..UN ELSE 1..(UN - 1)     \* the normal quantile is infinite at 0 and 1
ToModel(p, x) == [sp |-> IF SpaceOf(p.kind) = "log" THEN "pow10" ELSE "id", x |-> x]

\* ---------------------------------------------------------------------- text
\* documented syntax Name(key=value, ...); the class is found by its name, its lower-case
\* or its upper-case spelling; any other name is an error
Spellings == [Uniform     |-> {"Uniform", "uniform", "UNIFORM"},
              LogUniform  |-> {"LogUniform", "loguniform", "LOGUNIFORM"},
              Gaussian    |-> {"Gaussian", "gaussian", "GAUSSIAN"},
              LogGaussian |-> {"LogGaussian", "loggaussian", "LOGGAUSSIAN"}]
Classes == DOMAIN Spellings
Lookup(name) == IF \E c \in Classes : name \in Spellings[c]
                THEN CHOOSE c \in Classes : name \in Spellings[c] ELSE "error"
\* text of a call under a spelling of its name; parsing it gives back the keywords unchanged
Text(c, name) == [name |-> name, key1 |-> c.key1, v1 |-> c.v1, key2 |-> c.key2, v2 |-> c.v2]
FromText(t) == IF Lookup(t.name) = "error" THEN "error"
               ELSE Build([cls |-> Lookup(t.name), key1 |-> t.key1, v1 |-> t.v1, key2 |-> t.key2, v2 |-> t.v2])

\* ------------------------------------------------------------------ defaults
\* compile_params: default prior of a fitted parameter from its mode and its (linear-space) bounds;
\* for a log parameter the bounds are powers of ten given by their exponents
DefaultCall(mode, bounds) == IF mode = "log"
                             THEN [cls |-> "LogUniform", key1 |-> "lin_bounds", v1 |-> bounds, key2 |-> "", v2 |-> 0]
                             ELSE [cls |-> "Uniform", key1 |-> "bounds", v1 |-> bounds, key2 |-> "", v2 |-> 0]

\* ---------------------------------------------------------------- properties
Monotone(p) == \A k, j \in Grid(p) : k < j => RLt(Sample(p, k), Sample(p, j))
OntoSupport(c, p) == p.kind \in UniKinds =>
    LET bd == IF c.key1 = "lin_bounds" THEN <<Q(c.v1[1]), Q(c.v1[2])>> ELSE c.v1
    IN  /\ Sample(p, 0) = RMin(bd[1], bd[2]) /\ Sample(p, UN) = RMax(bd[1], bd[2])
        /\ \A k \in Grid(p) : RLe(p.a, Sample(p, k)) /\ RLe(Sample(p, k), p.b)
\* inverse CDF: the uniform CDF of the sample is u; the gaussian sample is symmetric about the mean
InverseCDF(p) == IF p.kind \in UniKinds
                 THEN \A k \in Grid(p) : RDiv(RSub(Sample(p, k), p.a), RSub(p.b, p.a)) = U(k)
                 ELSE /\ Sample(p, UN \div 2) = p.a
                      /\ \A k \in Grid(p) : RAdd(Sample(p, k), Sample(p, UN - k)) = RMul(Q(2), p.a)
LinArgsEquivalent(c) == Build(c) = Build(LogForm(c))
TextEqualsDirect(c) == /\ \A n \in Spellings[c.cls] : FromText(Text(c, n)) = Build(c)
                       /\ FromText(Text(c, "Foo")) = "error"
                       /\ FromText(Text(c, "Log")) = "error"
=============================================================================
