------------------------------- MODULE Priors -------------------------------
(***************************************************************************)
(* C08 -- prior transforms of taurex.core.priors.                           *)
(*                                                                         *)
(* A constructor call is  [cls, key1, v1, key2, v2]  in the documented      *)
(* keyword syntax  Name(key=value, ...):                                   *)
(*   Uniform(bounds=(x,y))                                                 *)
(*   LogUniform(bounds=(x,y))  |  LogUniform(lin_bounds=(10^e,10^f))        *)
(*   Gaussian(mean=m, std=s)                                               *)
(*   LogGaussian(mean=m, std=s) | LogGaussian(lin_mean=10^e, std=s)         *)
(* x, y, m, s are exact rationals; linear-space arguments are powers of     *)
(* ten carried as exponents (the harness passes 10**e).                     *)
(* Build(call) is the prior in normal form [kind, a, b] in its own space:   *)
(*   uniform kinds: a = lower, b = upper bound (ordered)                    *)
(*   gaussian kinds: a = mean, b = standard deviation                       *)
(* Sample(p, k) is the inverse CDF at u = k / UN, exact for the uniform     *)
(* kinds; for the gaussian kinds mean + std * Z[k] where Z is an            *)
(* uninterpreted table (filled by the harness from statistics.NormalDist,   *)
(* scaled by ZS) of which the specification only assumes that it is         *)
(* strictly increasing, odd about u = 1/2 and zero there.                   *)
(* ToModel: log kinds hand 10^x to the model, linear kinds x (tagged).      *)
(*                                                                         *)
(* Far tails ("all u in [0,1]"): besides the grid the quantifier is sampled  *)
(* on a ladder  u = 2^-k  (side "lo") and  u = 1 - 2^-k  (side "hi"),        *)
(* k \in TK (and the same with base 10, k \in TD), which reaches the smallest positive double (k = 1074) and the   *)
(* largest double below one (k = HiMax = 53); every ladder point is an       *)
(* exactly representable number.  The normal quantile on the ladder is a     *)
(* second uninterpreted table ZT (ZT[k] ~ ZTS * Phi^-1(2^-k), written in the  *)
(* cfg, re-computed by the harness) of which the specification assumes that   *)
(* it decreases strictly in k, lies beyond the grid's outermost points and   *)
(* agrees with Z where the ladder meets the grid; the upper side is its      *)
(* mirror image (Phi^-1(1-u) = -Phi^-1(u)).                                  *)
(*                                                                         *)
(* Delivery: what Optimizer.update_model hands to the model for a sampled    *)
(* value x is ToModel(prior, x) -- decided by the space of the PRIOR that    *)
(* is attached to the parameter, whatever the parameter's fitting mode       *)
(* (Delivery = "by_prior"); "by_mode" is the expected-counterexample variant.*)
(*                                                                         *)
(* Owners: the fitted parameter lives on the forward model or on the         *)
(* observation; compile_params handles the two owners in two passes.  The    *)
(* prior in force is the user's when one was given, else the default from    *)
(* the parameter's own mode and bounds -- for either owner (InForce);        *)
(* Passes = "second_blind" is the expected-counterexample variant.           *)
(*                                                                         *)
(* Arguments are inputs (round 3): bounds arrive in any container (tuple,    *)
(* list, array, read-only array), the caller keeps the object and uses it    *)
(* again; nothing is written to it (ArgsFrame; MC_Priors, MC_PriorHistory).  *)
(* The mode of a parameter is text found whatever its case (ModeLookup).     *)
(* Long-lived optimizers: spec/MC_PriorHistory.tla.                          *)
(*                                                                         *)
(* Keywords (round 4): every keyword may be left out (the value of the        *)
(* signature holds) and the width has a linear-space spelling too           *)
(* (lin_std = 10^e); each keyword stands for itself (BuildK, LogForm,        *)
(* Complete, OmittedIsSignature; "coupled" is the refuted variant).          *)
(* Long-lived PRIOR objects (set_bounds, a second object, the caller's       *)
(* container written to afterwards): spec/MC_PriorObject.tla.                *)
(***************************************************************************)
EXTENDS Integers, Sequences, FiniteSets, TLC, Json, Rat, SequencesExt

CONSTANTS UN,       \* u grid: u = k / UN, k \in 0..UN
          Ordering, \* "minmax": bounds are ordered by the constructor (the code); "as_given": not (self-test)
          ZS, Z,    \* Z[k] ~ ZS * Phi^-1(k/UN), k \in 1..UN-1
          TK,       \* tail ladder: u = 2^-k and u = 1 - 2^-k for k \in TK
          HiMax,    \* 1 - 2^-k differs from 1 in the number format of u only for k <= HiMax (53 for binary64)
          TD,       \* decimal tail ladder: u = 10^-k and u = 1 - 10^-k for k \in TD
          HiDecMax, \* 1 - 10^-k is used for k <= HiDecMax only (12: its double is 1 - 10^-k to 1e-4 of 10^-k)
          ZTS, ZTCode, ZDCode, \* ladder tables ZT[k] ~ ZTS * Phi^-1(2^-k), ZD[k] ~ ZTS * Phi^-1(10^-k), given as the sets
                    \* {k * ZTBase - Z.[k]} (cfg files have neither tuples nor negative numbers); the harness re-computes
                    \* every entry before it trusts it
          Delivery, \* "by_prior": update_model hands prior.prior(x) to the model (the code); "by_mode": self-test
          Passes    \* "user_table": every pass of compile_params is handed the priors the user gave (the code);
                    \* "second_blind": the second pass (the observation's parameters) is not (self-test)

LogKinds == {"LogUniform", "LogGaussian"}
UniKinds == {"Uniform", "LogUniform"}
SpaceOf(kind) == IF kind \in LogKinds THEN "log" ELSE "linear"

ZAssumption == /\ \A k \in 1..(UN - 2) : Z[k] < Z[k + 1]
               /\ \A k \in 1..(UN - 1) : Z[k] = -Z[UN - k]
               /\ UN % 2 = 0 /\ Z[UN \div 2] = 0

\* -------------------------------------------------------------- construction
Lower(bd) == IF Ordering = "minmax" THEN RMin(bd[1], bd[2]) ELSE bd[1]
Upper(bd) == IF Ordering = "minmax" THEN RMax(bd[1], bd[2]) ELSE bd[2]
\* Keywords (round 4): every keyword of a constructor is optional and stands for itself.  key1 names the first argument
\* ("bounds" | "lin_bounds" | "mean" | "lin_mean" | "": left out), key2 the width of the normal kinds ("std" | "lin_std" |
\* "": left out; lin_std = 10^e carried as its exponent e, like every linear-space argument).  A keyword that is left out
\* has the value written in the documented signature (SigBounds, SigMean, SigStd; the harness reads the signature and
\* checks that an object built without the keyword is the object built with that value passed explicitly).
\* kw = "independent": each keyword is evaluated on its own (the code).  kw = "coupled" is the expected-counterexample
\* variant: the linear-space spelling of the SECOND argument is honoured only when the first is given in linear space too.
SigBounds == <<Q(0), Q(1)>>
SigMean == R(1, 2)
SigStd == R(1, 4)
BoundsOf(c) == IF c.key1 = "lin_bounds" THEN <<Q(c.v1[1]), Q(c.v1[2])>> ELSE IF c.key1 = "" THEN SigBounds ELSE c.v1
MeanOf(c) == IF c.key1 = "lin_mean" THEN Q(c.v1) ELSE IF c.key1 = "" THEN SigMean ELSE c.v1
StdOfK(kw, c) == IF c.key2 = "lin_std" THEN (IF kw = "coupled" /\ c.key1 # "lin_mean" THEN SigStd ELSE Q(c.v2))
                 ELSE IF c.key2 = "" THEN SigStd ELSE c.v2
BuildK(kw, c) ==
    CASE c.cls = "Uniform"    -> [kind |-> "Uniform", a |-> Lower(BoundsOf(c)), b |-> Upper(BoundsOf(c))]
      [] c.cls = "LogUniform" -> \* lin_bounds are replaced by their log10 before anything else happens
                                 [kind |-> "LogUniform", a |-> Lower(BoundsOf(c)), b |-> Upper(BoundsOf(c))]
      [] c.cls = "Gaussian"   -> [kind |-> "Gaussian", a |-> MeanOf(c), b |-> StdOfK(kw, c)]
      [] c.cls = "LogGaussian" -> [kind |-> "LogGaussian", a |-> MeanOf(c), b |-> StdOfK(kw, c)]
Build(c) == BuildK("independent", c)

\* the same call with every linear-space argument replaced by its log10
LogForm(c) ==
    LET c1 == IF c.key1 = "lin_bounds" THEN [c EXCEPT !.key1 = "bounds", !.v1 = <<Q(c.v1[1]), Q(c.v1[2])>>]
              ELSE IF c.key1 = "lin_mean" THEN [c EXCEPT !.key1 = "mean", !.v1 = Q(c.v1)]
              ELSE c
    IN  IF c.key2 = "lin_std" THEN [c1 EXCEPT !.key2 = "std", !.v2 = Q(c.v2)] ELSE c1
\* the same call with every keyword that was left out written out with the value of the signature
Complete(c) ==
    LET c1 == IF c.key1 # "" THEN c
              ELSE IF c.cls \in {"Uniform", "LogUniform"} THEN [c EXCEPT !.key1 = "bounds", !.v1 = SigBounds]
              ELSE [c EXCEPT !.key1 = "mean", !.v1 = SigMean]
    IN  IF c.cls \in {"Gaussian", "LogGaussian"} /\ c.key2 = "" THEN [c1 EXCEPT !.key2 = "std", !.v2 = SigStd] ELSE c1
LeftOut(c) == (IF c.key1 = "" THEN {IF c.cls \in {"Uniform", "LogUniform"} THEN "bounds" ELSE "mean"} ELSE {})
              \cup (IF c.cls \in {"Gaussian", "LogGaussian"} /\ c.key2 = "" THEN {"std"} ELSE {})

\* ------------------------------------------------------------------ sampling
U(k) == R(k, UN)
Sample(p, k) == IF p.kind \in UniKinds THEN RAdd(p.a, RMul(U(k), RSub(p.b, p.a)))
                ELSE RAdd(p.a, RMul(p.b, R(Z[k], ZS)))
Grid(p) == IF p.kind \in UniKinds THEN 0..UN ELSE 1..(UN - 1)     \* the normal quantile is infinite at 0 and 1
ToModel(p, x) == [sp |-> IF SpaceOf(p.kind) = "log" THEN "pow10" ELSE "id", x |-> x]

\* --------------------------------------------------------------- far tails
\* a ladder point is [side, base, k]:  u = base^-k (side "lo")  or  u = 1 - base^-k (side "hi"),  base 2 or 10.
\* The binary points are doubles themselves (2u - 1 and 1 - u are exact there); the decimal points 10^-k are what
\* people write, they have a full mantissa and are used as the nearest double.
ZTBase == 10000
TableOf(code) == [k \in {c \div ZTBase : c \in code} |-> -((CHOOSE c \in code : c \div ZTBase = k) % ZTBase)]
ZT == TableOf(ZTCode)                                            \* ZT[k] ~ ZTS * Phi^-1(2^-k)
ZD == TableOf(ZDCode)                                            \* ZD[k] ~ ZTS * Phi^-1(10^-k)
UNLog == CHOOSE g \in 0..30 : Pow(2, g) = UN                      \* the grid is dyadic: 1/UN = 2^-UNLog
TailSet == {[side |-> "lo", base |-> 2, k |-> k] : k \in TK} \cup {[side |-> "hi", base |-> 2, k |-> k] : k \in {j \in TK : j <= HiMax}}
           \cup {[side |-> "lo", base |-> 10, k |-> k] : k \in TD} \cup {[side |-> "hi", base |-> 10, k |-> k] : k \in {j \in TD : j <= HiDecMax}}
IsTailPt(pt) == pt \in TailSet
\* exact order of the magnitudes base^k, decided with 3.3219 < log2(10) < 3.3220 (the harness checks 2^33219 < 10^10000 < 2^33220);
\* MagDecided says that these bounds settle every comparison the ladder needs
L10Lo == 33219
L10Hi == 33220
L10Den == 10000
MagLt(x, y) == IF x.base = y.base THEN x.k < y.k
               ELSE IF x.base = 2 THEN x.k * L10Den <= y.k * L10Lo       \* k_x < k_y log2(10)
               ELSE x.k * L10Hi <= y.k * L10Den                           \* k_x log2(10) < k_y
MagDecided(x, y) == x.base = y.base \/ MagLt(x, y) \/ MagLt(y, x)
PtLt(x, y) == \/ x.side = "lo" /\ y.side = "hi"
              \/ x.side = "lo" /\ y.side = "lo" /\ MagLt(y, x)
              \/ x.side = "hi" /\ y.side = "hi" /\ MagLt(x, y)
\* the whole ladder in increasing order of u (all of the lower side lies below 1/UN, all of the upper above 1 - 1/UN)
TailPts == SetToSortSeq(TailSet, PtLt)
NLo == Cardinality({pt \in TailSet : pt.side = "lo"})
TailZ(pt) == LET z == IF pt.base = 2 THEN ZT[pt.k] ELSE ZD[pt.k] IN IF pt.side = "lo" THEN z ELSE -z
\* gaussian kinds: mean + std * table, a rational; uniform kinds: the linear form  a + w * u(pt)  (2^-1074 is no
\* 32-bit rational: the form is exported and evaluated exactly at the boundary)
TailSample(p, pt) == IF p.kind \in UniKinds THEN [a |-> p.a, w |-> RSub(p.b, p.a)]
                     ELSE RAdd(p.a, RMul(p.b, R(TailZ(pt), ZTS)))
TZAssumption ==
    /\ \A code \in {ZTCode, ZDCode} : \A c, d \in code : (c \div ZTBase = d \div ZTBase) => c = d
    /\ \A k \in TK \cup 1..UNLog : k \in DOMAIN ZT
    /\ \A k \in TD : k \in DOMAIN ZD
    /\ \A k \in TK : k > UNLog
    /\ \A k \in TD : Pow(10, IF k < 9 THEN k ELSE 9) > UN             \* 10^-k < 1/UN
    /\ \A x, y \in TailSet : MagDecided(x, y)
    \* the table decreases strictly along the lower side of the ladder and lies beyond the outermost grid point
    /\ \A x, y \in TailSet : PtLt(x, y) => TailZ(x) < TailZ(y)
    /\ \A x \in TailSet : x.side = "lo" => TailZ(x) * ZS < Z[1] * ZTS
    /\ \A g \in 1..UNLog : 2 * Abs((Z[UN \div Pow(2, g)] * ZTS) - (ZT[g] * ZS)) <= ZTS + ZS   \* the tables agree on 2^-g = (UN/2^g)/UN

\* ---------------------------------------------------------------- delivery
\* a fitting parameter is declared in a mode and may be switched by set_mode before the fit
ParamKinds == {"lin", "log", "lin2log", "log2lin"}
ModeOf(pk) == IF pk \in {"log", "lin2log"} THEN "log" ELSE "linear"
\* what update_model hands to the model's setter for the sampled value x of prior p on a parameter in `mode`
Deliver(p, mode, x) == IF Delivery = "by_prior" THEN ToModel(p, x)
                       ELSE [sp |-> IF mode = "log" THEN "pow10" ELSE "id", x |-> x]

\* ---------------------------------------------------------------------- text
\* documented syntax Name(key=value, ...); the class is found by its name, its lower-case
\* or its upper-case spelling; any other name is an error
Spellings == [Uniform     |-> {"Uniform", "uniform", "UNIFORM"},
              LogUniform  |-> {"LogUniform", "loguniform", "LOGUNIFORM"},
              Gaussian    |-> {"Gaussian", "gaussian", "GAUSSIAN"},
              LogGaussian |-> {"LogGaussian", "loggaussian", "LOGGAUSSIAN"}]
Classes == DOMAIN Spellings
Lookup(name) == IF \E c \in Classes : name \in Spellings[c]
                THEN CHOOSE c \in Classes : name \in Spellings[c] ELSE "error"
\* text of a call under a spelling of its name; parsing it gives back the keywords unchanged
Text(c, name) == [name |-> name, key1 |-> c.key1, v1 |-> c.v1, key2 |-> c.key2, v2 |-> c.v2]
FromText(t) == IF Lookup(t.name) = "error" THEN "error"
               ELSE Build([cls |-> Lookup(t.name), key1 |-> t.key1, v1 |-> t.v1, key2 |-> t.key2, v2 |-> t.v2])

\* ------------------------------------------------------------------ defaults
\* compile_params: default prior of a fitted parameter from its mode and its (linear-space) bounds;
\* for a log parameter the bounds are powers of ten given by their exponents
DefaultCall(mode, bounds) == IF mode = "log"
                             THEN [cls |-> "LogUniform", key1 |-> "lin_bounds", v1 |-> bounds, key2 |-> "", v2 |-> 0]
                             ELSE [cls |-> "Uniform", key1 |-> "bounds", v1 |-> bounds, key2 |-> "", v2 |-> 0]

\* ------------------------------------------------------ arguments are inputs
\* A pair of bounds may be handed over in any container the language has for two numbers, a mean / width as any
\* floating-point scalar; the property speaks of the VALUES ("all bounds, means and widths").  The caller keeps the
\* object it handed over and may use it again: for a second prior, or -- stored in the parameter table by
\* set_boundary -- for the default prior of every later compile_params.  The state of such an object is the number of
\* times log10 has been applied to its contents in place (0: as handed over); a constructor or compile_params that
\* only reads its arguments leaves it at 0 (args = "read_only", the code).  args = "lin_in_place" is the
\* expected-counterexample variant: linear-space bounds that arrive in a writable container are converted where they are.
Containers == {"tuple", "list", "ndarray", "ndarray_readonly"}
ScalarKinds == {"float", "numpy_float64"}
Writable == {"list", "ndarray"}
Corrupt == [kind |-> "Corrupt", a |-> Q(0), b |-> Q(0)]
\* the caller's object after  cls(key1=<object>)  was evaluated once
ArgAfter(args, c, ct, depth) == IF args = "lin_in_place" /\ c.key1 = "lin_bounds" /\ ct \in Writable THEN depth + 1 ELSE depth
\* the prior built from an argument object in state depth (exact rationals describe depth 0 only)
BuildAt(c, depth) == IF depth = 0 THEN Build(c) ELSE Corrupt
\* two priors built one after the other from the SAME argument object
BuildTwice(args, c, ct) == <<BuildAt(c, 0), BuildAt(c, ArgAfter(args, c, ct, 0))>>
ArgsFrame(args, c) == \A ct \in Containers : /\ ArgAfter(args, c, ct, 0) = 0
                                             /\ BuildTwice(args, c, ct) = <<Build(c), Build(c)>>

\* ------------------------------------------------------------ mode as text
\* The fitting mode of a parameter is given as text ("X:mode = log" in an input file, Optimizer.set_mode(name, "log"));
\* like the class names of the priors it is found whatever the case of its letters
ModeSpellings == [linear |-> {"linear", "Linear", "LINEAR", "liNEar"}, log |-> {"log", "Log", "LOG", "lOg"}]
Modes == DOMAIN ModeSpellings
ModeLookup(text) == IF \E m \in Modes : text \in ModeSpellings[m]
                    THEN CHOOSE m \in Modes : text \in ModeSpellings[m] ELSE "error"
\* ten to an integer power as an exact rational (bounds of a parameter that is fitted in either mode)
P10(e) == IF e >= 0 THEN Q(Pow(10, e)) ELSE R(1, Pow(10, 0 - e))

\* ------------------------------------------------- where the fitted parameter lives
\* A fitting parameter is owned by the forward model or by the observation (a BaseSpectrum that declares @fitparam
\* parameters: offsets, scale factors, ...).  Optimizer.compile_params walks the owners in passes -- the model's fitted
\* parameters first, the observation's second -- and appends what it finds to one list of parameters and one list of
\* priors.  Each pass is handed the table of the priors the user gave (set_prior object / text / [Fitting] file); a
\* fitted parameter the table has no entry for gets the default prior of its own mode and bounds, whoever owns it.
Owners == {"model", "observation"}
PassOf(owner) == IF owner = "model" THEN 1 ELSE 2
NoPrior == [kind |-> "None", a |-> Q(0), b |-> Q(0)]
\* the user's entry for a parameter as the pass that compiles its owner sees it
SeenBy(owner, user) == IF Passes = "second_blind" /\ PassOf(owner) = 2 THEN NoPrior ELSE user
\* the prior in force after compile_params for a fitted parameter of `owner` in `mode` with (linear-space) `bounds`
\* to which the user attached `user` (NoPrior: nothing)
InForce(owner, user, mode, bounds) == IF SeenBy(owner, user) = NoPrior THEN Build(DefaultCall(mode, bounds)) ELSE user

\* ---------------------------------------------------------------- properties
Monotone(p) == \A k, j \in Grid(p) : k < j => RLt(Sample(p, k), Sample(p, j))
OntoSupport(c, p) == p.kind \in UniKinds =>
    LET bd == BoundsOf(c)
    IN  /\ Sample(p, 0) = RMin(bd[1], bd[2]) /\ Sample(p, UN) = RMax(bd[1], bd[2])
        /\ \A k \in Grid(p) : RLe(p.a, Sample(p, k)) /\ RLe(Sample(p, k), p.b)
\* inverse CDF: the uniform CDF of the sample is u; the gaussian sample is symmetric about the mean
InverseCDF(p) == IF p.kind \in UniKinds
                 THEN \A k \in Grid(p) : RDiv(RSub(Sample(p, k), p.a), RSub(p.b, p.a)) = U(k)
                 ELSE /\ Sample(p, UN \div 2) = p.a
                      /\ \A k \in Grid(p) : RAdd(Sample(p, k), Sample(p, UN - k)) = RMul(Q(2), p.a)
\* the same clauses on the tail ladder
TailMonotone(p) ==
    IF p.kind \in UniKinds THEN RLt(p.a, p.b)          \* a + w u increases with u iff w > 0 (the ladder is ordered exactly by PtLt)
    ELSE /\ \A i \in 1..(Len(TailPts) - 1) : RLt(TailSample(p, TailPts[i]), TailSample(p, TailPts[i + 1]))
         \* the ladder continues the grid on both sides
         /\ RLt(TailSample(p, TailPts[NLo]), Sample(p, 1))
         /\ RLt(Sample(p, UN - 1), TailSample(p, TailPts[NLo + 1]))
TailOrdered == /\ \A i, j \in 1..Len(TailPts) : i < j <=> PtLt(TailPts[i], TailPts[j])
               /\ Len(TailPts) = Cardinality(TailSet)
               /\ \A i \in 1..Len(TailPts) : (TailPts[i].side = "lo") = (i <= NLo)
TailSymmetric(p) == p.kind \notin UniKinds =>
    \A x \in TailSet : x.side = "hi" =>
        RSub(TailSample(p, [x EXCEPT !.side = "lo"]), p.a) = RNeg(RSub(TailSample(p, x), p.a))
LinArgsEquivalentK(kw, c) == BuildK(kw, c) = BuildK(kw, LogForm(c))
LinArgsEquivalent(c) == LinArgsEquivalentK("independent", c)
\* leaving a keyword out is passing the value of the signature, whatever else is given and in whichever spelling
OmittedIsSignature(kw, c) == BuildK(kw, c) = BuildK(kw, Complete(c)) /\ (LeftOut(c) = {} <=> Complete(c) = c)
TextEqualsDirect(c) == /\ \A n \in Spellings[c.cls] : FromText(Text(c, n)) = Build(c)
                       /\ FromText(Text(c, "Foo")) = "error"
                       /\ FromText(Text(c, "Log")) = "error"
=============================================================================
