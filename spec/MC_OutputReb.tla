---------------------------- MODULE MC_OutputReb ----------------------------
(* C16 part 3: Rebuild passes written \cap params to each constructor; prints *)
(* per component class the constructor keywords that no write() stores.       *)
EXTENDS Output, OutputReg
VARIABLE x
\* constructor keywords that the component sweep of the driver leaves at their default without saying why
Unswept(c) == (c.params \ (c.supplied \cup c.exempt)) \ c.given
ASSUME PrintT(<<"REB", ToJson({[name |-> c.name, lost |-> LostKeys(c), rebuilt |-> Rebuilt(c), unswept |-> Unswept(c), distinct |-> c.distinct] : c \in MCComponents})>>)
Init == x = 0
Next == UNCHANGED x
Spec == Init /\ [][Next]_x
\* what Rebuild hands to a constructor is always something the file holds
RebuildSound == \A c \in MCComponents : Rebuilt(c) \subseteq c.written
\* the component sweep of the driver is in the "distinct" input class of MC_OutputWr for every component: every
\* constructor keyword that the loader does not fill from elsewhere (and that is not explicitly exempted) is given a
\* non-default value, and the numeric values of one component are pairwise distinct
SweepComplete == \A c \in MCComponents : Unswept(c) = {} /\ c.distinct
=============================================================================
