---------------------------- MODULE MC_OutputReb ----------------------------
(* C16 part 3: Rebuild passes written \cap params to each constructor; prints *)
(* per component class the constructor keywords that no write() stores.       *)
EXTENDS Output, OutputReg
VARIABLE x
ASSUME PrintT(<<"REB", ToJson({[name |-> c.name, lost |-> LostKeys(c), rebuilt |-> Rebuilt(c)] : c \in MCComponents})>>)
Init == x = 0
Next == UNCHANGED x
Spec == Init /\ [][Next]_x
\* what Rebuild hands to a constructor is always something the file holds
RebuildSound == \A c \in MCComponents : Rebuilt(c) \subseteq c.written
=============================================================================
