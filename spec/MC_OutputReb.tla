---------------------------- MODULE MC_OutputReb ----------------------------
(* C16 part 3: Rebuild passes written \cap params to each constructor; prints *)
(* per component class the constructor keywords that no write() stores.       *)
EXTENDS Output, OutputReg
VARIABLE x
\* constructor keywords that the component sweep of the driver leaves at their default without saying why
Unswept(c) == (c.params \ (c.supplied \cup c.exempt)) \ c.given
\* keywords that have a falsy value of their own type (0, 0.0, False, []) for which the sweep neither ran the model with that
\* value nor found that the model rejects it (the "falsy" input class of MC_OutputWr)
Unzeroed(c) == c.zeroable \ (c.zeroed \cup c.nozero)
ASSUME PrintT(<<"REB", ToJson({[name |-> c.name, lost |-> LostKeys(c), rebuilt |-> Rebuilt(c), unswept |-> Unswept(c), distinct |-> c.distinct,
                               unzeroed |-> Unzeroed(c), zeroed |-> c.zeroed] : c \in MCComponents})>>)
Init == x = 0
Next == UNCHANGED x
Spec == Init /\ [][Next]_x
\* what Rebuild hands to a constructor is always something the file holds
RebuildSound == \A c \in MCComponents : Rebuilt(c) \subseteq c.written
\* the component sweep of the driver is in the "distinct" input class of MC_OutputWr for every component: every
\* constructor keyword that the loader does not fill from elsewhere (and that is not explicitly exempted) is given a
\* non-default value, the numeric values of one component are pairwise distinct, and every keyword that has a falsy value of
\* its type was handed that value ("falsy" class) unless the model rejects it
SweepComplete == \A c \in MCComponents : Unswept(c) = {} /\ c.distinct /\ Unzeroed(c) = {}
=============================================================================
