---------------------------- MODULE Atmosphere ----------------------------
(***************************************************************************)
(* C11 -- vertical structure of the atmosphere.                            *)
(*                                                                         *)
(* Levels P[0..n] (n layers, level 0 is the surface) decrease strictly;    *)
(* on the standard grid they are log-spaced between the two bounds and the *)
(* layer pressure is the geometric mean of its two levels.  Altitude       *)
(* starts at 0 and obeys, bottom-up,                                       *)
(*     z[i+1] = z[i] + H[i] * Lr[i],   Lr[i] = ln(P[i]/P[i+1]) > 0         *)
(*     H[i]   = k T[i] / (mu[i] g[i]), g[i]  = GM / (R + z[i])^2           *)
(* number density is P/(kT), and every per-layer profile that the model    *)
(* exposes or stores has exactly one entry per layer, ALIGNED with the     *)
(* pressure profile: mixing ratios mix[gas][layer] are the rows of the     *)
(* chemistry table, mu[layer] the weighted mean of that row, and it is     *)
(* that mu that enters H.  The relations hold on every public route that   *)
(* computes the structure, in every length unit it is asked to return      *)
(* (HydroStepRelUnit), and they still hold after the model has been        *)
(* evaluated (evaluation only reads the structure), whatever the TYPE of   *)
(* the components the model is assembled from: a component only reads the  *)
(* arrays the model shares with it (RepeatableRel, TempComponentKinds).    *)
(*                                                                         *)
(* The relations are written once, in cross-multiplied form (no division), *)
(* over an abstract arithmetic (Mul, Add, Same, Lt passed as operators).   *)
(* MC_Atmosphere instantiates them with exact rationals (Rat) and checks   *)
(* them on the recurrence evaluated exactly for n <= 3; Trace_Atmosphere   *)
(* instantiates them with exact decimals (Dec) on the values logged from   *)
(* the real model, one local step obligation per layer, so n = 200 costs   *)
(* no more per step than n = 1.                                            *)
(***************************************************************************)
EXTENDS Integers, Sequences, FiniteSets, TLC, Json, Rat, Dec

\* ------------------------------------------------------------- orderings
SeqStrictlyDecreasing(Lt(_, _), s) == \A i \in 1..(Len(s) - 1) : Lt(s[i + 1], s[i])
SeqStrictlyIncreasing(Lt(_, _), s) == \A i \in 1..(Len(s) - 1) : Lt(s[i], s[i + 1])

\* --------------------------------------------------------- level relations
\* layer pressure is the geometric mean of its two levels:  Pl^2 = P_lower * P_upper
GeoMeanRel(Mul(_, _), Same(_, _), layer, lower, upper) == Same(Mul(layer, layer), Mul(lower, upper))
\* three consecutive levels of a log-spaced grid:  b^2 = a c
LogSpacedRel(Mul(_, _), Same(_, _), a, b, c) == Same(Mul(b, b), Mul(a, c))

\* ------------------------------------------- array / file pressure profiles
\* An array (or file) pressure profile is handed the layer pressures in one of two orientations
\* and a flag `reverse`; it exposes the input, reversed if asked to.  Only the two options that
\* expose the layers surface first are inside the property's quantifier ("decreasing levels");
\* for those the exposed layers are the oriented input, the n+1 levels decrease strictly and
\* level k / k+1 bracket layer k (alignment of levels with layers).
RevSeq(s) == [k \in 1..Len(s) |-> s[Len(s) + 1 - k]]
Orientations == {"surface_first", "top_first"}
ArrayInput(lay, orient) == IF orient = "top_first" THEN RevSeq(lay) ELSE lay
Oriented(input, reverse) == IF reverse THEN RevSeq(input) ELSE input
OptionAdmissible(orient, reverse) == (orient = "top_first") <=> reverse
OptionSeq == <<[orient |-> "surface_first", reverse |-> FALSE], [orient |-> "top_first", reverse |-> TRUE]>>
BracketRel(Lt(_, _), lev, lay) ==
    /\ Len(lev) = Len(lay) + 1
    /\ \A k \in 1..Len(lay) : Lt(lay[k], lev[k]) /\ Lt(lev[k + 1], lay[k])
\* the exposed layers are the input in the declared orientation
OrientedInputRel(Same(_, _), lay, input, reverse) ==
    /\ Len(input) = Len(lay)
    /\ \A k \in 1..Len(lay) : Same(lay[k], Oriented(input, reverse)[k])

\* ------------------------------------------------------ hydrostatic step
\* one layer: bottom altitude z0, top altitude z1, thickness dz, scale height H and gravity g
\* evaluated at the bottom of the layer, layer temperature T and molecular weight mu,
\* Lr = ln(P_lower / P_upper), planet radius rad, gm = G M, kB Boltzmann's constant.
AdditiveRel(Add(_, _), Same(_, _), z0, z1, dz) == Same(z1, Add(z0, dz))
ThicknessRel(Mul(_, _), Same(_, _), dz, H, Lr) == Same(dz, Mul(H, Lr))
ScaleHeightRel(Mul(_, _), Same(_, _), H, g, T, mu, kB) == Same(Mul(Mul(H, mu), g), Mul(kB, T))
InverseSquareRel(Mul(_, _), Add(_, _), Same(_, _), g, z0, rad, gm) ==
    Same(Mul(g, Mul(Add(rad, z0), Add(rad, z0))), gm)
HydroStepRel(Mul(_, _), Add(_, _), Same(_, _), z0, z1, dz, H, g, T, mu, Lr, rad, gm, kB) ==
    /\ AdditiveRel(Add, Same, z0, z1, dz)
    /\ ThicknessRel(Mul, Same, dz, H, Lr)
    /\ ScaleHeightRel(Mul, Same, H, g, T, mu, kB)
    /\ InverseSquareRel(Mul, Add, Same, g, z0, rad, gm)

\* The step obligation is a statement about physical quantities, so it holds in every consistent
\* length unit: if a route returns its results in a unit of 1/u metres (z, dz, H and g multiplied by
\* u: 'km' is u = 1/1000, 'cm' is u = 100), the same relations hold between the RETURNED numbers
\* and the constants expressed in that unit (R u, GM u^3, k_B u^2).  A conversion applied to
\* anything that is fed back into g(z) inside the recurrence breaks exactly this.
HydroStepRelUnit(Mul(_, _), Add(_, _), Same(_, _), u, z0, z1, dz, H, g, T, mu, Lr, rad, gm, kB) ==
    HydroStepRel(Mul, Add, Same, z0, z1, dz, H, g, T, mu, Lr,
                 Mul(rad, u), Mul(gm, Mul(u, Mul(u, u))), Mul(kB, Mul(u, u)))

\* ------------------------------------------------- chemistry tables
\* A file / array chemistry is handed a table tab[layer][gas] (one row per layer, surface first, one
\* column per gas).  What is exposed is mix[gas][layer], and the mean molecular weight of layer k is
\* the weighted mean of ROW k.  Both clauses are "aligned with the pressure profile": entry k of a
\* per-layer profile belongs to layer k.  A table whose entries are all distinct makes every
\* misalignment (shift, reversal, transposition of a square table) visible.
DistinctTable(tab) ==
    \A k1 \in 1..Len(tab), k2 \in 1..Len(tab) : \A g1 \in 1..Len(tab[k1]), g2 \in 1..Len(tab[k2]) :
        (<<k1, g1>> # <<k2, g2>>) => tab[k1][g1] # tab[k2][g2]
ExposedMix(tab, ngas) == [g \in 1..ngas |-> [k \in 1..Len(tab) |-> tab[k][g]]]
MixAlignedRel(Same(_, _), mix, tab, n) ==
    /\ Len(tab) = n
    /\ \A g \in 1..Len(mix) : Len(mix[g]) = n
    /\ \A k \in 1..n : /\ Len(tab[k]) = Len(mix)
                       /\ \A g \in 1..Len(mix) : Same(mix[g][k], tab[k][g])
\* sum_j a[j] * b[j]
SumProd(Mul(_, _), Add(_, _), zero, a, b) ==
    LET f[j \in 0..Len(a)] == IF j = 0 THEN zero ELSE Add(f[j - 1], Mul(a[j], b[j])) IN f[Len(a)]
\* mu of layer k is the weighted mean of the mixing ratios exposed for layer k
WeightedMeanRel(Mul(_, _), Add(_, _), Same(_, _), zero, muk, mix, k, w) ==
    Same(muk, SumProd(Mul, Add, zero, [g \in 1..Len(mix) |-> mix[g][k]], w))

\* ------------------------------------------------------------- ideal gas
DensityRel(Mul(_, _), Same(_, _), rho, P, T, kB) == Same(Mul(Mul(rho, kB), T), P)

\* ------------------------------------------ tabulated temperature T(P)
\* A tabulated temperature (array with pressure points, file with a pressure column) is a list of NODES
\* [l |-> position, T |-> temperature]; the position is a monotone function of log P (larger = deeper),
\* listed surface first (strictly decreasing).  "One entry per layer ALIGNED with the pressure profile":
\* the entry of layer k belongs to the PRESSURE of layer k, wherever the grid lies relative to the table:
\*   * a layer whose pressure is a node's takes that node's temperature;
\*   * a layer DEEPER than the deepest node takes the temperature of the deepest node (the surface end of
\*     the table), a layer HIGHER than the highest node that of the highest node (the top end): the
\*     nearest end on each side, never the far one;
\*   * a layer between two neighbouring nodes takes a temperature between theirs (inclusive; the statement
\*     does not fix the interpolation rule).
\* TableBrackets: the set of admissible [lo, hi] ranges for a layer at position lam.  slack = resolution of
\* the logged positions (0: exact; > 0: a layer within slack of a node / an end may be on either side, and
\* every reading is accepted).  ends = "nearest" (the property) | "swapped" (a wrong design: out-of-range
\* layers take the FAR end) -- the latter only for expected counterexamples.
NodesDecreasing(nd) == Len(nd) >= 2 /\ \A j \in 1..(Len(nd) - 1) : nd[j + 1].l < nd[j].l
IMin2(a, b) == IF a < b THEN a ELSE b
IMax2(a, b) == IF a < b THEN b ELSE a
TableBrackets(nd, lam, slack, ends) ==
    LET m  == Len(nd)
        tb == IF ends = "swapped" THEN nd[m].T ELSE nd[1].T        \* exposed below (deeper than) the table
        ta == IF ends = "swapped" THEN nd[1].T ELSE nd[m].T        \* exposed above the table
        on == {j \in 1..m : nd[j].l = lam}
    IN  IF slack = 0 /\ on # {} THEN {[lo |-> nd[j].T, hi |-> nd[j].T] : j \in on}
        ELSE (IF lam >= nd[1].l - slack THEN {[lo |-> tb, hi |-> tb]} ELSE {})
             \cup (IF lam <= nd[m].l + slack THEN {[lo |-> ta, hi |-> ta]} ELSE {})
             \cup {[lo |-> IMin2(nd[j].T, nd[j + 1].T), hi |-> IMax2(nd[j].T, nd[j + 1].T)] :
                      j \in {jj \in 1..(m - 1) : nd[jj].l + slack >= lam /\ lam >= nd[jj + 1].l - slack}}
TableAlignedRel(nd, lam, Tk, slack, tol, ends) ==
    \E b \in TableBrackets(nd, lam, slack, ends) : b.lo - tol <= Tk /\ Tk <= b.hi + tol
\* How a grid may lie relative to a table that tells it the temperatures T[1..n] of its layers exactly
\* (l2 = DOUBLED layer exponents, so that a point half a unit away from a layer is an integer):
\*   table_inside_both : the grid reaches beyond the table on BOTH sides (first node just above layer 1, last node
\*                       just below layer n, the layers in between are nodes);
\*   table_inside_below / table_inside_above : on one side only;
\*   table_beyond      : the table reaches beyond the grid on both sides (two further nodes with OTHER
\*                       temperatures, which no layer may take).
TableCovers(n) == {"table_beyond"} \cup (IF n >= 2 THEN {"table_inside_both", "table_inside_below", "table_inside_above"} ELSE {})
TableNodes(cover, l2, T) ==
    LET n     == Len(T)
        first == [l |-> l2[1] - 1, T |-> T[1]]
        last  == [l |-> l2[n] + 1, T |-> T[n]]
        Mid(a, b) == [k \in 1..(b - a + 1) |-> [l |-> l2[a + k - 1], T |-> T[a + k - 1]]]
    IN  CASE cover = "table_inside_both"  -> <<first>> \o Mid(2, n - 1) \o <<last>>
          [] cover = "table_inside_below" -> <<first>> \o Mid(2, n)
          [] cover = "table_inside_above" -> Mid(1, n - 1) \o <<last>>
          [] cover = "table_beyond"       -> <<[l |-> l2[1] + 1, T |-> T[1] + 1]>> \o Mid(1, n)
                                             \o <<[l |-> l2[n] - 1, T |-> T[n] + 1]>>

\* ------------------------------------- components and the arrays they share
\* A forward model is assembled from COMPONENTS of any built-in type (pressure grid, temperature
\* profile, chemistry and its gases, contributions).  The model hands its OWN per-layer arrays to
\* them -- the layer pressures to the temperature profile, pressures + temperature + altitude to the
\* chemistry and every gas -- not copies.  A component may only READ what it is handed: whatever the
\* component type, the layer pressure stays the geometric mean of ITS two levels, density stays
\* P/(kT) of the exposed P and T, and reading an exposed array twice with nothing set in between
\* gives the same array twice (RepeatableRel: entry by entry, exactly -- no tolerance); an array
\* handed to a public call is, after the call, what it was before.
RepeatableRel(first, second) ==
    /\ Len(first) = Len(second)
    /\ \A k \in 1..Len(first) : first[k] = second[k]
\* The built-in temperature components that can be TOLD the temperature of every layer (T[1..n]):
\* each of them exposes exactly T, so the structure that follows from T is the same whichever is used
\* (array: one value per layer; array_ppoints / file_pcol: (P, T) nodes given at the layer pressures;
\* file: one value per line; rodgers_identity: layer-by-layer profile with an identity covariance;
\* npoint_nodes: surface, top and the layers in between as (P, T) nodes, no smoothing;
\* isothermal: one number, expressible only if T is constant).  Guillot2010, a smoothed NPoint and a
\* correlated Rodgers2000 cannot be told T; for them (binding B) T is whatever they expose.
\* table_<cover>: a (P, T) table on its OWN pressure nodes which do not cover the grid / reach beyond it (below).
TempComponentKinds(T) ==
    {"array", "file", "rodgers_identity"} \cup TableCovers(Len(T))
    \cup (IF Len(T) >= 2 THEN {"array_ppoints", "file_pcol"} ELSE {})
    \cup (IF Len(T) <= 3 THEN {"npoint_nodes"} ELSE {})
    \cup (IF \A k \in 1..Len(T) : T[k] = T[1] THEN {"isothermal"} ELSE {})

\* ------------------------------------------------- profile bookkeeping
\* per-layer quantities the model exposes (attributes) and stores (generate_profiles())
LayerProfiles == {"pressure_profile", "temp_profile", "density_profile", "altitude_profile",
                  "gravity_profile", "scaleheight_profile", "mu_profile",
                  "active_mix_profile", "inactive_mix_profile"}
\* level-indexed arrays (only required to be consistent when present)
LevelProfiles == {"pressure_levels", "altitude_boundaries"}
\* lens: record  name |-> number of entries along the layer axis;  need: the names that must be there
OneEntryPerLayerRec(n, lens, need) ==
    /\ \A k \in need : k \in DOMAIN lens /\ lens[k] = n
    /\ \A k \in LevelProfiles \cap DOMAIN lens : lens[k] = n + 1
    /\ \A k \in DOMAIN lens \ LevelProfiles : lens[k] = n          \* deltaz, condensates, ...
WrongLengths(n, lens, need) ==
    {k \in need : k \notin DOMAIN lens \/ lens[k] # n}
    \cup {k \in LevelProfiles \cap DOMAIN lens : lens[k] # n + 1}
    \cup {k \in DOMAIN lens \ LevelProfiles : lens[k] # n}
=============================================================================
