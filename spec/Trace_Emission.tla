--------------------------- MODULE Trace_Emission ---------------------------
(* C02, binding B.  Every event is a projection of one real run of              *)
(* EmissionModel / DirectImageModel on a random atmosphere:                      *)
(*   quad   : the quadrature the model uses (nodes, weights scaled by S), the     *)
(*            number of points asked for (req) and the public route it was asked *)
(*            through (constructor keyword / set_num_gauss on the live model)    *)
(*            -> WeightsFacts: sum w = 1, sum w mu = 1/2, nodes inside (0,1),    *)
(*               exactly req points                                              *)
(*   planck : the repository's Planck function at one (wavenumber, temperature): *)
(*            xu = floor(10^4 h c nu / k T), err = |B/B_documented - 1| in units *)
(*            of 1e-16 -> within the rounding licensed by module PlanckTol       *)
(*   bounds : lo = min value/B_cold, hi = max value/B_hot (scaled by S);         *)
(*            iso = 1: lo, hi = min, max of value/B(T) -> IsothermalIdentity,    *)
(*            else HotColdBounds; sat = 1 licenses the clamp excess 2^-SlackE    *)
(*   direct : direct-image output / (flux Rp^2/d^2) -> one constant for all      *)
(* Stateless events are judged one by one (rejected ones are printed as BAD);    *)
(* the direct-image law is stateful through the register ref.                    *)
(* Coverage of the quantifier ("numbers of quadrature points (>= 1)", every       *)
(* regime of h c nu / k T) is part of the specification: COVER lists the (route,  *)
(* size class) cells and the decades of x that the trace does NOT contain.        *)
EXTENDS Integers, Sequences, TLC, Json, IOUtils, TLCExt, PlanckTol
VARIABLES l, ref
TraceLog == ndJsonDeserialize(IOEnv.TRACE_FILE)
SlackE == 14
Tol == 2
RECURSIVE Pow2(_)
Pow2(k) == IF k = 0 THEN 1 ELSE 2 * Pow2(k - 1)
AbsI(x) == IF x < 0 THEN -x ELSE x
RECURSIVE SumTo(_, _)
SumTo(s, i) == IF i = 0 THEN 0 ELSE s[i] + SumTo(s, i - 1)
SlackUnits(S) == (S \div Pow2(SlackE)) + 1          \* ceil(S * 2^-14) >= S * exp(-10)

QuadOk(e) ==
    LET n  == Len(e.mu)
        wm == [i \in 1..n |-> e.mu[i] * e.w[i]]
    IN  /\ n >= 1 /\ Len(e.w) = n
        /\ \A i \in 1..n : e.mu[i] > 0 /\ e.mu[i] < e.S /\ e.w[i] > 0
        /\ AbsI(SumTo(e.w, n) - e.S) <= n
        /\ AbsI(2 * SumTo(wm, n) - e.S * e.S) <= 2 * n * e.S
QuadEvOk(e) == QuadOk(e) /\ Len(e.mu) = e.req
PlanckOk(e) == XDomainOk(e.xu) /\ e.err >= 0 /\ e.err <= PlanckTolU(e.xu)
BoundsOk(e) ==
    /\ e.lo >= e.S - Tol
    /\ e.hi <= e.S + e.sat * SlackUnits(e.S) + Tol
DirectOk(e) == e.r > 0 /\ (ref = 0 \/ AbsI(e.r - ref) <= Tol)

Ok(e) == CASE e.ev = "quad"   -> QuadEvOk(e)
           [] e.ev = "planck" -> PlanckOk(e)
           [] e.ev = "bounds" -> BoundsOk(e)
           [] e.ev = "direct" -> DirectOk(e)
           [] OTHER -> FALSE
\* ---- coverage classes
NClass(n) == IF n <= 1 THEN 1 ELSE IF n <= 4 THEN 4 ELSE IF n <= 8 THEN 8 ELSE IF n <= 16 THEN 16
             ELSE IF n <= 32 THEN 32 ELSE 64
QuadRoutes == {"constructor", "set_num_gauss"}
EvIdx(kind) == {i \in 1..Len(TraceLog) : TraceLog[i].ev = kind}
QuadMissing == (QuadRoutes \X {1, 4, 8, 16, 32, 64})
               \ {<<TraceLog[i].route, NClass(TraceLog[i].req)>> : i \in EvIdx("quad")}
PlanckMissing == XDecades \ {XDecade(TraceLog[i].xu) : i \in EvIdx("planck")}
ASSUME PrintT(<<"COVER", ToJson([quad |-> QuadMissing, planck |-> PlanckMissing])>>)

Init == l = 1 /\ ref = 0
Step == /\ l <= Len(TraceLog)
        /\ LET e == TraceLog[l] IN
             /\ IF Ok(e) THEN TRUE ELSE PrintT(<<"BAD", ToJson([l |-> l, id |-> e.id, ev |-> e.ev])>>)
             /\ ref' = IF e.ev = "direct" /\ ref = 0 /\ e.r > 0 THEN e.r ELSE ref
        /\ l' = l + 1
Spec == Init /\ [][Step]_<<l, ref>>
Accepted == TLCGet("stats").diameter - 1 = Len(TraceLog)
=============================================================================
