SPECIFICATION Spec
CONSTANTS
  NL = 2
  NW = 1
  NG = 2
  KVals = {0,1,3,300,1100}
  LVals = {1,2}
  Basis = FALSE
  Export = FALSE
CONSTRAINT Emit
CHECK_DEADLOCK FALSE
INVARIANT SoundInUnit
INVARIANT SoundSaturatedOpaque
INVARIANT SoundBetweenExtremes
INVARIANT SoundDegenerate
INVARIANT SoundMonotone
INVARIANT SoundFits
INVARIANT GuardBlind
INVARIANT RefuteGuardSaturated
INVARIANT RefuteGuardMonotone
INVARIANT RefuteRenorm
