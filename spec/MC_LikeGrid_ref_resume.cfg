SPECIFICATION Spec
CONSTANTS
  Rule = "max"
  Families = {"ovl"}
  Starts = {7, 30}
  Lens = {3, 5}
  ASet = {3}
  ARef = 2
  Search = "resume"
  OvlN = 2
  Licensed = TRUE
  Export = FALSE
INVARIANT LikelihoodOfFullGrid
CHECK_DEADLOCK FALSE
