SPECIFICATION Spec
CONSTANTS
  NMax = 1
  L0 = 12
  Spacings = {2,4}
  BStep = 2
  MaxSlabs = 2
  SKinds = {"flat","lee","deck"}
  Scratch = "levels"
  Export = FALSE
INVARIANT EachSlabOwnRange
CONSTRAINT Emit
CHECK_DEADLOCK FALSE
