SPECIFICATION Spec
CONSTANTS
  NL = 3
  NW = 2
  NG = 2
  KVals = {0}
  LVals = {1}
  Basis = TRUE
  Export = TRUE
CONSTRAINT Emit
CHECK_DEADLOCK FALSE
INVARIANT SoundInUnit
INVARIANT SoundSaturatedOpaque
INVARIANT SoundBetweenExtremes
INVARIANT SoundDegenerate
INVARIANT SoundMonotone
INVARIANT SoundFits
INVARIANT GuardBlind
INVARIANT RefuteGuardSaturated
INVARIANT RefuteGuardMonotone
INVARIANT RefuteRenorm
