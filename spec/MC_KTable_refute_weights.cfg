SPECIFICATION KSpec
CONSTANTS
  NL = 2
  NW = 1
  NT = 3
  NG = 2
  KCodes = {0, 101, 103}
  WIds = {7}
  LMode = "ones"
  ECodes = {0}
  TCodes = {11,12}
  QuadIds = {1}
  ClampE = 15
  SlackE = 14
  Variant = "code"
  Btab <- MCBtab
  Bstar <- MCBstar
  TabId = 1
  Rp = 2
  Rs = 5
  Dist = 3
  KD = 2
  Export = FALSE
INVARIANT RefuteUnnormalised
CONSTRAINT KEmitVec
CHECK_DEADLOCK FALSE
