SPECIFICATION Spec
CONSTANTS
  MaxKeys = 0
  Export = FALSE
INVARIANT TypedAsDocumented
CHECK_DEADLOCK FALSE
