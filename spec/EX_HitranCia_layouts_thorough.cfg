SPECIFICATION HSpec
CONSTANTS
  NB = 2
  TempK <- MCTemp2
  SortBeforeFill = TRUE
  OutsideRule = "zero"
  BoundsRule = "given"
  Layouts = {"k", "k+err", "ref:k", "ref:k+err"}
  KField = "second"
  HeadFrom = "start"
  QTemps = {200, 250, 400}
  Export = TRUE
INVARIANT HTypeOK
INVARIANT ReaderMatchesTable
INVARIANT GivenKept
INVARIANT RowsConvex
INVARIANT HFits
INVARIANT EveryLayoutRead
CHECK_DEADLOCK FALSE
CONSTRAINT HEmit
