SPECIFICATION Spec
CONSTANTS
  KeysTop = {"a","b","c"}
  KeysNested = {"a"}
  Depth = 2
  Export = FALSE
  Catalogue = "kinds"
  SizeTest = "order"
  Caught = {"TypeError","ValueError"}
INVARIANT RoundTrip
INVARIANT NoError
INVARIANT SizeArith
INVARIANT SizeFirm
CONSTRAINT Emit
CHECK_DEADLOCK FALSE
