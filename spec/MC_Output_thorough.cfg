SPECIFICATION Spec
CONSTANTS
  KeysTop = {"a","b","c"}
  KeysNested = {"a"}
  Depth = 2
  Export = FALSE
  Caught = {"TypeError","ValueError"}
INVARIANT RoundTrip
INVARIANT NoError
CONSTRAINT Emit
CHECK_DEADLOCK FALSE
