------------------------- MODULE MC_ChemistrySources -------------------------
(* C10 -- "Gases are split into absorbing and non-absorbing exactly by availability of opacity     *)
(* data": the SOURCE of the opacity data is a free dimension.  A molecule is available when its     *)
(* file lies in the cross-section directory (dir), when an opacity object was registered by hand    *)
(* (hand; through OpacityCache().add_opacity or load_opacity(opacities = ..), before or after the   *)
(* directory was set), or both; the two sources may be present at once for different molecules.     *)
(* State: dir, hand (sets of molecules), route / order (how and when the hand ones were registered),*)
(* out = the split of the declared gases.  Variant "hand_fallback" (hand-registered opacities count *)
(* only while the directory yields nothing) is refuted by RF_ChemistrySources_hand_fallback.cfg.    *)
EXTENDS Chemistry, SequencesExt, FiniteSets, TLC
CONSTANTS Mols,            \* molecules that may have opacity data
          MaxDir, MaxHand, \* at most so many molecules per source
          Variant, Export
VARIABLES phase, dir, hand, route, order, out
vars == <<phase, dir, hand, route, order, out>>

Gases == <<"H2", "He", "H2O", "CH4", "N2", "CO2">>      \* fill gases H2, He; trace gases in declaration order
Routes == {"add_opacity", "load_opacity"}
Orders == {"hand_first", "path_first"}
SubsetsUpTo(S, k) == {T \in SUBSET S : Cardinality(T) <= k}
Init == /\ phase = "in" /\ dir \in SubsetsUpTo(Mols, MaxDir) /\ hand \in SubsetsUpTo(Mols, MaxHand)
        /\ route \in Routes /\ order \in Orders
        /\ (hand = {} => route = "add_opacity" /\ order = "hand_first")
        /\ out = [active |-> <<>>, inactive |-> <<>>]
Avail == AvailableFrom(dir, hand, Variant)
Split == /\ phase = "in"
         /\ out' = [active |-> Names(Gases, ActiveIdx(Gases, Avail)), inactive |-> Names(Gases, InactiveIdx(Gases, Avail))]
         /\ phase' = "done"
         /\ UNCHANGED <<dir, hand, route, order>>
Next == Split
Spec == Init /\ [][Next]_vars

Done == phase = "done"
SeqSet(s) == {s[i] : i \in 1..Len(s)}
Source == IF dir = {} /\ hand = {} THEN "none" ELSE IF hand = {} THEN "directory" ELSE IF dir = {} THEN "hand"
          ELSE IF dir \cap hand = {} THEN "both" ELSE "both_overlapping"
\* the clause: a declared gas absorbs exactly when opacity data is available for it, from whichever source
SplitFollowsAvailability == Done => \A i \in 1..Len(Gases) :
    (Gases[i] \in SeqSet(out.active)) <=> (Gases[i] \in dir \cup hand)
SplitIsPartitionInOrder == Done =>
    /\ Len(out.active) + Len(out.inactive) = Len(Gases)
    /\ SeqSet(out.active) \cap SeqSet(out.inactive) = {}
    /\ out.active = SelectSeq(Gases, LAMBDA g : g \in SeqSet(out.active))
    /\ out.inactive = SelectSeq(Gases, LAMBDA g : g \in SeqSet(out.inactive))
Emit == (Export /\ Done) =>
    PrintT(<<"SRC", ToJson([gases |-> Gases, dir |-> SetToSeq(dir), hand |-> SetToSeq(hand), route |-> route, order |-> order,
                            source |-> Source, active |-> out.active, inactive |-> out.inactive])>>)
=============================================================================
