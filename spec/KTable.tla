------------------------------- MODULE KTable -------------------------------
(***************************************************************************)
(* C20 -- correlated-k opacities                                           *)
(* (taurex/contributions/absorption.py: contribute_ktau;                   *)
(*  taurex/model/emission.py: evaluate_emission_ktables,                   *)
(*  contribute_ktau_emission).                                             *)
(*                                                                         *)
(* kk[l][w][g] is the vertical optical depth (units of ln 2) of the        *)
(* molecular absorber in layer l, wavenumber w, quadrature point g;        *)
(* wts[g] are rational weights; c[l][w] is a second, cross-section-like    *)
(* contribution ("grey").  A transmittance is the weight-averaged          *)
(* exponential  sum_g wts[g] 2^-tau_g ; contributions combine as products  *)
(* (the code adds -log of the average to tau).  Emission: the same layered *)
(* integral as module Emission with these transmittances and WITHOUT the   *)
(* exp(-10) clamp (the k-table branch never applies it to the intensity).  *)
(* Transmission: slant paths with integer chord multipliers Ltab[j][i]     *)
(* (tangent layer j, i-th layer above it), as in path_integral ->          *)
(* contribute(0, n-j, j, j, ..).                                           *)
(* c is the SUM of all cross-section-like contributions of the model:      *)
(* every contribution ADDS its optical depth to what the path holds, so    *)
(* ktr / kint depend on that sum only, not on the number of contributions  *)
(* carrying it nor on their order around the k-table term (the lists the   *)
(* vectors are realised with: MC_KTable.tla, KLists; the design-level      *)
(* statement with its mutants: KTableHistory.tla, clist / PathRead).       *)
(***************************************************************************)
EXTENDS Emission

\* ------------------------------------------------------------ pure operators
RECURSIVE KTauFrom(_, _, _, _)
KTauFrom(kk, l, w, g) == IF l > Len(kk) THEN 0 ELSE kk[l][w][g] + KTauFrom(kk, l + 1, w, g)

RECURSIVE WAvg(_, _, _)
\* sum_{g <= n} wts[g] * 2^-(ex[g])
WAvg(wts, ex, n) == IF n = 0 THEN <<>> ELSE WAvg(wts, ex, n - 1) \o DPow2(wts[n], ex[n])

\* emission: transmittance of layers l..NL along 1/mu = m, both contributions
KTrans(kk, wts, c, l, w, m) ==
    WAvg(wts, [g \in 1..Len(wts) |-> m * (KTauFrom(kk, l, w, g) + TauFrom(c, l, w))], Len(wts))

WithB(d, sign, t) == [i \in 1..Len(d) |-> <<sign * d[i][1], d[i][2], d[i][3], t>>]
RECURSIVE KLayersUpTo(_, _, _, _, _, _, _)
KLayersUpTo(kk, wts, c, tpp, l, w, m) ==
    IF l = 0 THEN <<>>
    ELSE KLayersUpTo(kk, wts, c, tpp, l - 1, w, m)
         \o WithB(KTrans(kk, wts, c, l + 1, w, m), 1, tpp[l]) \o WithB(KTrans(kk, wts, c, l, w, m), -1, tpp[l])
KIntensity(kk, wts, c, tpp, w, m) ==
    WithB(KTrans(kk, wts, c, 1, w, m), 1, tpp[1]) \o KLayersUpTo(kk, wts, c, tpp, Len(kk), w, m)

\* transmission: tangent layer j, chords Ltab[j][1..NL-j+1]
RECURSIVE KPathTau(_, _, _, _, _, _)
KPathTau(kk, Ltab, j, w, g, i) ==
    IF i = 0 THEN 0 ELSE kk[j + i - 1][w][g] * Ltab[j][i] + KPathTau(kk, Ltab, j, w, g, i - 1)
RECURSIVE XPathTau(_, _, _, _, _)
XPathTau(c, Ltab, j, w, i) ==
    IF i = 0 THEN 0 ELSE c[j + i - 1][w] * Ltab[j][i] + XPathTau(c, Ltab, j, w, i - 1)
KPathTrans(kk, wts, c, Ltab, j, w) ==
    LET n == Len(kk) - j + 1
    IN  WAvg(wts, [g \in 1..Len(wts) |-> KPathTau(kk, Ltab, j, w, g, n) + XPathTau(c, Ltab, j, w, n)], Len(wts))

\* weights
RECURSIVE RSumTo(_, _)
RSumTo(wts, n) == IF n = 0 THEN RZero ELSE RAdd(wts[n], RSumTo(wts, n - 1))
WeightsOk(wts) == RSumTo(wts, Len(wts)) = ROne /\ \A g \in 1..Len(wts) : RLt(RZero, wts[g])
RECURSIVE DenLcm(_, _)
DenLcm(wts, n) == IF n = 0 THEN 1 ELSE LCM(wts[n][2], DenLcm(wts, n - 1))

RECURSIVE ISumTo(_, _)
ISumTo(s, n) == IF n = 0 THEN 0 ELSE s[n] + ISumTo(s, n - 1)

WTable == << <<ROne>>,
             << <<1, 2>>, <<1, 2>> >>, << <<1, 4>>, <<3, 4>> >>, << <<2, 3>>, <<1, 3>> >>,
             << <<1, 4>>, <<1, 4>>, <<1, 2>> >>, << <<1, 2>>, <<1, 4>>, <<1, 4>> >>,
             << <<1, 2>>, <<1, 4>> >> >>          \* 7: deliberately NOT normalised (refutation config)

\* ------------------------------------------------------------- state machine
CONSTANTS NG, KCodes, WIds, LMode
VARIABLES kpc, kk, wid, ktr, kint
kvars == <<kpc, kk, wid, ktr, kint, e, tp, qid, pc, lay, inten, flux, kind, out>>
Idle == <<pc, lay, inten, flux, kind, out>>        \* the variables of module Emission's own state machine are not used here

\* row code: digits base 100, order (w=1,g=1), (w=1,g=2), .., (w=NW,g=NG)
KRowOf(code) == [w \in 1..NW |-> [g \in 1..NG |-> Digit(code, 100, NW * NG, (w - 1) * NG + g)]]
KArrays == [1..NL -> {KRowOf(code) : code \in KCodes}]
Wts  == WTable[wid]
Ltab == [j \in 1..NL |-> [i \in 1..(NL - j + 1) |->
            IF LMode = "ones" THEN 1 ELSE 1 + ((i + 2 * j) % 3)]]

KInit == /\ kpc = "transmit"
         /\ kk \in KArrays /\ wid \in WIds /\ e \in EArrays /\ tp \in TProfiles /\ qid \in QuadIds
         /\ ktr = <<>> /\ kint = <<>>
         /\ pc = "unused" /\ lay = 0 /\ inten = <<>> /\ flux = <<>> /\ kind = "none" /\ out = <<>>
KTransmit == /\ kpc = "transmit"
             /\ ktr' = [j \in 1..NL |-> [w \in 1..NW |-> KPathTrans(kk, Wts, e, Ltab, j, w)]]
             /\ kpc' = "emit"
             /\ UNCHANGED <<kk, wid, kint, e, tp, qid, Idle>>
KEmit == /\ kpc = "emit"
         /\ kint' = [a \in 1..NA |-> [w \in 1..NW |-> KIntensity(kk, Wts, e, tp, w, QInvMu(Quad, a))]]
         /\ kpc' = "done"
         /\ UNCHANGED <<kk, wid, ktr, e, tp, qid, Idle>>
KNext == KTransmit \/ KEmit
KSpec == KInit /\ [][KNext]_kvars

\* ------------------------------------------------------------------ clauses
KDone == kpc = "done"
Degenerate == \A l \in 1..NL : \A w \in 1..NW : \A g \in 1..NG : kk[l][w][g] = kk[l][w][1]
\* the same numbers as cross-sections: both contributions added
EffE == [l \in 1..NL |-> [w \in 1..NW |-> kk[l][w][1] + e[l][w]]]
NeverClamp == 1000000
KMaxTau(j, w) == LET n == NL - j + 1
                     S == {KPathTau(kk, Ltab, j, w, g, n) : g \in 1..NG}
                 IN  CHOOSE x \in S : \A y \in S : y <= x
KMinTau(j, w) == LET n == NL - j + 1
                     S == {KPathTau(kk, Ltab, j, w, g, n) : g \in 1..NG}
                 IN  CHOOSE x \in S : \A y \in S : x <= y

DegenerateEqualsXsec ==
    (KDone /\ Degenerate /\ WeightsOk(Wts)) =>
        /\ \A j \in 1..NL : \A w \in 1..NW :
              DEq(ktr[j][w], DPow2(ROne, XPathTau(EffE, Ltab, j, w, NL - j + 1)))
        /\ \A a \in 1..NA : \A w \in 1..NW :
              LET m  == QInvMu(Quad, a)
                  kv == BEval(kint[a][w], Bcol(w))
                  xu == BEval(Intensity(EffE, tp, w, m, NeverClamp, "code"), Bcol(w))
                  xc == BEval(Intensity(EffE, tp, w, m, ClampE, "code"), Bcol(w))
                  sl == DPow2(Q(NL * Btab[TMaxOf(tp)][w]), ClampE)      \* licensed: clamped terms are < 2^-15 each
              IN  /\ DEq(kv, xu)
                  /\ DLe(DSub(kv, xc), sl) /\ DLe(DSub(xc, kv), sl)
                  /\ (~ClampedFrom(EffE, 1, ClampE) => DEq(kv, xc))

TransmittanceInUnitInterval ==
    (KDone /\ WeightsOk(Wts)) =>
        /\ \A j \in 1..NL : \A w \in 1..NW : DSign(ktr[j][w]) >= 0 /\ DLe(ktr[j][w], One)
        /\ \A l \in 1..(NL + 1) : \A a \in 1..NA : \A w \in 1..NW :
              LET t == KTrans(kk, Wts, e, l, w, QInvMu(Quad, a)) IN DSign(t) >= 0 /\ DLe(t, One)

BetweenExtremes ==
    (KDone /\ WeightsOk(Wts)) => \A j \in 1..NL : \A w \in 1..NW :
        LET x == XPathTau(e, Ltab, j, w, NL - j + 1)
        IN  /\ DLe(DPow2(ROne, KMaxTau(j, w) + x), ktr[j][w])
            /\ DLe(ktr[j][w], DPow2(ROne, KMinTau(j, w) + x))

\* sum_g wts[g] 2^-tau_g >= 2^-(sum_g wts[g] tau_g): with wts[g] = p_g / D raise both sides to the power D
JensenLowerBound ==
    (KDone /\ WeightsOk(Wts)) => \A j \in 1..NL : \A w \in 1..NW :
        LET D  == DenLcm(Wts, NG)
            n  == NL - j + 1
            ex == [g \in 1..NG |-> (Wts[g][1] * (D \div Wts[g][2])) * KPathTau(kk, Ltab, j, w, g, n)]
        IN  DLe(DPow2(ROne, ISumTo(ex, NG) + D * XPathTau(e, Ltab, j, w, n)), DPow(ktr[j][w], D))

\* the layered integral keeps its consequences in k-table mode (no clamp: exactly)
KTelescoping ==
    (KDone /\ WeightsOk(Wts)) => \A a \in 1..NA : \A w \in 1..NW : DEq(BCoefAll(kint[a][w]), One)
KHotColdBounds ==
    (KDone /\ WeightsOk(Wts)) => \A a \in 1..NA : \A w \in 1..NW :
        LET v == BEval(kint[a][w], Bcol(w))
        IN  DLe(DConst(Q(Btab[TMinOf(tp)][w])), v) /\ DLe(v, DConst(Q(Btab[TMaxOf(tp)][w])))

\* non-vacuity: with weights that do not sum to one the degenerate case does NOT reduce to cross-sections
RefuteUnnormalised ==
    (KDone /\ Degenerate) => \A j \in 1..NL : \A w \in 1..NW :
        DEq(ktr[j][w], DPow2(ROne, XPathTau(EffE, Ltab, j, w, NL - j + 1)))

KFitsInv == KDone => /\ \A j \in 1..NL : \A w \in 1..NW : DFits(ktr[j][w]) /\ DenLcm(Wts, NG) <= 4     \* => |coefficients| of the D-th power sum to <= 4^4
                     /\ \A a \in 1..NA : \A w \in 1..NW : DFits(BEval(kint[a][w], Bcol(w)))
=============================================================================
