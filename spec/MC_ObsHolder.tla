---------------------------- MODULE MC_ObsHolder ----------------------------
(* Model-checking / export instance of ObsHolder.                                                         *)
(*   design   HSpec without a history variable over the whole reachable graph, all policies: the clauses  *)
(*            hold for the sound ones, the three unsound ones are refuted (TLC -continue); the same run    *)
(*            prints the table of observations (bins, exact binned model, exact chi-squared).             *)
(*   short    XSpec: every history of Depth actions on ONE holder, with the unsound policies it exposes.  *)
(*   walks    SSpec in simulation mode: longer random histories on two holders.                           *)
(* Observations (lattice; native cells of width 8 centred on 8, 16, .., 160):                             *)
(*   1  four bins [20,40] [46,66] [60,80] [100,136]      overlapping bins, a gap, unequal widths          *)
(*   2  four bins [16,32] [36,64] [78,102] [110,150]     the same number of bins elsewhere                *)
(*   3  three bins [20,60] [60,100] [100,140]            another number of bins                           *)
EXTENDS ObsHolder, Json
CONSTANTS Depth, Export,
          Pattern      \* "any" | "alternate" (short histories: give an observation, use, give, use, ...)
VARIABLE hist
MCOC   == << <<30, 56, 70, 118>>, <<24, 50, 90, 130>>, <<40, 80, 120>> >>
MCOW   == << <<20, 20, 20, 36>>,  <<16, 28, 24, 40>>,  <<40, 40, 40>> >>
MCODev == << <<1, -2, 0, 3>>,     <<-1, 2, 1, 0>>,     <<2, 0, -1>> >>
MCOErr == << <<2, 1, 3, 2>>,      <<1, 2, 2, 3>>,      <<3, 1, 2>> >>
MCNatP == [k \in 1..20 |-> 8 * k]

Alive == Sound(V) \/ HolderBinsOnItsObservation
MSpec == HInit /\ hist = <<>> /\ [][Alive /\ HNext /\ UNCHANGED hist]_<<hvars, hist>>

Acts == [a : {"construct"}, h : Hs, o : 0..NO, u : {"-"}]
        \cup [a : {"set"}, h : Hs, o : 1..NO, u : {"-"}]
        \cup [a : {"use"}, h : Hs, o : {0}, u : Uses]
DoAct(x) == CASE x.a = "construct" -> Construct(x.h, x.o)
              [] x.a = "set"       -> SetObserved(x.h, x.o)
              [] OTHER             -> Use(x.h, x.u)
XInit == HInit /\ hist = <<>>
XNext == /\ Len(hist) < Depth
         /\ \E x \in Acts : /\ (Pattern = "alternate" => ((x.a = "use") <=> ((Len(hist) % 2) = 1)))
                             /\ DoAct(x) /\ hist' = Append(hist, x)
XSpec == XInit /\ [][XNext]_<<hvars, hist>>
\* simulation: one random action per step; giving an observation and using the holder alternate, every fourth step is free
\* (a use needs an observation; when the wanted kind is not enabled any enabled action is taken)
CanDo(x) == x.a # "use" \/ obs[x.h] # 0
SNext == /\ Len(hist) < Depth
         /\ LET en   == {y \in Acts : CanDo(y)}
                 pick == IF (Len(hist) % 4) = 2 THEN en ELSE {y \in en : (y.a = "use") <=> ((Len(hist) % 2) = 1)}
             \* (the action is read back from hist': a LET-bound RandomElement is drawn again at every mention)
             IN  hist' = Append(hist, RandomElement(IF pick = {} THEN en ELSE pick)) /\ DoAct(hist'[Len(hist')])
SSpec == XInit /\ [][SNext]_<<hvars, hist>>
Bound == Len(hist) <= Depth

\* which unsound policies a history exposes: some Use bins onto another observation than the one held
St0 == [obs |-> [h \in Hs |-> 0], bin |-> [h \in Hs |-> 0], shared |-> 0]
RECURSIVE ExposedBy(_, _, _, _)
ExposedBy(v, st, acts, i) ==
    IF i > Len(acts) THEN FALSE
    ELSE LET x == acts[i] IN
         IF x.a = "use"
         THEN OnOf(v, st.obs, st.bin, st.shared, x.h) # st.obs[x.h] \/ ExposedBy(v, AfterUse(v, st, x.h), acts, i + 1)
         ELSE ExposedBy(v, IF x.a = "set" THEN AfterSet(v, st, x.h, x.o) ELSE AfterConstruct(v, st, x.h, x.o), acts, i + 1)
Unsound == {"lazy-keep", "first-only", "shared"}
KillsOf(acts) == {v \in Unsound : ExposedBy(v, St0, acts, 1)}
\* the observation each action leaves the holder on (what the binding compares with), per step
RECURSIVE HeldAfter(_, _, _)
HeldAfter(st, acts, i) == IF i > Len(acts) THEN <<>>
                          ELSE LET x == acts[i]
                                   s1 == IF x.a = "use" THEN st ELSE IF x.a = "set" THEN AfterSet("eager", st, x.h, x.o) ELSE AfterConstruct("eager", st, x.h, x.o)
                               IN  <<s1.obs[x.h]>> \o HeldAfter(s1, acts, i + 1)
NUses(acts) == Cardinality({i \in DOMAIN acts : acts[i].a = "use"})

Canon == V = "eager"
EmitObs == (Export = "design" /\ Canon /\ ~started /\ obs = [h \in Hs |-> 0]) =>
    PrintT(<<"OBS", ToJson([obs |-> [o \in 1..NO |-> [c |-> OC[o], w |-> OW[o], model |-> ModelTab[o], dev |-> ODev[o], err |-> OErr[o], chi2 |-> Chi2Aligned(o)]],
                            p |-> NatP, h |-> NatH, f |-> NatF, tau |-> NatTau])>>)
EmitWalk == (Export \in {"short", "walks"} /\ Canon /\ Len(hist) = Depth /\ NUses(hist) > 0) =>
    PrintT(<<"HWALK", ToJson([acts |-> hist, held |-> HeldAfter(St0, hist, 1), kills |-> KillsOf(hist)])>>)
=============================================================================
