SPECIFICATION HSpec
CONSTANTS
  NP = 3
  Vals = 3
  Depth = 9
  Export = TRUE
CONSTRAINT Bound
CONSTRAINT HEmit
CHECK_DEADLOCK FALSE
