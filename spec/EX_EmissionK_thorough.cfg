SPECIFICATION EKSpec
CONSTANTS
  NL = 3
  NW = 2
  NT = 3
  NG = 2
  KCodes = {0, 1030002, 2000100, 15010300}
  WIds = {3, 4}
  LMode = "ones"
  ECodes = {0, 100}
  TCodes = {111, 222, 132, 321, 213}
  QuadIds = {4}
  KVariant = "code"
  ClampE = 15
  SlackE = 14
  Variant = "code"
  Btab <- MCBtab
  Bstar <- MCBstar
  TabId = 1
  Rp = 2
  Rs = 5
  Dist = 3
  KD = 2
  Export = TRUE
INVARIANT EKTelescoping
INVARIANT EKHotColdBounds
INVARIANT EKFitsInv
CONSTRAINT EKEmitVec
CHECK_DEADLOCK FALSE
