------------------------------ MODULE LikeNorm ------------------------------
(***************************************************************************)
(* C06 -- the constant term of the Gaussian log-likelihood,                *)
(*            -SUM_b log(sigma_b sqrt(2 pi)),                              *)
(* for ALL observations: any number of bins and error bars of ANY          *)
(* MAGNITUDE (hundreds of bins with ppm-level error bars; spectra and      *)
(* error bars in physical flux units, 1e-26 ..; large numbers).            *)
(*                                                                         *)
(* Dyadic world (every quantity is an exact binary64 number): the unit of  *)
(* the spectrum is 2^u, the error bar of bin b is sigma_b = 2^(u - s_b).   *)
(* DEFINITION:  -SUM_b log(sigma_b sqrt(2 pi))                             *)
(*                 = -( ln 2 * SUM_b (u - s_b)  +  N ln sqrt(2 pi) )       *)
(* -- an exact integer (LNSumExp) times ln 2 plus N times a constant; the  *)
(* two logarithms are evaluated at the boundary by the harness.            *)
(*                                                                         *)
(* MECHANISM, by rule -- which intermediate is formed in binary64:         *)
(*   "sumlog"        the sum of the logarithms, term by term (the code):   *)
(*                   every term is an ordinary number of size |u - s_b|    *)
(*   "logprod"       log( PROD_b sigma_b sqrt(2 pi) )                      *)
(*   "halflogprodsq" 0.5 log( PROD_b 2 pi sigma_b^2 )                      *)
(* mathematically the same number.  A binary64 product accumulated left to *)
(* right leaves the format when its exponent leaves [-1074, 1023]: it is   *)
(* rounded to 0 (log = -inf: every point gets log-likelihood +inf) or to   *)
(* +inf (every point gets -inf).  One factor sigma_b sqrt(2 pi) lies in    *)
(* (2^(e_b + 1), 2^(e_b + 2)), one factor 2 pi sigma_b^2 in                *)
(* (2^(2 e_b + 2), 2^(2 e_b + 3)), e_b = u - s_b: the partial products are *)
(* bracketed by exact integer exponent sums.                               *)
(***************************************************************************)
EXTENDS Integers, Sequences, FiniteSets, SequencesExt

LNExp(u, s)  == [b \in 1..Len(s) |-> u - s[b]]                  \* base-2 exponents of the error bars
LNSumExp(e)  == FoldLeft(LAMBDA acc, x : acc + x, 0, e)          \* the definition, in units of ln 2 (without the 2 pi part)

\* exponent bracket of one factor of the product, by rule
LNLoB(rule, eb) == IF rule = "logprod" THEN eb + 1 ELSE 2 * eb + 2
LNHiB(rule, eb) == IF rule = "logprod" THEN eb + 2 ELSE 2 * eb + 3
\* binary64: a positive number below 2^-1075 is rounded to 0; from 2^1024 on to +inf; normal from 2^-1022
LNZeroBelow == -1075
LNInfFrom   == 1024
LNNormalLo  == -1021
LNNormalHi  == 1023
\* left fold over the factors: st = "num" (every partial product so far is a normal number) | "zero" | "inf" |
\* "gray" (a partial product came near the limits of the format: not decided by this bracket)
LNStep(rule, acc, eb) ==
    LET lo == acc.lo + LNLoB(rule, eb)
        hi == acc.hi + LNHiB(rule, eb)
    IN  [lo |-> lo, hi |-> hi,
         st |-> IF acc.st \in {"zero", "inf"} THEN acc.st            \* 0 * finite = 0, inf * positive finite = inf
                ELSE IF hi < LNZeroBelow THEN "zero"
                ELSE IF lo > LNInfFrom THEN "inf"
                ELSE IF lo > LNNormalLo /\ hi < LNNormalHi THEN acc.st
                ELSE "gray"]
LNProduct(rule, e) == FoldLeft(LAMBDA acc, x : LNStep(rule, acc, x), [lo |-> 0, hi |-> 0, st |-> "num"], e).st

\* what the callback adds to -chi2/2, by rule:
\*   "num"    the definition (up to rounding)      "posinf"  -log(0)   = +inf for EVERY point
\*   "gray"   not decided                          "neginf"  -log(inf) = -inf for EVERY point
LNMech(rule, e) == IF rule = "sumlog" THEN "num"
                   ELSE LET p == LNProduct(rule, e)
                        IN  IF p = "zero" THEN "posinf" ELSE IF p = "inf" THEN "neginf" ELSE p
=============================================================================
