SPECIFICATION HSpec
CONSTANTS
  NB = 2
  TempK <- MCTemp3
  SortBeforeFill = TRUE
  OutsideRule = "zero"
  BoundsRule = "given"
  Layouts = {"k"}
  KField = "second"
  HeadFrom = "start"
  QTemps = {200}
  Export = FALSE
INVARIANT NeverUnsortedBand
CHECK_DEADLOCK FALSE
