SPECIFICATION Spec
CONSTANTS
  Starts = {0,14}
  Gaps = {1,2,3}
  PMax = 33
  MaxLen = 5
  ObsPos = {10,12,16,22}
  ObsCard = {2,3}
  ObsW2 = {7}
  Cond = "none"
  Export = TRUE
INVARIANT NeededRetained
INVARIANT ClipContiguous
INVARIANT FitsInv
CONSTRAINT Prune
CONSTRAINT Emit
CHECK_DEADLOCK FALSE
