SPECIFICATION SSpec
CONSTANTS
  NV = 2
  NC = 1
  NR = 0
  Modes = {"xsec"}
  RpRoutes = {"param", "attr"}
  Entries = {"model", "contrib", "full_contrib"}
  PhysSet = {"rp", "tp", "mix"}
  Record = TRUE
  MaxSets = 2
  SVariant = "code"
INVARIANT EvalUsesCurrent
INVARIANT RuleIsLastAskedFor
INVARIANT ProfilesFollowEval
INVARIANT TypeOk
CONSTRAINT SEmit
CHECK_DEADLOCK FALSE
