SPECIFICATION Spec
CONSTANTS
  NN = 8
  Wins <- MCWins
  NTP = 3
  TPs <- MCTPs
  NG = 2
  Keys = {"none", "content", "ends", "size", "first", "window"}
  ModeReads = {"eval", "construct"}
  Interps = {"linear", "exp"}
  Routes = {"global", "api", "ctor", "setter"}
  Extras = {"none"}
  CfgReads = {"both", "k-ctor-drops", "x-ctor-drops", "k-setter-noop", "x-setter-noop", "k-api-stale"}
INVARIANT HoldFresh
INVARIANT HoldTwin
INVARIANT OnRequestedGrid
INVARIANT OnNodeSchemeFree
INVARIANT NodeBlind
INVARIANT RouteBlind
INVARIANT RefuteSize
INVARIANT RefuteFirst
INVARIANT RefuteWindowTwin
INVARIANT RefuteLatched
INVARIANT RefuteKDrops
INVARIANT RefuteXDrops
INVARIANT RefuteKNoop
INVARIANT RefuteXNoop
INVARIANT RefuteKStale
CONSTRAINT MutantAlphabet
CHECK_DEADLOCK FALSE
