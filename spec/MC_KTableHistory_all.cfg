SPECIFICATION Spec
CONSTANTS
  NN = 8
  Wins <- MCWins
  NTP = 2
  NG = 2
  Keys = {"none", "content", "ends", "size", "first", "window"}
  ModeReads = {"eval", "construct"}
INVARIANT HoldFresh
INVARIANT HoldTwin
INVARIANT OnRequestedGrid
INVARIANT RefuteSize
INVARIANT RefuteFirst
INVARIANT RefuteWindowTwin
INVARIANT RefuteLatched
CONSTRAINT MutantAlphabet
CHECK_DEADLOCK FALSE
