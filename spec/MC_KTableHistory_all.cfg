SPECIFICATION Spec
CONSTANTS
  NN = 8
  Wins <- MCWins
  NTP = 3
  TPs <- MCTPs
  NG = 2
  Keys = {"none", "content", "ends", "size", "first", "window"}
  ModeReads = {"eval", "construct"}
  Interps = {"linear", "exp"}
  Routes = {"global", "api", "ctor", "setter"}
  Extras = {"none"}
  CfgReads = {"both", "k-ctor-drops", "x-ctor-drops", "k-setter-noop", "x-setter-noop", "k-api-stale"}
  CLists <- MCLists
  PathReads = {"sum", "k-overwrites", "last-continuum", "stops-at-k"}
INVARIANT HoldFresh
INVARIANT HoldTwin
INVARIANT OnRequestedGrid
INVARIANT OnNodeSchemeFree
INVARIANT NodeBlind
INVARIANT RouteBlind
INVARIANT HoldOrder
INVARIANT ListBlind
INVARIANT RefuteSize
INVARIANT RefuteFirst
INVARIANT RefuteWindowTwin
INVARIANT RefuteLatched
INVARIANT RefuteKDrops
INVARIANT RefuteXDrops
INVARIANT RefuteKNoop
INVARIANT RefuteXNoop
INVARIANT RefuteKStale
INVARIANT RefuteOverwrite
INVARIANT RefuteLastOnly
INVARIANT RefuteStopsAtK
CONSTRAINT MutantAlphabet
CHECK_DEADLOCK FALSE
