------------------------ MODULE MC_EmissionSettings ------------------------
(* Exhaustive / export model for the settings walks of C02 (EmissionSettings.tla). *)
EXTENDS EmissionSettings, Json

\* a recorded walk is exported when it is complete: MaxSets changes of a setting, ending with an evaluation
\* (its prefixes that end with an evaluation are judged on the way)
SEmit == (Record /\ nsets = MaxSets /\ walk # <<>> /\ walk[Len(walk)][1] = "eval") =>
    PrintT(<<"SWALK", ToJson([init |-> start, walk |-> walk])>>)
=============================================================================
