---------------------------- MODULE MC_Posterior ----------------------------
(* Exhaustive / export model for C09: choose a sample set (n samples of D     *)
(* coordinates, integer weights with ties and zeros), summarise it the way    *)
(* store_nestle_output / store_nest_solutions + generate_solution do, check   *)
(* the property's clauses in every state.                                     *)
EXTENDS Posterior
CONSTANTS N,        \* at most N samples
          NMin,     \* at least NMin samples
          D,        \* fitted dimensions
          Vals,     \* coordinate values
          Wts,      \* weights
          Export
VARIABLES phase, S, W, out
vars == <<phase, S, W, out>>

Col(s, d) == [i \in 1..Len(s) |-> s[i][d]]
\* derived parameter of a sample: any function of the sample evaluated sample by sample, in sample order
Derive(smp) == 2 * smp[1] + (IF D > 1 THEN smp[D] ELSE 1)

Init == /\ phase = "in" /\ out = <<>>
        /\ \E n \in NMin..N : /\ S \in [1..n -> [1..D -> Vals]]
                              /\ W \in {w \in [1..n -> Wts] : TotalW(w) > 0}
Summarise ==
    /\ phase = "in"
    /\ phase' = "done"
    /\ UNCHANGED <<S, W>>
    /\ out' = [fit       |-> [d \in 1..D |-> Summary(Col(S, d), W)],
               mapidx    |-> ArgMaxSet(W),
               tracedata |-> S,
               weights   |-> W,
               derived   |-> Summary([i \in 1..Len(S) |-> Derive(S[i])], W),
               spectrum_at |-> "map", profiles_at |-> "median"]
Next == Summarise
Spec == Init /\ [][Next]_vars

Done == phase = "done"
AllTrips == IF Done THEN UNION {out.fit[d].trip : d \in 1..D} \cup out.derived.trip ELSE {}
QuantilesOrdered == Done => \A t \in AllTrips : RLe(t[1], t[2]) /\ RLe(t[2], t[3])
QuantilesWithinRange == Done => \A d \in 1..D : \A t \in out.fit[d].trip : \A k \in 1..3 :
        /\ RLe(Q(SetMinI({S[i][d] : i \in 1..Len(S)})), t[k])
        /\ RLe(t[k], Q(SetMaxI({S[i][d] : i \in 1..Len(S)})))
QuantilesExist == Done => \A d \in 1..D : out.fit[d].trip # {}
MapIsASample == Done => /\ out.mapidx # {}
                        /\ \A i \in out.mapidx : \A j \in 1..Len(W) : W[j] <= W[i]
MeanWithinRange == Done => \A d \in 1..D :
        /\ RLe(Q(SetMinI({S[i][d] : i \in 1..Len(S) })), out.fit[d].mean)
        /\ RLe(out.fit[d].mean, Q(SetMaxI({S[i][d] : i \in 1..Len(S)})))
TraceUnchanged == Done => /\ out.tracedata = S /\ out.weights = W
                          /\ \A d \in 1..D : out.fit[d].trace = Col(S, d)
                          /\ Len(out.derived.trace) = Len(S)
                          /\ \A i \in 1..Len(S) : out.derived.trace[i] = Derive(S[i])
\* a point mass (all weight on samples of one value, no other sample) has all quantiles there
PointMass == Done => \A d \in 1..D :
        (\A i \in 1..Len(S) : S[i][d] = S[1][d]) => out.fit[d].trip = {<<Q(S[1][d]), Q(S[1][d]), Q(S[1][d])>>}
\* scaling all weights by a constant changes nothing (normalised or raw weights)
ScaleFree == Done => \A d \in 1..D : Triples(Col(S, d), [i \in 1..Len(W) |-> 3 * W[i]]) = out.fit[d].trip
OrderReductionSound == Done => \A d \in 1..D : TriplesAll(Col(S, d), W) = out.fit[d].trip
FitsInv == Done => \A t \in AllTrips : Fits(t[1]) /\ Fits(t[2]) /\ Fits(t[3])
\* deliberately false (non-vacuity): the median is NOT always one of the samples
MedianIsASample == Done => \A d \in 1..D : \A t \in out.fit[d].trip : \E i \in 1..Len(S) : t[2] = Q(S[i][d])

Emit == (Export /\ Done) =>
    PrintT(<<"VEC", ToJson([x |-> Col(S, 1), w |-> W, trip |-> out.fit[1].trip, mean |-> out.fit[1].mean,
                            mapidx |-> out.mapidx])>>)
=============================================================================
