---------------------------- MODULE MC_Posterior ----------------------------
(* Exhaustive / export model for C09: choose a sample set (n samples of D     *)
(* coordinates, integer weights with ties and zeros), summarise it the way    *)
(* store_nestle_output / store_nest_solutions + generate_solution do, check   *)
(* the property's clauses in every state.  The weights handed over by the     *)
(* sampler are the integers W rescaled to an arbitrary positive total tot     *)
(* (normalised, a fraction of one, more than one, raw).                       *)
EXTENDS Posterior
CONSTANTS N,        \* at most N samples
          NMin,     \* at least NMin samples
          D,        \* fitted dimensions
          Vals,     \* coordinate values
          Wts,      \* weights (relative, integers)
          Totals,   \* totals of the weight vector the sampler hands over: rationals <<n, d>>, <<0, 1>> = raw
          Export
VARIABLES phase, S, W, tot, out
vars == <<phase, S, W, tot, out>>
\* cfg files cannot hold tuples:  Totals <- MCTotals..
MCTotals1 == {<<1, 1>>}
MCTotalsSub == {<<37, 100>>}
MCTotalsRaw == {<<0, 1>>}
MCTotals3 == {<<1, 1>>, <<37, 100>>, <<0, 1>>}
MCTotals4 == {<<1, 1>>, <<37, 100>>, <<0, 1>>, <<5, 2>>}
MCTotalsBig == {<<5, 2>>}
HW == Handed(W, tot)                       \* the sampler's weight vector (rationals)

Col(s, d) == [i \in 1..Len(s) |-> s[i][d]]
\* derived parameter of a sample: any function of the sample evaluated sample by sample, in sample order
Derive(smp) == 2 * smp[1] + (IF D > 1 THEN smp[D] ELSE 1)

Init == /\ phase = "in" /\ out = <<>>
        /\ \E n \in NMin..N : /\ S \in [1..n -> [1..D -> Vals]]
                              /\ W \in {w \in [1..n -> Wts] : TotalW(w) > 0}
        /\ tot \in Totals
Summarise ==
    /\ phase = "in"
    /\ phase' = "done"
    /\ UNCHANGED <<S, W, tot>>
    /\ out' = [fit       |-> [d \in 1..D |-> RSummary(Col(S, d), HW)],
               mapidx    |-> RArgMaxSet(HW),
               tracedata |-> S,
               weights   |-> HW,
               derived   |-> RSummary([i \in 1..Len(S) |-> Derive(S[i])], HW),
               spectrum_at |-> "map", profiles_at |-> "median"]
Next == Summarise
Spec == Init /\ [][Next]_vars

Done == phase = "done"
AllTrips == IF Done THEN UNION {out.fit[d].trip : d \in 1..D} \cup out.derived.trip ELSE {}
QuantilesOrdered == Done => \A t \in AllTrips : RLe(t[1], t[2]) /\ RLe(t[2], t[3])
QuantilesWithinRange == Done => \A d \in 1..D : \A t \in out.fit[d].trip : \A k \in 1..3 :
        /\ RLe(Q(SetMinI({S[i][d] : i \in 1..Len(S)})), t[k])
        /\ RLe(t[k], Q(SetMaxI({S[i][d] : i \in 1..Len(S)})))
QuantilesExist == Done => \A d \in 1..D : out.fit[d].trip # {}
MapIsASample == Done => /\ out.mapidx # {}
                        /\ \A i \in out.mapidx : \A j \in 1..Len(W) : W[j] <= W[i]
MeanWithinRange == Done => \A d \in 1..D :
        /\ RLe(Q(SetMinI({S[i][d] : i \in 1..Len(S) })), out.fit[d].mean)
        /\ RLe(out.fit[d].mean, Q(SetMaxI({S[i][d] : i \in 1..Len(S)})))
TraceUnchanged == Done => /\ out.tracedata = S /\ out.weights = HW
                          /\ \A d \in 1..D : out.fit[d].trace = Col(S, d)
                          /\ Len(out.derived.trace) = Len(S)
                          /\ \A i \in 1..Len(S) : out.derived.trace[i] = Derive(S[i])
\* a point mass (all weight on samples of one value, no other sample) has all quantiles there
PointMass == Done => \A d \in 1..D :
        (\A i \in 1..Len(S) : S[i][d] = S[1][d]) => out.fit[d].trip = {<<Q(S[1][d]), Q(S[1][d]), Q(S[1][d])>>}
\* scaling all weights by a constant changes nothing (normalised or raw weights)
ScaleFree == Done => \A d \in 1..D : Triples(Col(S, d), [i \in 1..Len(W) |-> 3 * W[i]]) = out.fit[d].trip
\* the total of the weight vector is immaterial: quantiles, mean, MAP set (fitted and derived) are those of the
\* relative weights W whatever positive total the sampler's vector has; the handed vector has that total and is
\* proportional to W
TotalFree == Done => /\ RTotalW(out.weights) = TotalOf(W, tot)
                     /\ \A i, j \in 1..Len(W) : RMul(out.weights[i], Q(W[j])) = RMul(out.weights[j], Q(W[i]))
                     /\ \A d \in 1..D : /\ out.fit[d].trip = Triples(Col(S, d), W)
                                        /\ out.fit[d].mean = WMean(Col(S, d), W)
                     /\ out.derived.trip = Triples([i \in 1..Len(S) |-> Derive(S[i])], W)
                     /\ out.derived.mean = WMean([i \in 1..Len(S) |-> Derive(S[i])], W)
                     /\ out.mapidx = ArgMaxSet(W)
\* deliberately false (non-vacuity of the total dimension): the handed weights always sum to one
WeightsSumToOne == Done => RTotalW(out.weights) = Q(1)
OrderReductionSound == Done => \A d \in 1..D : TriplesAll(Col(S, d), W) = out.fit[d].trip
FitsInv == Done => \A t \in AllTrips : Fits(t[1]) /\ Fits(t[2]) /\ Fits(t[3])
\* deliberately false (non-vacuity): the median is NOT always one of the samples
MedianIsASample == Done => \A d \in 1..D : \A t \in out.fit[d].trip : \E i \in 1..Len(S) : t[2] = Q(S[i][d])

Emit == (Export /\ Done) =>
    PrintT(<<"VEC", ToJson([x |-> Col(S, 1), w |-> W, tot |-> tot, wr |-> out.weights, trip |-> out.fit[1].trip, mean |-> out.fit[1].mean,
                            mapidx |-> out.mapidx])>>)
=============================================================================
