-------------------------- MODULE Trace_Saturation --------------------------
(* C13, binding B for the licensed saturation cut-off.  One event = ONE LAYER   *)
(* of a pair of real model runs (the full native grid 1..nw and the computed     *)
(* range a..b of a restricted run: sub-grid or clip to an observation).          *)
(*                                                                               *)
(*  ev = "tx"  TransmissionModel.  inc[c][w]: optical depth contribution c adds  *)
(*             to the layer at native point w (measured with the contribution's  *)
(*             own contribute() on the full grid, scaled integers); tf[w], ts[k] *)
(*             = -ln(returned layer transmittance) of the full / restricted run. *)
(*             full-run / sub-run: SatRunLicensedTol against the complete sum;   *)
(*             pair: SatPairLicensedTol at every point of the restricted run.    *)
(*  ev = "em"  EmissionModel.  xl[w], xd[w]: optical depth above the layer and   *)
(*             including it; el, ed = exp(-x) evaluated at the boundary; Ef, Es  *)
(*             the returned layer values exp(-xl) - exp(-xd) (each term possibly *)
(*             clamped to 0) of the full / restricted run.                       *)
(*                                                                               *)
(* Every event gets a class (CLS) computed with the documented rule ("all") and  *)
(* the slip ("any") of Saturation.tla on the logged inputs, and zero or more BAD *)
(* lines.  The per-point licence is the only slack: a contribution / term may be *)
(* missing at a wavenumber only where the layer is darker than the cut-off THERE.*)
EXTENDS Saturation, TLC, Json, IOUtils, TLCExt
VARIABLE l
TraceLog == ndJsonDeserialize(IOEnv.TRACE_FILE)

TW(e) == 1..e.nw
TS(e) == e.a..e.b
TInc(e) == [c \in 1..Len(e.inc) |-> [w \in TW(e) |-> e.inc[c][w]]]
TTot(e) == SatTotal(TInc(e), TW(e))

\* ---- transmission
TxFullOk(e) == LET tot == TTot(e) IN \A w \in TW(e) : SatRunLicensedTol(e.tf[w], tot[w], e.thr, e.tol, e.cap)
TxSubOk(e)  == LET tot == TTot(e) IN \A w \in TS(e) : SatRunLicensedTol(e.ts[w - e.a + 1], tot[w], e.thr, e.tol, e.cap)
TxPairOk(e) == \A w \in TS(e) : SatPairLicensedTol(e.tf[w], e.ts[w - e.a + 1], e.thr, e.tol)
TxClass(e) ==
    LET inc == TInc(e)  tot == TTot(e)
        af == SatLayer("all", inc, TW(e), e.thr)   as == SatLayer("all", inc, TS(e), e.thr)
        yf == SatLayer("any", inc, TW(e), e.thr)   ys == SatLayer("any", inc, TS(e), e.thr)
        anybad == \/ \E w \in TW(e) : ~SatRunLicensed(yf[w], tot[w], e.thr)
                  \/ \E w \in TS(e) : ~SatRunLicensed(ys[w], tot[w], e.thr)
                  \/ \E w \in TS(e) : ~SatLicensed(yf[w], ys[w], e.thr)
    IN  IF \A w \in TW(e) : tot[w] <= e.thr THEN "thin"
        ELSE IF anybad THEN (IF \E w \in TS(e) : as[w] # af[w] THEN "coupled+licence-used" ELSE "coupled")
        ELSE IF \E w \in TS(e) : as[w] # af[w] THEN "licence-used"
        ELSE IF (\E w \in TW(e) : af[w] # tot[w]) THEN "exit-in-both"
        ELSE "dark-no-exit"

\* ---- emission
EmOk(E, e, w) == EmValueLicensed(E, e.xl[w], e.el[w], e.xd[w], e.ed[w], e.clamp, e.tol, e.etol)
EmFullOk(e) == \A w \in TW(e) : EmOk(e.Ef[w], e, w)
EmSubOk(e)  == \A w \in TS(e) : EmOk(e.Es[w - e.a + 1], e, w)
EmPairOk(e) == \A w \in TS(e) : EmPairLicensed(e.Ef[w], e.Es[w - e.a + 1], e.xl[w], e.el[w], e.xd[w], e.ed[w], e.clamp, e.tol, e.etol)
EmMixed(x, P, clamp) == (\E w \in P : x[w] >= clamp) /\ (\E w \in P : x[w] < clamp)
EmAllDark(x, P, clamp) == \A w \in P : x[w] >= clamp
EmClass(e) ==
    IF \A w \in TW(e) : e.xd[w] < e.clamp THEN "thin"
    ELSE IF EmMixed(e.xl, TW(e), e.clamp) \/ EmMixed(e.xd, TW(e), e.clamp) \/ EmMixed(e.xl, TS(e), e.clamp) \/ EmMixed(e.xd, TS(e), e.clamp)
         THEN (IF (EmAllDark(e.xd, TS(e), e.clamp) /\ ~EmAllDark(e.xd, TW(e), e.clamp)) \/ (EmAllDark(e.xl, TS(e), e.clamp) /\ ~EmAllDark(e.xl, TW(e), e.clamp))
               THEN "coupled+licence-used" ELSE "coupled")
    ELSE "clamped-in-both"

Bad(e, why) == PrintT(<<"BAD", ToJson([id |-> e.id, why |-> why])>>)
Cls(e, c)   == PrintT(<<"CLS", ToJson([id |-> e.id, cls |-> c])>>)

Init == l = 1
Step == /\ l <= Len(TraceLog)
        /\ LET e == TraceLog[l] IN
           IF e.ev = "tx"
           THEN /\ Cls(e, TxClass(e))
                /\ IF TxFullOk(e) THEN TRUE ELSE Bad(e, "full-run")
                /\ IF TxSubOk(e) THEN TRUE ELSE Bad(e, "sub-run")
                /\ IF TxPairOk(e) THEN TRUE ELSE Bad(e, "pair")
           ELSE /\ Cls(e, EmClass(e))
                /\ IF EmFullOk(e) THEN TRUE ELSE Bad(e, "full-run")
                /\ IF EmSubOk(e) THEN TRUE ELSE Bad(e, "sub-run")
                /\ IF EmPairOk(e) THEN TRUE ELSE Bad(e, "pair")
        /\ l' = l + 1
Spec == Init /\ [][Step]_l
Accepted == TLCGet("stats").diameter - 1 = Len(TraceLog)
=============================================================================
