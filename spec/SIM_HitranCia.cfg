SPECIFICATION HSpec
CONSTANTS
  NB = 3
  TempK <- MCTemp4
  SortBeforeFill = TRUE
  OutsideRule = "zero"
  BoundsRule = "given"
  Layouts = {"k", "k+err", "ref:k", "ref:k+err"}
  KField = "second"
  HeadFrom = "start"
  QTemps = {200, 250, 300, 400, 600, 700, 1000}
  Export = TRUE
INVARIANT HTypeOK
INVARIANT ReaderMatchesTable
INVARIANT GivenKept
INVARIANT RowsConvex
INVARIANT HFits
INVARIANT EveryLayoutRead
CONSTRAINT HEmit
CHECK_DEADLOCK FALSE
