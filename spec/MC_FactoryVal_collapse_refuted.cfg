SPECIFICATION Spec
CONSTANTS
  Collapse1 = TRUE
  ScalarTier = "some"
INVARIANT ListStaysList
CHECK_DEADLOCK FALSE
