SPECIFICATION MSpec
CONSTANTS
  OC <- MCOC
  OW <- MCOW
  ODev <- MCODev
  OErr <- MCOErr
  NatP <- MCNatP
  NatH = 8
  NHolders = 2
  Policies = {"eager", "lazy-drop", "lazy-keep", "first-only", "shared"}
  Depth = 0
  Pattern = "any"
  Export = "design"
INVARIANT HTypeOK
INVARIANT HoldOnObservation
INVARIANT AlignedModel
INVARIANT HAlphabetInv
INVARIANT HFitsInv
INVARIANT RefuteLazyKeep
INVARIANT RefuteFirstOnly
INVARIANT RefuteShared
CONSTRAINT EmitObs
CHECK_DEADLOCK FALSE
