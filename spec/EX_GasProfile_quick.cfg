SPECIFICATION Spec
CONSTANTS
  NMin = 2
  NMax = 7
  SVals = {0,8,11}
  SShift = 12
  SWs = {0,10,34,50,150}
  ArrLens = {1,2,3}
  Rule = "spec"
  Export = TRUE
INVARIANT OneValuePerLayer
INVARIANT WithinControlRange
INVARIANT ConstantWhenEqual
INVARIANT EndValues
INVARIANT FitsInv
CONSTRAINT Emit
CHECK_DEADLOCK FALSE
