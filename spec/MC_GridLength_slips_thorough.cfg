SPECIFICATION Spec
CONSTANTS
  N = 300
  Step = 4
  Starts = {5, 601, 1190}
  RStarts = {1, 80, 200}
  DMax = 400
  KMax = 300
  Mode = "slips"
  Export = TRUE
INVARIANT SlipSeparated
INVARIANT SlipIndependent
CONSTRAINT Emit
CHECK_DEADLOCK FALSE
