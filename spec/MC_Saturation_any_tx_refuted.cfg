SPECIFICATION Spec
CONSTANTS
  NW = 3
  NC = 2
  Inc = {0,1,12}
  Thr = 10
  Mode = "any"
  Contig = TRUE
  Export = FALSE
INVARIANT TxPointwiseLicensed
CONSTRAINT Emit
CHECK_DEADLOCK FALSE
