SPECIFICATION Spec
CONSTANTS
  Pairs = {"H2-He", "H2-H2"}
  CountAt = "use"
  D = 7
  Export = TRUE
CONSTRAINT Bound
CONSTRAINT Emit
CHECK_DEADLOCK FALSE
INVARIANT RouteFree
