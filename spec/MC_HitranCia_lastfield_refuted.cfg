SPECIFICATION HSpec
CONSTANTS
  NB = 2
  TempK <- MCTemp2
  SortBeforeFill = TRUE
  OutsideRule = "zero"
  BoundsRule = "given"
  Layouts = {"k", "k+err"}
  KField = "last"
  HeadFrom = "start"
  QTemps = {200, 250, 400}
  Export = FALSE
INVARIANT ReaderMatchesTable
CHECK_DEADLOCK FALSE
