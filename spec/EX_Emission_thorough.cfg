SPECIFICATION Spec
CONSTANTS
  NL = 3
  NW = 2
  NT = 3
  ECodes = {0, 103, 300, 1501, 1515, 205}
  TCodes = {111,112,113,121,122,123,131,132,133,211,212,213,221,222,223,231,232,233,311,312,313,321,322,323,331,332,333}
  QuadIds = {4}
  ClampE = 15
  SlackE = 14
  Variant = "code"
  Btab <- MCBtab
  Bstar <- MCBstar
  TabId = 1
  Rp = 2
  Rs = 5
  Dist = 3
  KD = 2
  Export = TRUE
  InterpIds = {}
INVARIANT Telescoping
INVARIANT HotColdBounds
INVARIANT FitsInv
CONSTRAINT Emit
CHECK_DEADLOCK FALSE
