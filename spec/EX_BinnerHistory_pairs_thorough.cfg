SPECIFICATION HSpec
CONSTANTS
  TC <- MCTC
  TW <- MCTW
  Grids <- MCGrids
  NGrids = 5
  Sizes = {"heavy", "light", "lighter"}
  Kinds = {"flux"}
  Keys = {"none"}
  Convs = {"copy"}
  Depth = 2
  Export = "pairs"
INVARIANT HoldPure
INVARIANT HoldFresh
INVARIANT HoldNative
INVARIANT FitsInv
CONSTRAINT Bound
CONSTRAINT EmitOps
CONSTRAINT EmitWalk
CHECK_DEADLOCK FALSE
