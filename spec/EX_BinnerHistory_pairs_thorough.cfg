SPECIFICATION HSpec
CONSTANTS
  TC <- MCTC
  TW <- MCTW
  Grids <- MCGrids
  NGrids = 5
  Sizes = {"heavy", "light", "lighter"}
  Kinds = {"flux", "simple", "native"}
  Keys = {"none", "content", "length", "ends"}
  Convs = {"copy", "inplace"}
  Depth = 2
  Export = "pairs"
INVARIANT HoldPure
INVARIANT HoldFresh
INVARIANT HoldNative
INVARIANT AlphabetInv
INVARIANT FitsInv
INVARIANT RefuteLength
INVARIANT RefuteEnds
INVARIANT RefuteInplace
CONSTRAINT Bound
CONSTRAINT EmitOps
CONSTRAINT EmitWalk
CHECK_DEADLOCK FALSE
