SPECIFICATION TSpec
CONSTANTS
  UN = 16
  Ordering = "minmax"
  ZS = 100
  Z <- MCZ
POSTCONDITION Accepted
CHECK_DEADLOCK FALSE
