SPECIFICATION TSpec
CONSTANTS
  UN = 16
  Ordering = "minmax"
  ZS = 100
  Z <- MCZ
  TK = {5,8,12,20,30,34,40,47,52,53,54,60,100,332,997,1022,1074}
  HiMax = 53
  ZTS = 100
  ZT <- MCZT
  Delivery = "by_prior"
POSTCONDITION Accepted
CHECK_DEADLOCK FALSE
