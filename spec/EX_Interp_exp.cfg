SPECIFICATION Spec
CONSTANTS
  TNS = {300,500,700}
  PNS = {0,2,4}
  Vals = {0}
  TabMode = "basis"
  Mode = "exp"
  QX = {100,200,300,400,500,600,700,800}
  QYS = {0,1,2,3,4,5,6,7}
  YShift = 2
  Export = TRUE
INVARIANT NonNegative
INVARIANT BracketBounded
INVARIANT NodeExact
INVARIANT NeverExtrapolated
INVARIANT ZeroBelowBothMinima
INVARIANT FitsInv
CONSTRAINT Emit
CHECK_DEADLOCK FALSE
