---------------------------- MODULE MC_LikeGrid ----------------------------
(* C06, observation layouts on a native grid that is much wider than the observation (design check + export).  *)
(* Native grid: 57 lattice points 0..99 with spacing 1, 2, 3 (growing with wavenumber, like a constant-R grid). *)
(* Toy forward model: f_i(a) = C0[i] + a C1[i], one fitted linear parameter a.                                   *)
(* Layout families (every layout = centres oc ascending, ow2 = 2 * widths; all bins inside the native range):    *)
(*   "geo"   contiguous bins with widths growing with wavenumber (constant resolving power; up to 9x end to end) *)
(*   "rev"   the same widths shrinking with wavenumber                                                           *)
(*   "gap"   a "geo" layout with one interior bin missing                                                        *)
(*   "phot"  three narrow contiguous bins and one broad photometric bin beyond a gap, on either side             *)
(*   "two"   two instruments: narrow contiguous bins, a gap, broad contiguous bins                                *)
(*   "over"  narrow bins and a broad bin that overlaps them and reaches beyond the clip window (NOT licensed)    *)
(*   "ovl"   bins that overlap each other INSIDE the clip window: two instruments observing the same range, a    *)
(*           photometric band on top of spectroscopic bins (bins nested in it), the same band measured twice,    *)
(*           contiguous bins widened by a sliver (widths derived from the centres / converted from wavelength);  *)
(*           placed where the native spacing is 1 and where it is 2 (offsets scaled by the spacing)              *)
EXTENDS LikeGrid
CONSTANTS Rule,        \* margin rule of the mechanism ("max" = the code)
          Families,    \* subset of the family names
          Starts,      \* lattice positions of the first bin edge
          Lens,        \* numbers of bins of the geo / rev / gap families
          ASet, ARef,  \* values of the fitted parameter; the data are the binned model at ARef (floored) + small offsets
          Search,      \* how the binner finds the native cells of a bin: "each" = in the whole grid handed to it (the
                       \* code) | "resume" = from the last cell the previous bin used (expected counterexample)
          OvlN,        \* number of places of the "ovl" family (of OvlPlaces)
          Licensed,    \* TRUE: the invariants are asserted for layouts inside the clip window only (the code's contract)
          Export
VARIABLES lay, a
vars == <<lay, a>>

NatG == [i \in 1..57 |-> IF i <= 25 THEN i - 1 ELSE IF i <= 43 THEN 24 + 2 * (i - 25) ELSE 60 + 3 * (i - 43)]
C0  == [i \in 1..57 |-> 20 + ((7 * i) % 11)]
C1  == [i \in 1..57 |-> 1 + ((3 * i) % 5)]
Pattern == <<2, 2, 4, 4, 6, 8, 10, 14, 18>>

Max2(S) == CHOOSE v \in S : \A u \in S : v >= u
RECURSIVE Prefix(_, _)
Prefix(ws, n) == IF n = 0 THEN 0 ELSE ws[n] + Prefix(ws, n - 1)
Reverse(ws) == [j \in 1..Len(ws) |-> ws[Len(ws) + 1 - j]]
\* contiguous bins of (even) widths ws from edge s
Contig(s, ws) == [oc  |-> [j \in 1..Len(ws) |-> s + Prefix(ws, j - 1) + (ws[j] \div 2)],
                  ow2 |-> [j \in 1..Len(ws) |-> 2 * ws[j]]]
Drop(q, k) == SubSeq(q, 1, k - 1) \o SubSeq(q, k + 1, Len(q))
Join(p, q) == [oc |-> p.oc \o q.oc, ow2 |-> p.ow2 \o q.ow2]
Mk(fam, l) == [fam |-> fam, oc |-> l.oc, ow2 |-> l.ow2]

GeoSet  == {Mk("geo", Contig(s, SubSeq(Pattern, k, k + n - 1))) : s \in Starts, n \in Lens, k \in 1..(10 - Max2(Lens))}
RevSet  == {Mk("rev", Contig(s, Reverse(SubSeq(Pattern, k, k + n - 1)))) : s \in Starts, n \in Lens, k \in 1..(10 - Max2(Lens))}
GapSet  == {[fam |-> "gap", oc |-> Drop(l.oc, 2), ow2 |-> Drop(l.ow2, 2)] : l \in {g \in GeoSet : Len(g.oc) >= 4}}
          \cup {[fam |-> "gap", oc |-> Drop(l.oc, 3), ow2 |-> Drop(l.ow2, 3)] : l \in {g \in RevSet : Len(g.oc) >= 4}}
PhotSet == {Mk("phot", Join(Contig(s, <<2, 2, 2>>), Contig(s + 6 + d, <<w>>))) : s \in Starts, d \in {4, 10}, w \in {8, 14}}
           \cup {Mk("phot", Join(Contig(s, <<w>>), Contig(s + w + d, <<2, 2, 2>>))) : s \in Starts, d \in {4, 10}, w \in {8, 14}}
TwoSet  == {Mk("two", Join(Contig(s, <<2, 2, 2, 2>>), Contig(s + 8 + d, <<10, 14>>))) : s \in Starts, d \in {2, 12}}
           \cup {Mk("two", Join(Contig(s, <<14, 10>>), Contig(s + 24 + d, <<2, 2, 2, 2>>))) : s \in Starts, d \in {2, 12}}
\* a broad bin centred on the narrow ones, reaching far beyond them on both sides
OverSet == {[fam |-> "over", oc |-> <<s + 21, s + 23, s + 24, s + 25>>, ow2 |-> <<4, 4, w, 4>>] : s \in Starts, w \in {40, 48}}
           \cup {[fam |-> "over", oc |-> <<s + 21, s + 29>>, ow2 |-> <<w, w>>] : s \in Starts, w \in {40, 48}}

\* bins overlapping inside the window: offsets in units of the native spacing k at the place, from lattice position s
OvlPlaces == <<<<5, 1>>, <<28, 2>>, <<10, 1>>, <<32, 2>>>>
OvlAt(s, k, cs, ws, e) == [fam |-> "ovl", oc |-> [j \in 1..Len(cs) |-> s + k * cs[j]],
                           ow2 |-> [j \in 1..Len(cs) |-> 2 * k * ws[j] + e]]
OvlShapes == {
    \* two instruments: narrow bins 0..12 and two broad bins [1,7], [3,9] over the same range (they overlap each other too)
    [cs |-> <<1, 3, 4, 5, 6, 7, 9, 11>>, ws |-> <<2, 2, 6, 2, 6, 2, 2, 2>>, e |-> {0}],
    \* a band [2,10] on top of spectroscopic bins: the bins [4,6], [6,8] are nested in it
    [cs |-> <<1, 3, 5, 6, 7, 9, 11>>, ws |-> <<2, 2, 2, 8, 2, 2, 2>>, e |-> {0}],
    \* the same band measured twice
    [cs |-> <<1, 3, 5, 5, 7, 9>>, ws |-> <<2, 2, 2, 2, 2, 2>>, e |-> {0}],
    \* contiguous bins, every one widened by a sliver of e quarter units on both sides
    [cs |-> <<1, 3, 5, 7, 9, 11>>, ws |-> <<2, 2, 2, 2, 2, 2>>, e |-> {1, 3}]}
OvlSet == {OvlAt(OvlPlaces[n][1], OvlPlaces[n][2], sh.cs, sh.ws, e) : <<n, sh, e>> \in
              {t \in (1..OvlN) \X OvlShapes \X {0, 1, 3} : t[3] \in t[2].e}}

All == (IF "ovl" \in Families THEN OvlSet ELSE {}) \cup (IF "geo" \in Families THEN GeoSet ELSE {}) \cup (IF "rev" \in Families THEN RevSet ELSE {})
       \cup (IF "gap" \in Families THEN GapSet ELSE {}) \cup (IF "phot" \in Families THEN PhotSet ELSE {})
       \cup (IF "two" \in Families THEN TwoSet ELSE {}) \cup (IF "over" \in Families THEN OverSet ELSE {})
InRange(l) == 4 * l.oc[1] - l.ow2[1] >= 4 * NatG[1] /\ 4 * l.oc[Len(l.oc)] + l.ow2[Len(l.oc)] <= 4 * NatG[57]
Layouts == {l \in All : InRange(l)}

Init == lay \in Layouts /\ a \in ASet
Next == FALSE /\ UNCHANGED vars
Spec == Init /\ [][Next]_vars

\* ---- observation of the layout: data = floor(binned model at ARef) + (j mod 3) - 1, sigma = 1 + (j mod 2)
RefBin(j) == LET r == GBinnedRaw(NatG, LGSpectrum(C0, C1, ARef), lay.oc[j], lay.ow2[j]) IN r[1] \div r[2]
Data == [j \in 1..Len(lay.oc) |-> RefBin(j) + (j % 3) - 1]
Sig  == [j \in 1..Len(lay.oc) |-> 1 + (j % 2)]
F    == LGSpectrum(C0, C1, a)
TDef == LGChiTerms(NatG, F, lay.oc, lay.ow2, Data, Sig)       \* chi2 terms by the definition; h = (sum of them) / 2
Mech == LGMechBy(NatG, F, lay.oc, lay.ow2, Data, Sig, Rule, Search)
Lo   == LGLo(NatG, lay.oc, Rule)
Hi   == LGHi(NatG, lay.oc, Rule)
\* licensed layouts: the clip window of the code, [cmin - W, cmax + W] with W the widest mid-point width of the
\* centres, meets the clipping contract (a function of the layout and the native grid only)
Inside == LGCovers(NatG, lay.oc, lay.ow2, LGLo(NatG, lay.oc, "max"), LGHi(NatG, lay.oc, "max"))
\* a simple sufficient condition: every bin lies 1.5 (largest) native spacings inside that window
WindowLemma == LGInsideWindow(NatG, lay.oc, lay.ow2) => Inside
Judged == Licensed => Inside

\* ---- the clauses
\* the likelihood handed to the sampler is the Gaussian of the model binned on the FULL grid
LikelihoodOfFullGrid == Judged => (Mech.k = "num" /\ Mech.t = TDef)
\* the clipping contract holds for the judged layouts ...
ClipCoversBins == Judged => LGCovers(NatG, lay.oc, lay.ow2, Lo, Hi)
\* ... and the contract is what makes the mechanism exact (any rule, any layout)
CoverLemma == LGCovers(NatG, lay.oc, lay.ow2, Lo, Hi) => (Mech.k = "num" /\ Mech.t = TDef)
Observed == LGObserved(NatG, lay.oc, lay.ow2)
\* (not every layout of the families is licensed: where the native spacing changes next to the window's end the
\*  retained end point changes its mid-point width -- known finding L-C13b of C13; the driver counts judged layouts)
FitsInv  == \A j \in 1..Len(TDef) : Fits(TDef[j])
\* non-vacuity (must be REFUTED): the clip never removes anything / no layout has widths varying more than 2x
ClipKeepsAll == Lo = 1 /\ Hi = 57
NoGrowth     == ~LGGrowth2(lay.ow2)

Emit == Export =>
    PrintT(<<"VEC", ToJson([fam |-> lay.fam, oc |-> lay.oc, ow2 |-> lay.ow2, a |-> a, data |-> Data, sig |-> Sig,
                            z2 |-> TDef, binned |-> LGBinnedSeq(NatG, F, lay.oc, lay.ow2), inside |-> Inside, lo |-> Lo, hi |-> Hi,
                            growth2 |-> LGGrowth2(lay.ow2), gap |-> LGHasGap(lay.oc, lay.ow2),
                            overlapping |-> LGOverlapping(lay.oc, lay.ow2), overlapq |-> LGOverlapQ(lay.oc, lay.ow2),
                            nat |-> NatG, c0 |-> C0, c1 |-> C1])>>)
=============================================================================
