SPECIFICATION MSpec
CONSTANTS
  TB <- MCTB
  Grids <- MCGrids
  NGrids = 2
  Kinds = {"flux", "simple", "native"}
  Muts = {"none"}
  Ords = {"asc", "desc", "mixed"}
  Depth = 0
  Export = "none"
INVARIANT HoldArgs
INVARIANT HoldResult
INVARIANT HoldEarlier
INVARIANT AlphabetInv
INVARIANT FitsInv
CHECK_DEADLOCK FALSE
