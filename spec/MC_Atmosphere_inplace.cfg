SPECIFICATION Spec
CONSTANTS
  NMax = 2
  L0S = {6}
  LShift = 4
  CS = {1}
  LMinAll = 0
  TS = {1,2}
  ChemPool = 3
  ChemLayout = "rows_are_layers"
  UnitAt = "return"
  ULoop = 1
  EvalEffect = "inplace_mid"
  ShareEffect = "readonly"
  RADS = {8}
  GMS = {64}
  TableEnds = "nearest"
  ElemType = "float64"
  WorkArrays = "float"
  Slicing = "layer"
  Export = FALSE
INVARIANT EvaluationKeepsStructure
CONSTRAINT Emit
CHECK_DEADLOCK FALSE
