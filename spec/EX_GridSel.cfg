SPECIFICATION Spec
CONSTANTS
  Pos = {0,1,2,4,7}
  Mode = "widened"
  Export = TRUE
INVARIANT PointwiseIndependent
INVARIANT OwnPointsUnchanged
INVARIANT BetweenNeighbours
INVARIANT MatchesReference
INVARIANT NoError
INVARIANT FitsInv
CONSTRAINT Emit
CHECK_DEADLOCK FALSE
