SPECIFICATION Spec
CONSTANTS
  MaxMix = 3
  MixKeys = "all"
  MaxSubs = 2
  MaxSubMix = 2
  SubErrLen = 2
  Export = TRUE
INVARIANT OrderedBases
INVARIANT FirstAppliedLast
INVARIANT ReverseInit
INVARIANT KeysReachOwner
INVARIANT InvalidCompositeIsError
INVARIANT UnknownKeyIsErrorMix
INVARIANT PlainBuilds
INVARIANT SubsectionsReachComponent
INVARIANT SubsFormIndependent
INVARIANT UnknownInSubsectionIsError
INVARIANT CoefFits
CONSTRAINT Emit
CHECK_DEADLOCK FALSE
