SPECIFICATION Spec
CONSTANTS
  Family = "abs"
  NL = 4
  NW = 1
  NC = 1
  AVals = {0}
  LVals = {1}
  RpSet = {10,17}
  IncSet = {1,2,3}
  RsSet = {5,7}
  TVals = {0,1,3,6}
  Basis = FALSE
  Export = FALSE
CONSTRAINT Emit
CHECK_DEADLOCK FALSE
INVARIANT DepthLowerBound
INVARIANT DepthUpperBound
INVARIANT BareWhenTransparent
INVARIANT MonotoneInTau
INVARIANT FitsInv
