SPECIFICATION MSpec
CONSTANTS
  TB <- MCTB
  Grids <- MCGrids
  NGrids = 2
  Kinds = {"flux", "simple"}
  Muts = {"sortctor"}
  Ords = {"asc", "desc", "mixed"}
  Depth = 0
  Export = "none"
INVARIANT RefuteSortCtor
CHECK_DEADLOCK FALSE
