------------------------- MODULE MC_InterpGridType -------------------------
(* C04 -- the ELEMENT TYPE OF THE GRIDS is a free dimension of "all table shapes": tables read    *)
(* from HDF5 / pickle files often carry their temperature (and pressure) nodes as integers         *)
(* (int64, int32, int16) or as 4-byte floats, while the request (T, P) is a real number.          *)
(*                                                                                               *)
(* The cell search of Interp.tla (SearchLeft) compares the REQUEST with the nodes.  Here the       *)
(* request sits on a lattice of 1/XScale kelvin (XScale = 2^20) a fraction f of a kelvin above /   *)
(* below every node (f = 2^-20, 1/2, 1 - 2^-20), on every whole kelvin between the nodes, on the   *)
(* nodes and outside the grid; the nodes are whole kelvin (they exist in every grid type).         *)
(*   Needle = "exact"     : the search sees the request as it is (the specification);             *)
(*   Needle = "grid_type" : the request is first converted to the element type of the grid        *)
(*                          (truncated for integer grids, rounded to 2^-15 K for 4-byte floats of *)
(*                          256 <= T < 512) -- XC_InterpGridType_cast.cfg: TLC must refute         *)
(*                          CellBracketsRequest (node + f is searched as node: the cell below).    *)
(* The interpolation weights always use the request itself.  The exported vectors (Needle =        *)
(* "exact") are those of Interp.tla on the fine lattice: the result does not depend on the grid   *)
(* type at all, which is the clause; the binding drives every grid type exported by               *)
(* TableStorage.tla (records GRIDTYPE) through them, inside the bracket and equal to the exact    *)
(* interpolant.                                                                                   *)
EXTENDS Interp, SequencesExt
CONSTANTS TNodes, PNodes,    \* node coordinates in whole kelvin / whole decades (sets)
          XScale,            \* lattice units per kelvin
          FracX,             \* fractions of a kelvin (lattice units, 0 < f < XScale)
          GridTypes,         \* subset of {"i8", "i4", "i2", "f4", "f8"}
          Needle, Mode, Export
VARIABLES phase, gt, tab, qx, qy, cell, out
vars == <<phase, gt, tab, qx, qy, cell, out>>

TN == SetToSortSeq({t * XScale : t \in TNodes}, LAMBDA a, b : a < b)
PN == SetToSortSeq(PNodes, LAMBDA a, b : a < b)
NT == Len(TN)
NP == Len(PN)

Above == {TN[i] + f : i \in 1..(NT - 1), f \in FracX}
Below == {TN[i] - f : i \in 2..NT, f \in FracX}
Whole == {k * XScale : k \in (TN[1] \div XScale)..(TN[NT] \div XScale)}      \* nodes and whole kelvin between them
Out   == {TN[1] - f : f \in FracX} \cup {TN[NT] + f : f \in FracX} \cup {TN[1] - XScale, TN[NT] + XScale}
QXs == Above \cup Below \cup Whole \cup Out
QYs == {PN[1] - 1, PN[NP] + 1} \cup {PN[i] : i \in 1..NP} \cup {(PN[i] + PN[i + 1]) \div 2 : i \in 1..(NP - 1)}

\* the request as an element of the grid's type (requests are positive)
F4Quantum == XScale \div 32768          \* 2^-15 K: spacing of 4-byte floats in [256, 512)
Cast(g, x) == IF g \in {"i8", "i4", "i2"} THEN (x \div XScale) * XScale
              ELSE IF g = "f4" THEN ((x + (F4Quantum \div 2)) \div F4Quantum) * F4Quantum
              ELSE x
NeedleOf(g, x) == IF Needle = "exact" THEN x ELSE Cast(g, x)

Primes == <<2, 3, 5, 7, 11, 13, 17, 19, 23, 29, 31, 37, 41, 43, 47, 53>>
OneHot(pp, tt, hot, low) == [p \in 1..NP |-> [t \in 1..NT |-> IF p = pp /\ t = tt THEN hot ELSE low]]
Generic1 == [p \in 1..NP |-> [t \in 1..NT |-> Primes[(p - 1) * NT + t]]]
Generic2 == [p \in 1..NP |-> [t \in 1..NT |-> Primes[NP * NT + 1 - ((p - 1) * NT + t)] * 3]]
Generic3 == [p \in 1..NP |-> [t \in 1..NT |-> Primes[((t - 1) * NP + p)] * (((p + t) % 3) + 1)]]
Tables == {OneHot(2, 2, 8, 1), OneHot(1, NT, 8, 1), Generic1, Generic2, Generic3}

Nil == <<Q(0), Q(0), Q(0)>>
Init == /\ phase = "in" /\ gt \in GridTypes /\ tab \in Tables /\ qx \in QXs /\ qy \in QYs
        /\ cell = <<0, 0>> /\ out = Nil
Eval == /\ phase = "in"
        /\ cell' = <<LeftIdx(TN, NeedleOf(gt, qx)), RightIdx(TN, NeedleOf(gt, qx))>>
        /\ out' = IF Mode = "linear"
                  THEN LET v == ExpectedLinRO(TN, PN, tab, qx, qy, Region(TN, PN, qx, qy), TRUE) IN <<v, v, Q(0)>>
                  ELSE ExpectedExpR(TN, PN, tab, qx, qy, Region(TN, PN, qx, qy))
        /\ phase' = "done"
        /\ UNCHANGED <<gt, tab, qx, qy>>
Next == Eval
Spec == Init /\ [][Next]_vars

Done == phase = "done"
Reg  == Region(TN, PN, qx, qy)
\* the cell handed to the kernels brackets the request (the nearest edge node when the request is outside the grid),
\* i.e. the weight of the upper node, (T - Tlo) / (Thi - Tlo), lies in [0, 1] -- whatever the element type of the grid
CellBracketsRequest == Done => LET c == ClampTo(TN, qx) IN TN[cell[1]] <= c /\ c <= TN[cell[2]]
\* with the exact needle it is the cell of Interp.tla, on which the exported values are computed
CellIsInterpCell == Done /\ Needle = "exact" => cell = <<LeftIdx(TN, qx), RightIdx(TN, qx)>>
NeverExtrapolated == Done /\ (Mode = "exp") => RLe(Q(0), out[3]) /\ RLe(out[3], Q(1))
NonNegative == Done => RLe(Q(0), out[1]) /\ RLe(Q(0), out[2])
BracketBounded == Done /\ Reg # "zero" =>
    /\ (out[3] # Q(1)) => InHull(TN, PN, tab, qx, qy, out[1])
    /\ (out[3] # Q(0)) => InHull(TN, PN, tab, qx, qy, out[2])
FitsInv == Done => Fits(out[1]) /\ Fits(out[2]) /\ Fits(out[3])

SideX == IF \E i \in 1..NT : TN[i] = qx THEN "node"
         ELSE IF qx \in Out THEN "out"
         ELSE IF qx \in Whole THEN "whole"
         ELSE IF qx \in Above THEN "above" ELSE "below"
Emit == (Export /\ Done /\ gt = CHOOSE g \in GridTypes : TRUE) =>
    PrintT(<<"VEC", ToJson([tab |-> tab, x |-> qx, y |-> qy, xs |-> XScale, ys |-> 1,
                            a |-> out[1], b |-> out[2], w |-> out[3],
                            reg |-> Reg, inside |-> Inside(TN, PN, qx, qy),
                            sx |-> SideX, sy |-> "coarse",
                            lo |-> IF Reg = "zero" THEN 0 ELSE HullLo(TN, PN, tab, qx, qy),
                            hi |-> HullHi(TN, PN, tab, qx, qy), mode |-> Mode, tn |-> TN, pn |-> PN])>>)
=============================================================================
