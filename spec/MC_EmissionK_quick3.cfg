SPECIFICATION EKSpec
CONSTANTS
  NL = 2
  NW = 1
  NT = 3
  NG = 3
  KCodes = {0, 10003, 20504, 150100}
  WIds = {5}
  LMode = "ones"
  ECodes = {0, 1}
  TCodes = {11,12,31}
  QuadIds = {1, 4}
  KVariant = "code"
  ClampE = 15
  SlackE = 14
  Variant = "code"
  Btab <- MCBtab
  Bstar <- MCBstar
  TabId = 1
  Rp = 2
  Rs = 5
  Dist = 3
  KD = 2
  Export = FALSE
INVARIANT EKTelescoping
INVARIANT EKCoefNonNeg
INVARIANT EKIsothermalIdentity
INVARIANT EKHotColdBounds
INVARIANT EKDegenerateIsXsec
INVARIANT EKFluxIsothermalIdentity
INVARIANT EKFluxBounds
INVARIANT EKEclipseIsothermalRatio
INVARIANT EKEclipseBounds
INVARIANT EKDirectProportional
INVARIANT EKFitsInv
CONSTRAINT EKEmitVec
CHECK_DEADLOCK FALSE
