------------------------ MODULE MC_ChemistrySettings ------------------------
(***************************************************************************)
(* C10 -- the mixture of a LONG-LIVED chemistry whose settings are written *)
(* through its public fitting parameters between evaluations.              *)
(*                                                                         *)
(* The property speaks of "the requested ratios" and of "every set of      *)
(* trace-gas profiles": what is requested is the LAST value written to     *)
(* each setting, no matter whether it arrived through the constructor or   *)
(* through the fitting parameter '<gas>_<main gas>' (fill ratios) /        *)
(* '<gas>', '<gas>_surface', '<gas>_top' ... (the gases' own parameters),  *)
(* which is how a retrieval writes them thousands of times.                *)
(*                                                                         *)
(* State:  held -- what the object stores (ratios, one abundance per trace *)
(*                 gas);                                                   *)
(*         req  -- the last value requested for every setting (history     *)
(*                 variable: the reference of the property);               *)
(*         log  -- the writes / evaluations so far (exported).             *)
(* Actions: Write(kind, i, v) one setting through its own parameter;       *)
(*          Eval -- initialize_chemistry on the long-lived object.         *)
(* Variants # "spec" are wrong designs for expected counterexamples:       *)
(*   late_binding  every ratio parameter writes the LAST ratio (a setter   *)
(*                 closure that lost its index);                           *)
(*   write_ignored the parameter of the first trace gas writes a dead      *)
(*                 attribute.                                              *)
(***************************************************************************)
EXTENDS Chemistry, SequencesExt
CONSTANTS NL,                    \* layers
          MaxFill,               \* 2..MaxFill fill gases (MaxFill-1 ratio parameters)
          MaxTrace,              \* 0..MaxTrace trace gases
          RatioNums, RatioDen,   \* values written to a ratio parameter: k/RatioDen
          AbNums, AbDen,         \* values written to an abundance parameter: k/AbDen
          InitFree,              \* TRUE: every initial configuration; FALSE: one per shape
          MaxWrites,             \* writes per behaviour
          Variant, Export
VARIABLES held, req, log, out, nw, start
vars == <<held, req, log, out, nw, start>>

FillNames  == <<"H2", "He", "N2", "CO2">>
TraceNames == <<"H2O", "CH4", "CO">>
RatioSet == {R(k, RatioDen) : k \in RatioNums}
AbSet    == {R(k, AbDen) : k \in AbNums}
SeqsOf(S, lo, hi) == UNION {[1..k -> S] : k \in lo..hi}
\* one initial configuration per shape: pairwise different ratios, so that a write that lands on
\* the wrong setting is never hidden by equal values
FixedRatios(k) == [i \in 1..k |-> R(i, RatioDen + 1)]
FixedAb(k)     == [i \in 1..k |-> R(1, AbDen * i)]

Rows(ab) == [g \in 1..Len(ab) |-> [l \in 1..NL |-> ab[g]]]
Result(s) == IF Rejected(Rows(s.ab), NL, "spec") THEN [st |-> "invalid", mix |-> <<>>]
             ELSE [st |-> "ok", mix |-> Mix(s.ratios, Rows(s.ab), NL, "spec")]

Init == /\ held \in (IF InitFree
                     THEN [ratios : SeqsOf(RatioSet, 1, MaxFill - 1), ab : SeqsOf(AbSet, 0, MaxTrace)]
                     ELSE {[ratios |-> FixedRatios(k), ab |-> FixedAb(m)] : k \in 1..(MaxFill - 1), m \in 0..MaxTrace})
        /\ req = held /\ start = held
        /\ log = <<>> /\ nw = 0
        /\ out = [st |-> "none", mix |-> <<>>]

\* index actually written by the (possibly wrong) design
RatioTarget(i) == IF Variant = "late_binding" THEN Len(held.ratios) ELSE i
WriteRatio(i, v) ==
    /\ nw < MaxWrites /\ i \in 1..Len(req.ratios) /\ req.ratios[i] # v
    /\ req'  = [req  EXCEPT !.ratios[i] = v]
    /\ held' = [held EXCEPT !.ratios[RatioTarget(i)] = v]
    /\ log'  = Append(log, [op |-> "write", kind |-> "ratio", i |-> i, v |-> v, st |-> "", mix |-> <<>>])
    /\ nw' = nw + 1 /\ UNCHANGED <<out, start>>
WriteTrace(g, v) ==
    /\ nw < MaxWrites /\ g \in 1..Len(req.ab) /\ req.ab[g] # v
    /\ req'  = [req EXCEPT !.ab[g] = v]
    /\ held' = IF Variant = "write_ignored" /\ g = 1 THEN held ELSE [held EXCEPT !.ab[g] = v]
    /\ log'  = Append(log, [op |-> "write", kind |-> "trace", i |-> g, v |-> v, st |-> "", mix |-> <<>>])
    /\ nw' = nw + 1 /\ UNCHANGED <<out, start>>
Evaluated == Len(log) > 0 /\ log[Len(log)].op = "eval"
Eval == /\ ~Evaluated
        /\ out' = Result(held)
        /\ log' = Append(log, [op |-> "eval", kind |-> "", i |-> 0, v |-> RZero,
                               st |-> Result(held).st, mix |-> Result(held).mix])
        /\ UNCHANGED <<held, req, nw, start>>
Next == \/ \E i \in 1..(MaxFill - 1), v \in RatioSet : WriteRatio(i, v)
        \/ \E g \in 1..MaxTrace, v \in AbSet : WriteTrace(g, v)
        \/ Eval
Spec == Init /\ [][Next]_vars

Valid == Evaluated /\ out.st = "ok"
M == out.mix
NF == NFill(req.ratios)

\* the parameter reads back what was written to it, and nothing else moved
ReadBack == held = req
\* "give the fill gases exactly the requested ratios to the first fill gas"
RequestedRatiosHonoured == Valid =>
    \A f \in 2..NF : \A l \in 1..NL : M[f][l] = RMul(req.ratios[f - 1], M[1][l])
RequestedTracesHonoured == Valid =>
    \A g \in 1..Len(req.ab) : \A l \in 1..NL : M[NF + g][l] = req.ab[g]
SumsToOne   == Valid => \A l \in 1..NL : LayerSum(M, l) = ROne
NonNegative == Valid => \A g \in 1..Len(M) : \A l \in 1..NL : RLe(RZero, M[g][l])
InvalidIffRequestedExceedsOne ==
    Evaluated => ((out.st = "invalid") <=> ExceedsOne(Rows(req.ab), NL))
\* the evaluation of the long-lived object is the evaluation of a fresh object at the requested settings
EvalIsFunctional == Evaluated => out = Result(req)
FitsInv == Valid => \A g \in 1..Len(M) : SeqFits(M[g])

Emit == (Export /\ Evaluated /\ nw = MaxWrites) =>
    PrintT(<<"SVEC", ToJson([start |-> start, nl |-> NL, nfill |-> NF, ntrace |-> Len(req.ab),
                             fills |-> SubSeq(FillNames, 1, NF), traces |-> SubSeq(TraceNames, 1, Len(req.ab)),
                             final |-> req, log |-> log])>>)
=============================================================================
