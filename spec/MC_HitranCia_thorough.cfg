SPECIFICATION HSpec
CONSTANTS
  NB = 2
  TempK <- MCTemp4
  SortBeforeFill = TRUE
  OutsideRule = "zero"
  BoundsRule = "given"
  Layouts = {"k"}
  KField = "second"
  HeadFrom = "start"
  QTemps = {200}
  Export = FALSE
INVARIANT HTypeOK
INVARIANT ReaderMatchesTable
INVARIANT GivenKept
INVARIANT RowsConvex
INVARIANT HFits
INVARIANT EveryLayoutRead
CHECK_DEADLOCK FALSE
