SPECIFICATION HSpec
CONSTANTS
  NB = 2
  TempK <- MCTemp4
  SortBeforeFill = TRUE
  OutsideRule = "zero"
  BoundsRule = "given"
  QTemps = {200}
  Export = FALSE
INVARIANT HTypeOK
INVARIANT ReaderMatchesTable
INVARIANT GivenKept
INVARIANT RowsConvex
INVARIANT HFits
CHECK_DEADLOCK FALSE
