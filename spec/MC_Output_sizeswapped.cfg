SPECIFICATION Spec
CONSTANTS
  KeysTop = {"a"}
  KeysNested = {"a"}
  Depth = 1
  Export = FALSE
  Catalogue = "kinds"
  SizeTest = "swapped:lightcurve"
  Caught = {"TypeError","ValueError"}
INVARIANT RoundTrip
INVARIANT NoError
INVARIANT SizeArith
CONSTRAINT Emit
CHECK_DEADLOCK FALSE
