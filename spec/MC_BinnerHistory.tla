------------------------- MODULE MC_BinnerHistory -------------------------
(* Model-checking / export instance of BinnerHistory.                                                    *)
(*   design      MSpec: no history variable; invariants over the whole reachable graph, the four mutant   *)
(*               invariants refuted (TLC -continue).                                                      *)
(*   pairs       HSpec bounded to two operations: EVERY ordered pair of operations (an operation taints   *)
(*               the next one); prints the table of operations with what a fresh binner returns (exact)   *)
(*               and every pair with the design mutants it exposes.                                       *)
(*   walks       HSpec in simulation mode: longer random sequences.                                       *)
(* Target bins (lattice):  [46,66] [20,40] [100,136] [60,80] handed over unsorted: overlapping bins,      *)
(* gaps, unequal widths.  Native grids:                                                                    *)
(*   1  uniform, 9 points 16..144                                                                          *)
(*   2  9 points with the SAME END POINTS, spacing growing with the wavenumber (constant resolution)        *)
(*   3  9 points elsewhere (same length, other ends, irregular)                                            *)
(*   4  12 points (another length)                                                                         *)
(*   5  7 points, thorough only                                                                            *)
EXTENDS BinnerHistory, Json
CONSTANTS NGrids,     \* how many of the grids below are in the alphabet
          Depth,      \* length of the exported histories
          Export      \* "none" | "pairs" | "walks"
VARIABLE hist
MCTC == <<56, 30, 118, 70>>
MCTW == <<20, 20, 36, 20>>
AllGrids == << [p |-> <<16, 32, 48, 64, 80, 96, 112, 128, 144>>,        xw |-> <<16, 16, 16, 16, 16, 16, 16, 16, 16>>],
               [p |-> <<16, 20, 28, 40, 56, 76, 100, 120, 144>>,        xw |-> <<4, 4, 8, 12, 16, 20, 24, 20, 24>>],
               [p |-> <<8, 24, 36, 52, 64, 80, 96, 116, 152>>,          xw |-> <<12, 12, 12, 12, 12, 16, 16, 20, 36>>],
               [p |-> <<12, 24, 36, 48, 60, 72, 84, 96, 108, 120, 132, 144>>, xw |-> <<8, 8, 8, 8, 8, 8, 8, 8, 8, 8, 8, 8>>],
               [p |-> <<12, 36, 52, 72, 88, 112, 148>>,                 xw |-> <<24, 16, 16, 16, 16, 24, 36>>] >>
MCGrids == SubSeq(AllGrids, 1, NGrids)

\* a design mutant is followed until it is refuted, not further (keeps the number of reported counterexamples small)
Alive == SoundV(V) \/ (OpsArePure /\ ResultEqualsFresh)
MSpec == Init /\ hist = <<>> /\ [][Alive /\ Next /\ UNCHANGED hist]_<<vars, hist>>
HInit == Init /\ hist = <<>>
HNext == Len(hist) < Depth /\ \E op \in Ops : Do(op) /\ hist' = Append(hist, op)
HSpec == HInit /\ [][HNext]_<<vars, hist>>
\* simulation: one random operation per step (TLC would otherwise evaluate all of them to pick one)
SNext == Len(hist) < Depth /\ LET op == RandomElement(Ops) IN Do(op) /\ hist' = Append(hist, op)
SSpec == HInit /\ [][SNext]_<<vars, hist>>
Bound == Len(hist) <= Depth

\* which design mutants a history exposes on a binner of a kind: some call returns something else than a
\* fresh binner returns (what the binding can observe)
RECURSIVE Exposed(_, _, _, _)
Exposed(v, s, ops, i) ==
    IF i > Len(ops) THEN FALSE
    ELSE Res(v, s, ops[i]) # Fresh(v, ops[i]) \/ Exposed(v, Step(v, s, ops[i]), ops, i + 1)
Mutants(kind) == {v \in [kind : {kind}, key : {"none", "length", "ends"}, conv : {"copy", "inplace"}] :
                     /\ ~SoundV(v) /\ (v.conv = "inplace" => v.key = "none") /\ (kind # "flux" => v.key = "none")}
MutName(v) == IF v.conv = "inplace" THEN "inplace" ELSE v.key
KillsOf(kind, ops) == {MutName(v) : v \in {m \in Mutants(kind) : Exposed(m, FreshBs, ops, 1)}}

Canon == SoundV(V) /\ V.key = "none" /\ V.kind = "flux"
OpTable(kind) == {[op |-> op, res |-> Fresh([kind |-> kind, key |-> "none", conv |-> "copy"], op)] : op \in Ops}
\* printed once, from the canonical initial state of the exhaustive run
EmitOps == (Export = "pairs" /\ Canon /\ ~started) =>
    PrintT(<<"OPS", ToJson([tc |-> TC, tw |-> TW, c |-> SortedC, w |-> SortedW,
                            grids |-> [g \in 1..NG |-> [p |-> Pts(g), xw |-> Grids[g].xw, f |-> FSeq(g), tau |-> TauRows(g),
                                                        e |-> ESeq(g), dw |-> DerivedW(Pts(g))]],
                            flux |-> OpTable("flux"), simple |-> OpTable("simple"), native |-> OpTable("native")])>>)
EmitWalk == (Export # "none" /\ Canon /\ Len(hist) = Depth) =>
    PrintT(<<"WALK", ToJson([ops |-> hist, flux |-> KillsOf("flux", hist), simple |-> KillsOf("simple", hist)])>>)
=============================================================================
