------------------------------ MODULE HitranCia ------------------------------
(* C14, HITRAN collision-induced-absorption text files.                       *)
(*                                                                            *)
(* A HITRAN .cia file is a SET of blocks; a block gives one wavenumber band   *)
(* (its own start/end wavenumber and points) at one temperature.  The file    *)
(* lists the blocks in ANY order: the temperatures of one band need not       *)
(* ascend, bands may be interleaved, a band may be missing at some of the     *)
(* temperatures of the file (gaps), and every band has its own range.         *)
(*                                                                            *)
(* The physical table of the file (what a pickle of "the same tabulated       *)
(* cross-sections" holds) is a function of the SET of blocks only:            *)
(*   master temperature grid = all temperatures that occur, ascending;        *)
(*   row of band b at master temperature t = the block itself when given,     *)
(*   zero below / above the temperatures the band is given at, and linear in  *)
(*   T between the two nearest given temperatures of that band otherwise.     *)
(* Rows are coefficient vectors over the given temperatures (exact            *)
(* rationals), so the bindings can apply them to any block values.            *)
(*                                                                            *)
(* Actions: Write(b, t, lay) appends a block that is not yet in the file,     *)
(* Close ends the file.  TLC enumerates every arrangement of every subset of  *)
(* blocks (exhaustive) or random ones (-simulate).                            *)
(*                                                                            *)
(* Record layout (round 4): every block is written in one of the record       *)
(* layouts the HITRAN CIA format allows (constant Layouts), chosen block by   *)
(* block: the data lines hold wavenumber and coefficient, and -- in the sets  *)
(* that carry one -- a third column with the uncertainty of the coefficient;  *)
(* the header is the short form (one-word comment) or the full 100-character  *)
(* form (comment of several words followed by the reference number).  A line  *)
(* is modelled as its sequence of blank-separated fields.  The physical table *)
(* does not depend on the layouts (LayoutIrrelevant).  The reader picks its   *)
(* fields by POSITION (KField, HeadFrom: variant switches for expected        *)
(* counterexamples); a block whose coefficient / header fields are taken from *)
(* another field is lost to the table (ReaderMatchesTable refutes it).        *)
(*                                                                            *)
(* Reader: a transcription of the reading algorithm (per-band list in file    *)
(* order, sort, fill the master temperatures by bisection, rows addressed by  *)
(* POSITION in the list) with two variant switches for expected               *)
(* counterexamples; ReaderMatchesTable states that it computes the physical   *)
(* table for every arrangement.                                               *)
EXTENDS Rat, FiniteSets, TLC
CONSTANTS NB,              \* bands 1..NB, wavenumber ranges disjoint and ascending in b
          TempK,           \* candidate temperatures in K (ascending sequence of integers)
          SortBeforeFill,  \* TRUE: the reader sorts a band's list before filling gaps
          OutsideRule,     \* "zero" (documented) | "hold" (variant: nearest given block outside the band's temperatures)
          BoundsRule,      \* "given": a band's temperature range is that of its blocks in the file (documented)
                           \* "running" (variant): the range is re-evaluated on the list while it is being filled
          Layouts,         \* record layouts a block may be written in, subset of AllLayouts
          KField,          \* "second" (documented: wavenumber, coefficient[, uncertainty]) | "last" (variant: last field of a data line)
          HeadFrom         \* "start" (documented: header fields counted from the left) | "end" (variant: counted from the right)
VARIABLES phase, file

hvars == <<phase, file>>
NT == Len(TempK)
TIdx == 1..NT
HBlocks == (1..NB) \X TIdx

\* ------------------------------------------------ record layouts: a line is its sequence of blank-separated fields
AllLayouts == {"k", "k+err", "ref:k", "ref:k+err"}
HasErr(lay) == lay \in {"k+err", "ref:k+err"}
HasRef(lay) == lay \in {"ref:k", "ref:k+err"}
DataFields(lay) == IF HasErr(lay) THEN <<"wn", "k", "err">> ELSE <<"wn", "k">>
HeadFields(lay) == <<"pair", "wnmin", "wnmax", "npts", "T", "kmax", "res">>
                   \o (IF HasRef(lay) THEN <<"comment", "comment", "comment", "ref">> ELSE <<"comment">>)
\* the fields the reader takes (by position)
PickK(f) == IF KField = "second" THEN f[2] ELSE f[Len(f)]
\* position of the p-th header field of the short form, counted from the chosen end
PickHead(f, p) == IF HeadFrom = "start" THEN f[p] ELSE f[Len(f) - (8 - p)]
BlockReadRight(lay) == /\ PickK(DataFields(lay)) = "k"
                       /\ DataFields(lay)[1] = "wn"
                       /\ \A p \in 1..6 : PickHead(HeadFields(lay), p) = HeadFields("k")[p]

HWritten == {<<file[i][1], file[i][2]>> : i \in DOMAIN file}
HLayouts == {file[i][3] : i \in DOMAIN file}
HBands == {x[1] : x \in HWritten}
HMaster == {x[2] : x \in HWritten}
HHave(b) == {x[2] : x \in {y \in HWritten : y[1] = b}}
SetMin(S) == CHOOSE x \in S : \A y \in S : x <= y
SetMax(S) == CHOOSE x \in S : \A y \in S : x >= y
RECURSIVE AscSeq(_)
AscSeq(S) == IF S = {} THEN <<>> ELSE LET m == SetMin(S) IN <<m>> \o AscSeq(S \ {m})
HMasterSeq == AscSeq(HMaster)
HBandSeq == AscSeq(HBands)

HInit == phase = "write" /\ file = <<>>
Write(b, t, lay) == /\ phase = "write" /\ <<b, t>> \notin HWritten
                    /\ file' = Append(file, <<b, t, lay>>) /\ UNCHANGED phase
\* a table needs two temperatures to be a function of T
CloseFile == /\ phase = "write" /\ Cardinality(HMaster) >= 2
         /\ phase' = "closed" /\ UNCHANGED file
HNext == CloseFile \/ \E bt \in HBlocks, lay \in Layouts : Write(bt[1], bt[2], lay)
HSpec == HInit /\ [][HNext]_hvars
HClosed == phase = "closed"

\* ------------------------------------------------ coefficient vectors over TIdx
CZero == [i \in TIdx |-> RZero]
CUnit(t) == [i \in TIdx |-> IF i = t THEN ROne ELSE RZero]
CMix(a, b, w) == [i \in TIdx |-> RAdd(RMul(RSub(ROne, w), a[i]), RMul(w, b[i]))]
TWeight(t, lo, hi) == R(TempK[t] - TempK[lo], TempK[hi] - TempK[lo])

\* ------------------------------------------------ the physical table (set level)
RowOf(b, t) ==
    LET have == HHave(b) IN
    IF t \in have THEN CUnit(t)
    ELSE IF t < SetMin(have) \/ t > SetMax(have) THEN CZero
    ELSE LET lo == SetMax({h \in have : h < t})
             hi == SetMin({h \in have : h > t})
         IN  CMix(CUnit(lo), CUnit(hi), TWeight(t, lo, hi))
\* as sequences (master temperature ascending, band ascending, coefficient per candidate temperature)
PhysTable == [k \in DOMAIN HMasterSeq |-> [j \in DOMAIN HBandSeq |-> RowOf(HBandSeq[j], HMasterSeq[k])]]

\* cross-section at an arbitrary temperature K inside the master grid: linear between the neighbouring master nodes
\* (positions in HMasterSeq and the weight of the upper node)
QueryOf(K) ==
    LET ms == HMasterSeq
        le == {k \in DOMAIN ms : TempK[ms[k]] <= K}
        ge == {k \in DOMAIN ms : TempK[ms[k]] >= K}
        lo == SetMax(le)
        hi == SetMin(ge)
    IN  [T |-> K, lo |-> lo, hi |-> hi,
         w |-> IF lo = hi THEN RZero ELSE R(K - TempK[ms[lo]], TempK[ms[hi]] - TempK[ms[lo]])]
QueryInside(K) == K >= TempK[SetMin(HMaster)] /\ K <= TempK[SetMax(HMaster)]

\* ------------------------------------------------ the reading algorithm
\* entries of a band's list: [t |-> temperature index, c |-> coefficient vector]
\* (a block whose fields are not the ones the layout puts the coefficient / header values in contributes nothing it should)
BandList(b) == LET s == SelectSeq(file, LAMBDA x : x[1] = b)
               IN  [i \in DOMAIN s |-> [t |-> s[i][2], c |-> IF BlockReadRight(s[i][3]) THEN CUnit(s[i][2]) ELSE CZero]]
SortT(lst) == SortSeq(lst, LAMBDA x, y : x.t < y.t)
\* numpy.searchsorted(ts, key, side='right') with 0-based bounds: a bisection, defined on unsorted input too
RECURSIVE Bisect(_, _, _, _)
Bisect(ts, key, lo, hi) ==
    IF lo >= hi THEN lo
    ELSE LET mid == (lo + hi) \div 2
         IN  IF ts[mid + 1] <= key THEN Bisect(ts, key, mid + 1, hi) ELSE Bisect(ts, key, lo, mid)
\* Python indexing with a 0-based index p (negative indices count from the end); 0 = IndexError
PyIdx(n, p) == IF p < 0 THEN (IF n + p >= 0 THEN n + p + 1 ELSE 0) ELSE IF p < n THEN p + 1 ELSE 0
RECURSIVE FillFrom(_, _, _)
FillFrom(st, ms, have) ==
    IF ~st.ok \/ ms = <<>> THEN st
    ELSE LET lst == st.l
             t == Head(ms)
             ts == [i \in DOMAIN lst |-> lst[i].t]
             tset == {ts[i] : i \in DOMAIN ts}
             bnd == IF BoundsRule = "given" THEN have ELSE tset
         IN  IF t \in tset THEN FillFrom(st, Tail(ms), have)
             ELSE IF t < SetMin(bnd) \/ t > SetMax(bnd)
             THEN LET edge == CHOOSE i \in DOMAIN lst : lst[i].t = (IF t < SetMin(bnd) THEN SetMin(bnd) ELSE SetMax(bnd))
                      c == IF OutsideRule = "zero" THEN CZero ELSE lst[edge].c
                  IN  FillFrom([ok |-> TRUE, l |-> SortT(Append(lst, [t |-> t, c |-> c]))], Tail(ms), have)
             ELSE LET p == Bisect(ts, t, 0, Len(ts)) - 1
                      i0 == PyIdx(Len(lst), p)
                      i1 == PyIdx(Len(lst), p + 1)
                  IN  IF i0 = 0 \/ i1 = 0 \/ lst[i0].t = lst[i1].t THEN [ok |-> FALSE, l |-> lst]
                      ELSE FillFrom([ok |-> TRUE,
                                     l |-> SortT(Append(lst, [t |-> t, c |-> CMix(lst[i0].c, lst[i1].c, TWeight(t, lst[i0].t, lst[i1].t))]))],
                                    Tail(ms), have)
ReadBand(b) == LET l0 == BandList(b)
               IN  FillFrom([ok |-> TRUE, l |-> IF SortBeforeFill THEN SortT(l0) ELSE l0], HMasterSeq, HHave(b))
\* the unified table takes row k of every band's list for the k-th master temperature
ReaderMatchesTable ==
    HClosed => \A j \in DOMAIN HBandSeq :
                 LET r == ReadBand(HBandSeq[j])
                 IN  /\ r.ok /\ Len(r.l) = Len(HMasterSeq)
                     /\ \A k \in DOMAIN HMasterSeq : r.l[k].c = PhysTable[k][j]

\* ------------------------------------------------ invariants of the physical table
HTypeOK == /\ phase \in {"write", "closed"}
           /\ \A i, j \in DOMAIN file : i # j => <<file[i][1], file[i][2]>> # <<file[j][1], file[j][2]>>
           /\ \A i \in DOMAIN file : <<file[i][1], file[i][2]>> \in HBlocks /\ file[i][3] \in Layouts
           /\ Layouts \subseteq AllLayouts /\ Layouts # {}
CSum(c) == RSumSeq([i \in TIdx |-> c[i]])
\* given blocks are kept as they are; every other row is zero or a convex combination of two given blocks of the same band
GivenKept == HClosed => \A b \in HBands : \A t \in HHave(b) : RowOf(b, t) = CUnit(t)
RowsConvex == HClosed => \A b \in HBands : \A t \in HMaster :
                 LET c == RowOf(b, t)
                 IN  /\ \A i \in TIdx : RLe(RZero, c[i]) /\ RLe(c[i], ROne) /\ (c[i] # RZero => i \in HHave(b))
                     /\ CSum(c) \in {RZero, ROne}
                     /\ Cardinality({i \in TIdx : c[i] # RZero}) <= 2
HFits == HClosed => \A b \in HBands : \A t \in HMaster : \A i \in TIdx : Fits(RowOf(b, t)[i])
\* every layout of the format is read: documented positions hit the coefficient and the six header values
EveryLayoutRead == \A lay \in Layouts : BlockReadRight(lay)
\* non-vacuity probes (expected to be refuted; non-vacuity of the layout dimension -- a third column, mixed files -- is checked
\* on the exported files by the driver)
NeverUnsortedBand == HClosed => \A b \in HBands : LET l == BandList(b) IN \A i \in DOMAIN l : i > 1 => l[i - 1].t < l[i].t
NeverInteriorGap == HClosed => \A b \in HBands : \A t \in HMaster : CSum(RowOf(b, t)) = RZero \/ Cardinality({i \in TIdx : RowOf(b, t)[i] # RZero}) = 1
=============================================================================
