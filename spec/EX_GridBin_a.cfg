SPECIFICATION Spec
CONSTANTS
  Starts = {0,16}
  Gaps = {1,2,3}
  PMax = 34
  MaxLen = 5
  ObsPos = {7,8,15,21}
  ObsCard = {2,3,4}
  ObsW2 = {}
  Cond = "none"
  Export = TRUE
INVARIANT NeededRetained
INVARIANT ClipContiguous
INVARIANT FitsInv
CONSTRAINT Prune
CONSTRAINT Emit
CHECK_DEADLOCK FALSE
