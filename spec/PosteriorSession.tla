-------------------------- MODULE PosteriorSession --------------------------
(***************************************************************************)
(* C09 over the LIFE of one optimizer in a job of np processes.            *)
(*                                                                         *)
(* The property speaks of "every solution reported after a fit": an        *)
(* optimizer is a long-lived object -- it is built with or without an      *)
(* observation, gets (another) observation through set_observed, has       *)
(* fitted / derived parameters switched on and off, and is fitted again;   *)
(* and the post-processing of one fit is shared out over the np processes  *)
(* of the job (process r evaluates samples r, r+np, ..; the per-process    *)
(* lists are concatenated in process order and put back into sample        *)
(* order).  Every reported solution must be that of the settings in force  *)
(* when fit() was called, whatever happened before and whatever np is:     *)
(*   - the stored spectrum is binned to the observation that was fitted    *)
(*   - the summaries are those of the parameters selected at that moment   *)
(*   - every derived trace has one entry per sample in sample order, and   *)
(*     its summaries use every sample's own weight (same quantile rule)    *)
(*                                                                         *)
(* Sample sets are abstract here (n samples; sample i has the value        *)
(* DVal(k, i) for derived parameter k -- injective in i -- and the weight  *)
(* DW(i), with a zero and ties): what is modelled is WHICH sample and      *)
(* WHICH weight end up at every position.  The values themselves are the   *)
(* subject of MC_Posterior.                                                *)
(*                                                                         *)
(* Deliberately wrong variants (TLC must refute the invariants):           *)
(*   Binner = "lazy"         the binner is made for the first observation  *)
(*                           the optimizer sees and kept                   *)
(*   Gather = "rank-order"   gathered lists are not put back               *)
(*   Gather = "weights-once" the weights are gathered once but re-ordered  *)
(*                           once per derived parameter                    *)
(***************************************************************************)
EXTENDS Posterior
CONSTANTS NObs,      \* observations 1..NObs the user switches between (0: optimizer built without one)
          NSel,      \* selections of fitted parameters 0..NSel-1
          NDer,      \* selections of derived parameters 0..NDer-1
          Ranks,     \* process counts a job may have (fixed for the life of the job)
          K,         \* derived parameters computed
          Sizes,     \* numbers of samples the sampler may return
          Binner,    \* "fresh" | "lazy"
          Gather     \* "sample-order" | "rank-order" | "weights-once"
VARIABLES obs, binner, sel, der, np, sol
svars == <<obs, binner, sel, der, np, sol>>

NoSol == [n |-> 0]
DVal(k, i) == 7 * k + i * i
DW(i) == (3 * i) % 5
XTrace(k, n) == [i \in 1..n |-> DVal(k, i)]
XW(n) == [i \in 1..n |-> DW(i)]

\* sample index of every entry of the concatenation (process order) of the per-process lists
RECURSIVE Stride(_, _, _)
Stride(first, n, step) == IF first > n THEN <<>> ELSE <<first>> \o Stride(first + step, n, step)
RECURSIVE GatherFrom(_, _, _)
GatherFrom(r, n, p) == IF r > p THEN <<>> ELSE Stride(r, n, p) \o GatherFrom(r + 1, n, p)
GatherOrder(n, p) == GatherFrom(1, n, p)
\* position of every sample in the gathered list
PlaceOf(go) == [i \in DOMAIN go |-> CHOOSE j \in DOMAIN go : go[j] = i]
Gathered(f, go) == [j \in DOMAIN go |-> f[go[j]]]
\* put a gathered list back into sample order
BackInOrder(g, place) == [i \in DOMAIN place |-> g[place[i]]]
RECURSIVE BackTimes(_, _, _)
BackTimes(g, place, times) == IF times = 0 THEN g ELSE BackTimes(BackInOrder(g, place), place, times - 1)

TraceOf(k, n, go, place) == LET g == Gathered(XTrace(k, n), go)
                            IN  IF Gather = "rank-order" THEN g ELSE BackInOrder(g, place)
WeightsOf(k, n, go, place) == LET g == Gathered(XW(n), go)
                              IN  CASE Gather = "rank-order"   -> g
                                    [] Gather = "weights-once" -> BackTimes(g, place, k)
                                    [] OTHER                   -> BackInOrder(g, place)

Init == /\ obs \in 0..NObs /\ binner = obs
        /\ sel \in 0..(NSel - 1) /\ der \in 0..(NDer - 1)
        /\ np \in Ranks /\ sol = NoSol
SetObserved(o) == /\ o # obs
                  /\ obs' = o
                  /\ binner' = IF Binner = "lazy" /\ binner # 0 THEN binner ELSE o
                  /\ UNCHANGED <<sel, der, np, sol>>
SelectFit(s) == s # sel /\ sel' = s /\ UNCHANGED <<obs, binner, der, np, sol>>
SelectDerived(d) == d # der /\ der' = d /\ UNCHANGED <<obs, binner, sel, np, sol>>
Fit(n) == /\ obs # 0
          /\ LET go == GatherOrder(n, np)
                 place == PlaceOf(go)
             IN  sol' = [n |-> n, data |-> obs, binned_to |-> binner, fitted |-> sel, derived |-> der,
                         dtrace |-> [k \in 1..K |-> TraceOf(k, n, go, place)],
                         dwts   |-> [k \in 1..K |-> WeightsOf(k, n, go, place)]]
          /\ UNCHANGED <<obs, binner, sel, der, np>>
Next == \/ \E o \in 1..NObs : SetObserved(o)
        \/ \E s \in 0..(NSel - 1) : SelectFit(s)
        \/ \E d \in 0..(NDer - 1) : SelectDerived(d)
        \/ \E n \in Sizes : Fit(n)
Spec == Init /\ [][Next]_svars

Reported == sol.n > 0
\* the stored spectrum is binned to the observation that was fitted
BinnedToFittedObservation == Reported => sol.binned_to = sol.data
\* one entry per sample, in sample order, for EVERY derived parameter, whatever the number of processes
DerivedInSampleOrder == Reported => \A k \in 1..K : sol.dtrace[k] = XTrace(k, sol.n)
\* the weight used with entry i of every derived trace is the weight of sample i
DerivedWeightsAligned == Reported => \A k \in 1..K : sol.dwts[k] = XW(sol.n)
\* hence the summaries are those of the quantile rule / weighted mean on (trace, the samples' weights)
DerivedSummaryRule == Reported => \A k \in 1..K :
        /\ Triples(sol.dtrace[k], sol.dwts[k]) = Triples(XTrace(k, sol.n), XW(sol.n))
        /\ WMean(sol.dtrace[k], sol.dwts[k]) = WMean(XTrace(k, sol.n), XW(sol.n))
\* the model is not vacuous: for more than one process the gathered order differs from the sample order
GatherPermutes == \A p \in Ranks, n \in Sizes : (p > 1 /\ n > p) => GatherOrder(n, p) # [i \in 1..n |-> i]
=============================================================================
