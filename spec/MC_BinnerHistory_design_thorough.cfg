SPECIFICATION MSpec
CONSTANTS
  TC <- MCTC
  TW <- MCTW
  Grids <- MCGrids
  NGrids = 5
  Sizes = {"heavy", "light", "lighter"}
  Kinds = {"flux", "simple", "native"}
  Keys = {"none", "content", "length", "ends"}
  Convs = {"copy", "inplace"}
  Depth = 0
  Export = "none"
INVARIANT HoldPure
INVARIANT HoldFresh
INVARIANT HoldNative
INVARIANT AlphabetInv
INVARIANT FitsInv
INVARIANT RefuteLength
INVARIANT RefuteEnds
INVARIANT RefuteInplace
CHECK_DEADLOCK FALSE
