--------------------------- MODULE Trace_Pipeline ---------------------------
(* Validation of recorded runs against Pipeline.tla.  Each line is one event   *)
(* emitted by a wrapper around a public method of the real classes, tagged     *)
(* with the trace id `tid` (one per model object per scenario).  A trace stops *)
(* at its first rejected event (printed as BAD with the position and the       *)
(* pipeline state), the remaining traces are still validated.                  *)
EXTENDS Pipeline, Json, IOUtils, TLCExt
VARIABLES l, st, cur, dead
TraceLog == ndJsonDeserialize(IOEnv.TRACE_FILE)

Init == l = 1 /\ st = PInit /\ cur = -1 /\ dead = -1
Step == /\ l <= Len(TraceLog)
        /\ LET e  == TraceLog[l]
               s0 == IF e.tid = cur THEN st ELSE PInit
           IN  IF e.tid = dead THEN UNCHANGED <<st, cur, dead>>
               ELSE IF Guard(e, s0)
                    THEN st' = Apply(e, s0) /\ cur' = e.tid /\ UNCHANGED dead
                    ELSE /\ PrintT(<<"BAD", ToJson([l |-> l, tid |-> e.tid, ev |-> e.ev, c |-> e.c, g |-> e.g,
                                                    ver |-> s0.ver, tv |-> s0.tv, cv |-> s0.cv, av |-> s0.av,
                                                    asrc |-> s0.asrc, star |-> s0.star])>>)
                         /\ dead' = e.tid /\ cur' = e.tid /\ st' = s0
        /\ l' = l + 1
Spec == Init /\ [][Step]_<<l, st, cur, dead>>
Accepted == TLCGet("stats").diameter - 1 = Len(TraceLog)
=============================================================================
