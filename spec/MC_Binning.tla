----------------------------- MODULE MC_Binning -----------------------------
(* Exhaustive / export model for C05: choose native bins, target bins and a      *)
(* spectrum; evaluate one of the three binners; check the property's clauses in  *)
(* every state.  Native and target *order* is quantified inside the invariants   *)
(* (all permutations), not stored in the state.                                  *)
EXTENDS Binning
CONSTANTS E,            \* native bin edges lie on 0..E
          KMin, KMax,   \* between KMin and KMax native bins
          TES, TShift,  \* target bin edges lie on {t - TShift : t \in TES}
          NTgtMin, NTgtMax, \* number of target bins
          Vals,         \* spectrum values for FMode = "all"
          FMode,        \* "all" | "basis" (constant, generic, one-hot) | "generic" (two spectra of distinct values)
          Kinds,        \* which binners are evaluated: subset of {"flux", "simple", "native"}
          Variant,      \* algorithm variant (see Binning.tla); "ok" is FluxBinner as it should be
          Export
VARIABLES phase, nat, tgt, f, kind, out
vars == <<phase, nat, tgt, f, kind, out>>

\* ---------------------------------------------------------------- input space
RECURSIVE NatFrom(_, _)
NatFrom(k, a) == IF k = 0 THEN {<<>>}
                 ELSE UNION {{<<iv>> \o s : s \in NatFrom(k - 1, iv[2])} :
                             iv \in {x \in (a..E) \X (a..E) : x[1] < x[2]}}
AllNat == UNION {NatFrom(k, 0) : k \in KMin..KMax}
TE == {t - TShift : t \in TES}
TIv == {x \in TE \X TE : x[1] < x[2]}
C2(iv) == iv[1] + iv[2]
Wd(iv) == iv[2] - iv[1]
DistinctCentres(T) == \A i, j \in 1..Len(T) : i # j => C2(T[i]) # C2(T[j])
AllTgt == UNION {{T \in [1..k -> TIv] : DistinctCentres(T)} : k \in NTgtMin..NTgtMax}
Primes == <<2, 3, 5, 7, 11, 13>>
Gen1(n) == [i \in 1..n |-> Primes[i]]
Gen2(n) == [i \in 1..n |-> Primes[n + 1 - i] * 3 + (i % 2)]
Spectra(n) == IF FMode = "all" THEN [1..n -> Vals]
              ELSE IF FMode = "generic" THEN {Gen1(n), Gen2(n)}
              ELSE {[i \in 1..n |-> 5], [i \in 1..n |-> Primes[i]], [i \in 1..n |-> Primes[n + 1 - i] * 3 + (i % 2)]}
                   \cup {[i \in 1..n |-> IF i = j THEN 8 ELSE 1] : j \in 1..n}
\* uncertainties derived from the spectrum (keeps the state space small): positive, mostly distinct
ErrOf(g) == [i \in 1..Len(g) |-> g[Len(g) + 1 - i] + i]

Init == /\ phase = "in" /\ nat \in AllNat /\ tgt \in AllTgt
        /\ f \in Spectra(Len(nat)) /\ kind = "none" /\ out = <<>>

NC2 == [i \in 1..Len(nat) |-> C2(nat[i])]
NW  == [i \in 1..Len(nat) |-> Wd(nat[i])]
TC2 == [k \in 1..Len(tgt) |-> C2(tgt[k])]
TW  == [k \in 1..Len(tgt) |-> Wd(tgt[k])]
TQ  == SortPerm(TC2)
SortedTgt == [k \in 1..Len(tgt) |-> tgt[TQ[k]]]

EvalFlux == /\ phase = "in" /\ "flux" \in Kinds
            /\ out' = AlgFlux(NC2, NW, f, ErrOf(f), TC2, TW, Variant)
            /\ kind' = "flux" /\ phase' = "done" /\ UNCHANGED <<nat, tgt, f>>
\* SimpleBinner does not sort its target grid: only ascending target centres are in its domain;
\* native points are the centres of the native bins
SimpleOk == Len(tgt) >= 2 /\ \A k \in 1..(Len(tgt) - 1) : TC2[k] < TC2[k + 1]
EvalSimple == /\ phase = "in" /\ "simple" \in Kinds /\ SimpleOk
              /\ out' = [k \in 1..Len(tgt) |->
                           IF HistMembers(TC2, NC2, k) = {} THEN [k |-> "empty"]
                           ELSE [k |-> "num", v |-> HistMean(TC2, NC2, f, k)]]
              /\ kind' = "simple" /\ phase' = "done" /\ UNCHANGED <<nat, tgt, f>>
EvalNative == /\ phase = "in" /\ "native" \in Kinds
              /\ out' = [i \in 1..Len(nat) |-> [k |-> "num", v |-> Q(f[i])]]
              /\ kind' = "native" /\ phase' = "done" /\ UNCHANGED <<nat, tgt, f>>
Next == EvalFlux \/ EvalSimple \/ EvalNative
Spec == Init /\ [][Next]_vars

\* ------------------------------------------------------------------ invariants
Done == phase = "done"
WellFormed == OrderedDisjoint(nat) /\ \A k \in 1..Len(tgt) : tgt[k][1] < tgt[k][2]

\* the algorithm, fed the native points in ANY order (all permutations, widths travelling with their
\* centres) and the target points in the order of this state (all orders are states), returns for every
\* sorted target bin what the definition requires
AlgRefinesDef == Done /\ kind = "flux" =>
    \A p \in Permutations(1..Len(nat)) :
        LET pp  == [i \in 1..Len(nat) |-> p[i]]
            res == AlgFlux(Permute(NC2, pp), Permute(NW, pp), Permute(f, pp), Permute(ErrOf(f), pp), TC2, TW, Variant)
        IN  \A k \in 1..Len(tgt) : Agrees(res[k], nat, SortedTgt[k], f, ErrOf(f))
OutIsSortedOrder == Done /\ kind = "flux" => \A k \in 1..Len(tgt) : Agrees(out[k], nat, SortedTgt[k], f, ErrOf(f))
DefPermutationInvariant == Done /\ kind = "flux" =>
    \A p \in Permutations(1..Len(nat)) : \A k \in 1..Len(tgt) :
        LET pp == [i \in 1..Len(nat) |-> p[i]] IN
        Overlaps(nat, tgt[k]) =>
           /\ Binned(Permute(nat, pp), tgt[k], Permute(f, pp)) = Binned(nat, tgt[k], f)
           /\ BinnedErr2(Permute(nat, pp), tgt[k], Permute(f, pp)) = BinnedErr2(nat, tgt[k], f)
OvTgt == {k \in 1..Len(tgt) : Overlaps(nat, tgt[k])}
ConstantPreserved == Done /\ kind = "flux" => \A k \in OvTgt :
    LET V == OverlapVals(nat, tgt[k], f) IN
    Cardinality(V) = 1 => Binned(nat, tgt[k], f) = Q(SetMinI(V))
BetweenMinMaxOfOverlapping == Done /\ kind = "flux" => \A k \in OvTgt :
    LET V == OverlapVals(nat, tgt[k], f) IN
    RLe(Q(SetMinI(V)), Binned(nat, tgt[k], f)) /\ RLe(Binned(nat, tgt[k], f), Q(SetMaxI(V)))
LinG == {[i \in 1..Len(nat) |-> IF i = j THEN 1 ELSE 0] : j \in 1..Len(nat)} \cup {[i \in 1..Len(nat) |-> 7 - i]}
Linear == Done /\ kind = "flux" => \A k \in OvTgt : \A g \in LinG :
    Binned(nat, tgt[k], [i \in 1..Len(nat) |-> 2 * f[i] + 3 * g[i]])
      = RAdd(RMul(Q(2), Binned(nat, tgt[k], f)), RMul(Q(3), Binned(nat, tgt[k], g)))
WeightsSumToOne == Done /\ kind = "flux" => \A k \in OvTgt :
    /\ RSumSeq([i \in 1..Len(nat) |-> NWeight(nat, tgt[k], i)]) = Q(1)
    /\ \A i \in 1..Len(nat) : RLe(Q(0), NWeight(nat, tgt[k], i)) /\ RLe(NWeight(nat, tgt[k], i), Q(1))
NoOverlapUntouched == Done /\ kind = "flux" => \A k \in 1..Len(tgt) :
    ~Overlaps(nat, SortedTgt[k]) => out[k].k \in {"zero", "nan"} /\ (~Touches(nat, SortedTgt[k]) => out[k].k = "zero")
\* uncertainties: same weights in quadrature  =>  never above the largest contributing error,
\* equal to it when one native bin contributes
ErrQuadrature == Done /\ kind = "flux" => \A k \in OvTgt :
    LET e  == ErrOf(f)
        I  == OverlapIdx(nat, tgt[k])
        e2 == BinnedErr2(nat, tgt[k], e)
        mx == SetMaxI({e[i] * e[i] : i \in I})
    IN  /\ RLe(e2, Q(mx))
        /\ (Cardinality(I) = 1 => e2 = Q(mx))
        /\ RLt(Q(0), e2)
HistBetween == Done /\ kind = "simple" => \A k \in 1..Len(tgt) :
    out[k].k = "num" =>
        LET V == {f[i] : i \in HistMembers(TC2, NC2, k)} IN
        /\ RLe(Q(SetMinI(V)), out[k].v) /\ RLe(out[k].v, Q(SetMaxI(V)))
        /\ (Cardinality(V) = 1 => out[k].v = Q(SetMinI(V)))
\* every native point off the edges and inside the histogram range is counted exactly once
HistPartition == Done /\ kind = "simple" => \A i \in 1..Len(nat) :
    (~OnHistEdge(TC2, NC2[i]) /\ HistEdge2(TC2, 0) < 2 * NC2[i] /\ 2 * NC2[i] < HistEdge2(TC2, Len(tgt)))
       => Cardinality({k \in 1..Len(tgt) : i \in HistMembers(TC2, NC2, k)}) = 1
NativeIdentity == Done /\ kind = "native" => \A i \in 1..Len(nat) : out[i].v = Q(f[i])
FitsInv == Done => \A k \in 1..Len(out) : out[k].k = "num" => Fits(out[k].v)

\* ---------------------------------------------------------------------- export
ExpFlux(k) == LET tb == SortedTgt[k] IN
    [tb |-> tb, ov |-> Overlaps(nat, tb), touch |-> Touches(nat, tb),
     v  |-> IF Overlaps(nat, tb) THEN Binned(nat, tb, f) ELSE Q(0),
     e2 |-> IF Overlaps(nat, tb) THEN BinnedErr2(nat, tb, ErrOf(f)) ELSE Q(0),
     lo |-> IF Overlaps(nat, tb) THEN SetMinI(OverlapVals(nat, tb, f)) ELSE 0,
     hi |-> IF Overlaps(nat, tb) THEN SetMaxI(OverlapVals(nat, tb, f)) ELSE 0]
ExpSimple(k) ==
    [empty |-> out[k].k = "empty", v |-> IF out[k].k = "num" THEN out[k].v ELSE Q(0),
     members |-> SetToSeqI(HistMembers(TC2, NC2, k))]
Emit == (Export /\ Done) =>
    PrintT(<<"VEC", ToJson([kind |-> kind, nat |-> nat, tgt |-> tgt, f |-> f, e |-> ErrOf(f),
                            exp |-> IF kind = "flux" THEN [k \in 1..Len(tgt) |-> ExpFlux(k)]
                                    ELSE IF kind = "simple" THEN [k \in 1..Len(tgt) |-> ExpSimple(k)]
                                    ELSE [i \in 1..Len(nat) |-> [v |-> Q(f[i])]],
                            onedge |-> IF kind = "simple" THEN \E i \in 1..Len(nat) : OnHistEdge(TC2, NC2[i]) ELSE FALSE])>>)
=============================================================================
