SPECIFICATION CSpec
CONSTANTS
  NL = 2
  NW = 2
  NT = 3
  NS = 3
  ECodes = {0}
  TCodes = {22, 12}
  QuadIds = {4}
  SrcIds = {1, 4}
  Kinds = {"eclipse"}
  MaxCalls = 2
  CVariant = "sed_scaled_in_place"
  ClampE = 15
  SlackE = 14
  Variant = "code"
  Btab <- MCBtab
  Bstar <- MCBstar
  SrcTable <- MCSrcTable
  Groups <- MCGroups
  Comps <- MCComps
  TabId = 1
  Rp = 1
  Rs = 2
  Dist = 3
  KD = 2
  Export = FALSE
INVARIANT InputsReadOnly
CONSTRAINT ECEmit
CHECK_DEADLOCK FALSE
