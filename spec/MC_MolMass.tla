----------------------------- MODULE MC_MolMass -----------------------------
(***************************************************************************)
(* C10 -- "the mean molecular weight is the ratio-weighted sum of          *)
(* molecular masses", with the dimension WHICH GASES are in the mixture    *)
(* and what the process has been asked before.                             *)
(*                                                                         *)
(* The molecular mass of a gas is a function of its formula, read          *)
(* character by character (taurex.util: tokenize_molecule /                *)
(* split_molecule_elements / calculate_weight):                            *)
(*    formula ::= ( element count? | other )*                              *)
(*    element ::= Upper Lower?        count ::= Digit+   (default 1)       *)
(* Formulae are case sensitive (CO is not Co), digits matter (O2 is not    *)
(* O3), so does the order of characters (NO2 is not N2O) and the tail      *)
(* (CO is not CO2).  The composition Comp(name) is exported; the harness   *)
(* weights it with the element table (input data).                         *)
(*                                                                         *)
(* State: a PROCESS builds chemistry objects one after the other (hist);   *)
(* every object asks for the mass of each of its gases.  `memo` is what a  *)
(* process-global name -> composition memo would hold if the design kept   *)
(* one; Variant names its key:                                             *)
(*    "spec"      no memo (or, equivalently, the exact name as key)        *)
(*    "casefold"  key = upper-cased name                                   *)
(*    "anagram"   key = multiset of characters                             *)
(*    "nodigits"  key = name with the counts dropped                       *)
(*    "prefix2"   key = first two characters                               *)
(* The wrong keys exist for expected counterexamples and to define which   *)
(* pairs of names are worth putting in one process (Collide).              *)
(*                                                                         *)
(* Round 5 -- the dimension HOW OFTEN a formula names an element: the      *)
(* reader ADDS the counts of every occurrence (CH3OH has four H, CH3CH2OH  *)
(* two C and six H).  Wrong readers, for expected counterexamples:         *)
(*    "lastcount"   an element keeps the count of its last occurrence      *)
(*    "firstcount"  an element keeps the count of its first occurrence     *)
(* A process that asks for a formula with a repeated element is worth      *)
(* replaying whatever else it asks for (Interesting).                      *)
(***************************************************************************)
EXTENDS Chemistry, SequencesExt
CONSTANTS MaxObj,        \* chemistry objects built one after the other in the process
          MaxNames,      \* trace gases per object
          PairsInSeq,    \* TRUE: objects of a multi-object behaviour may hold MaxNames gases; FALSE: one gas each
          RatioNum, RatioDen,   \* fill ratio He/H2
          AbDen,         \* trace gas k of an object has abundance k/AbDen
          Variant, Export
VARIABLES hist, memo, ans
vars == <<hist, memo, ans>>

UpperSeq == <<"A","B","C","D","E","F","G","H","I","J","K","L","M","N","O","P","Q","R","S","T","U","V","W","X","Y","Z">>
LowerSeq == <<"a","b","c","d","e","f","g","h","i","j","k","l","m","n","o","p","q","r","s","t","u","v","w","x","y","z">>
DigitSeq == <<"0","1","2","3","4","5","6","7","8","9">>
InSeq(c, s) == \E i \in 1..Len(s) : s[i] = c
SetOf(s) == {s[i] : i \in 1..Len(s)}
UpperSet == TLCEval(SetOf(UpperSeq))
LowerSet == TLCEval(SetOf(LowerSeq))
DigitSet == TLCEval(SetOf(DigitSeq))
IdxIn(c, s) == CHOOSE i \in 1..Len(s) : s[i] = c
IsUpper(c) == c \in UpperSet
IsLower(c) == c \in LowerSet
IsDigit(c) == c \in DigitSet
DigitVal(c) == IdxIn(c, DigitSeq) - 1
UpperOf(c) == IF IsLower(c) THEN UpperSeq[IdxIn(c, LowerSeq)] ELSE c

\* ------------------------------------------------------------- the formula reader
RECURSIVE DigitsEnd(_, _)
DigitsEnd(s, j) == IF j <= Len(s) /\ IsDigit(s[j]) THEN DigitsEnd(s, j + 1) ELSE j
RECURSIVE NumVal(_, _, _, _)
NumVal(s, j, k, acc) == IF j >= k THEN acc ELSE NumVal(s, j + 1, k, (10 * acc) + DigitVal(s[j]))
RECURSIVE Tokens(_, _)
Tokens(s, i) ==
    IF i > Len(s) THEN <<>>
    ELSE IF IsUpper(s[i])
    THEN LET two == i < Len(s) /\ IsLower(s[i + 1])
             el  == IF two THEN s[i] \o s[i + 1] ELSE s[i]
             j   == IF two THEN i + 2 ELSE i + 1
             k   == DigitsEnd(s, j)
             cnt == IF k = j THEN 1 ELSE NumVal(s, j, k, 0)
         IN  <<[el |-> el, cnt |-> cnt]>> \o Tokens(s, k)
    ELSE Tokens(s, i + 1)              \* charge signs and the like carry no mass
RECURSIVE SumCnt(_, _)
SumCnt(toks, el) == IF toks = <<>> THEN 0
                    ELSE (IF Head(toks).el = el THEN Head(toks).cnt ELSE 0) + SumCnt(Tail(toks), el)
\* composition: element -> number of atoms
Comp(s) == LET toks == Tokens(s, 1)
               els  == {toks[i].el : i \in 1..Len(toks)}
           IN  [e \in els |-> SumCnt(toks, e)]
\* the wrong readers: one occurrence of a repeated element decides
Occ(toks, el) == {i \in 1..Len(toks) : toks[i].el = el}
OneOcc(toks, el, v) == LET o == Occ(toks, el)
                       IN  IF v = "lastcount" THEN CHOOSE i \in o : \A j \in o : j <= i ELSE CHOOSE i \in o : \A j \in o : i <= j
ReadV(v, s) == LET toks == Tokens(s, 1)
                   els  == {toks[i].el : i \in 1..Len(toks)}
               IN  [e \in els |-> toks[OneOcc(toks, e, v)].cnt]
Repeats(s) == LET toks == Tokens(s, 1) IN \E i, j \in 1..Len(toks) : i < j /\ toks[i].el = toks[j].el
RECURSIVE Concat(_)
Concat(s) == IF s = <<>> THEN "" ELSE Head(s) \o Concat(Tail(s))

\* ------------------------------------------------------------------ the names
Pool == << <<"C","O">>, <<"C","o">>, <<"H","F">>, <<"H","f">>, <<"N","O">>, <<"N","o">>, <<"C","S">>, <<"C","s">>,
           <<"S","i","O">>, <<"S","I","O">>,
           <<"N","O","2">>, <<"N","2","O">>, <<"S","O","2">>, <<"S","2","O">>,
           <<"O","2">>, <<"O","3">>, <<"C","2","H","2">>, <<"C","2","H","4">>, <<"C","H","4">>, <<"C","1","0","H","8">>,
           <<"H","2","O">>, <<"H","2","O","2">>, <<"C","O","2">>,
           \* formulae that name an element more than once
           <<"C","H","3","O","H">>, <<"C","H","3","C","N">>, <<"H","C","O","O","H">>, <<"C","H","3","C","H","2","O","H">> >>
PoolNames == {Pool[i] : i \in 1..Len(Pool)}

\* ------------------------------------------------------- keys of a would-be memo
CharBag(s) == [c \in {s[i] : i \in 1..Len(s)} |-> Cardinality({i \in 1..Len(s) : s[i] = c})]
Key(v, s) == CASE v = "casefold" -> [i \in 1..Len(s) |-> UpperOf(s[i])]
               [] v = "anagram"  -> CharBag(s)
               [] v = "nodigits" -> SelectSeq(s, LAMBDA c : ~IsDigit(c))
               [] v = "prefix2"  -> SubSeq(s, 1, IF Len(s) < 2 THEN Len(s) ELSE 2)
               [] OTHER          -> s
LossyKeys == {"casefold", "anagram", "nodigits", "prefix2"}
WrongReaders == {"lastcount", "firstcount"}
\* constants, evaluated once
CompOf == TLCEval([s \in PoolNames |-> Comp(s)])
KeyOf == TLCEval([v \in LossyKeys |-> [s \in PoolNames |-> Key(v, s)]])
\* two different species that some lossy key cannot tell apart
Collide(a, b) == a # b /\ CompOf[a] # CompOf[b] /\ \E v \in LossyKeys : KeyOf[v][a] = KeyOf[v][b]
CollidePairs == TLCEval({p \in PoolNames \X PoolNames : Collide(p[1], p[2])})
PairKeys == TLCEval([p \in CollidePairs |-> {v \in LossyKeys : KeyOf[v][p[1]] = KeyOf[v][p[2]]}])
CompList(s) == LET c == CompOf[s] IN SetToSeq({<<e, c[e]>> : e \in DOMAIN c})
CompListOf == TLCEval([s \in PoolNames |-> CompList(s)])
NameStr == TLCEval([s \in PoolNames |-> Concat(s)])
Asked(h) == UNION {{h[o][k] : k \in 1..Len(h[o])} : o \in 1..Len(h)}
ReadOf == TLCEval([v \in WrongReaders |-> [s \in PoolNames |-> ReadV(v, s)]])
RepeatNames == TLCEval({s \in PoolNames : Repeats(s)})
Interesting(h) == \/ \E a \in Asked(h), b \in Asked(h) : <<a, b>> \in CollidePairs
                  \/ Asked(h) \cap RepeatNames # {}
\* the lossy keys under which two names of the behaviour coincide (exported as the input class)
KeysOf(h) == UNION {PairKeys[p] : p \in {q \in CollidePairs : q[1] \in Asked(h) /\ q[2] \in Asked(h)}}
             \cup (IF Asked(h) \cap RepeatNames # {} THEN {"repeated-element"} ELSE {})

\* ------------------------------------------------------------------- behaviour
Objects == TLCEval({o \in UNION {[1..k -> PoolNames] : k \in 1..MaxNames} : \A i, j \in 1..Len(o) : i # j => o[i] # o[j]})
Init == hist = <<>> /\ memo = <<>> /\ ans = <<>>

\* the composition answered for name s by a design whose memo is keyed by v and holds m ("spec": always read the formula)
KeyV(v, s) == IF v \in LossyKeys THEN KeyOf[v][s] ELSE s
AnswerV(v, m, s) == IF v \in LossyKeys /\ \E i \in 1..Len(m) : m[i].key = KeyV(v, s)
                    THEN m[CHOOSE i \in 1..Len(m) : m[i].key = KeyV(v, s)].comp
                    ELSE IF v \in WrongReaders THEN ReadOf[v][s] ELSE CompOf[s]
RECURSIVE AskAllV(_, _, _, _)
\* -> [memo, ans]: the object asks for its gases in order
AskAllV(v, m, o, k) ==
    IF k > Len(o) THEN [memo |-> m, ans |-> <<>>]
    ELSE LET a    == AnswerV(v, m, o[k])
             m2   == IF \E i \in 1..Len(m) : m[i].key = KeyV(v, o[k]) THEN m
                     ELSE Append(m, [key |-> KeyV(v, o[k]), comp |-> CompOf[o[k]]])
             rest == AskAllV(v, m2, o, k + 1)
         IN  [memo |-> rest.memo, ans |-> <<a>> \o rest.ans]
AskAll(m, o, k) == AskAllV(Variant, m, o, k)
\* what the LAST object of the process h would be handed by a design keyed by v (for the witnesses below)
RECURSIVE RunV(_, _, _, _)
RunV(v, m, h, i) == LET r == AskAllV(v, m, h[i], 1) IN IF i = Len(h) THEN r.ans ELSE RunV(v, r.memo, h, i + 1)
WouldBreak(v, h) == LET a == RunV(v, <<>>, h, 1) IN \E k \in 1..Len(h[Len(h)]) : a[k] # CompOf[h[Len(h)][k]]
Build(o) ==
    /\ Len(hist) < MaxObj
    /\ (Len(hist) > 0 => (PairsInSeq \/ (Len(o) = 1 /\ Len(hist[1]) = 1)))
    /\ (Len(hist) + 1 = MaxObj => Interesting(Append(hist, o)))
    /\ LET r == AskAll(memo, o, 1)
       IN  memo' = r.memo /\ ans' = r.ans
    /\ hist' = Append(hist, o)
Next == \E o \in Objects : Build(o)
Spec == Init /\ [][Next]_vars

\* -------------------------------------------------------------------- clauses
Cur == hist[Len(hist)]
\* every mass handed to an object is the mass of the formula that was asked for, whatever was asked before
AnswerIsOfAskedFormula == Len(hist) > 0 => \A k \in 1..Len(Cur) : ans[k] = CompOf[Cur[k]]
\* the reader counts every atom: at least one per upper-case letter, exactly that many when the name has no digits
RECURSIVE SumAll(_)
SumAll(toks) == IF toks = <<>> THEN 0 ELSE Head(toks).cnt + SumAll(Tail(toks))
RECURSIVE SumOver(_, _)
SumOver(c, els) == IF els = {} THEN 0 ELSE LET e == CHOOSE e \in els : TRUE IN c[e] + SumOver(c, els \ {e})
CompAtoms(c) == SumOver(c, DOMAIN c)
ReaderSane == \A s \in PoolNames :
    LET ups == Cardinality({i \in 1..Len(s) : IsUpper(s[i])})
        tot == SumAll(Tokens(s, 1))
    IN  /\ \A e \in DOMAIN Comp(s) : Comp(s)[e] >= 1
        /\ tot >= ups
        /\ ((\A i \in 1..Len(s) : ~IsDigit(s[i])) => tot = ups)
        \* every occurrence of an element is ADDED: the atoms of the composition are the atoms of all tokens
        /\ CompAtoms(Comp(s)) = tot
\* the mixture of the object (constant profiles, exact)
Ab(o) == [k \in 1..Len(o) |-> R(k, AbDen)]
RowsOf(o) == [g \in 1..Len(o) |-> <<Ab(o)[g]>>]
MixOf(o) == Mix(<<R(RatioNum, RatioDen)>>, RowsOf(o), 1, "spec")
SumsToOne == Len(hist) > 0 => LayerSum(MixOf(Cur), 1) = ROne

ObjJson(o) == [names |-> [k \in 1..Len(o) |-> NameStr[o[k]]],
               comps |-> [k \in 1..Len(o) |-> CompListOf[o[k]]],
               ab    |-> Ab(o),
               mix   |-> [g \in 1..(Len(o) + 2) |-> MixOf(o)[g][1]]]
\* WITNESS: a reachable process in which a design with the lossy key v hands out the mass of another species, i.e.
\* AnswerIsOfAskedFormula is refuted for that design (the RF_MolMass_<v>.cfg runs show the same as counterexamples)
Emit == (Export /\ Len(hist) > 0 /\ Interesting(hist)) =>
    /\ PrintT(<<"MVEC", ToJson([ratio |-> R(RatioNum, RatioDen), keys |-> SetToSeq(KeysOf(hist)),
                                objs  |-> [i \in 1..Len(hist) |-> ObjJson(hist[i])]])>>)
    /\ \A v \in LossyKeys \cup WrongReaders : IF WouldBreak(v, hist)
                             THEN PrintT(<<"WITNESS", ToJson([variant |-> v, names |-> [i \in 1..Len(hist) |-> ObjJson(hist[i]).names]])>>)
                             ELSE TRUE
=============================================================================
