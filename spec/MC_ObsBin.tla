----------------------------- MODULE MC_ObsBin -----------------------------
(* Exhaustive / export model for the last sentence of C17: choose rows with    *)
(* explicit widths from Wids (narrow channels and broad bands: overlapping,    *)
(* nested, gapped bins, edges that do not ascend with the centres), load them  *)
(* in every row order, bin a native model to the observation.                  *)
EXTENDS ObsBin, SequencesExt
CONSTANTS WLS,           \* wavelengths (integers, D = 1)
          NMin, NMax,    \* number of rows
          NCols,         \* subset of {3, 4}: column counts of the source
          NMax3,         \* largest number of rows of a 3-column source
          Wids,          \* widths a row may have (4 columns)
          H,             \* native cells are H, 2H, 3H, H, .. cm-1 wide
          U,             \* > 0: every centre, half-width and native edge is a multiple of U/2 cm-1 and the
                         \*      window algorithm of FluxBinner is checked on that lattice; 0: definition only
          AlgVariant,    \* "ok" | "resumestart" | "resumestop" | "resume"
          Export
VARIABLES phase, ncol, rows, out, nat
vars == <<phase, ncol, rows, out, nat>>
D == 1
Primes == <<2, 3, 5, 7, 11, 13>>
KSeqs(nc) == UNION {{SetToSortSeq(S, LAMBDA a, b : a < b) : S \in {T \in SUBSET WLS : Cardinality(T) = n}} : n \in NMin..(IF nc = 4 THEN NMax ELSE NMax3)}
RowsOf(ks, nc) == {[i \in 1..Len(ks) |-> <<ks[i], Primes[i], Primes[Len(ks) + 1 - i] + 10, wd[i]>>] : wd \in [1..Len(ks) -> IF nc = 4 THEN Wids ELSE {1}]}
AllRows(nc) == {r \in UNION {RowsOf(ks, nc) : ks \in KSeqs(nc)} : Loadable(r, nc)}

\* the native model of an observation (reading A of the widths; 3 columns: wide enough for reading B too)
NativeOf(L) == NatFor(L.wn, [i \in 1..Len(L.wn) |-> RMax(L.wnwA[i], L.wnwB[i])], H)

Init == phase = "in" /\ ncol \in NCols /\ rows \in AllRows(ncol) /\ out = <<>> /\ nat = <<>>
LoadRows == /\ phase = "in"
            /\ out' = Load(rows, D, ncol, "ok")
            /\ nat' = NativeOf(Load(rows, D, ncol, "ok"))
            /\ phase' = "done" /\ UNCHANGED <<ncol, rows>>
Next == LoadRows
Spec == Init /\ [][Next]_vars

Done == phase = "done"
Perms == {[i \in 1..Len(rows) |-> p[i]] : p \in Permutations(1..Len(rows))}
\* (nat is a state variable only so that TLC holds it as an evaluated value)
NatM == nat
F    == NatVals(Len(NatM))
ModA(L) == ModelOnObs(L.wn, L.wnwA, NatM, F, 1)
ModB(L) == ModelOnObs(L.wn, L.wnwB, NatM, F, 1)

ModelCovered == Done => \A i \in 1..Len(out.wn) :
    CoversBin(NatM, 1, out.wn[i], out.wnwA[i]) /\ CoversBin(NatM, 1, out.wn[i], out.wnwB[i])
\* whatever the row order, element i of the binned model is the model over the bin of the very row
\* whose value, error (and width) element i of the observation carries
RowBin(r) == [c |-> RDiv(TenK, R(rows[r][1], D)),
              w |-> RDiv(RMul(TenK, R(rows[r][4], D)), RMul(R(rows[r][1], D), R(rows[r][1], D)))]
ModelWithItsRow == Done /\ ncol = 4 => \A p \in Perms :
    LET L == Load(Permute(rows, p), D, ncol, "ok")  M == ModA(L) IN
    \A i \in 1..Len(L.wn) : \E r \in 1..Len(rows) :
        /\ L.val[i] = rows[r][2] /\ L.err[i] = rows[r][3]
        /\ M[i] = ModelOnBin(NatM, F, 1, RowBin(r).c, RowBin(r).w)
ModelPermutationInvariant == Done => \A p \in Perms :
    LET L == Load(Permute(rows, p), D, ncol, "ok") IN ModA(L) = ModA(out) /\ ModB(L) = ModB(out)
ModelBetween == Done => \A i \in 1..Len(out.wn) :
    /\ RLe(Q(B!SeqMinI(F)), ModA(out)[i]) /\ RLe(ModA(out)[i], Q(B!SeqMaxI(F)))
    /\ RLe(Q(B!SeqMinI(F)), ModB(out)[i]) /\ RLe(ModB(out)[i], Q(B!SeqMaxI(F)))

\* --------------------------------------------- FluxBinner on the lattice U/2
Lat2(r) == RDiv(RMul(Q(2), r), Q(U))          \* doubled lattice coordinate of r cm-1
OnLattice == Done /\ U > 0 =>
    /\ \A i \in 1..Len(out.wn) : RIsInt(Lat2(out.wn[i])) /\ RIsInt(RDiv(out.wnwA[i], Q(U)))
    /\ \A k \in 1..Len(NatM) : /\ (2 * NatM[k][1]) % U = 0 /\ (2 * NatM[k][2]) % U = 0
                              /\ ((2 * NatM[k][1]) \div U + (2 * NatM[k][2]) \div U) % 2 = 0   \* doubled centre of a cell is an integer
NMn == [k \in 1..Len(NatM) |-> (2 * NatM[k][1]) \div U]
NMx == [k \in 1..Len(NatM) |-> (2 * NatM[k][2]) \div U]
TC2(bn) == [i \in 1..Len(bn.grid) |-> Lat2(bn.grid[i])[1]]
TW(bn)  == [i \in 1..Len(bn.grid) |-> RDiv(bn.widths[i], Q(U))[1]]
\* create_binner() of the observation loaded from ANY row order, then bindown of the native model:
\* entry i is the model over exactly [wn_i - w_i/2, wn_i + w_i/2] of the observation's element i
AlgRefinesObs == Done /\ U > 0 => \A p \in Perms :
    LET L   == Load(Permute(rows, p), D, ncol, "ok")
        bn  == BinnerOf(L)
        res == WinFlux(NMn, NMx, F, TC2(bn), TW(bn), AlgVariant)
    IN  \A i \in 1..Len(L.wn) : res[i] = [k |-> "num", v |-> ModelOnBin(NatM, F, 1, L.wn[i], L.wnwA[i])]
\* the window algorithm written here is Binning!AlgBin (variant "ok") on these inputs
WinIsBinning == Done /\ U > 0 =>
    LET bn  == BinnerOf(out)
        res == WinFlux(NMn, NMx, F, TC2(bn), TW(bn), "ok")
        z   == [k \in 1..Len(NatM) |-> 0]
    IN  \A i \in 1..Len(out.wn) :
          LET a == B!AlgBin([k \in 1..Len(NatM) |-> (NMn[k] + NMx[k]) \div 2], [k \in 1..Len(NatM) |-> (NMx[k] - NMn[k]) \div 2],
                            F, z, TC2(bn)[i], TW(bn)[i], "ok")
          IN  a.k = res[i].k /\ (a.k = "num" => a.v = res[i].v)
FitsInv == Done => \A i \in 1..Len(out.wn) : Fits(ModA(out)[i]) /\ Fits(ModB(out)[i])

Emit == (Export /\ Done) =>
    PrintT(<<"VEC", ToJson([rows |-> rows, ncol |-> ncol, exp |-> out, nat |-> NatM, f |-> F,
                            modA |-> ModA(out), modB |-> ModB(out),
                            geoA |-> Geo(out.wn, out.wnwA), geoB |-> Geo(out.wn, out.wnwB)])>>)
=============================================================================
