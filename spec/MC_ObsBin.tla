----------------------------- MODULE MC_ObsBin -----------------------------
(* Exhaustive / export model for the last sentence of C17: choose rows with    *)
(* explicit widths from Wids (narrow channels and broad bands: overlapping,    *)
(* nested, gapped bins, edges that do not ascend with the centres), load them  *)
(* in every row order, bin a native model to the observation.                  *)
EXTENDS ObsBin, SequencesExt
CONSTANTS WLS,           \* wavelengths (integers, D = 1)
          NMin, NMax,    \* number of rows
          NCols,         \* subset of {3, 4}: column counts of the source
          NMax3,         \* largest number of rows of a 3-column source
          Wids,          \* widths a row may have (4 columns)
          H,             \* native cells are H, 2H, 3H, H, .. cm-1 wide
          U,             \* > 0: every centre, half-width and native edge is a multiple of U/2 cm-1 and the
                         \*      window algorithm of FluxBinner is checked on that lattice; 0: definition only
          AlgVariant,    \* "ok" | "resumestart" | "resumestop" | "resume" | "compact"
          Cuts,          \* subset of {"none", "low", "high", "both", "gap"}: how much of the span of the observation's bins
                         \* the model's native grid reaches (COVERAGE of the bins by the model; see CutSet)
          Export
VARIABLES phase, ncol, rows, out, nat, nf, cut
vars == <<phase, ncol, rows, out, nat, nf, cut>>
D == 1
Primes == <<2, 3, 5, 7, 11, 13>>
KSeqs(nc) == UNION {{SetToSortSeq(S, LAMBDA a, b : a < b) : S \in {T \in SUBSET WLS : Cardinality(T) = n}} : n \in NMin..(IF nc = 4 THEN NMax ELSE NMax3)}
RowsOf(ks, nc) == {[i \in 1..Len(ks) |-> <<ks[i], Primes[i], Primes[Len(ks) + 1 - i] + 10, wd[i]>>] : wd \in [1..Len(ks) -> IF nc = 4 THEN Wids ELSE {1}]}
AllRows(nc) == {r \in UNION {RowsOf(ks, nc) : ks \in KSeqs(nc)} : Loadable(r, nc)}

\* the native model of an observation (reading A of the widths; 3 columns: wide enough for reading B too)
NativeOf(L) == NatFor(L.wn, [i \in 1..Len(L.wn) |-> RMax(L.wnwA[i], L.wnwB[i])], H)

\* ---- coverage: the native grid of the model is the covering one with cells removed.  The cut points are the
\* edges of the observation's own bins (reading A), so every pattern "bins i.. lie beyond the low end / the high end /
\* both ends / in a gap of the model" arises, in every position of the ascending order and hence of any row order;
\* a native cell that straddles a cut point stays: the bins next to the cut are covered in part.
\*   low:  cells wholly below a are removed       high: cells wholly above b are removed       both: both
\*   gap:  cells wholly inside [a, b] are removed (the model is then given with explicit widths)
EdgesOf(L) == UNION {{GLo(L.wn, L.wnwA, i), GHi(L.wn, L.wnwA, i)} : i \in 1..Len(L.wn)}
NoCut == [kind |-> "none", a |-> Q(0), b |-> Q(0)]
Keeps(c, cell) == CASE c.kind = "none" -> TRUE
                    [] c.kind = "low"  -> RLt(c.a, Q(cell[2]))
                    [] c.kind = "high" -> RLt(Q(cell[1]), c.b)
                    [] c.kind = "both" -> RLt(c.a, Q(cell[2])) /\ RLt(Q(cell[1]), c.b)
                    [] c.kind = "gap"  -> ~(RLe(c.a, Q(cell[1])) /\ RLe(Q(cell[2]), c.b))
KeptIdx(N, c) == SetToSortSeq({k \in 1..Len(N) : Keeps(c, N[k])}, LAMBDA x, y : x < y)
CutSet(L) ==
    LET E == EdgesOf(L)  N == NativeOf(L)
        all == (IF "none" \in Cuts THEN {NoCut} ELSE {})
               \cup {[kind |-> k, a |-> e, b |-> e] : k \in Cuts \cap {"low", "high"}, e \in E}
               \cup {[kind |-> k, a |-> e[1], b |-> e[2]] : k \in Cuts \cap {"both", "gap"}, e \in {x \in E \X E : RLt(x[1], x[2])}}
    IN  {c \in all : c.kind = "none" \/ (Len(KeptIdx(N, c)) >= 2 /\ Len(KeptIdx(N, c)) < Len(N))}

Init == /\ phase = "in" /\ ncol \in NCols /\ rows \in AllRows(ncol) /\ out = <<>> /\ nat = <<>> /\ nf = <<>>
        /\ cut \in CutSet(Load(rows, D, ncol, "ok"))
LoadRows == /\ phase = "in"
            /\ out' = Load(rows, D, ncol, "ok")
            /\ LET N == NativeOf(Load(rows, D, ncol, "ok"))  ix == KeptIdx(N, cut)  V == NatVals(Len(N)) IN
                 /\ nat' = [j \in 1..Len(ix) |-> N[ix[j]]]
                 /\ nf'  = [j \in 1..Len(ix) |-> V[ix[j]]]
            /\ phase' = "done" /\ UNCHANGED <<ncol, rows, cut>>
Next == LoadRows
Spec == Init /\ [][Next]_vars

Done == phase = "done"
Perms == {[i \in 1..Len(rows) |-> p[i]] : p \in Permutations(1..Len(rows))}
\* (nat is a state variable only so that TLC holds it as an evaluated value)
NatM == nat
F    == nf
\* records [k |-> "num", v |-> exact value] | [k |-> "outside"] | [k |-> "touch"]
ModA(L) == ModelOnObsCov(L.wn, L.wnwA, NatM, F, 1)
ModB(L) == ModelOnObsCov(L.wn, L.wnwB, NatM, F, 1)
Num(e)  == e.k = "num"

ModelCovered == Done /\ cut.kind = "none" => \A i \in 1..Len(out.wn) :
    CoversBin(NatM, 1, out.wn[i], out.wnwA[i]) /\ CoversBin(NatM, 1, out.wn[i], out.wnwB[i])
\* whatever the row order, element i of the binned model is the model over the bin of the very row
\* whose value, error (and width) element i of the observation carries
RowBin(r) == [c |-> RDiv(TenK, R(rows[r][1], D)),
              w |-> RDiv(RMul(TenK, R(rows[r][4], D)), RMul(R(rows[r][1], D), R(rows[r][1], D)))]
ModelWithItsRow == Done /\ ncol = 4 => \A p \in Perms :
    LET L == Load(Permute(rows, p), D, ncol, "ok")  M == ModA(L) IN
    \A i \in 1..Len(L.wn) : \E r \in 1..Len(rows) :
        /\ L.val[i] = rows[r][2] /\ L.err[i] = rows[r][3]
        /\ M[i] = CovBin(NatM, F, 1, RowBin(r).c, RowBin(r).w)
ModelPermutationInvariant == Done => \A p \in Perms :
    LET L == Load(Permute(rows, p), D, ncol, "ok") IN ModA(L) = ModA(out) /\ ModB(L) = ModB(out)
ModelBetween == Done => \A i \in 1..Len(out.wn) :
    /\ Num(ModA(out)[i]) => RLe(Q(B!SeqMinI(F)), ModA(out)[i].v) /\ RLe(ModA(out)[i].v, Q(B!SeqMaxI(F)))
    /\ Num(ModB(out)[i]) => RLe(Q(B!SeqMinI(F)), ModB(out)[i].v) /\ RLe(ModB(out)[i].v, Q(B!SeqMaxI(F)))
\* with a model that reaches over every bin every element is a number
AllNumWhenCovered == Done /\ cut.kind = "none" => \A i \in 1..Len(out.wn) : Num(ModA(out)[i]) /\ Num(ModB(out)[i])

\* --------------------------------------------- FluxBinner on the lattice U/2
Lat2(r) == RDiv(RMul(Q(2), r), Q(U))          \* doubled lattice coordinate of r cm-1
OnLattice == Done /\ U > 0 =>
    /\ \A i \in 1..Len(out.wn) : RIsInt(Lat2(out.wn[i])) /\ RIsInt(RDiv(out.wnwA[i], Q(U)))
    /\ \A k \in 1..Len(NatM) : /\ (2 * NatM[k][1]) % U = 0 /\ (2 * NatM[k][2]) % U = 0
                              /\ ((2 * NatM[k][1]) \div U + (2 * NatM[k][2]) \div U) % 2 = 0   \* doubled centre of a cell is an integer
NMn == [k \in 1..Len(NatM) |-> (2 * NatM[k][1]) \div U]
NMx == [k \in 1..Len(NatM) |-> (2 * NatM[k][2]) \div U]
TC2(bn) == [i \in 1..Len(bn.grid) |-> Lat2(bn.grid[i])[1]]
TW(bn)  == [i \in 1..Len(bn.grid) |-> RDiv(bn.widths[i], Q(U))[1]]
\* create_binner() of the observation loaded from ANY row order, then bindown of the native model:
\* entry i is the model over exactly [wn_i - w_i/2, wn_i + w_i/2] of the observation's element i -- where the
\* model reaches that bin; a bin it does not reach is left at the zero the result starts from and the entries
\* of the other bins stay at their own index
AlgRefinesObs == Done /\ U > 0 => \A p \in Perms :
    LET L   == Load(Permute(rows, p), D, ncol, "ok")
        bn  == BinnerOf(L)
        res == WinFlux(NMn, NMx, F, TC2(bn), TW(bn), AlgVariant)
        exp == ModA(L)
    IN  \A i \in 1..Len(L.wn) : CASE exp[i].k = "num"     -> res[i] = exp[i]
                                   [] exp[i].k = "outside" -> res[i] = [k |-> "zero"]
                                   [] OTHER                -> TRUE
\* the window algorithm written here is Binning!AlgBin (variant "ok") on these inputs
WinIsBinning == Done /\ U > 0 =>
    LET bn  == BinnerOf(out)
        res == WinFlux(NMn, NMx, F, TC2(bn), TW(bn), "ok")
        z   == [k \in 1..Len(NatM) |-> 0]
    IN  \A i \in 1..Len(out.wn) :
          LET a == B!AlgBin([k \in 1..Len(NatM) |-> (NMn[k] + NMx[k]) \div 2], [k \in 1..Len(NatM) |-> (NMx[k] - NMn[k]) \div 2],
                            F, z, TC2(bn)[i], TW(bn)[i], "ok")
          IN  a.k = res[i].k /\ (a.k = "num" => a.v = res[i].v)
FitsInv == Done => \A i \in 1..Len(out.wn) : (Num(ModA(out)[i]) => Fits(ModA(out)[i].v)) /\ (Num(ModB(out)[i]) => Fits(ModB(out)[i].v))

Emit == (Export /\ Done) =>
    PrintT(<<"VEC", ToJson([rows |-> rows, ncol |-> ncol, exp |-> out, nat |-> NatM, f |-> F,
                            modA |-> ModA(out), modB |-> ModB(out),
                            geoA |-> Geo(out.wn, out.wnwA), geoB |-> Geo(out.wn, out.wnwB),
                            cut |-> cut.kind, covA |-> CovPattern(out.wn, out.wnwA, NatM, 1), covB |-> CovPattern(out.wn, out.wnwB, NatM, 1)])>>)
=============================================================================
