SPECIFICATION Spec
CONSTANTS
  NL = 2
  NComp <- DefNComp
  AVals = {0,1}
  Seg2 = 2
  Modes = {"xsec"}
  KCfgs <- DefKCfgs
  Guard = "none"
  KAvg = "own"
  AbExps = {4,12,16}
  AbOrd = 4
  AbFloor = 12
  OnlyBasis = TRUE
  Export = FALSE
CONSTRAINT Emit
CHECK_DEADLOCK FALSE
INVARIANT LayerByLayer
