---------------------------- MODULE MC_Pipeline ----------------------------
(* The call order of SimpleForwardModel as designed, run against the guards of *)
(* Pipeline.tla for every sequence of public calls (set parameter, model on a  *)
(* grid, model_contrib on a grid).  Variant selects deliberate design mutants  *)
(* (expected counterexamples, non-vacuity of the guards).                      *)
EXTENDS Pipeline
CONSTANTS Grids, MaxVer, MaxOps,
          Variant      \* "asbuilt" | "no_reinit" (model() skips initialize_profiles)
                       \* | "star_once" (star initialised only on the first grid)
                       \* | "alt_before_chem" (altitude recomputed before the chemistry)
VARIABLES s, queue, ok, nops, starred
vars == <<s, queue, ok, nops, starred>>
List == <<"cloud", "abs", "ray">>

E(ev) == [ev |-> ev, c |-> "", g |-> 0, lst |-> <<>>]
InitOps(st) ==
    <<E("init_begin"), E("pressure"), E("temperature")>>
    \o (IF st.inited THEN <<>> ELSE <<E("chem_init"), E("alt_given")>>)
    \o (IF Variant = "alt_before_chem" THEN <<E("alt_chem"), E("chem")>> ELSE <<E("chem"), E("alt_chem")>>)
Prep(c, g) == [ev |-> "prepare", c |-> c, g |-> g, lst |-> <<>>]
ModelOps(st, g) ==
    (IF Variant = "no_reinit" /\ st.inited THEN <<>> ELSE InitOps(st))
    \o (IF Variant = "star_once" /\ starred THEN <<>> ELSE <<[ev |-> "star", c |-> "", g |-> g, lst |-> <<>>]>>)
    \o [i \in 1..Len(List) |-> Prep(List[i], g)]
    \o <<[ev |-> "path", c |-> "", g |-> g, lst |-> List]>>
RECURSIVE ContribOps(_, _)
ContribOps(g, i) == IF i > Len(List) THEN <<>>
                    ELSE <<Prep(List[i], g), [ev |-> "path", c |-> "", g |-> g, lst |-> <<List[i]>>]>> \o ContribOps(g, i + 1)
ModelContribOps(st, g) == InitOps(st) \o <<[ev |-> "star", c |-> "", g |-> g, lst |-> <<>>]>> \o ContribOps(g, 1)

Init == s = PInit /\ queue = <<>> /\ ok = TRUE /\ nops = 0 /\ starred = FALSE
Call == /\ queue = <<>> /\ nops < MaxOps
        /\ \/ (s.ver < MaxVer /\ queue' = <<E("setparam")>>)
           \/ \E g \in Grids : queue' = ModelOps(s, g)
           \/ \E g \in Grids : queue' = ModelContribOps(s, g)
        /\ nops' = nops + 1
        /\ UNCHANGED <<s, ok, starred>>
Step == /\ queue # <<>>
        /\ LET e == Head(queue) IN
             /\ ok' = (ok /\ Guard(e, s))
             /\ s' = Apply(e, s)
             /\ starred' = (starred \/ e.ev = "star")
        /\ queue' = Tail(queue)
        /\ UNCHANGED nops
Next == Call \/ Step
Spec == Init /\ [][Next]_vars
\* every step the design takes finds its inputs computed for the current parameters and grid
GuardsHold == ok
=============================================================================
