SPECIFICATION Spec
CONSTANTS
  NL = 2
  NComp <- DefNComp
  AVals = {0,1}
  Seg2 = 2
  Modes = {"xsec","ktables"}
  KCfgs <- DefKCfgs
  Guard = "none"
  KAvg = "own"
  AbExps = {1,4,8,12,16,20}
  AbOrd = 4
  AbFloor = 99
  OnlyBasis = FALSE
  Export = FALSE
CONSTRAINT Emit
CHECK_DEADLOCK FALSE
INVARIANT LayerByLayer
INVARIANT ProductOverSources
INVARIANT OrderFree
INVARIANT ProductOverComponents
INVARIANT ZeroNeutral
INVARIANT FitsInv
INVARIANT ProportionalToAbundance
