------------------------------ MODULE MC_Clouds ------------------------------
(***************************************************************************)
(* Exhaustive / export model for C19.  Positions are 2*log10 P: levels on  *)
(* even integers below the surface position L0, layer spacings from        *)
(* Spacings (non-uniform grids included), layer centres at the mid-points, *)
(* bounds and deck positions on every integer from two below the top level *)
(* to two above the surface, plus "unset", in both orders.                 *)
(* Actions: EvalDeck, EvalFlat, EvalLee.                                   *)
(* FlatRule = "maxnorm" models the rule of the unchanged FlatMie code      *)
(* (overlap divided by the largest overlap); it is refuted on non-uniform  *)
(* grids by DeclaredMagnitudeInside (expected-counterexample config).      *)
(***************************************************************************)
EXTENDS Clouds
CONSTANTS NMax, L0, Spacings, Kinds, TrS, Rad, FlatRule, Export
VARIABLES phase, kind, lev, b, t, deck, trc, f, opq, depth
vars == <<phase, kind, lev, b, t, deck, trc, f, opq, depth>>

SpacingSeqs == UNION {[1..m -> Spacings] : m \in 1..NMax}
RECURSIVE PosOf(_, _)
PosOf(sp, k) == IF k = 1 THEN L0 ELSE PosOf(sp, k - 1) - sp[k - 1]
GridOf(sp) == [k \in 1..(Len(sp) + 1) |-> PosOf(sp, k)]
Grids == {GridOf(sp) : sp \in SpacingSeqs}
Cen2(lv) == [k \in 1..NLay(lv) |-> lv[k] + lv[k + 1]]
Positions(lv) == (lv[Len(lv)] - 2)..(lv[1] + 2)
UnsetB == [set |-> FALSE, x |-> 0]
Bounds(lv) == {UnsetB} \cup {[set |-> TRUE, x |-> p] : p \in Positions(lv)}
\* fixed geometry for the depth clause: layer bottoms 0,2,4,.. thickness 2, planet radius Rad
ZOf(lv)  == [k \in 1..NLay(lv) |-> 2 * (k - 1)]
DzOf(lv) == [k \in 1..NLay(lv) |-> 2]
NoDepth == <<Q(0), Q(0), Q(0)>>

Init == /\ phase = "in"
        /\ kind \in Kinds
        /\ lev \in Grids
        /\ IF kind = "deck"
           THEN /\ deck \in Positions(lev) /\ b = UnsetB /\ t = UnsetB
                /\ trc \in [1..NLay(lev) -> TrS]
           ELSE /\ deck = 0 /\ b \in Bounds(lev) /\ t \in Bounds(lev) /\ trc = <<>>
        /\ f = <<>> /\ opq = {} /\ depth = NoDepth

Half(x) == Norm(x, 2)
EvalDeck == /\ phase = "in" /\ kind = "deck"
            /\ LET S   == DeckLayers(Cen2(lev), deck)
                   clr == [k \in 1..NLay(lev) |-> Half(trc[k])]
                   cld == [k \in 1..NLay(lev) |-> IF k \in S THEN Q(0) ELSE clr[k]]
               IN  /\ opq' = S
                   /\ f' = cld
                   /\ depth' = <<DepthNum(Rad, ZOf(lev), DzOf(lev), cld), DepthNum(Rad, ZOf(lev), DzOf(lev), clr),
                                 OpaqueNum(Rad, ZOf(lev), DzOf(lev), S)>>
            /\ phase' = "done"
            /\ UNCHANGED <<kind, lev, b, t, deck, trc>>

MaxOv(lv) == LET ovs == {CMax(0, CMin(WinHi(lv, b, t), lv[k]) - CMax(WinLo(lv, b, t), lv[k + 1])) : k \in 1..NLay(lv)}
             IN  CHOOSE m \in ovs : \A o \in ovs : m >= o
\* FlatRule = "edges" (class of seeded change C19-11): every selected layer gets 1, only the two outermost selected
\* layers are weighted -- the one at the low-pressure end with the lower window bound, the one at the high-pressure end
\* with the upper bound, the latter assignment winning when they are the same layer (a window inside ONE layer loses its
\* lower bound).  It stays inside every admissible interval and is refuted by WindowExtentConserved.
Selected == {k \in 1..NLay(lev) : ~WhollyOutside(lev, k, WinLo(lev, b, t), WinHi(lev, b, t))}
EdgeValue(k) == IF k \notin Selected THEN Q(0)
                ELSE LET kb == CHOOSE j \in Selected : \A i \in Selected : j <= i      \* high-pressure end
                         kt == CHOOSE j \in Selected : \A i \in Selected : j >= i      \* low-pressure end
                         w  == lev[k] - lev[k + 1]
                     IN  IF k = kb THEN Norm(CMax(0, CMin(WinHi(lev, b, t), lev[k]) - lev[k + 1]), w)
                         ELSE IF k = kt THEN Norm(CMax(0, lev[k] - CMax(WinLo(lev, b, t), lev[k + 1])), w)
                         ELSE Q(1)
FlatValue(k) == IF FlatRule = "fraction" THEN FlatFrac(lev, k, b, t)
                ELSE IF FlatRule = "edges" THEN EdgeValue(k)
                ELSE LET ov == CMax(0, CMin(WinHi(lev, b, t), lev[k]) - CMax(WinLo(lev, b, t), lev[k + 1]))
                     IN  IF MaxOv(lev) = 0 THEN Q(0) ELSE Norm(ov, MaxOv(lev))
EvalFlat == /\ phase = "in" /\ kind = "flat"
            /\ f' = [k \in 1..NLay(lev) |-> FlatValue(k)]
            /\ phase' = "done"
            /\ UNCHANGED <<kind, lev, b, t, deck, trc, opq, depth>>
EvalLee ==  /\ phase = "in" /\ kind = "lee"
            /\ f' = [k \in 1..NLay(lev) |-> LeeMask(lev, Cen2(lev), k, b, t)]
            /\ phase' = "done"
            /\ UNCHANGED <<kind, lev, b, t, deck, trc, opq, depth>>
Next == EvalDeck \/ EvalFlat \/ EvalLee
Spec == Init /\ [][Next]_vars

Done  == phase = "done"
Deck  == Done /\ kind = "deck"
Haze  == Done /\ kind # "deck"
Lo    == WinLo(lev, b, t)
Hi    == WinHi(lev, b, t)
EmptyReading == Inverted(b, t) /\ \A k \in 1..NLay(lev) : f[k] = Q(0)

\* ------------------------------------------------------------ invariants
OpaqueAtAndBelowDeck == Deck => \A k \in 1..NLay(lev) :
    (lev[k] + lev[k + 1] >= 2 * deck) => (k \in opq /\ f[k] = Q(0))
UntouchedAbove == Deck => \A k \in 1..NLay(lev) :
    (lev[k] + lev[k + 1] < 2 * deck) => (k \notin opq /\ f[k] = Half(trc[k]))
DeckDownwardClosed == Deck => \A k \in opq : \A j \in 1..k : j \in opq
DepthAtLeastOpaqueIntegral == Deck => RLe(depth[3], depth[1]) /\ RLe(depth[2], depth[1])
NoneOutsideWindow == Haze => \A k \in 1..NLay(lev) : WhollyOutside(lev, k, Lo, Hi) => f[k] = Q(0)
DeclaredMagnitudeInside == (Haze /\ ~EmptyReading) => \A k \in 1..NLay(lev) : WhollyInside(lev, k, Lo, Hi) => f[k] = Q(1)
PartialWithinInterval == Haze => ProfileAdmissible(lev, b, t, f)
UnsetMeansWholeAtmosphere == (Haze /\ ~b.set /\ ~t.set) => \A k \in 1..NLay(lev) : f[k] = Q(1)
InvertedBoundsNeverOutsideHull == (Haze /\ Inverted(b, t)) =>
    \A k \in 1..NLay(lev) : (lev[k] < CMin(b.x, t.x) \/ lev[k + 1] > CMax(b.x, t.x)) => f[k] = Q(0)
\* the documented partial-layer rule of the grey haze: the covered fraction of every layer, hence the extinction
\* integrated over log pressure is the declared magnitude times the extent of the window inside the atmosphere
RECURSIVE WSum(_)
WSum(k) == IF k = 0 THEN Q(0) ELSE RAdd(WSum(k - 1), RMul(f[k], Q(lev[k] - lev[k + 1])))
WindowExtentConserved == (Haze /\ kind = "flat" /\ ~EmptyReading) =>
    WSum(NLay(lev)) = Q(CMax(0, CMin(Hi, lev[1]) - CMax(Lo, lev[Len(lev)])))
FlatIsCoveredFraction == (Haze /\ kind = "flat" /\ ~EmptyReading) => \A k \in 1..NLay(lev) : f[k] = FlatFrac(lev, k, b, t)
FitsInv == Fits(depth[1]) /\ Fits(depth[2]) /\ Fits(depth[3])

Emit == (Export /\ Done) =>
    PrintT(<<"VEC", ToJson([kind |-> kind, lev |-> lev, b |-> b, t |-> t, deck |-> deck, trc |-> trc,
                            adm |-> Adm(lev, b, t), inv |-> Inverted(b, t), f |-> f, opq |-> opq,
                            lo |-> Lo, hi |-> Hi])>>)
=============================================================================
