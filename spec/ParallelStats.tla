---------------------------- MODULE ParallelStats ----------------------------
(***************************************************************************)
(* C18 -- parallel post-processing is invariant to how the samples are     *)
(* split across MPI ranks.                                                 *)
(*                                                                         *)
(* Part = "var"   (OnlineVariance.update / parallelVariance /              *)
(*                 combine_variance, Optimizer.generate_profiles):         *)
(*    nr ranks; the sample list is partitioned round-robin                 *)
(*    (`sample_list[rank::size]`) or -- Assign = "any", for the combine    *)
(*    step alone -- in every possible way; every rank folds its samples    *)
(*    into (count, wcount, mean, M2) with Update(r), freely interleaved    *)
(*    with the other ranks; Gather(r) posts the rank's (variance, mean,    *)
(*    wcount, count) THROUGH Ser (pickling); Combine(r) is enabled once    *)
(*    every rank has posted (the collective completes) and evaluates       *)
(*    combine_variance with the NaN test selected by NaNTest.              *)
(*    Weights are non-negative and may be exactly zero, at every position  *)
(*    (first sample of a rank, every sample of a rank, all but one         *)
(*    overall): ZeroGuard selects what Update does with the 0/0 of a zero  *)
(*    weight met while nothing has been weighed ("guarded" | "unguarded",  *)
(*    see ParallelStatsOps).  The statistics are those of the samples of   *)
(*    positive weight; they are defined when one weight is positive.       *)
(* Part = "trace" (Optimizer.compute_derived_trace):                       *)
(*    Derive(r) appends the rank's next (value, weight); AllReduceConcat   *)
(*    concatenates the per-rank lists in rank order; Reorder(r) restores   *)
(*    sample order, either as built ("byweight": sort both by weight,      *)
(*    argsort free among ties) or repaired ("bylayout": invert the known   *)
(*    round-robin layout), and computes the rank's weighted-mean summary   *)
(*    from the gathered, re-ordered arrays (SummarySource = "gathered") or *)
(*    -- expected counterexample -- from the lists the rank filled itself  *)
(*    ("local": another number on every rank, and an error on a rank that  *)
(*    holds no sample / no weight, which leaves the other ranks waiting in *)
(*    the next collective).                                                *)
(* Unit of the weights.  What the ranks are handed are the weights of smp  *)
(*    multiplied by WScale > 0 (weights that were never normalised, or are *)
(*    tiny / huge as a whole, as the leading dead points of a nested       *)
(*    sampling run).  The accumulators scale (wcount, M2) or do not (mean);*)
(*    every result -- mean, variance, derived summaries -- is compared     *)
(*    with the statistics of the UNSCALED samples: the outcome must not    *)
(*    depend on the unit of the weights (WeightScaleLemma).  ZeroGuard =   *)
(*    "tolerant" (an absolute threshold in the "nothing weighed yet" test  *)
(*    of the update) is the expected counterexample: it passes at WScale = *)
(*    1 and is refuted at WScale = 1/1024.                                 *)
(***************************************************************************)
EXTENDS ParallelStatsOps
CONSTANTS NRs,          \* set of rank counts explored
          SampleSpace,  \* set of sample sequences  [v, w] (rationals)
          Part,         \* "var" | "trace"
          Assign,       \* "roundrobin" | "any"
          Jump,         \* TRUE: start with every rank's updates already done (combine step alone)
          Serialise,    \* TRUE: contributions pass through Ser (any MPI run); FALSE: in-process gather
          NaNTest,      \* "identity" (as built) | "value" (repaired)
          StrideOff,    \* 0; 1 models the slicing error rank::size-1 (non-vacuity of EachSampleOnce)
          ReorderMode,  \* "byweight" (as built) | "bylayout" (repaired)
          ZeroGuard,    \* "guarded" | "unguarded" | "tolerant": the 0/0 of OnlineVariance.update (zero weight, nothing weighed yet)
          WScale,       \* rational > 0: common factor of the weights the ranks are handed (unit of the weights)
          SummarySource,\* "gathered" | "local": what the weighted-mean summary of a derived parameter is computed from
          Ordered       \* TRUE: ranks take their Gather/Combine/Derive/Reorder steps in rank order (exports and
                        \* the combine-step-alone configs, where interleavings add nothing); FALSE: free
VARIABLES nr, smp, mine, pc, acc, sent, res, dpc, cat, out
vars == <<nr, smp, mine, pc, acc, sent, res, dpc, cat, out>>

Ranks == 1..nr
N == Len(smp)
RoundRobin(k, n) == [r \in 1..k |-> Slice(r - 1, k - StrideOff, n)]
ListOf(owner, r, n) == LET S == {i \in 1..n : owner[i] = r}
                       IN  [k \in 1..Cardinality(S) |->
                              CHOOSE i \in S : Cardinality({j \in S : j < i}) = k - 1]
Assignments(k, n) == IF Assign = "roundrobin" THEN {RoundRobin(k, n)}
                     ELSE {[r \in 1..k |-> ListOf(owner, r, n)] : owner \in [1..n -> 1..k]}
InTurn(done, r) == Ordered => \A q \in 1..(r - 1) : done[q] # <<>>
Prefix(r) == SubSamples(smp, SubSeq(mine[r], 1, pc[r]))
Mine(r)   == SubSamples(smp, mine[r])
SSmp      == ScaleW(smp, WScale)          \* what the ranks are handed

Init == /\ nr \in NRs
        /\ smp \in SampleSpace
        /\ mine \in Assignments(nr, Len(smp))
        /\ IF Part = "var" /\ Jump
           THEN /\ pc  = [r \in 1..nr |-> Len(mine[r])]
                /\ acc = [r \in 1..nr |-> FoldAccG(ZeroGuard, Acc0, SubSamples(SSmp, mine[r]), 1)]
           ELSE /\ pc  = [r \in 1..nr |-> 0]
                /\ acc = [r \in 1..nr |-> Acc0]
        /\ sent = [r \in 1..nr |-> <<>>]
        /\ res  = [r \in 1..nr |-> <<>>]
        /\ dpc  = [r \in 1..nr |-> 0]
        /\ cat  = <<>>
        /\ out  = [r \in 1..nr |-> <<>>]

\* ------------------------------------------------------------------ Part "var"
Update(r) == /\ Part = "var"
             /\ sent[r] = <<>>
             /\ pc[r] < Len(mine[r])
             /\ LET s == smp[mine[r][pc[r] + 1]]          \* the rank is handed the weight times WScale
                IN  acc' = [acc EXCEPT ![r] = UpdAccG(ZeroGuard, acc[r], s.v, RMul(WScale, s.w))]
             /\ pc' = [pc EXCEPT ![r] = pc[r] + 1]
             /\ UNCHANGED <<nr, smp, mine, sent, res, dpc, cat, out>>
Gather(r) == /\ Part = "var"
             /\ sent[r] = <<>>
             /\ pc[r] = Len(mine[r])
             /\ InTurn(sent, r)
             /\ sent' = [sent EXCEPT ![r] = <<IF Serialise THEN SerC(Contribution(acc[r]))
                                                           ELSE Contribution(acc[r])>>]
             /\ UNCHANGED <<nr, smp, mine, pc, acc, res, dpc, cat, out>>
AllPosted == \A q \in Ranks : sent[q] # <<>>
Combine(r) == /\ Part = "var"
              /\ AllPosted
              /\ res[r] = <<>>
              /\ InTurn(res, r)
              /\ res' = [res EXCEPT ![r] = <<ParVar(NaNTest, [q \in 1..nr |-> sent[q][1]])>>]
              /\ UNCHANGED <<nr, smp, mine, pc, acc, sent, dpc, cat, out>>

\* ---------------------------------------------------------------- Part "trace"
Derive(r) == /\ Part = "trace"
             /\ cat = <<>>
             /\ dpc[r] < Len(mine[r])
             /\ Ordered => \A q \in 1..(r - 1) : dpc[q] = Len(mine[q])
             /\ dpc' = [dpc EXCEPT ![r] = dpc[r] + 1]
             /\ UNCHANGED <<nr, smp, mine, pc, acc, sent, res, cat, out>>
AllReduceConcat ==
             /\ Part = "trace"
             /\ cat = <<>>
             /\ \A r \in Ranks : dpc[r] = Len(mine[r])
             /\ LET idx == ConcatUpTo(mine, nr)            \* rank order; Ser is the identity on numbers
                IN  cat' = <<[idx |-> idx,
                              tr  |-> [k \in 1..Len(idx) |-> SSmp[idx[k]].v],
                              wt  |-> [k \in 1..Len(idx) |-> SSmp[idx[k]].w]]>>
             /\ UNCHANGED <<nr, smp, mine, pc, acc, sent, res, dpc, out>>
\* np.average(trace, weights=w): ZeroDivisionError when the weights sum to zero (or there is none)
AvgOf(tr, wt) == IF RSumSeq(wt) = RZero THEN ErrV ELSE Num(WMeanSeq(tr, wt))
SummaryOf(r, tr, wt) == IF SummarySource = "local"
                        THEN LET p == SubSamples(SSmp, mine[r])
                             IN  AvgOf([k \in 1..Len(p) |-> p[k].v], [k \in 1..Len(p) |-> p[k].w])
                        ELSE AvgOf(tr, wt)
WithSummary(r, tr, wt) == [tr |-> tr, wt |-> wt, mean |-> SummaryOf(r, tr, wt)]
Reorder(r) == /\ Part = "trace"
              /\ cat # <<>>
              /\ out[r] = <<>>
              /\ InTurn(out, r)
              /\ LET c == cat[1] IN
                 IF ReorderMode = "byweight"
                 THEN \* `sorted_weights = weights.argsort()` against `all_weight.argsort()`
                      /\ Len(c.idx) = N        \* otherwise the fancy assignment raises
                      /\ \E p \in ArgSorts([i \in 1..N |-> SSmp[i].w]), q \in ArgSorts(c.wt) :
                            out' = [out EXCEPT ![r] = <<WithSummary(r, PlaceBy(p, q, c.tr), PlaceBy(p, q, c.wt))>>]
                 ELSE /\ Len(c.idx) = N
                      /\ \A i \in 1..N : \E k \in 1..N : c.idx[k] = i
                      /\ out' = [out EXCEPT ![r] = <<WithSummary(r, PlaceByLayout(ConcatUpTo(RoundRobin(nr, N), nr), c.tr),
                                                                 PlaceByLayout(ConcatUpTo(RoundRobin(nr, N), nr), c.wt))>>]
              /\ UNCHANGED <<nr, smp, mine, pc, acc, sent, res, dpc, cat>>

UpdateStep  == \E r \in Ranks : Update(r)
GatherStep  == \E r \in Ranks : Gather(r)
CombineStep == \E r \in Ranks : Combine(r)
DeriveStep  == \E r \in Ranks : Derive(r)
ReorderStep == \E r \in Ranks : Reorder(r)
Next == UpdateStep \/ GatherStep \/ CombineStep \/ DeriveStep \/ AllReduceConcat \/ ReorderStep
Spec == Init /\ [][Next]_vars

\* ------------------------------------------------------------------ invariants
\* every sample at most once at any time, exactly once when every rank has finished its loop
EachSampleOnce ==
    /\ Part = "var" =>
         /\ \A i \in 1..N : Occurrences(mine, pc, i) <= 1
         /\ AllPosted => \A i \in 1..N : Occurrences(mine, pc, i) = 1
    /\ Part = "trace" =>
         /\ \A i \in 1..N : Occurrences(mine, dpc, i) <= 1
         /\ cat # <<>> => \A i \in 1..N : Cardinality({k \in 1..Len(cat[1].idx) : cat[1].idx[k] = i}) = 1

\* streaming accumulators of every rank are the two-pass statistics of what the rank has processed
\* (a rank's accumulator is frozen once it has posted its contribution: checked while it still updates,
\* which includes the state right before its Gather)
AccIsTwoPass ==
    Part = "var" => \A r \in Ranks : sent[r] = <<>> =>
        LET p == Prefix(r) IN
        /\ acc[r].count = pc[r]
        /\ acc[r].wcount = RMul(WScale, SumW(p))           \* p: the UNSCALED samples; the weight sum and M2
        /\ pc[r] = 0 => acc[r].mean = NoneV                \* carry the unit of the weights, the mean does not
        /\ (pc[r] > 0 /\ Defined(p)) => /\ acc[r].mean = WMean(p)
                                        /\ acc[r].M2 = RMul(WScale, TwoPassM2(p))
        \* only zero weights so far: counted, and no other mark (the mean is a placeholder nobody reads)
        /\ (pc[r] > 0 /\ ~Defined(p)) => /\ acc[r].mean = RZero
                                         /\ acc[r].M2 = RZero

Finished(r) == res[r] # <<>>
AnyFinished == \E r \in Ranks : Finished(r)
\* (N counts every sample, of zero weight or not, as the code does; with N >= 2 and no positive weight the
\*  statistics are 0/0 and the property says nothing)
HasStats == N < 2 \/ Defined(smp)
MeanIsWeightedMean ==
    (Part = "var" /\ AnyFinished /\ N >= 2 /\ Defined(smp)) =>
        LET m == Num(WMean(PosSamples(smp))) IN \A r \in Ranks : Finished(r) => res[r][1].mean = m
\* finite, and the two-pass variance of the samples of positive weight (a zero-weight sample contributes nothing)
VarianceIsTwoPass ==
    (Part = "var" /\ AnyFinished /\ HasStats) =>
        IF N >= 2 THEN LET v == Num(TwoPassVar(PosSamples(smp))) IN \A r \in Ranks : Finished(r) => res[r][1].var = v
        ELSE \A r \in Ranks : Finished(r) => IsNaNValue(res[r][1].var)
\* The lemmas below are statements about the sample set alone: they are evaluated once per behaviour, at the
\* point every behaviour passes through (every rank has posted and none has combined / the lists are
\* concatenated and no rank has reordered), not in every state.
LemmaPoint == IF Part = "var" THEN AllPosted /\ ~AnyFinished
              ELSE cat # <<>> /\ \A r \in Ranks : out[r] = <<>>
\* lemma: leaving the zero-weight samples out or in gives the same two-pass statistics
ZeroWeightLemma ==
    (Part = "var" /\ LemmaPoint /\ Defined(smp)) => /\ WMean(smp) = WMean(PosSamples(smp))
                                      /\ TwoPassVar(smp) = TwoPassVar(PosSamples(smp))
\* lemma: the two-pass statistics do not depend on the unit of the weights (what MeanIsWeightedMean /
\* VarianceIsTwoPass / AccIsTwoPass, which compare with the UNSCALED samples, rely on)
WeightScaleLemma ==
    (LemmaPoint /\ Defined(smp)) =>
                    /\ WMean(SSmp) = WMean(smp)
                    /\ TwoPassVar(SSmp) = TwoPassVar(smp)
                    /\ TwoPassM2(SSmp) = RMul(WScale, TwoPassM2(smp))
                    /\ SumW(SSmp) = RMul(WScale, SumW(smp))
\* whatever the number of ranks, the partition and the interleaving: the single-process result
ScheduleIndependent ==
    (Part = "var" /\ AnyFinished) =>
        LET one == SerialResG(ZeroGuard, SSmp) IN
        \A r \in Ranks : Finished(r) => SameX(res[r][1].var, one.var) /\ SameX(res[r][1].mean, one.mean)

TraceInSampleOrder ==
    Part = "trace" => \A r \in Ranks : out[r] # <<>> =>
        /\ out[r][1].tr = [i \in 1..N |-> smp[i].v]
        /\ out[r][1].wt = [i \in 1..N |-> SSmp[i].w]
\* summaries are functions of the multiset of (value, weight) pairs (quantiles) and the weighted mean
SummariesEqualSerial ==
    Part = "trace" => \A r \in Ranks : out[r] # <<>> =>
        /\ PairBagEq(out[r][1].tr, out[r][1].wt, [i \in 1..N |-> smp[i].v], [i \in 1..N |-> SSmp[i].w])
        /\ SumW(smp) # RZero => WMeanSeq(out[r][1].tr, out[r][1].wt) = WMean(smp)
\* the weighted-mean summary every rank reports is the weighted mean of ALL samples (in whatever unit the
\* weights are given), on every rank -- also on a rank that processed no sample itself
SummaryMeanIsGlobal ==
    (Part = "trace" /\ Defined(smp)) => \A r \in Ranks : out[r] # <<>> => out[r][1].mean = Num(WMean(smp))
\* no rank fails while the others go on to the next collective (they would wait for ever)
NoRankFails ==
    (Part = "trace" /\ Defined(smp)) => \A r \in Ranks : out[r] # <<>> => out[r][1].mean # ErrV
\* lemma used by Trace_ParallelStats: the moment form of the two-pass variance
DirectVarLemma == (Part = "var" /\ LemmaPoint /\ N >= 1 /\ Defined(smp)) => DirectVar(smp) = TwoPassVar(smp)
\* every rank that reaches the end produces an output (no rank is stuck on an exception)
NoError ==
    (Part = "var" /\ HasStats) => \A r \in Ranks : Finished(r) => res[r][1].var # ErrV

FitsInv == \A r \in Ranks :
    /\ Fits(acc[r].wcount)
    /\ (acc[r].mean # NoneV /\ acc[r].mean # NanVal) => Fits(acc[r].mean) /\ Fits(acc[r].M2)
    /\ (Finished(r) /\ IsNum(res[r][1].var)) => Fits(res[r][1].var[2])
=============================================================================
