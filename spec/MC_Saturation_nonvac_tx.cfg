SPECIFICATION Spec
CONSTANTS
  NW = 2
  NC = 2
  Inc = {1,12}
  Thr = 10
  Mode = "all"
  Contig = TRUE
  Hows = {"set","obs"}
  NatStep = 10
  ObsPos = {9,11,19,21}
  Export = FALSE
INVARIANT TxNeverDiffers
CONSTRAINT Emit
CHECK_DEADLOCK FALSE
