------------------------------- MODULE Grid -------------------------------
(***************************************************************************)
(* C13 -- restricting the spectral grid never changes the values computed  *)
(* on it.                                                                  *)
(*                                                                         *)
(* Grids are strictly increasing sequences of integers (wavenumbers).      *)
(* Lengths on the spectral axis are carried in QUARTER units (4*x) so that *)
(* mid-point edges (x_i + x_i+1)/2 and half widths stay integers:          *)
(*   native bin i  = [4 g_i - GHalfQ(g)[i], 4 g_i + GHalfQ(g)[i]]          *)
(*   (FluxBinner: centred on the point, full width = mid-point width)      *)
(*   observation bin j = [4 c_j - w2_j, 4 c_j + w2_j],  w2_j = 2 * width_j *)
(* Mechanisms transcribed:                                                 *)
(*   util.compute_bin_edges        -> GMidW2   (mid-point widths, x2)      *)
(*   util.clip_native_to_wngrid    -> GClip    (margin W = widest width)   *)
(*   FluxBinner.bindown            -> GWt / GBinned (overlap weights)      *)
(*   Opacity.opacity / KTable.opacity -> SelAlg (filter, identity test,    *)
(*                                      np.interp on the retained points)  *)
(*   SimpleForwardModel.nativeWavenumberGrid -> NativeChoice (longest)     *)
(***************************************************************************)
EXTENDS Integers, Sequences, FiniteSets, TLC, Json, Rat

GFirst(g) == g[1]
GLast(g)  == g[Len(g)]
GSetOf(g) == {g[i] : i \in 1..Len(g)}
GSetMax(S) == CHOOSE v \in S : \A u \in S : v >= u
GSetMin(S) == CHOOSE v \in S : \A u \in S : v <= u
GGaps(g)  == {g[i + 1] - g[i] : i \in 1..(Len(g) - 1)}
GUniform(g) == Cardinality(GGaps(g)) <= 1

\* ------------------------------------------------------- mid-point widths
\* 2 * (mid-point width of point i)          [compute_bin_edges(g)[1], times two]
GMidW2i(g, i) == IF i = 1 THEN 2 * (g[2] - g[1])
                 ELSE IF i = Len(g) THEN 2 * (g[Len(g)] - g[Len(g) - 1])
                 ELSE g[i + 1] - g[i - 1]
GMidW2(g) == [i \in 1..Len(g) |-> GMidW2i(g, i)]
GMaxW2(g) == GSetMax({GMidW2i(g, i) : i \in 1..Len(g)})
\* quarter-unit half width of native bin i = (mid-point width)/2 * 4 = GMidW2i
GHalfQi(g, i) == GMidW2i(g, i)
GHalfQ(g) == GMidW2(g)

\* ------------------------------------------------------------------- clip
\* clip_native_to_wngrid: keep x with  cmin - W <= x <= cmax + W,  W = GMaxW2(oc)/2
\* Margin is a parameter (in half units, i.e. 2*margin) so that the design can be explored.
GInClipM(x, oc, m2) == 2 * x >= 2 * GFirst(oc) - m2 /\ 2 * x <= 2 * GLast(oc) + m2
GInClip(x, oc) == GInClipM(x, oc, GMaxW2(oc))
GClip(nat, oc) == LET m2 == GMaxW2(oc) IN SelectSeq(nat, LAMBDA x : GInClipM(x, oc, m2))
\* 1-based index range of the retained points (0,0 if none); the clip is contiguous
GClipIdx(nat, oc) == LET m2 == GMaxW2(oc) IN {i \in 1..Len(nat) : GInClipM(nat[i], oc, m2)}
GClipLo(nat, oc) == LET I == GClipIdx(nat, oc) IN IF I = {} THEN 0 ELSE GSetMin(I)
GClipHi(nat, oc) == LET I == GClipIdx(nat, oc) IN IF I = {} THEN 0 ELSE GSetMax(I)

\* ---------------------------------------------------------------- binning
GMax2(a, b) == IF a >= b THEN a ELSE b
GMin2(a, b) == IF a <= b THEN a ELSE b
\* overlap (quarter units) of native bin i of grid g with observation bin (c, w2)
GWt(g, i, c, w2) ==
    LET h  == GHalfQi(g, i)
        lo == GMax2(4 * g[i] - h, 4 * c - w2)
        hi == GMin2(4 * g[i] + h, 4 * c + w2)
    IN  IF hi > lo THEN hi - lo ELSE 0
RECURSIVE GSumRange(_, _, _)
GSumRange(f, a, b) == IF a > b THEN 0 ELSE f[b] + GSumRange(f, a, b - 1)
\* sum of f[1..n] for f >= 0; only the window of non-zero entries is visited (long grids: shallow recursion)
GSumTo(f, n) == LET NZ == {i \in 1..n : f[i] # 0} IN
                IF NZ = {} THEN 0 ELSE GSumRange(f, GSetMin(NZ), GSetMax(NZ))
GWts(g, c, w2)  == [i \in 1..Len(g) |-> GWt(g, i, c, w2)]
GWtSum(g, c, w2) == GSumTo(GWts(g, c, w2), Len(g))
\* binned value of spectrum f (integers, f[i] at g[i]) in bin (c, w2): <<num, den>>, den = 0 if no overlap
GBinnedRaw(g, f, c, w2) ==
    LET w == GWts(g, c, w2) IN
    <<GSumTo([i \in 1..Len(g) |-> w[i] * f[i]], Len(g)), GSumTo(w, Len(g))>>

\* the binned value is the same linear functional of the spectrum on the clipped grid
\* nat[lo..hi] and on the full grid (a point outside the clip has weight 0 there)
GBinSame(nat, lo, hi, c, w2) ==
    LET clip == SubSeq(nat, lo, hi)
        wf == GWts(nat, c, w2)
        wc == GWts(clip, c, w2)
        sf == GSumTo(wf, Len(nat))
        sc == GSumTo(wc, Len(clip))
    IN  /\ (sf = 0) <=> (sc = 0)
        /\ \A i \in 1..Len(nat) : wf[i] * sc = (IF i >= lo /\ i <= hi THEN wc[i - lo + 1] ELSE 0) * sf

\* ------------------------------------------------------- width conditions
\* "no observation bin is wider than the widest mid-point bin"
GWidthCond(oc, ow2) == LET m2 == GMaxW2(oc) IN \A j \in 1..Len(oc) : ow2[j] <= m2
\* "native grid finer than W/k":  gap < W/k  <=>  2k*gap < W2
GSpacingCond(nat, oc, k) == LET m2 == GMaxW2(oc) IN \A d \in GGaps(nat) : 2 * k * d < m2

GBinningCommutes(nat, oc, ow2) ==
    LET lo == GClipLo(nat, oc)
        hi == GClipHi(nat, oc)
    IN  (lo > 0 /\ hi > lo) => \A j \in 1..Len(oc) : GBinSame(nat, lo, hi, oc[j], ow2[j])

\* ------------------------------------------------ opacity selection (Sel)
\* A selection result at one requested point is a barycentric record over the molecule's
\* own grid g:  value = (1-w) v[lo] + w v[hi]  (w rational in [0,1]);  lo = hi, w = 0 for a node.
SelNode(i) == [lo |-> i, hi |-> i, w |-> RZero]
SelErr     == [lo |-> 0, hi |-> 0, w |-> RZero]
SelNormal(r) == IF r.lo = 0 THEN r
                ELSE IF r.w = RZero THEN SelNode(r.lo)
                ELSE IF r.w = ROne THEN SelNode(r.hi) ELSE r

\* np.interp(x, g[a..b]) on the index range a..b (a <= b) of g
SelInterpOn(g, a, b, x) ==
    IF x <= g[a] THEN SelNode(a)
    ELSE IF x >= g[b] THEN SelNode(b)
    ELSE LET l == GSetMax({i \in a..b : g[i] <= x}) IN
         IF g[l] = x THEN SelNode(l)
         ELSE [lo |-> l, hi |-> l + 1, w |-> R(x - g[l], g[l + 1] - g[l])]

\* reference: interpolation on the molecule's FULL grid (edge values held outside it)
SelRef(g, x) == SelInterpOn(g, 1, Len(g), x)

\* indices of g inside [min r, max r]                       (the wngrid_filter of the code)
SelFilter(g, r) == {i \in 1..Len(g) : g[i] >= GFirst(r) /\ g[i] <= GLast(r)}
SelIdentity(g, r) ==
    LET F == SelFilter(g, r) IN
    /\ Cardinality(F) = Len(r)
    /\ F # {}
    /\ \A k \in 1..Len(r) : g[GSetMin(F) + k - 1] = r[k]

\* the algorithm of Opacity.opacity for requested grid r (a sequence), result per index of r.
\*   mode "filtered": interpolate within the filtered points only   (as built)
\*   mode "widened" : one more native point on each side before interpolating (repaired)
SelAlg(mode, g, r) ==
    LET F == SelFilter(g, r) IN
    IF SelIdentity(g, r) THEN [k \in 1..Len(r) |-> SelNode(GSetMin(F) + k - 1)]
    ELSE IF mode = "filtered"
         THEN IF F = {} THEN [k \in 1..Len(r) |-> SelErr]       \* np.interp raises on an empty table
              ELSE [k \in 1..Len(r) |-> SelInterpOn(g, GSetMin(F), GSetMax(F), r[k])]
         ELSE LET below == Cardinality({i \in 1..Len(g) : g[i] < GFirst(r)})
                  upto  == Cardinality({i \in 1..Len(g) : g[i] <= GLast(r)})
                  a == GMax2(below, 1)
                  b == GMin2(upto + 1, Len(g))
              IN  [k \in 1..Len(r) |-> SelInterpOn(g, a, b, r[k])]

\* neighbours of x in the full molecule grid
SelNeighbours(g, x) ==
    IF x <= g[1] THEN {1}
    ELSE IF x >= g[Len(g)] THEN {Len(g)}
    ELSE LET l == GSetMax({i \in 1..Len(g) : g[i] <= x}) IN IF g[l] = x THEN {l} ELSE {l, l + 1}

SelBetween(g, x, rec) ==
    /\ rec.lo \in SelNeighbours(g, x) /\ rec.hi \in SelNeighbours(g, x)
    /\ RLe(RZero, rec.w) /\ RLe(rec.w, ROne)

\* ------------------------------------------------------ native grid choice
\* nativeWavenumberGrid: the first among the longest of the active molecules' grids
NativeChoice(grids) ==
    LET n == Len(grids)
        best == GSetMax({Len(grids[i]) : i \in 1..n})
        k == GSetMin({i \in 1..n : Len(grids[i]) = best})
    IN  grids[k]
=============================================================================
