SPECIFICATION Spec
CONSTANTS
  NV = 2
  MaxWrites = 1
  Variant = "ctor_only"
  Export = FALSE
CHECK_DEADLOCK FALSE
INVARIANT ControlValuesInForce
