---------------------------- MODULE ProfileOwner ----------------------------
(***************************************************************************)
(* C12, the OWNER dimension of "TemperatureProfile.profile after           *)
(* initialize_profile(planet, nlayers, pressure)".                         *)
(*                                                                         *)
(* A temperature profile does not own its inputs: the planet (gravity) and *)
(* the layer grid belong to a forward model, which hands them over in      *)
(* initialize_profiles() at the start of every evaluation and changes them *)
(* between evaluations through ITS OWN fitting parameters (planet_radius,  *)
(* planet_mass, atm_max_pressure, atm_min_pressure; the layer count by     *)
(* building a new model around the same planet and profile objects).  The  *)
(* profile's own controls are written through the model as well, and one   *)
(* profile object may serve several models (each with its own planet and   *)
(* pressure object).  The property quantifies over inputs, so what a model *)
(* exposes after initialize_profiles() must be the profile of the CURRENT  *)
(* planet, grid and controls of THAT model.                                *)
(*                                                                         *)
(* Abstract state                                                          *)
(*   own[o]  <<r, m, pmax, pmin, n>>  current settings of model o (indices)*)
(*   ctl     the profile's own control (the profile object is shared)       *)
(*   bound   <<who, pmax, pmin, n>>   what the profile object was handed at *)
(*           its last initialize_profile: the planet OBJECT of model `who`  *)
(*           (by reference) and the grid (by value); <<>> before the first  *)
(*   froz    <<r, m>>  planet quantities the profile derived when it was    *)
(*           initialised (only read by the Frozen variant)                  *)
(*   seen    <<o, settings, ctl>> the inputs the profile last exposed by    *)
(*           model o is a function of; <<>> when nothing has been read      *)
(*           since the last change                                          *)
(* Hand-overs happen in Evaluate and in Rebuild (build() of a new model      *)
(* initialises its profiles once); the models of the initial state count as  *)
(* constructed, a Rebuild with the same layer count builds them.            *)
(* Variants of the implementation (constants):                             *)
(*   Skip = "never"  every Evaluate hands planet and grid over again       *)
(*          "same"   only when planet object, layer count or pressures      *)
(*                   differ from what the profile holds                     *)
(*          "grid"   only when layer count or pressures differ              *)
(*   Frozen = FALSE  the profile reads its planet when it is evaluated      *)
(*            TRUE   it uses what it derived from the planet when it was    *)
(*                   initialised (column mass, gravity, scale height ...)   *)
(* ("same", FALSE) and ("never", TRUE) are harmless, ("same", TRUE) and     *)
(* ("grid", FALSE) expose a profile of a planet that is no longer current:  *)
(* ObservedIsCurrent is refuted (RF_ProfileOwner_*.cfg).                    *)
(***************************************************************************)
EXTENDS Integers, Sequences, FiniteSets, TLC

CONSTANTS Owners,   \* number of models sharing the profile object
          NV,       \* values per setting: 0..NV-1
          NL,       \* layer counts a model can be built with: 0..NL-1
          Skip, Frozen
VARIABLES own, ctl, bound, froz, seen
vars == <<own, ctl, bound, froz, seen>>

KR == 1   KM == 2   KPMAX == 3   KPMIN == 4   KN == 5
Settings == {s \in [1..5 -> 0..(IF NV > NL THEN NV ELSE NL) - 1] : s[KN] < NL /\ \A k \in 1..4 : s[k] < NV}

Init == /\ own \in [1..Owners -> Settings]
        /\ ctl \in 0..(NV - 1)
        /\ bound = <<>> /\ froz = <<>> /\ seen = <<>>

\* model[<planet_radius | planet_mass | atm_max_pressure | atm_min_pressure>] = value
SetOwn(o, k, v) == /\ own[o][k] # v
                   /\ own' = [own EXCEPT ![o][k] = v]
                   /\ seen' = <<>>
                   /\ UNCHANGED <<ctl, bound, froz>>
\* model[<a fitting parameter of the temperature profile>] = value
SetCtl(v) == /\ ctl # v
             /\ ctl' = v
             /\ seen' = <<>>
             /\ UNCHANGED <<own, bound, froz>>
\* the hand-over initialize_profiles() of model o, whose settings are ow[o]
GridOf(ow, o) == <<o, ow[o][KPMAX], ow[o][KPMIN], ow[o][KN]>>
SkipKey(b) == IF Skip = "grid" THEN Tail(b) ELSE b
Reinit(ow, o) == bound = <<>> \/ Skip = "never" \/ SkipKey(bound) # SkipKey(GridOf(ow, o))
Bound2(ow, o) == IF Reinit(ow, o) THEN GridOf(ow, o) ELSE bound
Froz2(ow, o)  == IF Reinit(ow, o) THEN <<ow[o][KR], ow[o][KM]>> ELSE froz
Live2(ow, o)  == <<ow[Bound2(ow, o)[1]][KR], ow[Bound2(ow, o)[1]][KM]>>   \* the planet object the profile refers to, read now
Planet2(ow, o) == IF Frozen THEN Froz2(ow, o) ELSE Live2(ow, o)
\* a new model object (new pressure object, layer count n) around the same planet and profile objects;
\* build() initialises the profiles once
OwnN(o, n) == [own EXCEPT ![o][KN] = n]
Rebuild(o, n) == /\ own' = OwnN(o, n)
                 /\ bound' = Bound2(OwnN(o, n), o)
                 /\ froz' = Froz2(OwnN(o, n), o)
                 /\ seen' = <<>>
                 /\ UNCHANGED ctl
\* model o: initialize_profiles(), then temperatureProfile is read
Evaluate(o) == /\ bound' = Bound2(own, o)
               /\ froz' = Froz2(own, o)
               /\ seen' = <<o, <<Planet2(own, o)[1], Planet2(own, o)[2], Bound2(own, o)[2], Bound2(own, o)[3], Bound2(own, o)[4]>>, ctl>>
               /\ UNCHANGED <<own, ctl>>

Next == \/ \E o \in 1..Owners, k \in 1..4, v \in 0..(NV - 1) : SetOwn(o, k, v)
        \/ \E v \in 0..(NV - 1) : SetCtl(v)
        \/ \E o \in 1..Owners, n \in 0..(NL - 1) : Rebuild(o, n)
        \/ \E o \in 1..Owners : Evaluate(o)
Spec == Init /\ [][Next]_vars

TypeOK == /\ own \in [1..Owners -> Settings]
          /\ ctl \in 0..(NV - 1)
          /\ bound = <<>> \/ (bound[1] \in 1..Owners /\ Len(bound) = 4)
\* the clause: what a model exposes is the profile of its current planet, grid and controls
ObservedIsCurrent == seen = <<>> \/ (seen[2] = own[seen[1]] /\ seen[3] = ctl)
=============================================================================
