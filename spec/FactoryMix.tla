----------------------------- MODULE FactoryMix -----------------------------
(***************************************************************************)
(* C15 -- composite '+' selectors with SEVERAL mixins (inputfile.rst,      *)
(* section "Mixins"):                                                       *)
(*     profile_type = mixin1+mixin2+base                                    *)
(* "Mixins are evaluated in reverse, the last must be a non-mixin ...       *)
(*  the first mixin will be applied last":                                  *)
(*     doubler+add50+isothermal, T = 1000  ->  2100 K                       *)
(*     add50+doubler+isothermal, T = 1000  ->  2050 K                       *)
(*                                                                         *)
(* A composite selector is an ORDERED application.  The class built has     *)
(* the bases <<class(tok 1), ..., class(tok k), class(base)>> in the        *)
(* written order (so that method resolution reaches tok 1 first, i.e. its   *)
(* effect is applied last), the mixins are initialised in reverse, every    *)
(* key reaches the class that owns it, and the object equals the one the    *)
(* library builds with enhance_class(base, [mixins in written order]).      *)
(*                                                                         *)
(* Mixins are modelled by what they do to a value handed down the method    *)
(* chain: x -> m*x + a (exact rationals; m or a may come from a key).       *)
(* FactoryReg (generated) supplies HarnessMixins (plugin mixins registered  *)
(* by the harness, three non-commuting ones per kind), MixinClasses (the    *)
(* built-in mixins of the live registry), MixOpTab, MixProfTab, MixBases,     *)
(* MixIncompat.                                                             *)
(*                                                                         *)
(* SUB-SECTIONS.  A [Chemistry] section carries gas sub-sections ([[H2O]]   *)
(* gas_type = ..), a [Model] section contribution sub-sections              *)
(* ([[Absorption]] ..).  What they build belongs to the object graph of     *)
(* the section whatever the FORM of its selector:                           *)
(*     plain       chemistry_type = free                                    *)
(*     composite   chemistry_type = makefree+file   (mixins.rst), any       *)
(*                 mixin1+..+base whose classes provide the adding method   *)
(*     custom      chemistry_type = custom, python_file = ...               *)
(* `subs` is the written sequence of sub-sections (<= MaxSubs, forms with   *)
(* <= MaxSubMix mixins); SubAdders (generated) names the classes -- base,   *)
(* mixin or custom -- that provide addGas / add_contribution, i.e. the      *)
(* forms through which the LIBRARY can attach them; the built graph then    *)
(* holds one object per sub-section, in the written order, of the unique    *)
(* class of its selector, with its keys typed (SubsectionsReachComponent),  *)
(* and it is the same graph for every form (SubsFormIndependent).           *)
(* A custom python_file resolves to the class DEFINED in that file, not to  *)
(* a class the file imports to derive from (CustomBases.imports).           *)
(***************************************************************************)
EXTENDS FactoryOps, Rat
CONSTANTS MaxMix,       \* at most this many mixins in front of the base
          MixKeys,      \* "few": no key / one key / all keys;  "all": every subset of the keys in play
          MaxSubs,      \* at most this many sub-sections under the section (0: none)
          MaxSubMix,    \* sub-sections are written under forms with at most this many mixins (0 = plain / custom only)
          SubErrLen,    \* the unknown-key / unknown-selector variants are written with at most this many sub-sections
          Export
VARIABLES phase, kind, toks, nmix, variant, base, keys, vals, subs, front, picks, bpick, out
vars == <<phase, kind, toks, nmix, variant, base, keys, vals, subs, front, picks, bpick, out>>

AllMixins == MixinClasses \cup HarnessMixins
Pool(k) == {m \in AllMixins : m.kind = k}
MCands(k, s) == {m \in Pool(k) : s \in m.kw}
MixSels(k) == UNION {m.kw : m \in Pool(k)}
MixKindsAll == {b.kind : b \in MixBases}

\* sequences of n distinct selectors naming n distinct mixin classes
RECURSIVE SeqsOf(_, _)
SeqsOf(S, n) == IF n = 0 THEN {<<>>}
                ELSE UNION {{<<s>> \o t : t \in SeqsOf(S \ {s}, n - 1)} : s \in S}
MixSeqs(k) == UNION {SeqsOf(MixSels(k), n) : n \in 1..MaxMix}
Distinct(k, sq) == \A i, j \in 1..Len(sq) : i # j => MCands(k, sq[i]) \cap MCands(k, sq[j]) = {}
Compatible(k, sq, b) == \A i \in 1..Len(sq) : \A m \in MCands(k, sq[i]) : <<m.name, b.cls>> \notin MixIncompat

MixKeyRaw(i) == IF i = 1 THEN Sc("3") ELSE Sc("0.5")
KeyRecsOfMixin(m) == {[name |-> p, typ |-> "float", own |-> m.name] : p \in m.params}
KeysInPlay(k, sq, b) == UNION {UNION {KeyRecsOfMixin(m) : m \in MCands(k, sq[i])} : i \in 1..Len(sq)}
                        \cup {[name |-> kk.name, typ |-> kk.typ, own |-> b.cls] : kk \in b.keys}
KeySubsets(K) == IF MixKeys = "all" THEN SUBSET K
                 ELSE {{}} \cup {{x} : x \in K} \cup {K}
KeyNamesOf(ks) == {x.name : x \in ks}

MixVariants == {"plain", "basefirst", "twobases", "unknownmixin", "unknownkey"}

\* ------------------------------------------------------------ sub-sections
SubKindOf(k) == IF k = "chemistry" THEN "gas" ELSE IF k = "model" THEN "contribution" ELSE "none"
SubPool(k) == {s \in SubChoices : s.kind = SubKindOf(k)}
\* sequences of at most n sub-sections with distinct names, in every written order
RECURSIVE SubSeqsOf(_, _)
SubSeqsOf(S, n) == IF n = 0 THEN {<<>>}
                   ELSE {<<>>} \cup UNION {{<<x>> \o t : t \in SubSeqsOf({y \in S : y.name # x.name}, n - 1)} : x \in S}
SubVariants == {"unknownsubkey", "unknownsubsel"}
\* the library can attach sub-section objects through this form: one of its classes provides the adding method
FormAdds(k, sq, b) == b.cls \in SubAdders \/ \E i \in 1..Len(sq) : \E m \in MCands(k, sq[i]) : m.name \in SubAdders
CustomOf(b) == {c \in CustomBases : c.kind = b.kind /\ c.file = b.custom}

Init == /\ phase = "cfg"
        /\ base \in MixBases
        /\ kind = base.kind
        /\ \E sq \in (IF base.custom # "" THEN {} ELSE MixSeqs(base.kind)) \cup (IF MaxSubs > 0 THEN {<<>>} ELSE {}) :
              /\ Distinct(base.kind, sq) /\ Compatible(base.kind, sq, base)
              /\ nmix = Len(sq)
              /\ variant \in (IF sq = <<>> THEN {"plain"} ELSE MixVariants)
                             \cup (IF MaxSubs > 0 /\ Len(sq) <= MaxSubMix /\ SubPool(base.kind) # {} /\ FormAdds(base.kind, sq, base)
                                   THEN SubVariants ELSE {})
              /\ toks = CASE variant = "basefirst" -> <<base.sel>> \o sq
                          [] variant = "twobases"  -> sq \o <<base.sel, base.sel>>
                          [] variant = "unknownmixin" -> <<sq[1] \o "_zz">> \o Tail(sq) \o <<base.sel>>
                          [] OTHER -> sq \o <<base.sel>>
              /\ keys \in (IF variant = "plain" THEN KeySubsets(KeysInPlay(base.kind, sq, base)) ELSE {{}})
              \* sub-sections: with no other key in play, under the forms through which the library can attach them;
              \* a selector without mixins appears here only with sub-sections (alone it is Factory.tla's business)
              /\ subs \in (IF keys = {} /\ Len(sq) <= MaxSubMix /\ FormAdds(base.kind, sq, base) /\ variant \in {"plain"} \cup SubVariants
                           THEN SubSeqsOf(SubPool(base.kind), MaxSubs) ELSE {<<>>})
              /\ (sq = <<>> \/ variant \in SubVariants) => subs # <<>>
              /\ variant \in SubVariants => Len(subs) <= SubErrLen
        /\ vals \in {[n \in KeyNamesOf(keys) |-> c] : c \in 1..2}
        /\ front = <<>> /\ picks = <<>> /\ bpick = NoClass
        /\ out = [err |-> "pending"]

RawOfKey(x) == IF x.own = base.cls THEN RawChoices(x.typ, x.name)[vals[x.name]] ELSE MixKeyRaw(vals[x.name])
GivenRaw == [n \in KeyNamesOf(keys) \cup {f.name : f \in base.fixed} |->
                IF n \in KeyNamesOf(keys) THEN RawOfKey(CHOOSE x \in keys : x.name = n)
                ELSE (CHOOSE f \in base.fixed : f.name = n).raw]
GivenNames == DOMAIN GivenRaw \cup (IF variant = "unknownkey" THEN {"not_a_key"} ELSE {})

\* what the i-th sub-section says: the last one carries the unknown key / the unknown selector of the sub variants
SubSel(i) == IF variant = "unknownsubsel" /\ i = Len(subs) THEN subs[i].sel \o "_zz" ELSE subs[i].sel
SubLookup(i) == IF SubKindOf(kind) = "gas" THEN LowerOf(SubSel(i)) ELSE SubSel(i)     \* gas_type values are lower-cased, section names are not
SubCands(i) == Cands(SubKindOf(kind), SubLookup(i))
SubGivenNames(i) == {g.name : g \in subs[i].given} \cup (IF variant = "unknownsubkey" /\ i = Len(subs) THEN {"not_a_key"} ELSE {})
SubTyped(i) == [n \in {g.name : g \in subs[i].given} |-> Transform((CHOOSE g \in subs[i].given : g.name = n).raw)]
\* one class per sub-section, each ANY candidate of its selector (set iteration order)
RECURSIVE SubPickSeqs(_)
SubPickSeqs(i) == IF i > Len(subs) THEN {<<>>}
                  ELSE {<<c>> \o t : c \in SubCands(i), t \in SubPickSeqs(i + 1)}

\* determine_klass: split on '+', the LAST token names the base class ...
Split ==
    /\ phase = "cfg"
    /\ front' = SubSeq(toks, 1, Len(toks) - 1)
    /\ LET last == LowerOf(toks[Len(toks)])
           \* `custom` is the whole selector, never a token of a composite; the class is the one DEFINED in python_file
           cs == IF last = "custom"
                 THEN (IF Len(toks) = 1 THEN {[kind |-> c.kind, name |-> c.name, kw |-> {}, params |-> c.params, varkw |-> FALSE] : c \in CustomOf(base)} ELSE {})
                 ELSE Cands(kind, last)
       IN  IF cs = {} THEN /\ phase' = "done" /\ bpick' = NoClass
                           /\ out' = [err |-> "error", why |-> "last token is not a base class"]
           ELSE /\ \E c \in cs : bpick' = c
                /\ phase' = "mixins" /\ UNCHANGED out
    /\ UNCHANGED <<kind, toks, nmix, variant, base, keys, vals, subs, picks>>

\* ... and every token in front of it names a mixin, resolved one by one IN THE WRITTEN ORDER
ResolveMixin ==
    /\ phase = "mixins"
    /\ Len(picks) < Len(front)
    /\ LET ms == MCands(kind, LowerOf(front[Len(picks) + 1]))
       IN  IF ms = {} THEN /\ phase' = "done" /\ picks' = picks
                           /\ out' = [err |-> "error", why |-> "token is not a mixin"]
           ELSE /\ \E m \in ms : picks' = Append(picks, m)
                /\ UNCHANGED <<phase, out>>
    /\ UNCHANGED <<kind, toks, nmix, variant, base, keys, vals, subs, front, bpick>>

\* the operation of one mixin under a map G of given raw values
\* tab = MixOpTab: the chain of the probe method the plugin mixins define (built-in mixins do not take part);
\* tab = MixProfTab: the chain of the temperature `profile` property (the built-in TempScaler scales it)
OpWith(m, G, tab) == LET o == tab[m.name] IN
    [m |-> IF o.mulkey # "" /\ o.mulkey \in DOMAIN G THEN Transform(G[o.mulkey]).v ELSE o.m0,
     a |-> IF o.addkey # "" /\ o.addkey \in DOMAIN G THEN Transform(G[o.addkey]).v ELSE o.a0]
TypedOf(n) == Transform(GivenRaw[n])
OpOf(m, tab) == OpWith(m, GivenRaw, tab)
\* composite x -> M*x + A of the chain: method resolution enters at the FIRST class and calls down,
\* so the innermost (last mixin) acts first.  Computed the way the interpreter does: unwind from the end.
RECURSIVE UnwindG(_, _, _, _, _)
UnwindG(ps, i, acc, G, tab) == IF i = 0 THEN acc
                               ELSE LET o == OpWith(ps[i], G, tab)
                                    IN  UnwindG(ps, i - 1, <<RMul(o.m, acc[1]), RAdd(RMul(o.m, acc[2]), o.a)>>, G, tab)
Unwind(ps, tab) == UnwindG(ps, Len(ps), <<ROne, RZero>>, GivenRaw, tab)
Reverse(s) == [i \in 1..Len(s) |-> s[Len(s) + 1 - i]]

Build ==
    /\ phase = "mixins"
    /\ Len(picks) = Len(front)
    /\ LET params == bpick.params \cup UNION {picks[i].params : i \in 1..Len(picks)}
           owners == [i \in 1..Len(picks) |-> picks[i].name] \o <<bpick.name>>
           ownerOf(n) == IF n \in bpick.params THEN bpick.name
                         ELSE picks[CHOOSE i \in 1..Len(picks) : n \in picks[i].params].name  \* key names are unique across classes
           adds == \E i \in 1..Len(owners) : owners[i] \in SubAdders
       IN  \E sp \in (IF \E i \in 1..Len(subs) : SubCands(i) = {} THEN {<<>>} ELSE SubPickSeqs(1)) :
           out' = IF \E n \in GivenNames \ {"python_file"} : n \notin params
                  THEN [err |-> "error", why |-> "unknown key"]
                  ELSE IF \E i \in 1..Len(subs) : SubCands(i) = {}
                  THEN [err |-> "error", why |-> "unknown sub-section selector"]
                  ELSE IF \E i \in 1..Len(subs) : \E n \in SubGivenNames(i) : n \notin sp[i].params
                  THEN [err |-> "error", why |-> "unknown key in a sub-section"]
                  ELSE [err |-> "none",
                        \* create_chemistry / create_model: every sub-section object is handed to the built component
                        subs |-> IF adds THEN [i \in 1..Len(subs) |-> [name |-> subs[i].name, cls |-> sp[i].name, kwargs |-> SubTyped(i)]]
                                 ELSE <<>>,
                        bases |-> owners,
                        initorder |-> Reverse([i \in 1..Len(picks) |-> picks[i].name]),
                        kwargs |-> [c \in {owners[i] : i \in 1..Len(owners)} |->
                                       [n \in {g \in DOMAIN GivenRaw \ {"python_file"} : ownerOf(g) = c} |-> TypedOf(n)]],
                        coef |-> Unwind(picks, MixOpTab),
                        pcoef |-> Unwind(picks, MixProfTab)]
    /\ phase' = "done"
    /\ UNCHANGED <<kind, toks, nmix, variant, base, keys, vals, subs, front, picks, bpick>>

Next == Split \/ ResolveMixin \/ Build
Spec == Init /\ [][Next]_vars

\* ----------------------------------------------------------------- invariants
Done == phase = "done"
Ok == Done /\ out.err = "none"
\* position by position the class at place i answers to the i-th written token (ordered application)
OrderedBases ==
    Ok => /\ Len(out.bases) = Len(toks)
          /\ \A i \in 1..Len(toks) - 1 : \E m \in MCands(kind, LowerOf(toks[i])) : m.name = out.bases[i]
          /\ IF base.custom # "" THEN \E c \in CustomOf(base) : c.name = out.bases[Len(toks)] /\ c.name \notin c.imports
             ELSE \E c \in Cands(kind, LowerOf(toks[Len(toks)])) : c.name = out.bases[Len(toks)]
\* declarative reading of "the first mixin is applied last": Eval(<<m1,..,mk>>, x) = op(m1)(Eval(<<m2,..,mk>>, x))
RECURSIVE EvalChain(_, _, _)
EvalChain(ps, x, tab) == IF ps = <<>> THEN x
                         ELSE LET o == OpOf(Head(ps), tab) IN RAdd(RMul(o.m, EvalChain(Tail(ps), x, tab)), o.a)
FirstAppliedLast ==
    Ok => \A x \in {Q(0), Q(1000), R(1, 4)} :
              /\ RAdd(RMul(out.coef[1], x), out.coef[2]) = EvalChain(picks, x, MixOpTab)
              /\ RAdd(RMul(out.pcoef[1], x), out.pcoef[2]) = EvalChain(picks, x, MixProfTab)
ReverseInit ==
    Ok => \A i \in 1..Len(picks) : out.initorder[i] = picks[Len(picks) + 1 - i].name
KeysReachOwner ==
    Ok => \A x \in keys : /\ x.own \in DOMAIN out.kwargs
                          /\ x.name \in DOMAIN out.kwargs[x.own]
                          /\ out.kwargs[x.own][x.name] = Transform(RawOfKey(x))
                          /\ \A c \in DOMAIN out.kwargs : c # x.own => x.name \notin DOMAIN out.kwargs[c]
InvalidCompositeIsError ==
    (Done /\ variant \in {"basefirst", "twobases", "unknownmixin"}) => out.err = "error"
UnknownKeyIsErrorMix ==
    (Done /\ variant = "unknownkey") => out.err = "error"
PlainBuilds == (Done /\ variant = "plain") => out.err = "none"
\* one object per sub-section, in the written order, of a class its selector names, with its keys typed
SubsectionsReachComponent ==
    (Ok /\ variant = "plain") =>
        /\ Len(out.subs) = Len(subs)
        /\ \A i \in 1..Len(subs) :
              /\ out.subs[i].name = subs[i].name
              /\ \E c \in SubCands(i) : c.name = out.subs[i].cls
              /\ \A g \in subs[i].given : out.subs[i].kwargs[g.name] = Transform(g.raw)
\* the form of the section's selector has no say in what its sub-sections build
PlainSubs == [i \in 1..Len(subs) |-> [name |-> subs[i].name, cls |-> (CHOOSE c \in SubCands(i) : TRUE).name, kwargs |-> SubTyped(i)]]
SubsFormIndependent == Ok => out.subs = PlainSubs
UnknownInSubsectionIsError == (Done /\ variant \in SubVariants) => out.err = "error"
CoefFits == Ok => Fits(out.coef[1]) /\ Fits(out.coef[2]) /\ Fits(out.pcoef[1]) /\ Fits(out.pcoef[2])

\* the documentation's own numbers tie the operation table to the text
DocSel(s) == CHOOSE m \in HarnessMixins : m.kind = "temperature" /\ s \in m.kw
DocEval(sq, x) == LET c == UnwindG([i \in 1..Len(sq) |-> DocSel(sq[i])], Len(sq), <<ROne, RZero>>, <<>>, MixProfTab)
                  IN  RAdd(RMul(c[1], x), c[2])
ASSUME DocExample == /\ DocEval(<<"doubler", "add50">>, Q(1000)) = Q(2100)
                     /\ DocEval(<<"add50", "doubler">>, Q(1000)) = Q(2050)

\* NON-VACUITY (must be refuted): sub-sections would only count under a selector without mixins
SubsOnlyUnderPlainSelectors == (Ok /\ nmix > 0) => out.subs = <<>>

\* NON-VACUITY (must be refuted): the order of the mixins would be irrelevant
OrderIrrelevant ==
    Ok => Unwind(Reverse(picks), MixOpTab) = out.coef

Emit == (Export /\ Done) =>
    PrintT(<<"MIX", ToJson([kind |-> kind, toks |-> toks, variant |-> variant, nmix |-> nmix,
                            basesel |-> base.sel, basecls |-> base.cls,
                            given |-> GivenRaw,
                            custom |-> base.custom,
                            subs |-> [i \in 1..Len(subs) |-> [name |-> subs[i].name, sel |-> SubSel(i),
                                         given |-> [n \in {g.name : g \in subs[i].given} |-> (CHOOSE g \in subs[i].given : g.name = n).raw],
                                         unknownkey |-> variant = "unknownsubkey" /\ i = Len(subs)]],
                            builtsubs |-> IF out.err = "none" THEN out.subs ELSE <<>>,
                            err |-> out.err,
                            bases |-> IF out.err = "none" THEN out.bases ELSE <<>>,
                            initorder |-> IF out.err = "none" THEN out.initorder ELSE <<>>,
                            kwargs |-> IF out.err = "none" THEN out.kwargs ELSE <<>>,
                            coef |-> IF out.err = "none" THEN out.coef ELSE <<>>,
                            pcoef |-> IF out.err = "none" THEN out.pcoef ELSE <<>>])>>)
=============================================================================
