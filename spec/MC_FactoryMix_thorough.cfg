SPECIFICATION Spec
CONSTANTS
  MaxMix = 3
  MixKeys = "all"
  Export = FALSE
INVARIANT OrderedBases
INVARIANT FirstAppliedLast
INVARIANT ReverseInit
INVARIANT KeysReachOwner
INVARIANT InvalidCompositeIsError
INVARIANT UnknownKeyIsErrorMix
INVARIANT PlainBuilds
INVARIANT CoefFits
CONSTRAINT Emit
CHECK_DEADLOCK FALSE
