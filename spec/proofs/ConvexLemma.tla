---------------------------- MODULE ConvexLemma ----------------------------
(***************************************************************************)
(* Unbounded companions (TLAPS, SMT back end) of invariants that TLC       *)
(* checks on small tables: a linear interpolant between two nodes never    *)
(* leaves the interval spanned by the two node values, and a bilinear one  *)
(* never leaves the hull of its four corner values -- for ALL integer node *)
(* values, node positions and query points.                                *)
(*                                                                         *)
(* Used by: Interp.tla (C04: BracketBounded / NeverExtrapolated, one-      *)
(* variable edge regions and the interior cell), GridSel.tla (C13: between *)
(* the neighbouring native values), GasProfile.tla / Temperature.tla (C10, *)
(* C12: node-interpolated profiles stay within their control values).      *)
(* The specifications carry interpolants as exact rationals RLin(..) =     *)
(* LinNum / (x1 - x0); TLC checks that link on its domains                 *)
(* (MC_Interp: LinNumLink), TLAPS proves the inequality for all integers.  *)
(***************************************************************************)
EXTENDS Integers, TLAPS

Min2(a, b) == IF a <= b THEN a ELSE b
Max2(a, b) == IF a <= b THEN b ELSE a

\* numerator of the linear interpolant of (x0, a), (x1, b) at x over the denominator x1 - x0
LinNum(a, b, x, x0, x1) == a * (x1 - x0) + (x - x0) * (b - a)

LEMMA NonNegProduct == ASSUME NEW p \in Int, NEW q \in Int, p >= 0, q >= 0 PROVE p * q >= 0 /\ p * q \in Int
  OBVIOUS

THEOREM LinBetween ==
  ASSUME NEW a \in Int, NEW b \in Int, NEW x \in Int, NEW x0 \in Int, NEW x1 \in Int,
         x0 < x1, x0 <= x, x <= x1
  PROVE  /\ Min2(a, b) * (x1 - x0) <= LinNum(a, b, x, x0, x1)
         /\ LinNum(a, b, x, x0, x1) <= Max2(a, b) * (x1 - x0)
<1> DEFINE d == x1 - x0
<1> DEFINE u == x - x0
<1> DEFINE v == x1 - x
<1>1. d \in Int /\ u \in Int /\ v \in Int /\ 0 <= u /\ 0 <= v /\ u + v = d /\ 0 < d
  OBVIOUS
<1>2. LinNum(a, b, x, x0, x1) = a * v + b * u
  BY <1>1 DEF LinNum
<1>3. CASE a <= b
  <2> DEFINE g == b - a
  <2>0. g \in Int /\ g >= 0 BY <1>3
  <2>1. g * u >= 0 /\ g * v >= 0 BY <2>0, <1>1, NonNegProduct
  <2>2. a * v + b * u = a * d + g * u  BY <1>1, <2>0
  <2>3. a * v + b * u = b * d - g * v  BY <1>1, <2>0
  <2> QED BY <1>2, <1>3, <2>1, <2>2, <2>3 DEF Min2, Max2
<1>4. CASE ~(a <= b)
  <2> DEFINE g == a - b
  <2>0. g \in Int /\ g >= 0 BY <1>4
  <2>1. g * u >= 0 /\ g * v >= 0 BY <2>0, <1>1, NonNegProduct
  <2>2. a * v + b * u = a * d - g * u  BY <1>1, <2>0
  <2>3. a * v + b * u = b * d + g * v  BY <1>1, <2>0
  <2> QED BY <1>2, <1>4, <2>1, <2>2, <2>3 DEF Min2, Max2
<1> QED BY <1>3, <1>4

\* numerator of the bilinear interpolant over the common denominator dx*dy:
\*   a, b at the lower y node (at x0, x1), c, d at the upper y node; u = x - x0, w = y - y0
BilNum(a, b, c, d, u, w, dx, dy) == (a * (dx - u) + b * u) * (dy - w) + (c * (dx - u) + d * u) * w

THEOREM BilinearAboveLowerBound ==
  ASSUME NEW a \in Int, NEW b \in Int, NEW c \in Int, NEW d \in Int, NEW m \in Int,
         NEW u \in Int, NEW w \in Int, NEW dx \in Int, NEW dy \in Int,
         0 <= u, u <= dx, 0 <= w, w <= dy, m <= a, m <= b, m <= c, m <= d
  PROVE  m * (dx * dy) <= BilNum(a, b, c, d, u, w, dx, dy)
<1> DEFINE a1 == a - m  b1 == b - m  c1 == c - m  d1 == d - m  ub == dx - u  wb == dy - w
<1>1. /\ a1 \in Int /\ b1 \in Int /\ c1 \in Int /\ d1 \in Int /\ ub \in Int /\ wb \in Int
      /\ a1 >= 0 /\ b1 >= 0 /\ c1 >= 0 /\ d1 >= 0 /\ ub >= 0 /\ wb >= 0
  OBVIOUS
<1>2. ub * wb >= 0 /\ u * wb >= 0 /\ ub * w >= 0 /\ u * w >= 0
      /\ ub * wb \in Int /\ u * wb \in Int /\ ub * w \in Int /\ u * w \in Int
  BY <1>1, NonNegProduct
<1>3. /\ a1 * (ub * wb) >= 0 /\ b1 * (u * wb) >= 0 /\ c1 * (ub * w) >= 0 /\ d1 * (u * w) >= 0
      /\ a1 * (ub * wb) \in Int /\ b1 * (u * wb) \in Int /\ c1 * (ub * w) \in Int /\ d1 * (u * w) \in Int
  BY <1>1, <1>2, NonNegProduct
<1>4. BilNum(a, b, c, d, u, w, dx, dy) - m * (dx * dy)
        = a1 * (ub * wb) + b1 * (u * wb) + c1 * (ub * w) + d1 * (u * w)
  BY DEF BilNum
<1>5. BilNum(a, b, c, d, u, w, dx, dy) \in Int /\ m * (dx * dy) \in Int
  BY DEF BilNum
<1> HIDE DEF a1, b1, c1, d1, ub, wb
<1> QED BY <1>3, <1>4, <1>5

THEOREM BilinearBelowUpperBound ==
  ASSUME NEW a \in Int, NEW b \in Int, NEW c \in Int, NEW d \in Int, NEW m \in Int,
         NEW u \in Int, NEW w \in Int, NEW dx \in Int, NEW dy \in Int,
         0 <= u, u <= dx, 0 <= w, w <= dy, a <= m, b <= m, c <= m, d <= m
  PROVE  BilNum(a, b, c, d, u, w, dx, dy) <= m * (dx * dy)
<1> DEFINE a1 == m - a  b1 == m - b  c1 == m - c  d1 == m - d  ub == dx - u  wb == dy - w
<1>1. /\ a1 \in Int /\ b1 \in Int /\ c1 \in Int /\ d1 \in Int /\ ub \in Int /\ wb \in Int
      /\ a1 >= 0 /\ b1 >= 0 /\ c1 >= 0 /\ d1 >= 0 /\ ub >= 0 /\ wb >= 0
  OBVIOUS
<1>2. ub * wb >= 0 /\ u * wb >= 0 /\ ub * w >= 0 /\ u * w >= 0
      /\ ub * wb \in Int /\ u * wb \in Int /\ ub * w \in Int /\ u * w \in Int
  BY <1>1, NonNegProduct
<1>3. /\ a1 * (ub * wb) >= 0 /\ b1 * (u * wb) >= 0 /\ c1 * (ub * w) >= 0 /\ d1 * (u * w) >= 0
      /\ a1 * (ub * wb) \in Int /\ b1 * (u * wb) \in Int /\ c1 * (ub * w) \in Int /\ d1 * (u * w) \in Int
  BY <1>1, <1>2, NonNegProduct
<1>4. m * (dx * dy) - BilNum(a, b, c, d, u, w, dx, dy)
        = a1 * (ub * wb) + b1 * (u * wb) + c1 * (ub * w) + d1 * (u * w)
  BY DEF BilNum
<1>5. BilNum(a, b, c, d, u, w, dx, dy) \in Int /\ m * (dx * dy) \in Int
  BY DEF BilNum
<1> HIDE DEF a1, b1, c1, d1, ub, wb
<1> QED BY <1>3, <1>4, <1>5
=============================================================================
