----------------------------- MODULE StatsLemma -----------------------------
(***************************************************************************)
(* Unbounded companions (TLAPS) of the statistics specifications.          *)
(*                                                                         *)
(* ParallelStats.tla (C18) states that the streaming (Welford / "M2")      *)
(* update used on every rank and the combination of per-rank means and     *)
(* variances reproduce the two-pass weighted variance; TLC checks this for *)
(* small sample sets over exact rationals.  Here the two algebraic steps   *)
(* are proved for ALL integer samples and weights, with denominators       *)
(* cleared:  a group is described by W = sum w, S1 = sum w x, S2 = sum w   *)
(* x^2; its mean is S1/W and its M2 is S2 - S1^2/W, i.e.  M2*W = S2*W -    *)
(* S1^2.                                                                   *)
(* Binning.tla (C05) / Posterior.tla (C09): one step of a weighted-mean    *)
(* accumulation keeps the running mean between the bounds of its terms.    *)
(***************************************************************************)
EXTENDS Integers, TLAPS

LEMMA NonNegProduct == ASSUME NEW p \in Int, NEW q \in Int, p >= 0, q >= 0 PROVE p * q >= 0 /\ p * q \in Int
  OBVIOUS

(* OnlineVariance.update(x, w):  W' = W + w,  mean' = mean + (w/W')(x - mean),                        *)
(* M2' = M2 + w (x - mean)(x - mean').  With mean = S1/W, mean' = S1'/W' and M2 W = S2 W - S1^2,     *)
(* multiplying M2' by W W' gives the left-hand side; the right-hand side is (S2' W' - S1'^2) W.       *)
THEOREM WelfordStep ==
  ASSUME NEW W \in Int, NEW w \in Int, NEW S1 \in Int, NEW S2 \in Int, NEW x \in Int
  PROVE  (S2 * W - S1 * S1) * (W + w) + w * ((x * W - S1) * (x * (W + w) - (S1 + w * x)))
           = ((S2 + w * (x * x)) * (W + w) - (S1 + w * x) * (S1 + w * x)) * W
  OBVIOUS

(* combine_variance over two ranks a, b:  mu = (S1a + S1b)/(Wa + Wb);                                 *)
(*   sum_g [ W_g (mu - mu_g)^2 + M2_g ]  =  S2 - S1^2/W     (the two-pass M2 of all samples),          *)
(* multiplied by W^2 Wa Wb.                                                                            *)
THEOREM CombineTwoRanks ==
  ASSUME NEW Wa \in Int, NEW Wb \in Int, NEW S1a \in Int, NEW S1b \in Int, NEW S2a \in Int, NEW S2b \in Int
  PROVE  LET W  == Wa + Wb
             S1 == S1a + S1b
             S2 == S2a + S2b
         IN  Wb * ((S1 * Wa - S1a * W) * (S1 * Wa - S1a * W))
               + Wa * ((S1 * Wb - S1b * W) * (S1 * Wb - S1b * W))
               + (W * W) * (Wb * (S2a * Wa - S1a * S1a) + Wa * (S2b * Wb - S1b * S1b))
             = (W * (Wa * Wb)) * (S2 * W - S1 * S1)
  OBVIOUS

LEMMA Distrib == ASSUME NEW p \in Int, NEW q \in Int, NEW r \in Int
                 PROVE p * (q + r) = p * q + p * r /\ (q - r) * p = q * p - r * p /\ p * q = q * p /\ p * q \in Int
  OBVIOUS

(* one step of a weighted-mean accumulation (overlap weights of the flux binner, sample weights of    *)
(* the posterior mean): if the running sum S of weight W is bracketed by lo*W and hi*W and the new     *)
(* term v with weight w >= 0 lies in [lo, hi], the new sum is bracketed by lo*(W+w) and hi*(W+w)       *)
THEOREM WeightedMeanStep ==
  ASSUME NEW S \in Int, NEW W \in Int, NEW v \in Int, NEW w \in Int, NEW lo \in Int, NEW hi \in Int,
         w >= 0, lo <= v, v <= hi, lo * W <= S, S <= hi * W
  PROVE  lo * (W + w) <= S + w * v /\ S + w * v <= hi * (W + w)
<1>0. S \in Int /\ W \in Int /\ v \in Int /\ w \in Int /\ lo \in Int /\ hi \in Int  OBVIOUS
<1>1. (v - lo) * w >= 0 /\ (hi - v) * w >= 0  BY NonNegProduct
<1>2. (S + w * v) - lo * (W + w) = (S - lo * W) + (v - lo) * w  BY ONLY <1>0
<1>3. hi * (W + w) - (S + w * v) = (hi * W - S) + (hi - v) * w  BY ONLY <1>0
<1>4. /\ lo * W \in Int /\ hi * W \in Int /\ (v - lo) * w \in Int /\ (hi - v) * w \in Int /\ w * v \in Int
      /\ lo * (W + w) \in Int /\ hi * (W + w) \in Int  BY ONLY <1>0
<1> QED BY <1>1, <1>2, <1>3, <1>4

(* one layer of the transit-depth sum (C01): adding 2 (Rp + z) (1 - T) dz with 0 <= T <= 1 (T = t/q)   *)
(* never decreases the depth and never adds more than the opaque layer would                           *)
THEOREM DepthLayerStep ==
  ASSUME NEW r \in Int, NEW dz \in Int, NEW t \in Int, NEW q \in Int,
         r >= 0, dz >= 0, 0 <= t, t <= q
  PROVE  0 <= (r * dz) * (q - t) /\ (r * dz) * (q - t) <= (r * dz) * q
<1>1. r * dz >= 0 /\ r * dz \in Int  BY NonNegProduct
<1>2. (r * dz) * (q - t) >= 0 /\ (r * dz) * t >= 0  BY <1>1, NonNegProduct
<1>3. (r * dz) * (q - t) = (r * dz) * q - (r * dz) * t  BY <1>1
<1>4. (r * dz) * q \in Int /\ (r * dz) * t \in Int  BY <1>1
<1> QED BY <1>2, <1>3, <1>4
=============================================================================
