SPECIFICATION Spec
CONSTANTS
  MaxObj = 2
  MaxNames = 2
  PairsInSeq = FALSE
  RatioNum = 1
  RatioDen = 4
  AbDen = 16
  Variant = "lastcount"
  Export = FALSE
CHECK_DEADLOCK FALSE
INVARIANT AnswerIsOfAskedFormula
