SPECIFICATION Spec
CONSTANTS
  MaxMix = 1
  MixKeys = "few"
  MaxSubs = 1
  MaxSubMix = 1
  SubErrLen = 1
  Export = FALSE
INVARIANT SubsOnlyUnderPlainSelectors
CHECK_DEADLOCK FALSE
