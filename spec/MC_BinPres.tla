----------------------------- MODULE MC_BinPres -----------------------------
(* C05 -- the PRESENTATION dimension of the quantifier (Binning.tla part 4).                      *)
(* Init chooses native bins, target bins (any order) and a spectrum on a lattice with U points     *)
(* per storage unit; the clause quantifies over every legal presentation of both sides (storage    *)
(* type of each array, widths as array / one scalar / omitted):                                     *)
(*    PresRefinesDef   whatever the presentation, FluxBinner's algorithm returns, for every sorted  *)
(*                     target bin, what the definition requires for the bins that were REQUESTED    *)
(* Variant "ok" must satisfy it; the slips "widthlike" and "outlike" must be refuted (expected      *)
(* counterexamples: MC_BinPres_ref_*.cfg), and every exported vector carries the slips it exposes   *)
(* together with a witness presentation, so that the binding provably exercises inputs on which a   *)
(* slip of that class shows.                                                                        *)
EXTENDS Binning
CONSTANTS U,            \* lattice points per storage unit
          NES,          \* native bin edges
          NESb,         \* native bin edges of the background grids the interesting target grids are combined with
          KMin, KMax,   \* number of native bins
          TES,          \* target bin edges
          NTgtMin, NTgtMax,
          Variant,      \* "ok" | "widthlike" | "outlike"
          Export
VARIABLES phase, nat, tgt, f
vars == <<phase, nat, tgt, f>>

NLo == SetMinI(NES)
NHi == SetMaxI(NES)
RECURSIVE NatFromP(_, _)
NatFromP(k, a) == IF k = 0 THEN {<<>>}
                  ELSE UNION {{<<iv>> \o s : s \in NatFromP(k - 1, iv[2])} :
                              iv \in {x \in NES \X NES : x[1] >= a /\ x[1] < x[2]}}
AllNatP == UNION {NatFromP(k, NLo) : k \in KMin..KMax}
OnEdges(N, S) == \A i \in 1..Len(N) : N[i][1] \in S /\ N[i][2] \in S
TIvP == {x \in TES \X TES : x[1] < x[2]}
DistinctC(T) == \A i, j \in 1..Len(T) : i # j => BinC2(T[i]) # BinC2(T[j])
AllTgtP == UNION {{T \in [1..k -> TIvP] : DistinctC(T)} : k \in NTgtMin..NTgtMax}
PrimesP == <<2, 3, 5, 7, 11, 13>>
SpectrumP(n) == [i \in 1..n |-> PrimesP[n + 1 - i] * 3 + (i % 2)]
ErrP(g) == [i \in 1..Len(g) |-> g[Len(g) + 1 - i] + i]

LegalN(N) == LegalSides(N, U)
LegalT(T) == LegalSides(T, U)
\* a side is of interest when it can be presented otherwise than as float arrays (integer values of the
\* spectrum are always legal and are varied on every exported vector).  Every interesting target grid is
\* combined with every background native grid, every interesting native grid with every single target bin.
IntT    == {T \in AllTgtP : LegalT(T) # {PlainSide}}
IntN    == {N \in AllNatP : LegalN(N) # {PlainSide}}
BackN   == {N \in AllNatP : OnEdges(N, NESb)}
SingleT == {T \in AllTgtP : Len(T) = 1}
Init == /\ phase = "in"
        /\ \/ nat \in BackN /\ tgt \in IntT
           \/ nat \in IntN /\ tgt \in SingleT
        /\ f = SpectrumP(Len(nat))
Eval == phase = "in" /\ phase' = "done" /\ UNCHANGED <<nat, tgt, f>>
Next == Eval
Spec == Init /\ [][Next]_vars
Done == phase = "done"

NC2 == [i \in 1..Len(nat) |-> BinC2(nat[i])]
NW  == [i \in 1..Len(nat) |-> BinWd(nat[i])]
TC2 == [k \in 1..Len(tgt) |-> BinC2(tgt[k])]
TW  == [k \in 1..Len(tgt) |-> BinWd(tgt[k])]
SortedTgtP == LET q == SortPerm(TC2) IN [k \in 1..Len(tgt) |-> tgt[q[k]]]

\* what the algorithm returns when it ends up with native widths nw and target widths tw and stores its
\* results next to a spectrum of storage fk and uncertainties of storage ek
RunP(nw, tw, fk, ek, v) ==
    LET raw == AlgFlux(NC2, nw, f, ErrP(f), TC2, tw, "ok")
    IN  [k \in 1..Len(tgt) |-> PresOut(raw[k], fk, ek, v)]
AgreesAll(res) == \A k \in 1..Len(tgt) : Agrees(res[k], nat, SortedTgtP[k], f, ErrP(f))
\* every legal presentation: only the distinct outcomes of the hand-over are evaluated
HandOvers(v) == {<<PresW(pn, nat, U, v), PresW(pt, tgt, U, v)>> : pn \in LegalN(nat), pt \in LegalT(tgt)}
ValKinds(v) == IF v = "outlike" THEN PKinds \X PKinds ELSE {<<"float", "float">>}
PresRefinesDef == Done =>
    \A h \in HandOvers(Variant) : \A vk \in ValKinds(Variant) : AgreesAll(RunP(h[1], h[2], vk[1], vk[2], Variant))
WellFormedP == /\ OrderedDisjoint(nat) /\ PlainSide \in LegalN(nat) /\ PlainSide \in LegalT(tgt)
               /\ \A k \in 1..Len(tgt) : tgt[k][1] < tgt[k][2]
FitsP == Done => \A k \in 1..Len(tgt) :
    LET r == AlgBin(NC2, NW, f, ErrP(f), TC2[k], TW[k], "ok") IN r.k = "num" => Fits(r.v) /\ Fits(r.e2)

\* ---------------------------------------------------------------------- export
\* a witness presentation <<native side, target side, fk, ek>> on which the slip shows, if any
Core(S) == {p \in S : p.wk = "float"}
WitnessW ==
    LET cand == {c \in Core(LegalN(nat)) \X Core(LegalT(tgt)) :
                    PresW(c[1], nat, U, "widthlike") # NW \/ PresW(c[2], tgt, U, "widthlike") # TW}
        bad  == {c \in cand : ~AgreesAll(RunP(PresW(c[1], nat, U, "widthlike"), PresW(c[2], tgt, U, "widthlike"),
                                               "float", "float", "widthlike"))}
    IN  IF bad = {} THEN <<>> ELSE LET c == CHOOSE c \in bad : TRUE IN <<[n |-> c[1], t |-> c[2], fk |-> "float", ek |-> "float"]>>
WitnessO ==
    LET raw == AlgFlux(NC2, NW, f, ErrP(f), TC2, TW, "ok")
        bad == {vk \in (PKinds \X PKinds) \ {<<"float", "float">>} :
                   ~AgreesAll([k \in 1..Len(tgt) |-> PresOut(raw[k], vk[1], vk[2], "outlike")])}
    IN  IF bad = {} THEN <<>> ELSE LET vk == CHOOSE vk \in bad : TRUE IN <<[n |-> PlainSide, t |-> PlainSide, fk |-> vk[1], ek |-> vk[2]]>>
ExpP(k) == LET tb == SortedTgtP[k] IN
    [tb |-> tb, ov |-> Overlaps(nat, tb), touch |-> Touches(nat, tb),
     v  |-> IF Overlaps(nat, tb) THEN Binned(nat, tb, f) ELSE Q(0),
     e2 |-> IF Overlaps(nat, tb) THEN BinnedErr2(nat, tb, ErrP(f)) ELSE Q(0),
     lo |-> IF Overlaps(nat, tb) THEN SetMinI(OverlapVals(nat, tb, f)) ELSE 0,
     hi |-> IF Overlaps(nat, tb) THEN SetMaxI(OverlapVals(nat, tb, f)) ELSE 0]
RECURSIVE SetToSeqAny(_)
SetToSeqAny(S) == IF S = {} THEN <<>> ELSE LET x == CHOOSE x \in S : TRUE IN <<x>> \o SetToSeqAny(S \ {x})
EmitP == (Export /\ Done) =>
    PrintT(<<"PVEC", ToJson([kind |-> "pres", U |-> U, nat |-> nat, tgt |-> tgt, f |-> f, e |-> ErrP(f),
                             exp |-> [k \in 1..Len(tgt) |-> ExpP(k)],
                             ln |-> SetToSeqAny(LegalN(nat)), lt |-> SetToSeqAny(LegalT(tgt)),
                             widthlike |-> WitnessW, outlike |-> WitnessO])>>)
=============================================================================
