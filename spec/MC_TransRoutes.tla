--------------------------- MODULE MC_TransRoutes ---------------------------
(* C01: every public entry point of ONE long-lived transmission model, on every grid size, after any    *)
(* history of other entry points / grid sizes.                                                           *)
(*                                                                                                       *)
(* A forward model offers three routes to its transit depths:                                            *)
(*   "model"    model(wngrid)              one depth per wavenumber, all contributions together           *)
(*   "contrib"  model_contrib(wngrid)      one depth per wavenumber for every contribution alone          *)
(*   "full"     model_full_contrib(wngrid) one depth per wavenumber for every COMPONENT of every          *)
(*                                          contribution alone (a gas, a collision pair, ...)             *)
(* and each accepts a requested grid that clips the native grid to a different number of points.          *)
(* The statement of C01 is about "the transit depth returned at each wavenumber ... for all ... sets of   *)
(* contributions": every returned entry is the documented integral over exactly the absorbers the entry   *)
(* stands for, at EVERY wavenumber of the grid of THIS call.                                              *)
(*                                                                                                       *)
(* Abstract state: memo[c] = grid size contribution c recorded at the last call that prepared it as a      *)
(* whole; listed = the contributions the model holds; last = the result of the last call, one entry per    *)
(* returned depth array with who (the components integrated) and pts (the number of leading wavenumbers    *)
(* of the call's grid at which they are integrated).  mut selects a variant of the implementation:         *)
(*   "none"        every route prepares what it integrates on the grid of the call                         *)
(*   "stale-size"  the component route relies on the grid size recorded by the last whole preparation       *)
(*   "accumulate"  the component route hands out one buffer per contribution and keeps adding to it         *)
(*   "keep-single" the per-source routes leave the model holding the last contribution only                 *)
(* ResultOK holds for "none" and TLC must refute it for each other variant; StaleBlind says why            *)
(* "stale-size" is invisible when every call uses one grid size.                                           *)
(*                                                                                                       *)
(* Round 5 -- how a boolean option is SPELT.  "Both path-length methods": the constructor keyword          *)
(* new_path_method selects the geometry of the chords, and every route accepts cutoff_grid (clip the        *)
(* native grid to the requested one, or not).  A boolean option is a truth value; a caller may spell it     *)
(* True / False, numpy.bool_ (what an HDF5 output or a numpy settings array gives back), 1 / 0, 1.0 / 0.0,  *)
(* or any other object with a truth value ('new' / '').  Spellings = the ways the option is written;        *)
(* flag = spelling of new_path_method of the long-lived model, cut = spelling of cutoff_grid of a call.     *)
(* Every entry records geo = the method whose chords were integrated; a call records the number of native   *)
(* points it is evaluated on.  Variant                                                                      *)
(*   "identity"    the option is compared with the singleton (x is True) instead of being tested for truth  *)
(* is refuted by TLC (RefuteIdentity); IdentityBlind: invisible when options are spelt True / False only.   *)
EXTENDS Integers, Sequences, FiniteSets, TLC, Json
CONSTANTS NComp,      \* NComp[c] = number of components of contribution c
          WSize,      \* WSize[w] = number of native wavenumbers the w-th requestable grid clips to
          Depth,      \* length of the exported histories
          Export
VARIABLES mut, memo, listed, last, hist, flag
vars == <<mut, memo, listed, last, hist, flag>>

\* model values for the configs (a .cfg cannot hold tuples)
MCNComp == <<2, 3, 1, 1>>       \* e.g. two absorbing gases, three scattering gases, one collision pair, one table
MCWSize == <<5, 2, 3>>          \* the native grid and two sub-ranges of it

Muts == {"none", "stale-size", "accumulate", "keep-single", "identity"}
\* the spellings of a boolean option: <<name, truth value, is it the singleton True / False>>
Spellings == {<<"True", TRUE, TRUE>>, <<"False", FALSE, TRUE>>, <<"np.True_", TRUE, FALSE>>, <<"np.False_", FALSE, FALSE>>,
              <<"1", TRUE, FALSE>>, <<"0", FALSE, FALSE>>, <<"1.0", TRUE, FALSE>>, <<"0.0", FALSE, FALSE>>,
              <<"nonempty", TRUE, FALSE>>, <<"empty", FALSE, FALSE>>}
Literal(sp) == sp[3]
\* what the documentation says the option means / what a variant takes it for
Means(sp) == sp[2]
Taken(sp) == IF mut = "identity" THEN (sp = <<"True", TRUE, TRUE>>) ELSE sp[2]
Method(b) == IF b THEN "new" ELSE "old"
Routes == {"model", "contrib", "full"}
Contribs == 1..Len(NComp)
Wins == 1..Len(WSize)
Comps(c) == 1..NComp[c]
AllComps(cs) == UNION {{<<c, k>> : k \in Comps(c)} : c \in cs}
LastOf(cs) == CHOOSE c \in cs : \A d \in cs : d <= c

Init == /\ mut \in Muts
        /\ flag \in Spellings
        /\ (mut \in {"none", "identity"} \/ flag = <<"True", TRUE, TRUE>>)    \* the other variants do not read the options
        /\ memo = [c \in Contribs |-> 0]
        /\ listed = Contribs
        /\ last = [route |-> "none", win |-> 0, pts |-> 0, cut |-> <<"True", TRUE, TRUE>>, prev |-> memo, entries |-> {}]
        /\ hist = <<>>

Entries(route, w) ==
    CASE route = "model"   -> {[key |-> <<0, 0>>, who |-> AllComps(listed), pts |-> WSize[w], geo |-> Method(Taken(flag))]}
      [] route = "contrib" -> {[key |-> <<c, 0>>, who |-> AllComps({c}), pts |-> WSize[w], geo |-> Method(Taken(flag))] : c \in listed}
      [] route = "full"    -> {[key |-> ck,
                                who |-> IF mut = "accumulate" THEN {<<ck[1], i>> : i \in 1..ck[2]} ELSE {ck},
                                pts |-> IF mut = "stale-size" THEN memo[ck[1]] ELSE WSize[w],
                                geo |-> Method(Taken(flag))] : ck \in AllComps(listed)}

TrueSp == <<"True", TRUE, TRUE>>
\* the grid a call is evaluated on: the requested one if cutoff_grid is (taken to be) true, else the native grid (1)
Eff(w0, cut) == IF Taken(cut) THEN w0 ELSE 1
Call(route, w0, cut) ==
    \* unusual spellings are explored on single calls (an option is read afresh by every call and never stored by
    \* one): cutoff_grid in any spelling on a model whose own flag is spelt True / False; a second call follows only
    \* when every option so far was spelt True
    /\ (cut = TrueSp \/ (hist = <<>> /\ mut \in {"none", "identity"} /\ Literal(flag)))
    /\ (hist = <<>> \/ (flag = TrueSp /\ last.cut = TrueSp))
    /\ last' = [route |-> route, win |-> w0, pts |-> WSize[Eff(w0, cut)], cut |-> cut, prev |-> memo, entries |-> Entries(route, Eff(w0, cut))]
    /\ memo' = [c \in Contribs |-> IF c \in listed /\ (route # "full" \/ mut # "stale-size") THEN WSize[Eff(w0, cut)] ELSE memo[c]]
    /\ listed' = IF mut = "keep-single" /\ route # "model" THEN {LastOf(listed)} ELSE listed
    /\ hist' = Append(hist, [route |-> route, win |-> w0, cut |-> cut[1],
                             pts |-> WSize[IF Means(cut) THEN w0 ELSE 1]])
    /\ UNCHANGED <<mut, flag>>
Next == \E route \in Routes, w \in Wins, cut \in Spellings : Call(route, w, cut)
Spec == Init /\ [][Next]_vars
Bound == Len(hist) <= Depth

\* ---------------------------------------------------------------- clauses
ExpectedKeys(route) ==
    CASE route = "model"   -> {<<0, 0>>}
      [] route = "contrib" -> {<<c, 0>> : c \in Contribs}
      [] route = "full"    -> AllComps(Contribs)
      [] OTHER             -> {}
ExpectedWho(key) == IF key = <<0, 0>> THEN AllComps(Contribs)
                    ELSE IF key[2] = 0 THEN AllComps({key[1]}) ELSE {key}
\* every returned entry is the integral over its own absorbers at every wavenumber of the call's grid,
\* and the call returns one entry for everything the model was given
ResultOK == last.route # "none" =>
    /\ {e.key : e \in last.entries} = ExpectedKeys(last.route)
    /\ \A e \in last.entries : /\ e.who = ExpectedWho(e.key)
                                /\ e.pts = WSize[IF Means(last.cut) THEN last.win ELSE 1]
                                /\ e.geo = Method(Means(flag))       \* the chords of the method ASKED for
    /\ last.pts = WSize[IF Means(last.cut) THEN last.win ELSE 1]
Sound             == (mut = "none") => ResultOK
RefuteStaleSize   == (mut = "stale-size") => ResultOK
RefuteAccumulate  == (mut = "accumulate") => ResultOK
RefuteKeepSingle  == (mut = "keep-single") => ResultOK
RefuteIdentity    == (mut = "identity") => ResultOK
\* a check that spells every option True / False cannot see "identity"
IdentityBlind == (mut = "identity" /\ Literal(flag) /\ Literal(last.cut)) => ResultOK
\* a check that always uses one grid size after a whole preparation cannot see "stale-size"
StaleBlind == (mut = "stale-size" /\ last.route = "full" /\ \A c \in Contribs : last.prev[c] = last.pts) => ResultOK

\* exported: (ROUTES) every history of Depth calls with the options spelt True (the driver draws the method per
\* scenario); (FLAGS) every single call with new_path_method or cutoff_grid in every spelling
Emit == /\ (Export /\ mut = "none" /\ Len(hist) = Depth /\ flag = TrueSp /\ \A i \in 1..Len(hist) : hist[i].cut = "True")
            => PrintT(<<"ROUTES", ToJson([walk |-> hist])>>)
        /\ (Export /\ mut = "none" /\ Len(hist) = 1)
            => PrintT(<<"FLAGS", ToJson([flag |-> flag[1], new |-> Means(flag), walk |-> hist])>>)
=============================================================================
