--------------------------- MODULE MC_TransRoutes ---------------------------
(* C01: every public entry point of ONE long-lived transmission model, on every grid size, after any    *)
(* history of other entry points / grid sizes.                                                           *)
(*                                                                                                       *)
(* A forward model offers three routes to its transit depths:                                            *)
(*   "model"    model(wngrid)              one depth per wavenumber, all contributions together           *)
(*   "contrib"  model_contrib(wngrid)      one depth per wavenumber for every contribution alone          *)
(*   "full"     model_full_contrib(wngrid) one depth per wavenumber for every COMPONENT of every          *)
(*                                          contribution alone (a gas, a collision pair, ...)             *)
(* and each accepts a requested grid that clips the native grid to a different number of points.          *)
(* The statement of C01 is about "the transit depth returned at each wavenumber ... for all ... sets of   *)
(* contributions": every returned entry is the documented integral over exactly the absorbers the entry   *)
(* stands for, at EVERY wavenumber of the grid of THIS call.                                              *)
(*                                                                                                       *)
(* Abstract state: memo[c] = grid size contribution c recorded at the last call that prepared it as a      *)
(* whole; listed = the contributions the model holds; last = the result of the last call, one entry per    *)
(* returned depth array with who (the components integrated) and pts (the number of leading wavenumbers    *)
(* of the call's grid at which they are integrated).  mut selects a variant of the implementation:         *)
(*   "none"        every route prepares what it integrates on the grid of the call                         *)
(*   "stale-size"  the component route relies on the grid size recorded by the last whole preparation       *)
(*   "accumulate"  the component route hands out one buffer per contribution and keeps adding to it         *)
(*   "keep-single" the per-source routes leave the model holding the last contribution only                 *)
(* ResultOK holds for "none" and TLC must refute it for each other variant; StaleBlind says why            *)
(* "stale-size" is invisible when every call uses one grid size.                                           *)
EXTENDS Integers, Sequences, FiniteSets, TLC, Json
CONSTANTS NComp,      \* NComp[c] = number of components of contribution c
          WSize,      \* WSize[w] = number of native wavenumbers the w-th requestable grid clips to
          Depth,      \* length of the exported histories
          Export
VARIABLES mut, memo, listed, last, hist
vars == <<mut, memo, listed, last, hist>>

\* model values for the configs (a .cfg cannot hold tuples)
MCNComp == <<2, 3, 1, 1>>       \* e.g. two absorbing gases, three scattering gases, one collision pair, one table
MCWSize == <<5, 2, 3>>          \* the native grid and two sub-ranges of it

Muts == {"none", "stale-size", "accumulate", "keep-single"}
Routes == {"model", "contrib", "full"}
Contribs == 1..Len(NComp)
Wins == 1..Len(WSize)
Comps(c) == 1..NComp[c]
AllComps(cs) == UNION {{<<c, k>> : k \in Comps(c)} : c \in cs}
LastOf(cs) == CHOOSE c \in cs : \A d \in cs : d <= c

Init == /\ mut \in Muts
        /\ memo = [c \in Contribs |-> 0]
        /\ listed = Contribs
        /\ last = [route |-> "none", win |-> 0, prev |-> memo, entries |-> {}]
        /\ hist = <<>>

Entries(route, w) ==
    CASE route = "model"   -> {[key |-> <<0, 0>>, who |-> AllComps(listed), pts |-> WSize[w]]}
      [] route = "contrib" -> {[key |-> <<c, 0>>, who |-> AllComps({c}), pts |-> WSize[w]] : c \in listed}
      [] route = "full"    -> {[key |-> ck,
                                who |-> IF mut = "accumulate" THEN {<<ck[1], i>> : i \in 1..ck[2]} ELSE {ck},
                                pts |-> IF mut = "stale-size" THEN memo[ck[1]] ELSE WSize[w]] : ck \in AllComps(listed)}

Call(route, w) ==
    /\ last' = [route |-> route, win |-> w, prev |-> memo, entries |-> Entries(route, w)]
    /\ memo' = [c \in Contribs |-> IF c \in listed /\ (route # "full" \/ mut # "stale-size") THEN WSize[w] ELSE memo[c]]
    /\ listed' = IF mut = "keep-single" /\ route # "model" THEN {LastOf(listed)} ELSE listed
    /\ hist' = Append(hist, [route |-> route, win |-> w, pts |-> WSize[w]])
    /\ UNCHANGED mut
Next == \E route \in Routes, w \in Wins : Call(route, w)
Spec == Init /\ [][Next]_vars
Bound == Len(hist) <= Depth

\* ---------------------------------------------------------------- clauses
ExpectedKeys(route) ==
    CASE route = "model"   -> {<<0, 0>>}
      [] route = "contrib" -> {<<c, 0>> : c \in Contribs}
      [] route = "full"    -> AllComps(Contribs)
      [] OTHER             -> {}
ExpectedWho(key) == IF key = <<0, 0>> THEN AllComps(Contribs)
                    ELSE IF key[2] = 0 THEN AllComps({key[1]}) ELSE {key}
\* every returned entry is the integral over its own absorbers at every wavenumber of the call's grid,
\* and the call returns one entry for everything the model was given
ResultOK == last.route # "none" =>
    /\ {e.key : e \in last.entries} = ExpectedKeys(last.route)
    /\ \A e \in last.entries : e.who = ExpectedWho(e.key) /\ e.pts = WSize[last.win]
Sound             == (mut = "none") => ResultOK
RefuteStaleSize   == (mut = "stale-size") => ResultOK
RefuteAccumulate  == (mut = "accumulate") => ResultOK
RefuteKeepSingle  == (mut = "keep-single") => ResultOK
\* a check that always uses one grid size after a whole preparation cannot see "stale-size"
StaleBlind == (mut = "stale-size" /\ last.route = "full" /\ \A c \in Contribs : last.prev[c] = WSize[last.win]) => ResultOK

Emit == (Export /\ mut = "none" /\ Len(hist) = Depth) => PrintT(<<"ROUTES", ToJson([walk |-> hist])>>)
=============================================================================
