SPECIFICATION SSpec
CONSTANTS
  Models = {1, 2}
  Cfgs = {0, 1}
  Kinds = {"model", "contrib", "full"}
  Shapes = {"native", "cut"}
  Sizes = {"heavy", "light", "lighter"}
  Variants = {"sound"}
  MaxCalls = 4
  MaxDicts = 3
  MaxFiles = 3
  Depth = 7
  Export = "walks"
CONSTRAINT Bound
CONSTRAINT EmitProgram
CONSTRAINT EmitWalk
CHECK_DEADLOCK FALSE
