------------------------------- MODULE Dyad -------------------------------
(***************************************************************************)
(* Exact arithmetic on finite sums of  (n/d) * 2^-k  (n integer, d > 0,    *)
(* k a natural number that may be in the hundreds).                        *)
(*                                                                         *)
(* With optical depth in units of ln 2 a transmittance is 2^-k; emission   *)
(* intensities, correlated-k transmittances and their differences are      *)
(* sums of such terms with small rational coefficients.  TLC integers are  *)
(* 32-bit, so 2^-k cannot be a Rat for k > 30.  A value is therefore kept  *)
(* as a SEQUENCE OF TERMS <<n, d, k>> and only its SIGN is ever computed   *)
(* (by an exact carry propagation from the largest exponent downwards),    *)
(* which is all that =, <=, < need.  The harness evaluates exported term   *)
(* lists with Python Fractions (unbounded integers).                       *)
(*                                                                         *)
(* A B-sum is a sequence of <<n, d, k, t>>: the same with a symbolic       *)
(* factor B[t] (t = 0: no factor) -- the uninterpreted Planck table.       *)
(***************************************************************************)
EXTENDS Integers, Sequences, FiniteSets, SequencesExt, Rat

LCM(a, b) == (a * b) \div GCD(a, b)

DZero        == <<>>
DConst(r)    == IF r[1] = 0 THEN <<>> ELSE << <<r[1], r[2], 0>> >>
DPow2(r, k)  == IF r[1] = 0 THEN <<>> ELSE << <<r[1], r[2], k>> >>      \* r * 2^-k
DAdd(a, b)   == a \o b
DNeg(a)      == [i \in 1..Len(a) |-> <<-a[i][1], a[i][2], a[i][3]>>]
DSub(a, b)   == a \o DNeg(b)
DScale(r, a) == IF r[1] = 0 THEN <<>>
                ELSE [i \in 1..Len(a) |-> LET q == Norm(r[1] * a[i][1], r[2] * a[i][2])
                                         IN  <<q[1], q[2], a[i][3]>>]
DShift(a, j) == [i \in 1..Len(a) |-> <<a[i][1], a[i][2], a[i][3] + j>>]  \* a * 2^-j

RECURSIVE DSumSeq(_)
DSumSeq(s) == IF s = <<>> THEN <<>> ELSE Head(s) \o DSumSeq(Tail(s))

\* product: all pairwise terms
DMulTerm(x, b) == [i \in 1..Len(b) |-> LET q == Norm(x[1] * b[i][1], x[2] * b[i][2])
                                       IN  <<q[1], q[2], x[3] + b[i][3]>>]
RECURSIVE DMul(_, _)
DMul(a, b) == IF a = <<>> THEN <<>> ELSE DMulTerm(Head(a), b) \o DMul(Tail(a), b)
RECURSIVE DPow(_, _)
DPow(a, p) == IF p = 0 THEN DConst(<<1, 1>>) ELSE DMul(a, DPow(a, p - 1))

\* ------------------------------------------------------------------ sign
\* (folds are evaluated by the CommunityModules' Java override: no deep interpreter recursion on long sums)
DLcm(a) == FoldLeft(LAMBDA acc, x : LCM(acc, x[2]), 1, a)

Pow2Int(g) == Pow(2, g)
\* floor(q / 2^g) and divisibility, safe for any gap g (|q| < 2^30 is checked by DFits)
FloorDivP2(q, g) == IF g >= 30 THEN (IF q >= 0 THEN 0 ELSE -1)
                    ELSE LET p == Pow2Int(g)
                             r == q % p                 \* 0 .. p-1
                         IN  (q - r) \div p
DivisP2(q, g) == IF g >= 30 THEN q = 0 ELSE (q % Pow2Int(g)) = 0

\* integer coefficient (after multiplying everything by L) of exponent k
DCoefAt(a, L, k) == FoldLeft(LAMBDA acc, x : acc + (IF x[3] = k THEN x[1] * (L \div x[2]) ELSE 0), 0, a)
DExps(a) == {a[i][3] : i \in 1..Len(a)}

\* carry propagation: at exponent kcur the tail sum is q + f, f in [0,1), z <=> f = 0
RECURSIVE DCarry(_, _, _, _, _, _)
DCarry(a, L, todo, kcur, q, z) ==
    IF todo = {} THEN <<q, z>>
    ELSE LET kn == CHOOSE k \in todo : \A j \in todo : j <= k       \* next smaller exponent
             g  == kcur - kn
         IN  DCarry(a, L, todo \ {kn}, kn,
                    DCoefAt(a, L, kn) + FloorDivP2(q, g),
                    z /\ DivisP2(q, g))
DSign(a) ==
    IF a = <<>> THEN 0
    ELSE LET L  == DLcm(a)
             ex == DExps(a)
             k0 == CHOOSE k \in ex : \A j \in ex : j <= k
             r  == DCarry(a, L, ex \ {k0}, k0, DCoefAt(a, L, k0), TRUE)
         IN  IF r[1] > 0 THEN 1 ELSE IF r[1] < 0 THEN -1 ELSE IF r[2] THEN 0 ELSE 1

DEq(a, b) == DSign(DSub(a, b)) = 0
DLe(a, b) == DSign(DSub(b, a)) >= 0
DLt(a, b) == DSign(DSub(b, a)) > 0

\* guard against 32-bit wrap in the sign computation: |coefficients * L| stay below 2^28
DAbsSum(a, L) == FoldLeft(LAMBDA acc, x : acc + Abs(x[1]) * (L \div x[2]), 0, a)
DFits(a) == a = <<>> \/ (DLcm(a) < 32768 /\ DAbsSum(a, DLcm(a)) < 268435456)

\* ---------------------------------------------------------------- B-sums
BTerm(r, k, t) == IF r[1] = 0 THEN <<>> ELSE << <<r[1], r[2], k, t>> >>
BScale(r, s)   == IF r[1] = 0 THEN <<>>
                  ELSE [i \in 1..Len(s) |-> LET q == Norm(r[1] * s[i][1], r[2] * s[i][2])
                                           IN  <<q[1], q[2], s[i][3], s[i][4]>>]
\* value for a concrete column  bcol[t]  (positive integers)
BEval(s, bcol) == [i \in 1..Len(s) |->
                     <<s[i][1] * (IF s[i][4] = 0 THEN 1 ELSE bcol[s[i][4]]), s[i][2], s[i][3]>>]
\* sum of the coefficients (B == 1), and the coefficient attached to one table entry
BCoefAll(s)   == [i \in 1..Len(s) |-> <<s[i][1], s[i][2], s[i][3]>>]
BCoefOf(s, t) == LET sel == SelectSeq(s, LAMBDA x : x[4] = t) IN BCoefAll(sel)
=============================================================================
