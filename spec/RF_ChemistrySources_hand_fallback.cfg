SPECIFICATION Spec
CONSTANTS
  Mols = {"He","H2O","CH4","N2"}
  MaxDir = 2
  MaxHand = 2
  Variant = "hand_fallback"
  Export = FALSE
INVARIANT SplitFollowsAvailability
CONSTRAINT Emit
CHECK_DEADLOCK FALSE
