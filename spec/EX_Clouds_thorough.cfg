SPECIFICATION Spec
CONSTANTS
  NMax = 4
  L0 = 12
  Spacings = {2,4}
  Kinds = {"deck","flat","lee"}
  TrS = {1}
  Rad = 10
  FlatRule = "fraction"
  Export = TRUE
INVARIANT OpaqueAtAndBelowDeck
INVARIANT UntouchedAbove
INVARIANT DeckDownwardClosed
INVARIANT DepthAtLeastOpaqueIntegral
INVARIANT NoneOutsideWindow
INVARIANT DeclaredMagnitudeInside
INVARIANT PartialWithinInterval
INVARIANT UnsetMeansWholeAtmosphere
INVARIANT InvertedBoundsNeverOutsideHull
INVARIANT WindowExtentConserved
INVARIANT FlatIsCoveredFraction
INVARIANT FitsInv
CONSTRAINT Emit
CHECK_DEADLOCK FALSE
