SPECIFICATION Spec
CONSTANTS
  Modes = {"linear", "exp"}
  KeyWritten = "xsec_interpolation"
  KeyRead = "ktable_interpolation"
  ClearOnSet = TRUE
  Export = FALSE
INVARIANT ServedModeIsWanted
INVARIANT EndsInLoad
CONSTRAINT Emit
CHECK_DEADLOCK FALSE
