SPECIFICATION Spec
CONSTANTS
  NMin = 2
  NMax = 3
  TVals = {1,2,4}
  SWs = {10}
  MaxNodes = 1
  Limits = {1000}
  Kinds = {"npoint"}
  Rule = "npoint_logorder"
  RodVariant = "spec"
  SignedNodes = "some"
  Export = FALSE
INVARIANT InvalidNeverNaN
INVARIANT OnePerLayer
INVARIANT OnlyDocumentedRejections
INVARIANT PositiveFinite
INVARIANT WithinControlRange
INVARIANT ConstantWhenControlsEqual
INVARIANT NPointRejectedIff
INVARIANT StrictImpliesInvalid
INVARIANT GuillotListedRejected
INVARIANT GuillotPhysicalAccepted
INVARIANT FitsInv
CONSTRAINT Emit
CHECK_DEADLOCK FALSE
