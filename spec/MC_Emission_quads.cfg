SPECIFICATION Spec
CONSTANTS
  NL = 2
  NW = 2
  NT = 3
  ECodes = {0, 103, 1515, 1501}
  TCodes = {11,22,12,21,31}
  QuadIds = {1, 2, 3, 4, 5}
  ClampE = 15
  SlackE = 14
  Variant = "code"
  Btab <- MCBtab
  Bstar <- MCBstar
  TabId = 2
  Rp = 2
  Rs = 5
  Dist = 3
  KD = 2
  Export = FALSE
  InterpIds = {}
INVARIANT TelescopingPartial
INVARIANT Telescoping
INVARIANT CoefNonNeg
INVARIANT OwnTemperaturesOnly
INVARIANT PerLayerSource
INVARIANT IsothermalIdentity
INVARIANT HotColdBounds
INVARIANT FluxIdentityIffWeights
INVARIANT FluxBounds
INVARIANT EclipseIsothermalRatio
INVARIANT EclipseBounds
INVARIANT DirectProportional
INVARIANT FitsInv
CONSTRAINT Emit
CHECK_DEADLOCK FALSE
