SPECIFICATION Spec
CONSTANTS
  NMax = 3
  L0S = {6,8}
  LShift = 4
  CS = {1,2}
  LMinAll = 0
  TS = {1,2,3}
  ChemPool = 4
  ChemLayout = "rows_are_layers"
  UnitAt = "return"
  ULoop = 1
  EvalEffect = "readonly"
  ShareEffect = "readonly"
  RADS = {8}
  GMS = {64,128}
  TableEnds = "nearest"
  ElemType = "float64"
  WorkArrays = "float"
  Slicing = "layer"
  Export = TRUE
INVARIANT LevelsStrictlyDecreasing
INVARIANT LayerIsGeometricMean
INVARIANT AltitudeStrictlyIncreasing
INVARIANT GravityFallsOff
INVARIANT StepRelation
INVARIANT MixAlignedWithLayers
INVARIANT DensityIdealGas
INVARIANT OneEntryPerLayer
INVARIANT TabulatedTemperatureAligned
INVARIANT FitsInv
CONSTRAINT Emit
CHECK_DEADLOCK FALSE
