----------------------------- MODULE MC_Compose -----------------------------
(* Model-checking / behaviour-export wrapper for Compose (C03).                *)
(* hist records the public calls; it is hidden from the exhaustive configs by  *)
(* VIEW and printed at depth D in simulation mode for replay on the real model.*)
EXTENDS Compose, Json
CONSTANTS CloudKind,    \* "noassign" (SimpleClouds as found) | "std" (repaired)
          Params,       \* parameter names the harness can change
          D,            \* history depth for export
          Export
VARIABLE hist

MCContribs == {"abs", "cia", "ray", "cloud"}
\* absorption: two molecules; CIA: two collision pairs; Rayleigh: two species; the deck: one
MCNComp == [c \in MCContribs |-> IF c \in {"abs", "ray", "cia"} THEN 2 ELSE 1]
MCShared == [c \in MCContribs |-> c = "cia"]
MCKind  == [c \in MCContribs |-> IF c = "cloud" THEN CloudKind ELSE "std"]
MCOrder == [c \in MCContribs |-> IF c = "cloud" THEN 3 ELSE 5]

HInit == Init /\ hist = <<>>
HNext == \/ \E p \in Params : SetParam /\ hist' = Append(hist, <<"set", p>>)
         \/ Model /\ hist' = Append(hist, <<"model", "">>)
         \/ ContribStart /\ hist' = Append(hist, <<"contrib", "">>)
         \/ FullStart /\ hist' = Append(hist, <<"fullc", "">>)
         \/ (ContribStep \/ ContribEnd \/ FullStep \/ FullEnd) /\ UNCHANGED hist
HSpec == HInit /\ [][HNext]_<<vars, hist>>
View == vars
Bound == Len(hist) <= D
Emit == (Export /\ pc = "idle" /\ Len(hist) = D) =>
            PrintT(<<"BEH", ToJson([added |-> added, nlate |-> nlate, hist |-> hist, ver |-> ver])>>)
=============================================================================
