----------------------------- MODULE MC_Output -----------------------------
(* Exhaustive / export model for C16 part 1: every nested dictionary over a  *)
(* catalogue of leaf values (all value kinds, rectangular / ragged / string /*)
(* dict-valued sequences) up to Depth; RoundTrip is checked in every state.  *)
(* Catalogue = "kinds":   every value kind / sequence shape (ASCII strings)   *)
(* Catalogue = "strings": the value alphabet of stored strings -- empty,      *)
(*   spaces, newlines, accents, typographic quotes, micro sign, a BibTeX-like *)
(*   block -- as scalars, in lists and tuples, in nested / ragged sequences   *)
(*   and inside dictionaries held by a list, placed at every nesting depth.   *)
(* SizeTest: how the binner decides on the integer output size (SizeArith).   *)
EXTENDS Output
CONSTANTS KeysTop, KeysNested, Depth, Export, Catalogue, SizeTest
VARIABLE d

Sc(k, n, dd) == [k |-> k, n |-> n, d |-> dd]
Str(s) == [k |-> "str", v |-> s]
Arr(dt, shape, data) == [k |-> "arr", dt |-> dt, shape |-> shape, data |-> data]
Li(items) == [k |-> "list", items |-> items]
Tu(items) == [k |-> "tuple", items |-> items]
Di(f) == [k |-> "dict", items |-> f]

I3 == Sc("int", 3, 1)          F12 == Sc("float", 1, 2)      FN == Sc("float", -7, 4)
BT == Sc("bool", 1, 1)         I0 == Sc("int", 0, 1)
A3 == Arr("float", <<3>>, <<<<1, 2>>, <<2, 1>>, <<-3, 1>>>>)
A2 == Arr("float", <<2>>, <<<<5, 1>>, <<1, 4>>>>)
A22 == Arr("int", <<2, 2>>, <<<<1, 1>>, <<2, 1>>, <<3, 1>>, <<4, 1>>>>)
A0 == Arr("float", <<0>>, <<>>)
KindLeaves == { I3, F12, FN, BT, Str("abc"), Str("H2O-x y"), A3, A22, A0,
            Li(<<I3, F12>>),                              \* numeric list -> float array
            Li(<<BT, I3>>),                               \* bool + int -> int array
            Li(<<Li(<<I3, I0>>), Li(<<I0, I3>>)>>),       \* rectangular nesting -> 2-d array
            Li(<<Li(<<I3, I0>>), Li(<<I3>>)>>),           \* ragged numeric list -> key0, key1
            Li(<<I3, Li(<<I3, I0>>)>>),                   \* scalar next to a list -> key0, key1
            Li(<<Str("abc"), Str("de")>>),                \* string list -> S64 array
            Li(<<A3, A3>>),                               \* equal arrays -> 2-d array
            Li(<<A3, A2>>),                               \* arrays of unequal length -> key0, key1
            Li(<<>>),                                     \* empty list -> empty float array
            Tu(<<I3, F12>>), Tu(<<Str("x"), Str("y")>>), Tu(<<A3, A2>>),
            Li(<<Di("p" :> I3), Di("q" :> Str("abc"))>>)  \* list of dicts -> groups key0, key1
          }
\* string alphabet classes in token form (<U+XXXX> = the character with that code point)
SE  == ""                                                  \* empty
SSP == " "                                                 \* one space
SIN == " a  b "                                            \* leading, inner (double) and trailing spaces
SNL == "l1<U+000A>l2<U+000A>"                               \* newlines, one of them trailing
SAC == "Ren<U+00E9>e Fran<U+00E7>ois"                       \* accents
SQU == "Allen<U+2019>s <U+201C>q<U+201D>"                   \* typographic apostrophe and quotes
SMU == "3.6 <U+00B5>m"                                      \* micro sign
SBI == "@book{k,<U+000A>  title={Allen<U+2019>s \\& co},<U+000A>  note=\"<U+00B5>m, <U+00E9>\"<U+000A>}"   \* BibTeX-like block
StrAlphabet == {SE, SSP, SIN, SNL, SAC, SQU, SMU, SBI}
StrLeaves == {Str(x) : x \in StrAlphabet} \cup
          { Li(<<Str(SAC), Str(SE)>>), Li(<<Str(SQU), Str(SMU), Str(SSP)>>), Li(<<Str(SNL)>>),      \* string lists
            Tu(<<Str(SMU), Str(SAC)>>), Tu(<<Str(SE)>>), Tu(<<Str(SIN), Str(SNL), Str(SQU)>>),      \* string tuples
            Li(<<Li(<<Str(SAC), Str(SE)>>), Li(<<Str(SMU)>>)>>),      \* ragged list of string lists -> key0, key1
            Li(<<Tu(<<Str(SQU)>>), Tu(<<Str(SE)>>)>>),                \* rectangular nesting of strings -> key0, key1
            Li(<<Di("p" :> Str(SAC)), Di("q" :> Tu(<<Str(SMU), Str(SQU)>>))>>),   \* dictionaries held by a list
            I3 }
Leaves == IF Catalogue = "kinds" THEN KindLeaves ELSE StrLeaves
KeysAt(n) == IF n = Depth THEN KeysTop ELSE KeysNested
RECURSIVE Vals(_), Dicts(_)
Dicts(n) == UNION {[ks -> Vals(n - 1)] : ks \in SUBSET KeysAt(n)}
Vals(n)  == IF n = 0 THEN Leaves ELSE Leaves \cup {Di(f) : f \in Dicts(n)}

Init == d \in Dicts(Depth)
Next == UNCHANGED d
Spec == Init /\ [][Next]_d

RoundTrip == (\A x \in DOMAIN d : WellFormed(d[x])) => RoundTripOf(d)
NoError   == StoreDict(d).n # "error"
\* ASSUME-time tables for the driver
EmitTables == /\ PrintT(<<"KEYS", ToJson(SpectrumTable)>>)
              /\ PrintT(<<"TAU", ToJson(TauRows)>>)
\* the integer arithmetic of the callers implements the table (refuted for SizeTest = "identity")
\* (stated over the state so that TLC reports a refutation as an invariant violation)
SizeArith == \A x \in {d} : SizeArithOf(SizeTest)
SizeFirm  == \A x \in {d} : SizeBounds
ASSUME EmitTables
Emit == Export => PrintT(<<"VEC", ToJson([dict |-> d, tree |-> CanonDict(d)])>>)
=============================================================================
