----------------------------- MODULE MC_Output -----------------------------
(* Exhaustive / export model for C16 part 1: every nested dictionary over a  *)
(* catalogue of leaf values (all value kinds, rectangular / ragged / string /*)
(* dict-valued sequences) up to Depth; RoundTrip is checked in every state.  *)
EXTENDS Output
CONSTANTS KeysTop, KeysNested, Depth, Export
VARIABLE d

Sc(k, n, dd) == [k |-> k, n |-> n, d |-> dd]
Str(s) == [k |-> "str", v |-> s]
Arr(dt, shape, data) == [k |-> "arr", dt |-> dt, shape |-> shape, data |-> data]
Li(items) == [k |-> "list", items |-> items]
Tu(items) == [k |-> "tuple", items |-> items]
Di(f) == [k |-> "dict", items |-> f]

I3 == Sc("int", 3, 1)          F12 == Sc("float", 1, 2)      FN == Sc("float", -7, 4)
BT == Sc("bool", 1, 1)         I0 == Sc("int", 0, 1)
A3 == Arr("float", <<3>>, <<<<1, 2>>, <<2, 1>>, <<-3, 1>>>>)
A2 == Arr("float", <<2>>, <<<<5, 1>>, <<1, 4>>>>)
A22 == Arr("int", <<2, 2>>, <<<<1, 1>>, <<2, 1>>, <<3, 1>>, <<4, 1>>>>)
A0 == Arr("float", <<0>>, <<>>)
Leaves == { I3, F12, FN, BT, Str("abc"), Str("H2O-x y"), A3, A22, A0,
            Li(<<I3, F12>>),                              \* numeric list -> float array
            Li(<<BT, I3>>),                               \* bool + int -> int array
            Li(<<Li(<<I3, I0>>), Li(<<I0, I3>>)>>),       \* rectangular nesting -> 2-d array
            Li(<<Li(<<I3, I0>>), Li(<<I3>>)>>),           \* ragged numeric list -> key0, key1
            Li(<<I3, Li(<<I3, I0>>)>>),                   \* scalar next to a list -> key0, key1
            Li(<<Str("abc"), Str("de")>>),                \* string list -> S64 array
            Li(<<A3, A3>>),                               \* equal arrays -> 2-d array
            Li(<<A3, A2>>),                               \* arrays of unequal length -> key0, key1
            Li(<<>>),                                     \* empty list -> empty float array
            Tu(<<I3, F12>>), Tu(<<Str("x"), Str("y")>>), Tu(<<A3, A2>>),
            Li(<<Di("p" :> I3), Di("q" :> Str("abc"))>>)  \* list of dicts -> groups key0, key1
          }
KeysAt(n) == IF n = Depth THEN KeysTop ELSE KeysNested
RECURSIVE Vals(_), Dicts(_)
Dicts(n) == UNION {[ks -> Vals(n - 1)] : ks \in SUBSET KeysAt(n)}
Vals(n)  == IF n = 0 THEN Leaves ELSE Leaves \cup {Di(f) : f \in Dicts(n)}

Init == d \in Dicts(Depth)
Next == UNCHANGED d
Spec == Init /\ [][Next]_d

RoundTrip == (\A x \in DOMAIN d : WellFormed(d[x])) => RoundTripOf(d)
NoError   == StoreDict(d).n # "error"
\* ASSUME-time tables for the driver
EmitTables == PrintT(<<"KEYS", ToJson(SpectrumTable)>>)
ASSUME EmitTables
Emit == Export => PrintT(<<"VEC", ToJson([dict |-> d, tree |-> CanonDict(d)])>>)
=============================================================================
