SPECIFICATION SSpec
CONSTANTS
  TC <- MCTC
  TW <- MCTW
  Grids <- MCGrids
  NGrids = 5
  Sizes = {"heavy", "light", "lighter"}
  Kinds = {"flux"}
  Keys = {"none"}
  Convs = {"copy"}
  Depth = 9
  Export = "walks"
CONSTRAINT Bound
CONSTRAINT EmitWalk
CHECK_DEADLOCK FALSE
