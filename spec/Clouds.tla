------------------------------- MODULE Clouds -------------------------------
(***************************************************************************)
(* C19 -- clouds and hazes act only inside their declared pressure range.  *)
(*                                                                         *)
(* Positions are integers on a log-pressure axis (MC_Clouds: 2*log10 P so  *)
(* that layer centres are integers; Trace_Clouds: round(10^6 * log10 P)).  *)
(*   lev[1..n+1]  strictly decreasing level positions, lev[1] the surface; *)
(*                layer k spans [lev[k+1], lev[k]]                         *)
(*   cen2[1..n]   twice the position of the layer (centre) pressure        *)
(*   a bound is a record [set |-> BOOLEAN, x |-> position]; set = FALSE is *)
(*   the documented "-1" (any negative pressure): that end of the          *)
(*   atmosphere.                                                           *)
(*                                                                         *)
(* The statement fixes what happens to layers wholly inside and wholly     *)
(* outside the window and leaves the partial-layer rule open, so every     *)
(* layer gets an *interval* of admissible extinctions in units of the      *)
(* declared magnitude:  [0,0] outside, [1,1] inside, [0,1] when the layer  *)
(* straddles (or merely touches) a window edge.  Two reference mechanisms  *)
(* (overlap fraction on levels: FlatMie; mask on layer centres: LeeMie)    *)
(* are shown by MC_Clouds to stay inside the intervals for every grid and  *)
(* every pair of bounds.                                                   *)
(***************************************************************************)
EXTENDS Integers, Sequences, FiniteSets, TLC, Json, Rat, Dec

NLay(lev)  == Len(lev) - 1
CMin(a, b) == IF a <= b THEN a ELSE b
CMax(a, b) == IF a >= b THEN a ELSE b
SeqDecreasing(s) == \A i \in 1..(Len(s) - 1) : s[i + 1] < s[i]

\* ------------------------------------------------------------ cloud deck
\* opaque at and below the deck: layer pressure >= cloud-top pressure
DeckOpaque(cen2, k, deck) == cen2[k] >= 2 * deck
DeckLayers(cen2, deck) == {k \in 1..Len(cen2) : DeckOpaque(cen2, k, deck)}

\* ----------------------------------------------------------- haze window
BottomEnd(lev, b) == IF b.set THEN b.x ELSE lev[1]
TopEnd(lev, t)    == IF t.set THEN t.x ELSE lev[Len(lev)]
WinLo(lev, b, t)  == CMin(BottomEnd(lev, b), TopEnd(lev, t))
WinHi(lev, b, t)  == CMax(BottomEnd(lev, b), TopEnd(lev, t))
Inverted(b, t)    == b.set /\ t.set /\ b.x < t.x       \* declared bottom lies above the declared top

WhollyOutside(lev, k, lo, hi) == lev[k] < lo \/ lev[k + 1] > hi     \* closed intervals disjoint
WhollyInside(lev, k, lo, hi)  == lo <= lev[k + 1] /\ lev[k] <= hi
AdmLo(lev, k, b, t) == IF WhollyInside(lev, k, WinLo(lev, b, t), WinHi(lev, b, t)) THEN 1 ELSE 0
AdmHi(lev, k, b, t) == IF WhollyOutside(lev, k, WinLo(lev, b, t), WinHi(lev, b, t)) THEN 0 ELSE 1
Adm(lev, b, t) == [k \in 1..NLay(lev) |-> <<AdmLo(lev, k, b, t), AdmHi(lev, k, b, t)>>]

\* f[k]: rational extinction of layer k in units of the declared magnitude.
\* With inverted bounds the statement can also be read as an empty window (nothing anywhere).
ProfileAdmissible(lev, b, t, f) ==
    \/ \A k \in 1..NLay(lev) : RLe(Q(AdmLo(lev, k, b, t)), f[k]) /\ RLe(f[k], Q(AdmHi(lev, k, b, t)))
    \/ Inverted(b, t) /\ \A k \in 1..NLay(lev) : f[k] = Q(0)

\* the same on scaled observations m[k] = round(f[k] * S), one unit of slack
ScaledAdmissible(lev, b, t, m, S) ==
    \/ \A k \in 1..NLay(lev) : AdmLo(lev, k, b, t) * S - 1 <= m[k] /\ m[k] <= AdmHi(lev, k, b, t) * S + 1
    \/ Inverted(b, t) /\ \A k \in 1..NLay(lev) : m[k] = 0
ScaledBadLayers(lev, b, t, m, S) ==
    {k \in 1..NLay(lev) : ~(AdmLo(lev, k, b, t) * S - 1 <= m[k] /\ m[k] <= AdmHi(lev, k, b, t) * S + 1)}

\* ---------------------------------------------------- reference mechanisms
\* grey haze: fraction of the layer (in log pressure) that lies inside the window
FlatFrac(lev, k, b, t) ==
    LET ov == CMin(WinHi(lev, b, t), lev[k]) - CMax(WinLo(lev, b, t), lev[k + 1])
    IN  IF ov <= 0 THEN Q(0) ELSE Norm(ov, lev[k] - lev[k + 1])
\* Lee haze: mask on the layer pressures, an unset bound is the first / last layer pressure,
\* inverted bounds select nothing
LeeMask(lev, cen2, k, b, t) ==
    LET bb == IF b.set THEN 2 * b.x ELSE cen2[1]
        tt == IF t.set THEN 2 * t.x ELSE cen2[Len(cen2)]
    IN  IF cen2[k] <= bb /\ cen2[k] >= tt THEN Q(1) ELSE Q(0)

\* ------------------------------------------- the documented partial-layer rules
\* The statement leaves open what a layer gets that the window covers only in part; each contribution documents ITS rule
\* and is bound to it (clause partial_layer_rule): the grey haze WEIGHTS its opacity with the fraction of the layer (in log
\* pressure) that lies inside the window (FlatFrac: "the weighted mie opacity"), the Lee haze SELECTS layers by their layer
\* pressure (LeeMask).  Consequence for the grey haze (MC_Clouds!WindowExtentConserved): the extinction integrated over
\* log pressure is the declared magnitude times the extent of the declared window inside the atmosphere -- a haze
\* thinner than a layer carries what its extent amounts to, no more.
PartialLayers(lev, b, t) == {k \in 1..NLay(lev) : ~WhollyInside(lev, k, WinLo(lev, b, t), WinHi(lev, b, t))
                                                  /\ ~WhollyOutside(lev, k, WinLo(lev, b, t), WinHi(lev, b, t))}
OverlapPos(lev, k, b, t) == CMax(0, CMin(WinHi(lev, b, t), lev[k]) - CMax(WinLo(lev, b, t), lev[k + 1]))
\* on logged observations: m = round(fraction * S); the positions are roundings of the real log-pressures, each off by
\* at most pu/2 units (pu = 0: exact positions), so that the overlap ov and the width w are off by at most pu each:
\*     | m * w - ov * S |  <=  2 * pu * S  +  w ,   i.e.   | m - ov * S / w |  <=  2 * pu * S / w  +  1
\* ov * S does not fit 32 bits: the quotient is taken by long division in base 100 (S a power of 100; ov <= w < 2^24)
RECURSIVE ScaledQuot(_, _, _)
ScaledQuot(ov, w, S) == IF S <= 1 THEN <<ov \div w, ov % w>>
                        ELSE LET p == ScaledQuot(ov, w, S \div 100)
                                 r == p[2] * 100
                             IN  <<(p[1] * 100) + (r \div w), r % w>>
FlatRuleOk(lev, k, b, t, m, S, pu) ==
    LET w   == lev[k] - lev[k + 1]
        q   == ScaledQuot(OverlapPos(lev, k, b, t), w, S)[1]          \* floor(ov * S / w)
        tol == ((2 * pu * S) \div w) + 3
    IN  m >= q - tol /\ m <= q + tol
\* (a declared bound that coincides with a layer pressure is a measure-zero case: selected or not, both readings pass)
LeeRuleOk(lev, cen2, k, b, t, m, S) ==
    LET bb == IF b.set THEN 2 * b.x ELSE cen2[1]
        tt == IF t.set THEN 2 * t.x ELSE cen2[Len(cen2)]
        in == cen2[k] <= bb /\ cen2[k] >= tt
        edge == in /\ ((b.set /\ cen2[k] = bb) \/ (t.set /\ cen2[k] = tt))
        near(v) == m >= v - 1 /\ m <= v + 1
    IN  IF edge THEN near(S) \/ near(0) ELSE IF in THEN near(S) ELSE near(0)

\* ------------------------------------ several contributions in one tangent layer
\* Optical depths add.  The model evaluates the contributions of a tangent layer one after the
\* other (any order) and may stop early once the layer is opaque (documented cut-off:
\* accumulated tau > Cut at EVERY wavenumber).  acc[w] is the accumulated optical depth, taus[c][w]
\* what contribution c adds at wavenumber w.
RECURSIVE TauSum(_, _, _)
TauSum(taus, w, c) == IF c = 0 THEN 0 ELSE TauSum(taus, w, c - 1) + taus[c][w]
CutoffReached(acc, W, rule, cut) == IF rule = "all" THEN \A w \in W : acc[w] > cut
                                                      ELSE \E w \in W : acc[w] > cut
\* a cloud or haze next to another absorber: at every wavenumber the accumulated depth is the sum of
\* ALL contributions, or (licensed) both are beyond the cut-off at that wavenumber
LayerAdmissible(acc, taus, W, cut) ==
    \A w \in W : \/ acc[w] = TauSum(taus, w, Len(taus))
                  \/ (acc[w] > cut /\ TauSum(taus, w, Len(taus)) > cut)
\* the same on transmittances (decimal observations): tb with both contributions, ta / th each alone;
\* E10 >= exp(-10) is the transmittance at the cut-off
E10 == <<BOf(45400), -9>>
MixOk(tb, ta, th, ppb) == \/ DClose(tb, DMul(ta, th), ppb)
                          \/ (DLe(tb, E10) /\ DLe(DMul(ta, th), E10))

\* several clouds / hazes (slabs) in one model: every slab keeps ITS OWN range whatever else lives in
\* the model and in whatever order they were added (design model MC_CloudsSlabs), hence the transmittance
\* with all of them is the product of the transmittances with each of them alone (up to the licence).
\* al[j][k][w]: observation with only slab j, tb: decimal with all of them
RECURSIVE DProdTo(_, _, _, _)
DProdTo(al, k, w, j) == IF j = 0 THEN DInt(1) ELSE DMul(DProdTo(al, k, w, j - 1), DOf(al[j][k][w]))
SlabsOk(tb, al, k, w, ppb) == MixOk(tb, DProdTo(al, k, w, Len(al)), DInt(1), ppb)

\* --------------------------------------------- transit depth with a deck
\* documented integral (C01), numerator in units of Rs^2:  R^2 + sum_k 2 (R + z_k) (1 - tr_k) dz_k
RECURSIVE DepthSum(_, _, _, _, _)
DepthSum(rad, z, dz, tr, k) ==
    IF k = 0 THEN RMul(Q(rad), Q(rad))
    ELSE RAdd(DepthSum(rad, z, dz, tr, k - 1),
              RMul(Q(2 * (rad + z[k]) * dz[k]), RSub(Q(1), tr[k])))
DepthNum(rad, z, dz, tr) == DepthSum(rad, z, dz, tr, Len(z))
\* the same integral with the layers in S fully opaque and all others fully transparent
OpaqueNum(rad, z, dz, S) == DepthNum(rad, z, dz, [k \in 1..Len(z) |-> IF k \in S THEN Q(0) ELSE Q(1)])

\* decimal version on logged geometry (Obs values), used by Trace_Clouds; the sum over layers is
\* split in halves so that the recursion depth is log2(n) (TLC evaluates recursion on the Java stack)
RECURSIVE DOpaqueRange(_, _, _, _, _, _)
DOpaqueRange(rad, z, dz, S, lo, hi) ==
    IF lo > hi THEN DInt(0)
    ELSE IF lo = hi THEN (IF lo \in S THEN DMul(DInt(2), DMul(DAdd(rad, DOf(z[lo])), DOf(dz[lo]))) ELSE DInt(0))
    ELSE LET mid == (lo + hi) \div 2
         IN  DAdd(DOpaqueRange(rad, z, dz, S, lo, mid), DOpaqueRange(rad, z, dz, S, mid + 1, hi))
DOpaqueSum(rad, z, dz, S, n) == DAdd(DMul(rad, rad), DOpaqueRange(rad, z, dz, S, 1, n))
=============================================================================
