SPECIFICATION USpec
CONSTANTS
  Containers = {"hdf5-ktable"}
  AttrKinds = {"str"}
  GridIds = {1}
INVARIANT AllBar
CHECK_DEADLOCK FALSE
