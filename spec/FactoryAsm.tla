---------------------------- MODULE FactoryAsm ----------------------------
(* C15, model assembly: a whole input file = one selector per section plus   *)
(* contribution subsections.  Every assembly over the documented selectors   *)
(* is enumerated; the expected object graph is the unique candidate class of *)
(* every selector (FactoryOps.Cands over the generated registry).  The       *)
(* driver writes the file, runs the command-line program and compares the    *)
(* stored spectrum with the same graph built through the library.            *)
(*                                                                           *)
(* Two families of files:                                                    *)
(*  A  every documented selector of every section (plain chemistry forms),   *)
(*     no [Fitting] section;                                                 *)
(*  B  the FORM of the [Chemistry] selector -- plain, the documented         *)
(*     composite `makefree+file` (mixins.rst), a custom python_file class    *)
(*     that is not a TaurexChemistry -- with the same two gas sub-sections   *)
(*     and a [Fitting] section whose entries name the planet radius or the   *)
(*     first fitting parameter of the first gas sub-section (chemistry.rst). *)
(*     The gas sub-sections belong to the graph under every form             *)
(*     (ChemFormAttachesGases: a class of the form provides addGas), and     *)
(*     every [Fitting] entry reaches the optimizer (fit flag, mode, bounds). *)
(*  C  the PRESENCE of sections (inputfile.rst: "Not all of these headers    *)
(*     are required in an input file.  Some will generate default profiles   *)
(*     when not present"): every subset of [Temperature] [Pressure]          *)
(*     [Chemistry] [Planet] [Star] left out x every subset of the [Model]    *)
(*     keys that describe the model's OWN default pressure profile           *)
(*     (nlayers, atm_min_pressure, atm_max_pressure) x [Instrument] written  *)
(*     or not.  For a section that is absent the parser hands the model      *)
(*     constructor NOTHING (the constructor default, "defaults otherwise"),  *)
(*     so that the model builds its own default from its own keys; for a     *)
(*     section that is present, the component of the selector's class.       *)
(*     Prebuild = TRUE is the (refuted) reading "the parser pre-builds the   *)
(*     selector's default component for an absent section".                  *)
EXTENDS FactoryOps, FactorySect
CONSTANT Prebuild      \* FALSE
VARIABLE asm

DocSels(kind) == UNION {e.sels : e \in {x \in Builtin : x.kind = kind}}
Temps    == DocSels("temperature") \ {"file", "rodgers"}      \* profiles that need no external file / layer list
Gases    == DocSels("gas")
Models   == DocSels("model")
Press    == DocSels("pressure")
Chems    == DocSels("chemistry") \ {"file"}
ContribSets == {<<"Absorption">>, <<"Absorption", "Rayleigh">>, <<"Absorption", "SimpleClouds">>,
                <<"Absorption", "Rayleigh", "FlatMie">>, <<"Absorption", "ThickClouds", "LeeMie">>}
Binnings == {"none", "flux", "simple"}

One(kind, by, s) == LET c == Cands(kind, IF by = "value" THEN LowerOf(s) ELSE s)
                    IN  IF Cardinality(c) = 1 THEN (CHOOSE x \in c : TRUE).name ELSE ""

\* ------------------------------------------------------- forms of the [Chemistry] selector
PlainForm(s) == [form |-> "plain", sel |-> s, mix |-> ""]
ChemForms == {PlainForm(s) : s \in Chems}
             \cup UNION {{[form |-> "composite", sel |-> s, mix |-> MixinOf[e.id]] : s \in e.sels}
                         : e \in {x \in Builtin : x.kind = "chemistry" /\ x.id \in DOMAIN MixinOf}}
             \cup {[form |-> "custom", sel |-> "custom", mix |-> ""]}
WrittenChem(f) == IF f.form = "composite" THEN f.mix \o "+" \o f.sel ELSE f.sel
OneMixin(kind, s) == LET c == MixinCands(kind, LowerOf(s))
                     IN  IF Cardinality(c) = 1 THEN (CHOOSE x \in c : TRUE).name ELSE ""
\* the custom chemistry of the assemblies: the harness-written file whose class is NOT a TaurexChemistry
AsmCustom == CHOOSE c \in CustomBases : c.kind = "chemistry" /\ c.file = "chemistry_duck"
ChemBases(f) == CASE f.form = "plain"     -> <<One("chemistry", "value", f.sel)>>
                  [] f.form = "composite" -> <<OneMixin("chemistry", f.mix), One("chemistry", "value", f.sel)>>
                  [] OTHER                -> <<AsmCustom.name>>

\* ------------------------------------------------------- [Fitting]
\* first fitting parameter of a gas sub-section [[mol]] (chemistry.rst, "Fitting Parameters" of each gas type)
GasFitParam(gsel, mol) == IF LowerOf(gsel) = "constant" THEN mol ELSE mol \o "_surface"
FitEntries(kindf, gsel) ==
    CASE kindf = "radius" -> <<[param |-> "planet_radius", fit |-> TRUE, mode |-> "linear", bounds |-> <<"0.5", "3">>, lo |-> <<1, 2>>, hi |-> <<3, 1>>]>>
      [] kindf = "gas"    -> <<[param |-> GasFitParam(gsel, "H2O"), fit |-> TRUE, mode |-> "log", bounds |-> <<"1e-4", "1e-2">>, lo |-> <<1, 10000>>, hi |-> <<1, 100>>],
                               [param |-> "planet_radius", fit |-> FALSE, mode |-> "linear", bounds |-> <<"0.5", "3">>, lo |-> <<1, 2>>, hi |-> <<3, 1>>]>>
      [] OTHER            -> <<>>

\* ------------------------------------------------------- presence of sections (family C)
\* (OptSections, SlotOf, LayerKeys, ModelArgOf, LayerSrcOf: FactorySect)
LayerRaw  == [nlayers |-> "12", atm_min_pressure |-> "0.5", atm_max_pressure |-> "1e5"]
InstRaw   == [SNR |-> "12", num_observations |-> "3"]
SectionClass(a, s) ==
    CASE s = "Temperature" -> One("temperature", "value", a.temp)
      [] s = "Pressure"    -> One("pressure", "value", a.press)
      [] s = "Chemistry"   -> ChemBases(a.chem)[Len(ChemBases(a.chem))]
      [] s = "Planet"      -> One("planet", "value", "simple")
      [] OTHER             -> One("star", "value", "blackbody")
\* what the model constructor receives for the section's keyword: "" = nothing (its default, None)
ModelArg(a, s) == ModelArgOf(Prebuild, a.absent, s, SectionClass(a, s))
\* where each number of the model's pressure grid comes from
LayerSrc(a, k) == LayerSrcOf(ModelArg(a, "Pressure"), a.mkeys, k)

FamilyA == [temp : Temps, gas1 : Gases, gas2 : Gases, model : Models, press : Press, chem : {PlainForm(s) : s \in Chems},
            contribs : ContribSets, binning : Binnings, fit : {"none"}, absent : {{}}, mkeys : {{}}, inst : {"none"}]
FamilyB == [temp : Temps, gas1 : Gases, gas2 : Gases, model : Models, press : {"simple"}, chem : ChemForms,
            contribs : {<<"Absorption">>, <<"Absorption", "Rayleigh">>}, binning : {"none"}, fit : {"radius", "gas"},
            absent : {{}}, mkeys : {{}}, inst : {"none"}]
\* one selector per section that resolves (the usual one if it does: an ambiguous selector is reported by UniqueResolution)
Resolving(kind, S, usual) == IF One(kind, "value", usual) # "" \/ ~(\E x \in S : One(kind, "value", x) # "") THEN usual
                             ELSE CHOOSE x \in S : One(kind, "value", x) # ""
FamilyC == {a \in [temp : {Resolving("temperature", Temps, "isothermal")}, gas1 : {Resolving("gas", Gases, "constant")},
                    gas2 : {Resolving("gas", Gases, "constant")}, model : Models, press : {Resolving("pressure", Press, "simple")},
                    chem : {PlainForm(Resolving("chemistry", Chems, "taurex"))}, contribs : {<<"Absorption", "Rayleigh">>}, binning : {"none"}, fit : {"none"},
                    absent : SUBSET OptSections, mkeys : SUBSET LayerKeys, inst : {"none", "snr"}] :
                a.inst = "snr" => a.mkeys = {}}
Init == asm \in FamilyA \cup FamilyB \cup FamilyC
Next == UNCHANGED asm
Spec == Init /\ [][Next]_asm

\* clouds are defined for every forward model; every selector in play is documented
AssemblyResolves ==
    /\ (("temperature:" \o asm.temp) \notin Waived) => One("temperature", "value", asm.temp) # ""
    /\ (("gas:" \o asm.gas1) \notin Waived) => One("gas", "value", asm.gas1) # ""
    /\ One("model", "value", asm.model) # ""
    /\ \A i \in 1..Len(asm.contribs) : One("contribution", "subsection", asm.contribs[i]) # ""
    /\ \A i \in 1..Len(ChemBases(asm.chem)) : ChemBases(asm.chem)[i] # ""
\* under every form of the selector the library can attach the gas sub-sections: they are part of the graph
ChemFormAttachesGases ==
    \E i \in 1..Len(ChemBases(asm.chem)) : ChemBases(asm.chem)[i] \in SubAdders
\* the bounds of a [Fitting] entry are numbers of the value grammar, lower below upper
FittingWellFormed ==
    \A i \in 1..Len(FitEntries(asm.fit, asm.gas1)) :
        LET e == FitEntries(asm.fit, asm.gas1)[i] IN
        /\ Transform(Li(e.bounds)) = [t |-> "floatlist", v |-> <<e.lo, e.hi>>]
        /\ e.lo[1] * e.hi[2] < e.hi[1] * e.lo[2]

\* ------------------------------------------------------- presence of sections
\* a section that is not written leaves the model constructor's keyword at its default ("defaults otherwise")
AbsentSectionIsDefaultArgument == \A s \in asm.absent : ModelArg(asm, s) = ""
\* a section that is written reaches the model as the component of its selector's class
PresentSectionReachesModel ==
    \A s \in OptSections \ asm.absent :
        \/ s = "Temperature" /\ ("temperature:" \o asm.temp) \in Waived
        \/ ModelArg(asm, s) # ""
\* without a [Pressure] section the layer keys of [Model] are the model's pressure grid
ModelLayerKeysEffective ==
    ("Pressure" \in asm.absent) => \A k \in asm.mkeys : LayerSrc(asm, k) = "model-key"
LayerKeysTyped == \A k \in LayerKeys : Transform(Sc(LayerRaw[k])).t = "float"

Emit == PrintT(<<"ASM", ToJson([temp |-> asm.temp, gas1 |-> asm.gas1, gas2 |-> asm.gas2, model |-> asm.model,
                                 press |-> asm.press, chem |-> WrittenChem(asm.chem), chemform |-> asm.chem.form,
                                 contribs |-> asm.contribs, binning |-> asm.binning,
                                 fit |-> asm.fit, fitting |-> FitEntries(asm.fit, asm.gas1),
                                 absent |-> asm.absent, inst |-> asm.inst,
                                 instkeys |-> IF asm.inst = "snr" THEN [k \in DOMAIN InstRaw |-> [raw |-> InstRaw[k], typed |-> Transform(Sc(InstRaw[k]))]] ELSE <<>>,
                                 mkeys |-> [k \in asm.mkeys |-> [raw |-> LayerRaw[k], typed |-> Transform(Sc(LayerRaw[k]))]],
                                 args |-> [s \in OptSections |-> [kw |-> SlotOf[s], cls |-> ModelArg(asm, s)]],
                                 layers |-> [k \in LayerKeys |-> LayerSrc(asm, k)],
                                 cls |-> [temp |-> One("temperature", "value", asm.temp),
                                          gas1 |-> One("gas", "value", asm.gas1), gas2 |-> One("gas", "value", asm.gas2),
                                          model |-> One("model", "value", asm.model), press |-> One("pressure", "value", asm.press),
                                          inst |-> IF asm.inst = "none" THEN "" ELSE One("instrument", "value", asm.inst),
                                          chem |-> ChemBases(asm.chem)[Len(ChemBases(asm.chem))],
                                          chembases |-> ChemBases(asm.chem),
                                          contribs |-> [i \in 1..Len(asm.contribs) |-> One("contribution", "subsection", asm.contribs[i])]]])>>)
=============================================================================
