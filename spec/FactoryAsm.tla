---------------------------- MODULE FactoryAsm ----------------------------
(* C15, model assembly: a whole input file = one selector per section plus   *)
(* contribution subsections.  Every assembly over the documented selectors   *)
(* is enumerated; the expected object graph is the unique candidate class of *)
(* every selector (FactoryOps.Cands over the generated registry).  The       *)
(* driver writes the file, runs the command-line program and compares the    *)
(* stored spectrum with the same graph built through the library.            *)
EXTENDS FactoryOps
VARIABLE asm

DocSels(kind) == UNION {e.sels : e \in {x \in Builtin : x.kind = kind}}
Temps    == DocSels("temperature") \ {"file", "rodgers"}      \* profiles that need no external file / layer list
Gases    == DocSels("gas")
Models   == DocSels("model")
Press    == DocSels("pressure")
Chems    == DocSels("chemistry") \ {"file"}
ContribSets == {<<"Absorption">>, <<"Absorption", "Rayleigh">>, <<"Absorption", "SimpleClouds">>,
                <<"Absorption", "Rayleigh", "FlatMie">>, <<"Absorption", "ThickClouds", "LeeMie">>}
Binnings == {"none", "flux", "simple"}

One(kind, by, s) == LET c == Cands(kind, IF by = "value" THEN LowerOf(s) ELSE s)
                    IN  IF Cardinality(c) = 1 THEN (CHOOSE x \in c : TRUE).name ELSE ""

Init == asm \in [temp : Temps, gas1 : Gases, gas2 : Gases, model : Models, press : Press, chem : Chems,
                 contribs : ContribSets, binning : Binnings]
Next == UNCHANGED asm
Spec == Init /\ [][Next]_asm

\* clouds are defined for every forward model; every selector in play is documented
AssemblyResolves ==
    /\ (("temperature:" \o asm.temp) \notin Waived) => One("temperature", "value", asm.temp) # ""
    /\ (("gas:" \o asm.gas1) \notin Waived) => One("gas", "value", asm.gas1) # ""
    /\ One("model", "value", asm.model) # ""
    /\ \A i \in 1..Len(asm.contribs) : One("contribution", "subsection", asm.contribs[i]) # ""

Emit == PrintT(<<"ASM", ToJson([temp |-> asm.temp, gas1 |-> asm.gas1, gas2 |-> asm.gas2, model |-> asm.model,
                                 press |-> asm.press, chem |-> asm.chem, contribs |-> asm.contribs, binning |-> asm.binning,
                                 cls |-> [temp |-> One("temperature", "value", asm.temp),
                                          gas1 |-> One("gas", "value", asm.gas1), gas2 |-> One("gas", "value", asm.gas2),
                                          model |-> One("model", "value", asm.model), press |-> One("pressure", "value", asm.press),
                                          chem |-> One("chemistry", "value", asm.chem),
                                          contribs |-> [i \in 1..Len(asm.contribs) |-> One("contribution", "subsection", asm.contribs[i])]]])>>)
=============================================================================
