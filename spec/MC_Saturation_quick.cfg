SPECIFICATION Spec
CONSTANTS
  NW = 3
  NC = 2
  Inc = {0,1,12}
  Thr = 10
  Mode = "all"
  Contig = FALSE
  Hows = {"set","obs"}
  NatStep = 10
  ObsPos = {9,11,19,21,31}
  Export = FALSE
INVARIANT TxPointwiseLicensed
INVARIANT EmPointwiseLicensed
INVARIANT TxRunLicensed
INVARIANT EmRunLicensed
INVARIANT TxSubNotDarker
INVARIANT ObsContiguous
CONSTRAINT Emit
CHECK_DEADLOCK FALSE
