SPECIFICATION Spec
CONSTANTS
  NW = 3
  NC = 3
  Inc = {0,1,12}
  Thr = 10
  Mode = "all"
  Contig = FALSE
  Export = FALSE
INVARIANT TxPointwiseLicensed
INVARIANT EmPointwiseLicensed
INVARIANT TxSubNotDarker
CONSTRAINT Emit
CHECK_DEADLOCK FALSE
