SPECIFICATION Spec
CONSTANTS
  Starts = {0,1,14}
  Gaps = {1,2,3}
  PMax = 34
  MaxLen = 8
  ObsPos = {9,10,12,16,20,22}
  ObsCard = {2,3,4}
  ObsW2 = {7}
  Cond = "third"
  Export = FALSE
INVARIANT BinningCommutes
INVARIANT NeededRetained
INVARIANT ClipContiguous
INVARIANT FitsInv
CONSTRAINT Prune
CONSTRAINT Emit
CHECK_DEADLOCK FALSE
