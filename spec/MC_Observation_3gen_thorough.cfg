SPECIFICATION Spec
CONSTANTS
  WLS = {4,5,6,7,8,9,12}
  NMin = 5
  NMax = 5
  NCol = 3
  Vals = {1}
  RowMode = "generic"
  Variant = "ok"
  Export = FALSE
INVARIANT PermutationInvariant
INVARIANT RowsTogether
INVARIANT AscendingInv
INVARIANT EdgesInv
INVARIANT BinnerInv
INVARIANT FitsInv
INVARIANT RoutesAgree
CONSTRAINT Emit
CHECK_DEADLOCK FALSE
