SPECIFICATION Spec
CONSTANTS
  E = 7
  KMin = 1
  KMax = 4
  TES = {0,1,2,3,4,5,6,7,8,9,10,11}
  TShift = 2
  NTgtMin = 1
  NTgtMax = 1
  Vals = {0,1,3}
  FMode = "generic"
  Kinds = {"flux"}
  Variant = "ok"
  Export = FALSE
INVARIANT WellFormed
INVARIANT AlgRefinesDef
INVARIANT OutIsSortedOrder
INVARIANT NoOverlapUntouched
INVARIANT FitsInv
CONSTRAINT Emit
CHECK_DEADLOCK FALSE
