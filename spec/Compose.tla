------------------------------ MODULE Compose ------------------------------
(***************************************************************************)
(* C03 -- how a forward model composes its opacity sources.                *)
(*                                                                         *)
(* Written in the shape of the implementation:                             *)
(*   Contribution.prepare        : sums prepare_each components, then      *)
(*                                 sigma_xsec := sum                       *)
(*   X.prepare_each              : "std" classes assign sigma_xsec := the  *)
(*                                 component before each yield (one buffer *)
(*                                 re-used for all components); the        *)
(*                                 "noassign" class (SimpleClouds as found)*)
(*                                 never assigns it                        *)
(*   model()                     : prepare every contribution of the list, *)
(*                                 path_integral reads every sigma_xsec    *)
(*   model_contrib()             : list := <<c>>, prepare(c), path_integral*)
(*                                 ... finally list := full list           *)
(*   model_full_contrib()        : list := <<c>>, for each component:      *)
(*                                 advance prepare_each, path_integral     *)
(* Parameters are abstracted to a version counter `ver`: a buffer computed *)
(* for version v holds the opacity of the atmosphere as it was at v.       *)
(* Multi-step operations are modelled step by step (pc) because the list   *)
(* swap and the buffer re-use are exactly where the bugs live.             *)
(***************************************************************************)
EXTENDS Integers, Sequences, FiniteSets, TLC

CONSTANTS Contribs,      \* set of contribution ids
          NComp,         \* [Contribs -> 1..k] number of components
          Kind,          \* [Contribs -> {"std", "noassign"}]
          Order,         \* [Contribs -> Nat] evaluation order (clouds 3, others 5)
          Shared,        \* [Contribs -> BOOLEAN] prepare_each re-uses ONE work array for all its components (CIA)
          TotalKind,     \* "own": Contribution.prepare accumulates the total in its own array (as built)
                         \* "alias": the total starts out AS the first yielded array and later ones are added in place
          MaxVer,        \* bound on parameter changes
          MaxLate        \* how many contributions may be added after build() (they are not re-sorted)

VARIABLES ver,           \* current parameter version
          added,         \* insertion order chosen by the user (sequence of contribs)
          nlate,         \* the last nlate of them were added after build()
          list,          \* model.contribution_list
          full,          \* list saved by the per-contribution operations
          buf,           \* buf[c] = [comp |-> 0 (none) | -1 (sum) | i, ver |-> v]  -- sigma_xsec
          pc,            \* "idle" | "model" | "contrib" | "fullc"
          ci, ki,        \* loop indices of the running operation
          reads,         \* what path_integral read during the running/last operation
          last           \* name of the last completed public operation
vars == <<ver, added, nlate, list, full, buf, pc, ci, ki, reads, last>>

None == 0
Sum  == -1
Perms(S) == {s \in [1..Cardinality(S) -> S] : \A i, j \in 1..Cardinality(S) : i # j => s[i] # s[j]}
\* build(): stable sort of the insertion order by Order
RECURSIVE InsertSorted(_, _)
InsertSorted(s, c) == IF s = <<>> THEN <<c>>
                      ELSE IF Order[c] < Order[Head(s)] THEN <<c>> \o s
                      ELSE <<Head(s)>> \o InsertSorted(Tail(s), c)
RECURSIVE SortByOrder(_)
SortByOrder(s) == IF s = <<>> THEN <<>> ELSE InsertSorted(SortByOrder(SubSeq(s, 1, Len(s) - 1)), s[Len(s)])

\* build() sorts what has been added so far; later add_contribution() calls append
ListOf(a, n) == SortByOrder(SubSeq(a, 1, Len(a) - n)) \o SubSeq(a, Len(a) - n + 1, Len(a))
Init == /\ ver = 1
        /\ added \in Perms(Contribs)
        /\ nlate \in 0..MaxLate
        /\ list = ListOf(added, nlate)
        /\ full = <<>>
        /\ buf = [c \in Contribs |-> [comp |-> None, ver |-> 0]]
        /\ pc = "idle" /\ ci = 0 /\ ki = 0
        /\ reads = {} /\ last = "build"

Built == ListOf(added, nlate)

\* ---- Contribution.prepare(c): loop over prepare_each, then sigma_xsec := sum
\* with an aliased total and a shared work array the total IS the work array: when the second component is
\* written into it the running sum is wiped, and adding "it to itself" leaves twice the last component
Prepared(c) == IF TotalKind = "alias" /\ Shared[c] /\ NComp[c] > 1 THEN [comp |-> NComp[c], ver |-> ver]
               ELSE [comp |-> Sum, ver |-> ver]
\* ---- one step of the prepare_each generator of c, about to yield component k
Yielded(c, k) == IF Kind[c] = "std" THEN [comp |-> k, ver |-> ver] ELSE buf[c]
\* ---- path_integral: every contribution of the current list reads its buffer
ReadAll(b, l) == {[c |-> l[i], comp |-> b[l[i]].comp, ver |-> b[l[i]].ver] : i \in 1..Len(l)}

SetParam == /\ pc = "idle" /\ ver < MaxVer
            /\ ver' = ver + 1
            /\ UNCHANGED <<added, nlate, list, full, buf, pc, ci, ki, reads, last>>

\* model(): atomic enough -- nothing else can interleave in a sequential library,
\* but it is kept as prepare-all then read so that the reads are explicit
Model == /\ pc = "idle"
         /\ LET b == [c \in Contribs |-> IF \E i \in 1..Len(list) : list[i] = c THEN Prepared(c) ELSE buf[c]]
            IN  /\ buf' = b
                /\ reads' = {[op |-> "model", want |-> Sum, at |-> ver, r |-> r] : r \in ReadAll(b, list)}
         /\ last' = "model"
         /\ UNCHANGED <<ver, added, nlate, list, full, pc, ci, ki>>

\* model_contrib(): start, one step per contribution, finish (restore)
ContribStart == /\ pc = "idle" /\ pc' = "contrib" /\ full' = list /\ ci' = 1 /\ reads' = {}
                /\ UNCHANGED <<ver, added, nlate, list, buf, ki, last>>
ContribStep == /\ pc = "contrib" /\ ci <= Len(full)
               /\ LET c == full[ci]
                      b == [buf EXCEPT ![c] = Prepared(c)]
                  IN  /\ list' = <<c>>
                      /\ buf' = b
                      /\ reads' = reads \cup {[op |-> "contrib", want |-> Sum, at |-> ver, r |-> r] : r \in ReadAll(b, <<c>>)}
               /\ ci' = ci + 1
               /\ UNCHANGED <<ver, added, nlate, full, pc, ki, last>>
ContribEnd == /\ pc = "contrib" /\ ci > Len(full)
              /\ list' = full /\ pc' = "idle" /\ last' = "contrib"
              /\ UNCHANGED <<ver, added, nlate, full, buf, ci, ki, reads>>

\* model_full_contrib(): per contribution, per component
FullStart == /\ pc = "idle" /\ pc' = "fullc" /\ full' = list /\ ci' = 1 /\ ki' = 1 /\ reads' = {}
             /\ UNCHANGED <<ver, added, nlate, list, buf, last>>
FullStep == /\ pc = "fullc" /\ ci <= Len(full)
            /\ LET c == full[ci]
                   b == [buf EXCEPT ![c] = Yielded(c, ki)]
               IN  /\ list' = <<c>>
                   /\ buf' = b
                   /\ reads' = reads \cup {[op |-> "fullc", want |-> ki, at |-> ver, r |-> r] : r \in ReadAll(b, <<c>>)}
                   /\ IF ki < NComp[c] THEN ki' = ki + 1 /\ ci' = ci
                      ELSE ki' = 1 /\ ci' = ci + 1
            /\ UNCHANGED <<ver, added, nlate, full, pc, last>>
FullEnd == /\ pc = "fullc" /\ ci > Len(full)
           /\ list' = full /\ pc' = "idle" /\ last' = "fullc"
           /\ UNCHANGED <<ver, added, nlate, full, buf, ci, ki, reads>>

Next == SetParam \/ Model \/ ContribStart \/ ContribStep \/ ContribEnd \/ FullStart \/ FullStep \/ FullEnd
Spec == Init /\ [][Next]_vars

\* --------------------------------------------------------------- properties
\* every buffer read by a path integral was computed for the current parameters and holds
\* what the operation is modelling (the sum, or the k-th component).  A single-component
\* contribution's sum IS its component.
GoodRead(x) == /\ x.r.ver = x.at
               /\ \/ x.r.comp = x.want
                  \/ (x.r.comp = Sum /\ x.want = 1 /\ NComp[x.r.c] = 1)
NoStaleRead == \A x \in reads : GoodRead(x)
\* the public operations leave the contribution list as build() made it
ListRestored == pc = "idle" => list = Built
\* every contribution (and every component) is modelled exactly once by the per-part operations
Coverage == /\ (pc = "idle" /\ last = "contrib") => {x.r.c : x \in reads} = Contribs
            /\ (pc = "idle" /\ last = "fullc") =>
                   \A c \in Contribs : \A k \in 1..NComp[c] :
                       \E x \in reads : x.r.c = c /\ x.want = k
\* clouds first: for contributions added before build() the evaluation order does not depend on
\* the insertion order.  (Contributions added later keep their place; the RESULT must not depend on
\* that either -- optical depths add -- which is the acc-family invariant OrderIndependentUpToCutoff
\* of MC_Transmission and is checked on the real model by the replay.)
OrderIndependent == \A i, j \in 1..(Len(Built) - nlate) : i < j => Order[Built[i]] <= Order[Built[j]]
=============================================================================
