----------------------------- MODULE ListRoutes -----------------------------
(***************************************************************************)
(* C03 -- HOW the component list reaches a source.  "Each source's          *)
(* transmittance equals the product over its components (one per molecule   *)
(* or collision pair)": the components are those of the list the source     *)
(* holds WHEN IT IS EVALUATED, whatever public route put them there.  The   *)
(* only built-in source that exposes its component list is the CIA          *)
(* contribution (the molecules of the absorption / Rayleigh sources come    *)
(* from the chemistry); its routes are                                      *)
(*    ctor     CIAContribution(cia_pairs=l)   ("ctor0": keyword omitted)    *)
(*    assign   c.ciaPairs = l                 (the setter)                  *)
(*    append / extend / iadd                  in-place growth of the LIVE   *)
(*             list that the property ciaPairs returns                      *)
(*    remove   in-place removal of one pair                                 *)
(* each of them before the first evaluation and between evaluations.        *)
(* Shape of the implementation (cia.py): prepare_each walks the list and    *)
(* contribute() integrates iff a cached count _total_cia > 0.               *)
(*    CountAt = "use"     documented / as built: counted at every evaluation*)
(*              "assign"  counted where the list is handed over (ctor,      *)
(*                        setter): in-place changes go unnoticed -- refuted *)
(*                        on RouteFree                                      *)
(* The clause: every evaluation integrates exactly the components a FRESH   *)
(* source constructed with the current list integrates.                     *)
(***************************************************************************)
EXTENDS Integers, Sequences, FiniteSets, TLC, Json

CONSTANTS Pairs, CountAt, D, Export
VARIABLES lst,    \* the component list held by the source
          cnt,    \* the implementation's cached count
          out,    \* components integrated by the last evaluation
          last,   \* kind of the last action
          hist
vars == <<lst, cnt, out, last>>

Rng(s) == {s[i] : i \in DOMAIN s}
NoDup(s) == \A i, j \in DOMAIN s : i # j => s[i] # s[j]
Lists == {s \in UNION {[1..n -> Pairs] : n \in 0..Cardinality(Pairs)} : NoDup(s)}
Ev(op, l) == [op |-> op, l |-> l]
AtAssign(l, old) == IF CountAt = "assign" THEN Len(l) ELSE old

Init == \E l \in Lists : \E op \in {"ctor", "ctor0"} :
            /\ (op = "ctor0" => l = <<>>)
            /\ lst = l /\ cnt = AtAssign(l, 0) /\ out = {} /\ last = "ctor"
            /\ hist = <<Ev(op, l)>>
Assign == \E l \in Lists :
            /\ lst' = l /\ cnt' = AtAssign(l, cnt) /\ last' = "set"
            /\ hist' = Append(hist, Ev("assign", l)) /\ UNCHANGED out
Grow == \E how \in {"append", "extend", "iadd"} : \E ps \in Lists \ {<<>>} :
            /\ Rng(ps) \cap Rng(lst) = {}
            /\ (how = "append" => Len(ps) = 1)
            /\ lst' = lst \o ps /\ last' = "set"
            /\ hist' = Append(hist, Ev(how, ps)) /\ UNCHANGED <<cnt, out>>
Remove == \E p \in Rng(lst) :
            /\ lst' = SelectSeq(lst, LAMBDA x : x # p) /\ last' = "set"
            /\ hist' = Append(hist, Ev("remove", <<p>>)) /\ UNCHANGED <<cnt, out>>
\* w: how far the evaluation goes -- model() | + model_contrib() | + model_full_contrib()
Evaluate == \E w \in {"model", "contrib", "fullc"} :
            /\ cnt' = (IF CountAt = "use" THEN Len(lst) ELSE cnt)
            /\ out' = (IF cnt' > 0 THEN Rng(lst) ELSE {})
            /\ last' = "eval"
            /\ hist' = Append(hist, Ev("eval", <<w>>)) /\ UNCHANGED lst
Next == Assign \/ Grow \/ Remove \/ Evaluate
Spec == Init /\ [][Next]_<<vars, hist>>

\* what a fresh source constructed with the list l integrates
Fresh(l) == Rng(l)
RouteFree == last = "eval" => out = Fresh(lst)

View == vars
Bound == Len(hist) <= D
Emit == (Export /\ Len(hist) = D) => PrintT(<<"ROUTE", ToJson([hist |-> hist])>>)
=============================================================================
