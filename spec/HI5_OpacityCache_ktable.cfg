SPECIFICATION Spec
CONSTANTS
  Kind = "ktable"
  Paths = {"p1","p2"}
  Mols = {"A","B"}
  Modes = {"linear","exp"}
  Disk <- MCDisk
  ClearOnModeChange = TRUE
  DiscoverPassesMode = TRUE
  StoreOnLoad = TRUE
  Depth = 5
  Hist = TRUE
CONSTRAINT Cons
CHECK_DEADLOCK FALSE
INVARIANT TypeOK
INVARIANT LoadedOncePerEpoch
INVARIANT ObjectsDistinct
INVARIANT ModeTakesEffect
INVARIANT TableFromItsPath
PROPERTY SameObjectServed
PROPERTY LoadFromConfiguredPath
