SPECIFICATION Spec
CONSTANTS
  NL = 3
  NW = 2
  NT = 3
  ECodes = {1, 103, 300, 1501}
  TCodes = {111, 222, 123, 321, 213, 132, 312, 231, 113, 331}
  QuadIds = {4}
  ClampE = 15
  SlackE = 14
  Variant = "code"
  Btab <- MCBtab
  Bstar <- MCBstar
  TabId = 1
  Rp = 2
  Rs = 5
  Dist = 3
  KD = 2
  Export = TRUE
  InterpIds = {1, 2, 3, 4, 5, 6, 7, 8, 9}
INVARIANT Telescoping
INVARIANT PerLayerSource
INVARIANT HotColdBounds
INVARIANT FitsInv
CONSTRAINT Emit
CHECK_DEADLOCK FALSE
