SPECIFICATION HSpec
CONSTANTS
  Contribs <- MCContribs
  NComp <- MCNComp
  Kind <- MCKind
  Order <- MCOrder
  Shared <- MCShared
  TotalKind = "own"
  MaxVer = 4
  MaxLate = 2
  CloudKind = "std"
  Params = {"cloudP", "mix", "T"}
  D = 7
  Export = TRUE
VIEW View
CONSTRAINT Bound
CONSTRAINT Emit
INVARIANT ListRestored
INVARIANT Coverage
INVARIANT OrderIndependent
CHECK_DEADLOCK FALSE
INVARIANT NoStaleRead
