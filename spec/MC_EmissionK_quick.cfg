SPECIFICATION EKSpec
CONSTANTS
  NL = 2
  NW = 2
  NT = 3
  NG = 2
  KCodes = {0, 1030002, 2000100, 15150101, 15000015}
  WIds = {3, 4}
  LMode = "ones"
  ECodes = {0, 100}
  TCodes = {11,12,31}
  QuadIds = {2, 4}
  KVariant = "code"
  ClampE = 15
  SlackE = 14
  Variant = "code"
  Btab <- MCBtab
  Bstar <- MCBstar
  TabId = 1
  Rp = 2
  Rs = 5
  Dist = 3
  KD = 2
  Export = FALSE
INVARIANT EKTelescoping
INVARIANT EKCoefNonNeg
INVARIANT EKIsothermalIdentity
INVARIANT EKHotColdBounds
INVARIANT EKDegenerateIsXsec
INVARIANT EKFluxIsothermalIdentity
INVARIANT EKFluxBounds
INVARIANT EKEclipseIsothermalRatio
INVARIANT EKEclipseBounds
INVARIANT EKDirectProportional
INVARIANT EKFitsInv
CONSTRAINT EKEmitVec
CHECK_DEADLOCK FALSE
