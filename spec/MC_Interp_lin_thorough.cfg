SPECIFICATION Spec
CONSTANTS
  TNS = {300,500,600}
  PNS = {0,2,3}
  Vals = {0,1,3}
  TabMode = "all"
  Mode = "linear"
  QX = {100,200,300,400,500,550,600,700}
  QYS = {0,1,2,3,4,5,6}
  YShift = 2
  Export = FALSE
INVARIANT NonNegative
INVARIANT BracketBounded
INVARIANT NodeExact
INVARIANT NeverExtrapolated
INVARIANT ZeroBelowBothMinima
INVARIANT FitsInv
CONSTRAINT Emit
CHECK_DEADLOCK FALSE
