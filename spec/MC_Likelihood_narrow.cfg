SPECIFICATION Spec
CONSTANTS
  Layout = "two"
  Depth = 0
  NP <- MCNP
  FitFlag <- MCFit
  ParMode <- MCMode
  UserSet <- MCUser
  UMode <- MCUMode
  ULo <- MCULo
  UHi <- MCUHi
  WriteBy = "prior"
  ObsRole <- MCRole
  DataRead = "after"
  Lo <- MCLo
  Hi <- MCHi
  Val0 <- MCVal0
  XSet <- MCXSet
  UDen = 4
  K = 4
  Coef <- MCCoef
  Bins <- MCBins
  Data <- MCData
  Sig <- MCSig
  MoreObs <- MCMoreObs
  BinnerRule = "at_set"
  ChemLayers <- MCChemLayers
  ChemRule = "any"
  ChemLimit = 50
  TLow = 1
  THigh = 3
  Faults = {"InvalidModel", "InvalidChemistry", "InvalidTemperature"}
  NaNFaults = {"NaNAll", "NaNSome"}
  NaNBins <- MCNaNBins
  AllNaN = "nan"
  Caught = {"InvalidModel", "InvalidChemistry"}
  ZeroChi = "value"
VIEW view
INVARIANT ValidEqualsGaussian
INVARIANT InvalidNeverFinite
INVARIANT PartialSkipsOrNaN
INVARIANT NeverRaises
INVARIANT WrittenIsPriorOfX
INVARIANT OnlyFittedWritten
INVARIANT OrderIsFitOrder
INVARIANT DeclarationOrder
INVARIANT FitsInv
PROPERTY UnfittedFrozen
CHECK_DEADLOCK FALSE
