------------------------------ MODULE Posterior ------------------------------
(***************************************************************************)
(* C09 -- posterior summaries are the weighted statistics of the stored    *)
(* samples.                                                                *)
(*                                                                         *)
(* Quantile rule = taurex.util.util.quantile_corner transcribed:           *)
(*     idx = argsort(x); xs = x[idx]; cdf = cumsum(w[idx]) / sum(w)        *)
(*     value(q) = interp(q, cdf, xs)    (flat left of cdf[1], linear in the *)
(*                                       cumulative weight between points)  *)
(* Two sources of legitimate non-determinism are made explicit, the        *)
(* operators return the *set* of admissible values:                        *)
(*  - argsort may order equal values either way (their weights then enter   *)
(*    the cumulative sum in either order)            -> SortOrders(x)       *)
(*  - where q coincides with a cumulative weight shared by several points   *)
(*    (zero weights) every point of that group is admissible                *)
(* Values and weights are integers, quantile levels exact rationals.       *)
(***************************************************************************)
EXTENDS Integers, Sequences, FiniteSets, TLC, Json, Rat

Q16 == <<4, 25>>
Q50 == <<1, 2>>
Q84 == <<21, 25>>

SetMinI(S) == CHOOSE v \in S : \A u \in S : v <= u
SetMaxI(S) == CHOOSE v \in S : \A u \in S : v >= u

\* all index orders that sort x ascending (ties in any order)
RECURSIVE SortOrdersAllOf(_, _)
SortOrdersAllOf(x, rem) ==
    IF rem = {} THEN {<<>>}
    ELSE LET m == SetMinI({x[i] : i \in rem})
             c == {i \in rem : x[i] = m}
         IN  UNION {{<<i>> \o s : s \in SortOrdersAllOf(x, rem \ {i})} : i \in c}
SortOrdersAll(x) == SortOrdersAllOf(x, 1..Len(x))

\* Reduced set with the same admissible results (checked by TLC: OrderReductionSound in MC_Posterior).
\* Inside a group of equal values every point carries the same value, so the interpolation only depends
\* on which weight comes *first* in the group (the segment entering the group) and on the group's total
\* weight: branch on one representative per distinct weight for the first place, keep the rest in index order.
RECURSIVE AscSeq(_)
AscSeq(S) == IF S = {} THEN <<>> ELSE LET m == SetMinI(S) IN <<m>> \o AscSeq(S \ {m})
RECURSIVE SortOrdersOf(_, _, _)
SortOrdersOf(x, w, rem) ==
    IF rem = {} THEN {<<>>}
    ELSE LET m == SetMinI({x[i] : i \in rem})
             c == {i \in rem : x[i] = m}
             reps == {i \in c : \A j \in c : w[j] = w[i] => i <= j}
             rest == SortOrdersOf(x, w, rem \ c)
         IN  UNION {{<<i>> \o AscSeq(c \ {i}) \o s : s \in rest} : i \in reps}
SortOrders(x, w) == SortOrdersOf(x, w, 1..Len(x))

RECURSIVE CumW(_, _, _)
CumW(p, w, i) == IF i = 0 THEN 0 ELSE w[p[i]] + CumW(p, w, i - 1)       \* cumulative weight of the first i sorted points
TotalW(w) == CumW([i \in 1..Len(w) |-> i], w, Len(w))

\* admissible values of interp(q, cdf, xs) for the sort order p; q = <<qn, qd>>, compared as q*T against integers
QuantAt(p, x, w, q) ==
    LET n  == Len(x)
        T  == CumW(p, w, n)
        c(i) == CumW(p, w, i)
        Below(i) == c(i) * q[2] <  q[1] * T       \* cdf_i <  q
        AtQ(i)   == c(i) * q[2] =  q[1] * T       \* cdf_i =  q
        ties == {i \in 1..n : AtQ(i)}
        le   == {i \in 1..n : Below(i) \/ AtQ(i)}
    IN  IF ties # {} THEN {Q(x[p[i]]) : i \in ties}
        ELSE IF le = {} THEN {Q(x[p[1]])}                                 \* q left of the first point
        ELSE LET j == SetMaxI(le)                                         \* cdf_j < q < cdf_{j+1}   (q < 1 = cdf_n)
                 frac == Norm(q[1] * T - c(j) * q[2], q[2] * (c(j + 1) - c(j)))
             IN  {RAdd(Q(x[p[j]]), RMul(frac, Q(x[p[j + 1]] - x[p[j]])))}

\* (q16, q50, q84) of one call: the three levels share the sort order
TriplesOver(orders, x, w) == UNION {{<<a, b, c>> : a \in QuantAt(p, x, w, Q16), b \in QuantAt(p, x, w, Q50),
                                                   c \in QuantAt(p, x, w, Q84)} : p \in orders}
Triples(x, w)    == TriplesOver(SortOrders(x, w), x, w)
TriplesAll(x, w) == TriplesOver(SortOrdersAll(x), x, w)

RECURSIVE DotW(_, _, _)
DotW(x, w, i) == IF i = 0 THEN 0 ELSE w[i] * x[i] + DotW(x, w, i - 1)
WMean(x, w) == Norm(DotW(x, w, Len(x)), TotalW(w))                        \* sum(w x) / sum(w)

ArgMaxSet(w) == {i \in 1..Len(w) : \A j \in 1..Len(w) : w[j] <= w[i]}     \* MAP = any sample of greatest weight

\* ---------------------------------------------------------------------------------------------------
\* The weights a sampler hands over are non-negative reals of ARBITRARY positive total: normalised (total 1),
\* raw counts / importance weights (total > 1), a mode's share of the evidence (total < 1, e.g. MultiNest's
\* post_separate), ...  A weight vector of rationals rw (rw[i] = <<n, d>>) is brought to integers over the common
\* denominator; the weighted quantiles, the weighted mean sum(w x)/sum(w) and the set of samples of greatest
\* weight are those of the integer vector (all are homogeneous of degree 0 in the weights: TotalFree in
\* MC_Posterior).  Handed(w, tot) = the weights proportional to the integers w whose total is the rational tot;
\* tot = <<0, 1>> stands for "as they are" (total = sum of w).
LCMi(a, b) == (a \div GCD(a, b)) * b
RECURSIVE DenLcm(_, _)
DenLcm(rw, i) == IF i = 0 THEN 1 ELSE LCMi(rw[i][2], DenLcm(rw, i - 1))
IntW(rw) == LET L == DenLcm(rw, Len(rw)) IN [i \in 1..Len(rw) |-> rw[i][1] * (L \div rw[i][2])]
RTotalW(rw) == RSumSeq(rw)
Handed(w, tot) == IF tot[1] = 0 THEN [i \in 1..Len(w) |-> Q(w[i])]
                  ELSE [i \in 1..Len(w) |-> Norm(w[i] * tot[1], TotalW(w) * tot[2])]
TotalOf(w, tot) == IF tot[1] = 0 THEN Q(TotalW(w)) ELSE Norm(tot[1], tot[2])

\* summary of one trace (fitted parameter column or derived-parameter trace)
\*   value = q50, sigma_m = q50 - q16, sigma_p = q84 - q50
Summary(x, w) == [trip  |-> Triples(x, w),
                  mean  |-> WMean(x, w),
                  trace |-> x]
RSummary(x, rw) == Summary(x, IntW(rw))                                   \* summary under rational weights
RArgMaxSet(rw)  == ArgMaxSet(IntW(rw))
SummaryTriple(t) == [value |-> t[2], sigma_m |-> RSub(t[2], t[1]), sigma_p |-> RSub(t[3], t[2])]
=============================================================================
