------------------------------ MODULE Posterior ------------------------------
(***************************************************************************)
(* C09 -- posterior summaries are the weighted statistics of the stored    *)
(* samples.                                                                *)
(*                                                                         *)
(* Quantile rule = taurex.util.util.quantile_corner transcribed:           *)
(*     idx = argsort(x); xs = x[idx]; cdf = cumsum(w[idx]) / sum(w)        *)
(*     value(q) = interp(q, cdf, xs)    (flat left of cdf[1], linear in the *)
(*                                       cumulative weight between points)  *)
(* Two sources of legitimate non-determinism are made explicit, the        *)
(* operators return the *set* of admissible values:                        *)
(*  - argsort may order equal values either way (their weights then enter   *)
(*    the cumulative sum in either order)            -> SortOrders(x)       *)
(*  - where q coincides with a cumulative weight shared by several points   *)
(*    (zero weights) every point of that group is admissible                *)
(* Values and weights are integers, quantile levels exact rationals.       *)
(***************************************************************************)
EXTENDS Integers, Sequences, FiniteSets, TLC, Json, Rat

Q16 == <<4, 25>>
Q50 == <<1, 2>>
Q84 == <<21, 25>>

SetMinI(S) == CHOOSE v \in S : \A u \in S : v <= u
SetMaxI(S) == CHOOSE v \in S : \A u \in S : v >= u

\* all index orders that sort x ascending (ties in any order)
RECURSIVE SortOrdersAllOf(_, _)
SortOrdersAllOf(x, rem) ==
    IF rem = {} THEN {<<>>}
    ELSE LET m == SetMinI({x[i] : i \in rem})
             c == {i \in rem : x[i] = m}
         IN  UNION {{<<i>> \o s : s \in SortOrdersAllOf(x, rem \ {i})} : i \in c}
SortOrdersAll(x) == SortOrdersAllOf(x, 1..Len(x))

\* Reduced set with the same admissible results (checked by TLC: OrderReductionSound in MC_Posterior).
\* Inside a group of equal values every point carries the same value, so the interpolation only depends
\* on which weight comes *first* in the group (the segment entering the group) and on the group's total
\* weight: branch on one representative per distinct weight for the first place, keep the rest in index order.
RECURSIVE AscSeq(_)
AscSeq(S) == IF S = {} THEN <<>> ELSE LET m == SetMinI(S) IN <<m>> \o AscSeq(S \ {m})
RECURSIVE SortOrdersOf(_, _, _)
SortOrdersOf(x, w, rem) ==
    IF rem = {} THEN {<<>>}
    ELSE LET m == SetMinI({x[i] : i \in rem})
             c == {i \in rem : x[i] = m}
             reps == {i \in c : \A j \in c : w[j] = w[i] => i <= j}
             rest == SortOrdersOf(x, w, rem \ c)
         IN  UNION {{<<i>> \o AscSeq(c \ {i}) \o s : s \in rest} : i \in reps}
SortOrders(x, w) == SortOrdersOf(x, w, 1..Len(x))

RECURSIVE CumW(_, _, _)
CumW(p, w, i) == IF i = 0 THEN 0 ELSE w[p[i]] + CumW(p, w, i - 1)       \* cumulative weight of the first i sorted points
TotalW(w) == CumW([i \in 1..Len(w) |-> i], w, Len(w))

\* admissible values of interp(q, cdf, xs) for the sort order p; q = <<qn, qd>>, compared as q*T against integers
QuantAt(p, x, w, q) ==
    LET n  == Len(x)
        T  == CumW(p, w, n)
        c(i) == CumW(p, w, i)
        Below(i) == c(i) * q[2] <  q[1] * T       \* cdf_i <  q
        AtQ(i)   == c(i) * q[2] =  q[1] * T       \* cdf_i =  q
        ties == {i \in 1..n : AtQ(i)}
        le   == {i \in 1..n : Below(i) \/ AtQ(i)}
    IN  IF ties # {} THEN {Q(x[p[i]]) : i \in ties}
        ELSE IF le = {} THEN {Q(x[p[1]])}                                 \* q left of the first point
        ELSE LET j == SetMaxI(le)                                         \* cdf_j < q < cdf_{j+1}   (q < 1 = cdf_n)
                 frac == Norm(q[1] * T - c(j) * q[2], q[2] * (c(j + 1) - c(j)))
             IN  {RAdd(Q(x[p[j]]), RMul(frac, Q(x[p[j + 1]] - x[p[j]])))}

\* (q16, q50, q84) of one call: the three levels share the sort order
TriplesOver(orders, x, w) == UNION {{<<a, b, c>> : a \in QuantAt(p, x, w, Q16), b \in QuantAt(p, x, w, Q50),
                                                   c \in QuantAt(p, x, w, Q84)} : p \in orders}
Triples(x, w)    == TriplesOver(SortOrders(x, w), x, w)
TriplesAll(x, w) == TriplesOver(SortOrdersAll(x), x, w)

RECURSIVE DotW(_, _, _)
DotW(x, w, i) == IF i = 0 THEN 0 ELSE w[i] * x[i] + DotW(x, w, i - 1)
WMean(x, w) == Norm(DotW(x, w, Len(x)), TotalW(w))                        \* sum(w x) / sum(w)

ArgMaxSet(w) == {i \in 1..Len(w) : \A j \in 1..Len(w) : w[j] <= w[i]}     \* MAP = any sample of greatest weight

\* summary of one trace (fitted parameter column or derived-parameter trace)
\*   value = q50, sigma_m = q50 - q16, sigma_p = q84 - q50
Summary(x, w) == [trip  |-> Triples(x, w),
                  mean  |-> WMean(x, w),
                  trace |-> x]
SummaryTriple(t) == [value |-> t[2], sigma_m |-> RSub(t[2], t[1]), sigma_p |-> RSub(t[3], t[2])]
=============================================================================
