SPECIFICATION Spec
CONSTANTS
  Family = "geo"
  NL = 5
  NW = 1
  NC = 1
  AVals = {0}
  LVals = {1}
  RpSet = {10,17,40,100}
  IncSet = {1,2,3,6,11}
  RsSet = {50}
  TVals = {0}
  Basis = FALSE
  Export = FALSE
CONSTRAINT Emit
CHECK_DEADLOCK FALSE
INVARIANT ChordPositive
INVARIANT ChordIncreasing
INVARIANT NewReachesTop
