SPECIFICATION Spec
CONSTANTS
  NL = 1
  MaxFill = 4
  MaxTrace = 2
  RatioNums = {1,2,3}
  RatioDen = 4
  AbNums = {1,3,5}
  AbDen = 8
  InitFree = FALSE
  MaxWrites = 3
  Variant = "spec"
  Export = FALSE
INVARIANT ReadBack
INVARIANT RequestedRatiosHonoured
INVARIANT RequestedTracesHonoured
INVARIANT SumsToOne
INVARIANT NonNegative
INVARIANT InvalidIffRequestedExceedsOne
INVARIANT EvalIsFunctional
INVARIANT FitsInv
CHECK_DEADLOCK FALSE
