SPECIFICATION Spec
CONSTANTS
  NL = 3
  NW = 2
  NT = 3
  ECodes = {0, 1, 100, 1515, 1501, 115}
  TCodes = {111,222,333,123,321,213,132,312,231,112,221,133}
  QuadIds = {4}
  ClampE = 15
  SlackE = 14
  Variant = "code"
  Btab <- MCBtab
  Bstar <- MCBstar
  TabId = 1
  Rp = 2
  Rs = 5
  Dist = 3
  KD = 2
  Export = FALSE
  InterpIds = {}
INVARIANT TelescopingPartial
INVARIANT Telescoping
INVARIANT CoefNonNeg
INVARIANT OwnTemperaturesOnly
INVARIANT PerLayerSource
INVARIANT IsothermalIdentity
INVARIANT HotColdBounds
INVARIANT FluxIdentityIffWeights
INVARIANT FluxBounds
INVARIANT EclipseIsothermalRatio
INVARIANT EclipseBounds
INVARIANT DirectProportional
INVARIANT FitsInv
INVARIANT FluxIsothermalIdentity
CONSTRAINT Emit
CHECK_DEADLOCK FALSE
