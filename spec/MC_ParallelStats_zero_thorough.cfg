SPECIFICATION Spec
CONSTANTS
  NRs = {1,2,3,4}
  Ns = {0,1,2,3,4}
  Vals = {0,3}
  Wts = {0,1,2}
  WDen = 1
  SmpMode = "all"
  SampleSpace <- MCSampleSpace
  Part = "var"
  Assign = "roundrobin"
  Jump = FALSE
  Serialise = TRUE
  NaNTest = "value"
  StrideOff = 0
  ReorderMode = "bylayout"
  ZeroGuard = "guarded"
  WSNum = 1
  WSDen = 1024
  WScale <- MCWScale
  SummarySource = "gathered"
  Gens = {1,2,3}
  Ordered = FALSE
  Export = FALSE
INVARIANT EachSampleOnce
INVARIANT AccIsTwoPass
INVARIANT MeanIsWeightedMean
INVARIANT VarianceIsTwoPass
INVARIANT ZeroWeightLemma
INVARIANT WeightScaleLemma
INVARIANT ScheduleIndependent
INVARIANT NoError
INVARIANT DirectVarLemma
INVARIANT FitsInv
CONSTRAINT Emit
CHECK_DEADLOCK FALSE
