SPECIFICATION SSpec
CONSTANTS
  NV = 2
  NC = 1
  NR = 1
  Modes = {"xsec", "ktables"}
  RpRoutes = {"param", "attr"}
  Entries = {"model", "partial", "contrib", "full_contrib"}
  PhysSet = {"rp", "tp", "mix"}
  Record = TRUE
  MaxSets = 2
  SVariant = "code"
INVARIANT EvalUsesCurrent
INVARIANT RuleIsLastAskedFor
INVARIANT ProfilesFollowEval
INVARIANT TypeOk
CONSTRAINT SEmit
CHECK_DEADLOCK FALSE
