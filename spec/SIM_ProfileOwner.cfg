SPECIFICATION HSpec
CONSTANTS
  Owners = 2
  NV = 3
  NL = 2
  Skip = "never"
  Frozen = FALSE
  Depth = 10
  Export = TRUE
  Aligned = TRUE
INVARIANT ObservedIsCurrent
CONSTRAINT HBound
CONSTRAINT HEmit
CHECK_DEADLOCK FALSE
