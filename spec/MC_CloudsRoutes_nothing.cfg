SPECIFICATION Spec
CONSTANTS
  NMax = 2
  L0 = 12
  Spacings = {2,4}
  BStep = 2
  RKinds = {"flat","lee","deck"}
  Routes = {"prepare","model","contrib","each","full"}
  Store = "nothing"
  MaxUses = 2
  Export = FALSE
VIEW ViewNoHist
INVARIANT IntegratedOwnRange
CONSTRAINT Emit
CHECK_DEADLOCK FALSE
