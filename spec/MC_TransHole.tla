---------------------------- MODULE MC_TransHole ----------------------------
(***************************************************************************)
(* C01, round 6 -- the SIZE of the wavenumber grid and the POSITION of the *)
(* one wavenumber that is still thin.                                      *)
(*                                                                         *)
(* The only licensed deviation from the documented integral is skipping    *)
(* further absorbers in a layer already at tau > 10 at EVERY wavenumber.   *)
(* The accumulation family of MC_Transmission walks grids of 2-3 points,   *)
(* where "every" and "a sample of" coincide.  Here the grid has n points,  *)
(* n from NWSet (8 .. 64, sizes on both sides of every threshold a coarse  *)
(* sample could have), the first contribution saturates every layer at     *)
(* every wavenumber but ONE (position p = every index 1..n, depth h there: *)
(* nothing or a little), the second adds a little (fill = 1) or a          *)
(* saturating amount (fill = 16) at p, the third is generic:               *)
(*   h thin, fill = 1   no exit is licensed: all three are summed          *)
(*   h thin, fill = 16  the exit is licensed after the second (and taken:  *)
(*                      LicensedExitTaken, so the clause is not vacuous)   *)
(* ExitStride = 1 is the documented rule (the minimum over the whole grid) *)
(* -- out.tau is then Transmission!TauLayer itself.  ExitStride = s > 1    *)
(* is the deliberately wrong reading "the minimum over every s-th point is *)
(* enough": an expected counterexample of ExitOnlySaturatedEverywhere.     *)
(***************************************************************************)
EXTENDS Transmission, Json
CONSTANTS NL, NC, NWSet, HVals, ExitStride, Export
VARIABLES phase, inp, out
vars == <<phase, inp, out>>
Layers == 1..NL
MaxN == CHOOSE v \in NWSet : \A u \in NWSet : v >= u

HoleA(n, p, h, fill) == [c \in 1..NC |-> [k \in Layers |-> [w \in 1..n |->
    IF c = 1 THEN (IF w = p THEN h ELSE 16)
    ELSE IF c = 2 /\ w = p THEN fill ELSE ((c * 5 + k * 3 + w) % 4) + 1]]]
GenL(m) == [j \in Layers |-> [i \in 1..NL |-> IF i > NL - j + 1 THEN 1 ELSE 1 + ((i * m + j) % 3)]]

Sample(n) == {w \in 1..n : (w - 1) % ExitStride = 0}
RECURSIVE HTauAfter(_, _, _, _, _)
HTauAfter(a, L, n, j, i) ==
    IF i = 0 THEN [w \in 1..n |-> 0]
    ELSE LET prev == HTauAfter(a, L, n, j, i - 1)
         IN  IF MinOver(prev, Sample(n)) >= Cut THEN prev
             ELSE [w \in 1..n |-> prev[w] + Contrib(a, L, i, j, w)]

Init == /\ phase = "in" /\ out = <<>>
        /\ inp \in {[a |-> HoleA(n, p, h, fill), L |-> GenL(m), n |-> n, p |-> p, h |-> h, fill |-> fill] :
                        n \in NWSet, p \in 1..MaxN, h \in HVals, fill \in {1, 16}, m \in {1, 2}}
        /\ inp.p <= inp.n
Evaluate == /\ phase = "in" /\ phase' = "done" /\ UNCHANGED inp
            /\ out' = [tau  |-> [j \in Layers |-> HTauAfter(inp.a, inp.L, inp.n, j, NC)],
                       full |-> [j \in Layers |-> TauFull(inp.a, inp.L, NC, inp.n, j)]]
Next == Evaluate
Spec == Init /\ [][Next]_vars
Done == phase = "done"

\* the early exit only ever removes absorbers from layers already at tau > 10 at EVERY wavenumber of the grid
ExitOnlySaturatedEverywhere == Done =>
    \A j \in Layers :
        /\ \A w \in 1..inp.n : out.tau[j][w] <= out.full[j][w]
        /\ (out.tau[j] # out.full[j]) => \A w \in 1..inp.n : out.tau[j][w] >= Cut
\* the documented rule is the one of the accumulation family, whatever the grid size
SameRuleAsSmallGrids == (Done /\ ExitStride = 1) =>
    \A j \in Layers : out.tau[j] = TauLayer(inp.a, inp.L, NC, inp.n, j)
\* no exit while the one thin wavenumber stays thin; the licensed exit is taken once it is filled
NoExitWhileThin == (Done /\ ExitStride = 1 /\ inp.fill = 1 /\ inp.h = 0) => out.tau = out.full
LicensedExitTaken == (Done /\ ExitStride = 1 /\ inp.fill = 16) => \A j \in Layers : out.tau[j] # out.full[j]
Emit == (Export /\ Done) => PrintT(<<"VEC", ToJson([fam |-> "acc", inp |-> inp, out |-> out])>>)
=============================================================================
