SPECIFICATION Spec
CONSTANTS
  NMax = 3
  L0 = 12
  Spacings = {2,4}
  BStep = 1
  MaxSlabs = 3
  SKinds = {"flat","lee","deck"}
  Scratch = "copy"
  Export = TRUE
INVARIANT ExposedGridUntouched
INVARIANT EachSlabOwnRange
INVARIANT EachSlabAsAlone
INVARIANT SlabsAdd
CONSTRAINT Emit
CHECK_DEADLOCK FALSE
