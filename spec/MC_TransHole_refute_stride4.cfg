SPECIFICATION Spec
CONSTANTS
  NL = 2
  NC = 3
  NWSet = {17, 64}
  HVals = {0, 3}
  ExitStride = 4
  Export = FALSE
INVARIANT ExitOnlySaturatedEverywhere
INVARIANT SameRuleAsSmallGrids
INVARIANT NoExitWhileThin
INVARIANT LicensedExitTaken
CONSTRAINT Emit
CHECK_DEADLOCK FALSE
