SPECIFICATION Spec
CONSTANTS
  Rule = "halfmax"
  Families = {"geo", "rev", "gap", "phot", "two"}
  Starts = {7, 30}
  Lens = {3, 5}
  ASet = {3}
  ARef = 2
  Search = "each"
  OvlN = 2
  Licensed = TRUE
  Export = FALSE
INVARIANT LikelihoodOfFullGrid
CHECK_DEADLOCK FALSE
