SPECIFICATION Spec
CONSTANTS
  Grids = {1, 2}
  MaxVer = 3
  MaxOps = 5
  Variant = "no_reinit"
INVARIANT GuardsHold
CHECK_DEADLOCK FALSE
