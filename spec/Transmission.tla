---------------------------- MODULE Transmission ----------------------------
(***************************************************************************)
(* C01 -- transit depth of a layered spherical atmosphere.                 *)
(*                                                                         *)
(* Shape of the implementation (taurex/model/transmission.py):             *)
(*   compute_path_length_old / compute_path_length  -> ChordSq  (geometry) *)
(*   path_integral: for layer j, for contribution c in list order:         *)
(*        break if min_w tau[j][w] > 10   (licensed early exit)            *)
(*        contribute_tau: tau[j][w] += sum_k a[c][k+j][w] * L[j][k]        *)
(*   compute_absorption: (Rp^2 + 2 sum_j (Rp+z_j)(1-T_j) dz_j)/Rs^2        *)
(*                                                                         *)
(* Coordinates: layers are 1..NL bottom-up; r[1..NL+1] are the boundary    *)
(* radii (integers, r[1] = Rp), z_j = r[j]-r[1] the altitude of the bottom *)
(* of layer j, dz_j = r[j+1]-r[j].  a[c][k][w] is (cross-section x number  *)
(* density) of contribution c in layer k at wavenumber w, L[j][i] the i-th *)
(* chord segment of the ray tangent in layer j (it crosses layer j+i-1).   *)
(* Optical depth is in units of ln 2, so transmittance is 2^-tau and the   *)
(* code's guard "tau > 10" reads "tau >= 15" on integers (10/ln2 = 14.43). *)
(***************************************************************************)
EXTENDS Integers, Sequences, FiniteSets, TLC, Rat

Cut == 15

\* ------------------------------------------------------------------ geometry
Dz(r, i) == r[i + 1] - r[i]
\* squared length of the half-chord of the ray tangent in layer j, from the tangent point
\* to the outer edge of the k-th shell (k >= j); exact rational.  path_length[j][k-j] is
\* 2 (sqrt ChordSq(j,k) - sqrt ChordSq(j,k-1)).
ChordSq(r, method, j, k) ==
    IF method = "old"
    THEN \* tangent radius b = Rp + dz_1/2 + z_j ; shell k radius = Rp + dz_1/2 + z_k + dz_k/2
         LET b2   == 2 * r[j] + Dz(r, 1)
             rho2 == 2 * r[k] + Dz(r, 1) + Dz(r, k)
         IN  R(rho2 * rho2 - b2 * b2, 4)
    ELSE \* tangent radius = mid-point of layer j ; shell k ends at the true boundary r[k+1]
         LET b2   == 2 * r[j] + Dz(r, j)
             rho2 == 2 * r[k + 1]
         IN  R(rho2 * rho2 - b2 * b2, 4)

\* -------------------------------------------------------------- accumulation
RECURSIVE SumK(_, _, _, _, _, _)
\* sum_{k = j .. n} a[c][k][w] * L[j][k-j+1]
SumK(a, L, c, j, w, k) ==
    IF k > Len(L) THEN 0
    ELSE a[c][k][w] * L[j][k - j + 1] + SumK(a, L, c, j, w, k + 1)
Contrib(a, L, c, j, w) == SumK(a, L, c, j, w, j)

MinOver(f, S) == CHOOSE v \in {f[x] : x \in S} : \A u \in {f[x] : x \in S} : v <= u

\* tau of layer j after the first i contributions of the list, with the early exit
RECURSIVE TauAfter(_, _, _, _, _, _)
TauAfter(a, L, NC, NW, j, i) ==
    IF i = 0 THEN [w \in 1..NW |-> 0]
    ELSE LET prev == TauAfter(a, L, NC, NW, j, i - 1)
         IN  IF MinOver(prev, 1..NW) >= Cut THEN prev          \* break: nothing more is added
             ELSE [w \in 1..NW |-> prev[w] + Contrib(a, L, i, j, w)]
TauLayer(a, L, NC, NW, j) == TauAfter(a, L, NC, NW, j, NC)
\* the documented integral without the early exit
RECURSIVE TauFullAfter(_, _, _, _, _, _)
TauFullAfter(a, L, NC, NW, j, i) ==
    IF i = 0 THEN [w \in 1..NW |-> 0]
    ELSE LET prev == TauFullAfter(a, L, NC, NW, j, i - 1)
         IN  [w \in 1..NW |-> prev[w] + Contrib(a, L, i, j, w)]
TauFull(a, L, NC, NW, j) == TauFullAfter(a, L, NC, NW, j, NC)
BrokeOut(a, L, NC, NW, j) == TauLayer(a, L, NC, NW, j) # TauFull(a, L, NC, NW, j)

\* ------------------------------------------------------------ correlated-k
\* A molecular absorber served from k-tables (opacity_method = ktables) has one coefficient per
\* quadrature point g: kk[g][k][w] (coefficient x number density in layer k), weight wts[g]/WD with
\* sum_g wts[g] = WD.  The documented transmittance of the ray tangent in layer j is
\*      sum_g wts[g]/WD * 2^-tauG(g),   tauG(g) = sum_k kk[g][k][w] * L[j][k-j+1],
\* whatever the magnitude of tauG: a quadrature point that is opaque beyond the floating-point range
\* contributes (a value indistinguishable from) zero, never "nothing".  Exact value for tauG <= KCap;
\* beyond KCap the term lies in [0, wts[g]/WD * 2^-KCap], which gives the two bounds KTransLo <= T <= KTransHi
\* (equal whenever every quadrature point is at most KCap).
KCap == 8
Underflow == 1075        \* 2^-t is exactly 0 in binary64 arithmetic for t >= 1075
KTauG(kk, L, g, j, w) == SumK(kk, L, g, j, w, j)
RECURSIVE KNum(_, _, _, _, _, _, _)
KNum(kk, L, wts, j, w, g, upper) ==
    IF g = 0 THEN 0
    ELSE LET t == KTauG(kk, L, g, j, w)
             term == IF t <= KCap THEN wts[g] * Pow(2, KCap - t) ELSE (IF upper THEN wts[g] ELSE 0)
         IN  term + KNum(kk, L, wts, j, w, g - 1, upper)
KTransLo(kk, L, wts, WD, NG, j, w) == R(KNum(kk, L, wts, j, w, NG, FALSE), WD * Pow(2, KCap))
KTransHi(kk, L, wts, WD, NG, j, w) == R(KNum(kk, L, wts, j, w, NG, TRUE), WD * Pow(2, KCap))
\* bounds of 2^-t in the same convention
TrLo(t) == IF t <= KCap THEN Pow2Neg(t) ELSE RZero
TrHi(t) == IF t <= KCap THEN Pow2Neg(t) ELSE Pow2Neg(KCap)

\* ------------------------------------------------------------------- depth
\* transmittance 2^-t, exact for t <= 20, bounded above by 2^-20 beyond (only used in bounds)
Tr(t) == IF t > 20 THEN Pow2Neg(20) ELSE Pow2Neg(t)
RECURSIVE DepthSum(_, _, _)
\* sum_{j >= i} (Rp + z_j)(1 - T_j) dz_j = sum r[j] (1-T_j) dz_j
DepthSum(r, T, i) ==
    IF i > Len(T) THEN RZero
    ELSE RAdd(RMul(Q(r[i] * Dz(r, i)), RSub(ROne, T[i])), DepthSum(r, T, i + 1))
Depth(r, Rs, T) == RDiv(RAdd(Q(r[1] * r[1]), RMul(Q(2), DepthSum(r, T, 1))), Q(Rs * Rs))
Bare(r, Rs)   == R(r[1] * r[1], Rs * Rs)
Opaque(r, Rs) == Depth(r, Rs, [j \in 1..(Len(r) - 1) |-> RZero])
=============================================================================
