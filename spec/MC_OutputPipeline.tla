------------------------- MODULE MC_OutputPipeline -------------------------
(* Model-checking / export instance of OutputPipeline.                                                         *)
(*   design   MSpec: the whole reachable graph for small bounds; the clauses hold for the sound variant, the four   *)
(*            design mutants are refuted at the level of the file (TLC -continue); a mutant is followed until it   *)
(*            is refuted, not further.                                                                             *)
(*   walks    SSpec in simulation mode: random histories (one enabled operation per step, stores and outputs       *)
(*            weighted up); each is printed with the design mutants it exposes -- "held": a result a caller holds  *)
(*            changed under its hands, "file": a stored file does not hold what was computed / is inconsistent.    *)
(*   The history the program runs for every forward model and every solution of a retrieval -- evaluate, build the  *)
(*   dictionary (heavy), evaluate every contribution, every component, store -- is always exported (ProgramWalks).  *)
EXTENDS OutputPipeline, Json
CONSTANTS Depth,      \* length of the exported histories
          Export      \* "none" | "walks"
VARIABLE hist

Alive == V = "sound" \/ (FileHoldsComputed(st) /\ FileSelfConsistent(st))
MSpec == Init /\ hist = <<>> /\ [][Alive /\ Next /\ UNCHANGED hist]_<<vars, hist>>

\* one random enabled operation per step.  RandomElement is evaluated ONCE (the value of hist'); the operation applied is
\* the one recorded.  Stores and outputs are rarer than evaluations among the enabled operations: they get more weight.
Weight(op) == CASE op.k = "store" -> 12 [] op.k = "output" -> 2 [] OTHER -> 1
Pool(s) == {<<op, i>> : op \in OpsAt(s), i \in 1..12} 
WPool(s) == {x \in Pool(s) : x[2] <= Weight(x[1])}
SNext == /\ Len(hist) < Depth
         /\ OpsAt(st) # {}
         /\ hist' = Append(hist, RandomElement(WPool(st))[1])
         /\ st' = Apply(V, st, hist'[Len(hist')])
         /\ UNCHANGED V
SSpec == Init /\ hist = <<>> /\ [][SNext]_<<vars, hist>>
Bound == Len(hist) <= Depth

\* which design mutants a history exposes, and where the binding can see it
RECURSIVE Run(_, _, _, _, _)
Run(v, s, ops, i, heldbad) ==
    IF i > Len(ops) THEN [held |-> heldbad, file |-> ~(FileHoldsComputed(s) /\ FileSelfConsistent(s))]
    ELSE LET s1 == Apply(v, s, ops[i]) IN Run(v, s1, ops, i + 1, heldbad \/ ~ResultsStable(s1))
Mutants == VariantNames \ {"sound"}
KillsOf(ops) == [v \in Mutants |-> Run(v, Fresh0, ops, 1, FALSE)]
SoundOn(ops) == LET r == Run("sound", Fresh0, ops, 1, FALSE) IN ~r.held /\ ~r.file

\* the program's own sequence, for model m with parameter value c: model() > output(heavy | light) > model_contrib() >
\* model_full_contrib() > store, and the optimizer's: two solutions evaluated one after the other, stored together
ProgramWalk(m, c, z) ==
    << [k |-> "eval", m |-> m, c |-> c, kind |-> "model", shape |-> "native"],
       [k |-> "output", call |-> 1, part |-> 1, size |-> z],
       [k |-> "eval", m |-> m, c |-> c, kind |-> "contrib", shape |-> "native"],
       [k |-> "eval", m |-> m, c |-> c, kind |-> "full", shape |-> "native"],
       [k |-> "output", call |-> 2, part |-> 1, size |-> z],
       [k |-> "store", dict |-> 1],
       [k |-> "store", dict |-> 2] >>
SolutionsWalk(m, c1, c2) ==
    << [k |-> "eval", m |-> m, c |-> c1, kind |-> "model", shape |-> "native"],
       [k |-> "output", call |-> 1, part |-> 1, size |-> "heavy"],
       [k |-> "eval", m |-> m, c |-> c2, kind |-> "model", shape |-> "native"],
       [k |-> "output", call |-> 2, part |-> 1, size |-> "heavy"],
       [k |-> "store", dict |-> 1],
       [k |-> "store", dict |-> 2] >>
ProgramWalks == {ProgramWalk(m, c, z) : m \in Models, c \in Cfgs, z \in Sizes \ {"lighter"}}
                \cup {SolutionsWalk(m, c1, c2) : m \in Models, c1 \in Cfgs, c2 \in Cfgs}
WalkRow(ops, src) == [ops |-> ops, src |-> src, kills |-> KillsOf(ops)]
EmitProgram == (Export = "walks" /\ V = "sound" /\ hist = <<>>) =>
    /\ \A w \in ProgramWalks : SoundOn(w)
    /\ PrintT(<<"PWALKS", ToJson({WalkRow(w, "program") : w \in ProgramWalks})>>)
EmitWalk == (Export = "walks" /\ V = "sound" /\ (Len(hist) = Depth \/ OpsAt(st) = {})) =>
    PrintT(<<"WALK", ToJson(WalkRow(hist, "walk"))>>)
=============================================================================
