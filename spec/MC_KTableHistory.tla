------------------------- MODULE MC_KTableHistory -------------------------
(* Model-checking instance of KTableHistory: the window alphabet realised by the C20 driver.       *)
(* native points 1..8 at coordinates 2..16                                                          *)
(*   1: 4,6,8        a run of native points                                                         *)
(*   2: 10,12,14     a run of the SAME LENGTH at another position                                   *)
(*   3: 4,6,..,12    the SAME START, another length                                                 *)
(*   4: 4,8          the SAME END POINTS as 1 at another density (not the native selection)         *)
(*   5: 5,7,9        BETWEEN native points (interpolation with neighbours on either side)           *)
(*   6: 11,13,15     between native points, same length, another position                           *)
(*   7: 1,3          partly BELOW the native range (edge value)                                     *)
(*   0: no grid (the full native grid)                                                              *)
EXTENDS KTableHistory
MCWins == << [lo |-> 4,  hi |-> 8,  step |-> 2],
             [lo |-> 10, hi |-> 14, step |-> 2],
             [lo |-> 4,  hi |-> 12, step |-> 2],
             [lo |-> 4,  hi |-> 8,  step |-> 4],
             [lo |-> 5,  hi |-> 9,  step |-> 2],
             [lo |-> 11, hi |-> 15, step |-> 2],
             [lo |-> 1,  hi |-> 3,  step |-> 2] >>
\* Sound variants and mutants are checked in ONE run (TLC -continue).  The mutants are refuted on the
\* sub-alphabet 0, 1, 2, 3, 5 already, and the latched mode without any memo: keeps the number of reported
\* counterexamples small.
MutantAlphabet == Sound \/ (win \in {0, 1, 2, 3, 5} /\ (ModeRead = "construct" => Key = "none"))
=============================================================================
