------------------------- MODULE MC_KTableHistory -------------------------
(* Model-checking instance of KTableHistory: the window alphabet realised by the C20 driver.       *)
(* native points 1..8 at coordinates 2..16                                                          *)
(*   1: 4,6,8        a run of native points                                                         *)
(*   2: 10,12,14     a run of the SAME LENGTH at another position                                   *)
(*   3: 4,6,..,12    the SAME START, another length                                                 *)
(*   4: 4,8          the SAME END POINTS as 1 at another density (not the native selection)         *)
(*   5: 5,7,9        BETWEEN native points (interpolation with neighbours on either side)           *)
(*   6: 11,13,15     between native points, same length, another position                           *)
(*   7: 1,3          partly BELOW the native range (edge value)                                     *)
(*   0: no grid (the full native grid)                                                              *)
(* (T, P) classes of the design run: on nodes; between nodes; T above / P below the table.          *)
EXTENDS KTableHistory, Json
MCWins == << [lo |-> 4,  hi |-> 8,  step |-> 2],
             [lo |-> 10, hi |-> 14, step |-> 2],
             [lo |-> 4,  hi |-> 12, step |-> 2],
             [lo |-> 4,  hi |-> 8,  step |-> 4],
             [lo |-> 5,  hi |-> 9,  step |-> 2],
             [lo |-> 11, hi |-> 15, step |-> 2],
             [lo |-> 1,  hi |-> 3,  step |-> 2] >>
\* the alphabet of contribution lists ("k": the molecular absorption, "c1".."c3": continuum contributions):
\*   1: k alone   2: one continuum AFTER k (the usual set-up)   3: one BEFORE k   4: TWO after k   5: k in the MIDDLE
\*   6: two before k, in another relative order   7: three continuum terms, one before and two after k
MCLists == << <<"k">>, <<"k", "c1">>, <<"c1", "k">>, <<"k", "c1", "c2">>, <<"c1", "k", "c2">>, <<"c2", "c1", "k">>,
              <<"c3", "k", "c2", "c1">> >>
MCTPs  == << [t |-> "node", p |-> "node"], [t |-> "between", p |-> "between"], [t |-> "above", p |-> "below"] >>
\* Sound variants and mutants are checked in ONE run (TLC -continue).  The memo / mode mutants are refuted on the
\* sub-alphabet 0, 1, 2, 3, 5 already under the default configuration, the latched mode without any memo, and the
\* configuration mutants without a memo on windows 0 and 5: keeps the number of reported counterexamples small.
\* The sound variants walk the whole window alphabet under the default configuration and windows 0, 1, 5 (full grid,
\* a native run, between native points) under every other one (with a memo: the reloading route "global" and the
\* in-place route "setter", which keeps the memo).
BaseCfg == interp = "linear" /\ route = "global" /\ extra = "none"
\* The contribution list: the sound variants walk every list on the full grid and a native run, on a node and between
\* nodes, under the default configuration and under a non-default scheme set in place (with and without a memo); the
\* path mutants every list on the full grid under the default configuration.
ListCfg == BaseCfg \/ (interp = "exp" /\ route = "setter" /\ extra = "none")
MutantAlphabet ==
    \/ Sound /\ clist = 1 /\ (IF BaseCfg THEN tp \in {1, 2} \/ win \in {0, 1, 5}
                         ELSE win \in {0, 1, 5} /\ (Key = "none" \/ route \in {"global", "setter"}))
    \/ Sound /\ clist # 1 /\ BaseCfg /\ win \in {0, 1} /\ tp \in {1, 2} /\ Key = "none"
    \/ /\ CfgRead = "both" /\ PathRead = "sum" /\ BaseCfg /\ clist = 1
       /\ win \in {0, 1, 2, 3, 5} /\ tp \in {1, 2} /\ (ModeRead = "construct" => Key = "none")
       /\ (Key \in {"size", "first", "window"} => mode = "k")
    \/ /\ CfgMutant /\ win \in {0, 5} /\ extra = "none" /\ mode = "k" /\ clist = 1
    \/ /\ PathMutant /\ BaseCfg /\ win = 0 /\ tp = 1 /\ mode = "k"

\* ---- export of the configuration alphabet (binding A of the configuration dimension): every class of
\* (temperature position, pressure position) x scheme x route x extra key, with what the specification says about it
Cls == {"node", "between", "below", "above"}
EXTPs == << [t |-> "node", p |-> "node"],    [t |-> "node", p |-> "between"],    [t |-> "node", p |-> "below"],    [t |-> "node", p |-> "above"],
            [t |-> "between", p |-> "node"], [t |-> "between", p |-> "between"], [t |-> "between", p |-> "below"], [t |-> "between", p |-> "above"],
            [t |-> "below", p |-> "node"],   [t |-> "below", p |-> "between"],   [t |-> "below", p |-> "below"],   [t |-> "below", p |-> "above"],
            [t |-> "above", p |-> "node"],   [t |-> "above", p |-> "between"],   [t |-> "above", p |-> "below"],   [t |-> "above", p |-> "above"] >>
EXWins == << >>
\* ... and the alphabet of contribution lists (under the default configuration, on a node), with what the specification
\* says about each: the twin relation holds, the path holds the sum, and which mutants the list cannot expose
EmitCfg == /\ TLCGet("level") < 3
           /\ clist # 1 => (BaseCfg /\ tp = 1)
           /\ (evald /\ mode = "k" /\ clist = 1) =>
                PrintT(<<"VEC", ToJson([t |-> TPs[tp].t, p |-> TPs[tp].p, interp |-> interp, route |-> route, extra |-> extra,
                                        twin |-> TwinEqualsXsec, schemefree |-> SchemeFree(win, tp),
                                        ng |-> NG])>>)
           /\ (evald /\ mode = "k" /\ BaseCfg /\ tp = 1) =>
                PrintT(<<"LST", ToJson([id |-> clist, list |-> CL, twin |-> TwinEqualsXsec, orderfree |-> OrderFree,
                                        kfirst |-> (KPos(CL) = 1), klast |-> (KPos(CL) = Len(CL)),
                                        ncont |-> Cardinality(Conts(CL))])>>)
=============================================================================
