SPECIFICATION HSpec
CONSTANTS
  NP = 3
  Vals = 3
  Depth = 4
  Export = FALSE
CONSTRAINT Bound
PROPERTY ReadYourWrite
PROPERTY FrameRule
PROPERTY RunIsPure
CHECK_DEADLOCK FALSE
