------------------------- MODULE MC_EmissionCalls -------------------------
(* Exhaustive / export model for the call walks of C02 (EmissionCalls.tla): tables, source sets and the export. *)
EXTENDS EmissionCalls, Json
CONSTANTS Export, TabId

MCBtabs == << << <<1, 2>>, <<2, 7>>, <<5, 9>> >>,
              << <<3, 1>>, <<4, 6>>, <<5, 7>> >> >>
MCBtab  == MCBtabs[TabId]
MCBstar == <<7, 11>>

\* three sources: 1, 2 = two molecules of ONE absorption contribution, 3 = a second (grey) contribution
MCGroups == << {1, 2}, {3} >>
MCComps  == << {1}, {2}, {3} >>
\* per source, per layer, per wavenumber (ln 2 units): transparent and opaque sources, a source that is zero,
\* a source that saturates on its own (>= ClampE at every wavenumber) next to ones that do not
MCSrc2 == <<
   << << <<1, 0>>, <<0, 2>> >>,   << <<0, 1>>, <<2, 0>> >>,  << <<1, 1>>, <<0, 0>> >> >>,
   << << <<3, 0>>, <<0, 0>> >>,   << <<0, 0>>, <<0, 0>> >>,  << <<0, 2>>, <<1, 3>> >> >>,
   << << <<15, 15>>, <<1, 0>> >>, << <<0, 1>>, <<1, 1>> >>,  << <<2, 0>>, <<0, 3>> >> >>,
   << << <<1, 3>>, <<2, 1>> >>,   << <<3, 0>>, <<1, 2>> >>,  << <<0, 1>>, <<1, 0>> >> >> >>
MCSrc3 == <<
   << << <<1, 0>>, <<0, 2>>, <<1, 1>> >>,   << <<0, 1>>, <<2, 0>>, <<0, 0>> >>,  << <<1, 1>>, <<0, 0>>, <<0, 3>> >> >>,
   << << <<0, 0>>, <<0, 0>>, <<0, 0>> >>,   << <<3, 0>>, <<0, 1>>, <<1, 0>> >>,  << <<0, 2>>, <<1, 3>>, <<2, 2>> >> >>,
   << << <<1, 0>>, <<15, 15>>, <<0, 1>> >>, << <<0, 1>>, <<1, 1>>, <<2, 0>> >>,  << <<2, 0>>, <<0, 3>>, <<1, 1>> >> >> >>
MCSrcTable == IF NL = 2 THEN MCSrc2 ELSE MCSrc3

ASSUME TableOk
ASSUME \A i \in QuadIds : i \in DOMAIN QuadTable
ASSUME \A i \in SrcIds : i \in DOMAIN SrcTable /\ Len(SrcTable[i]) = NS
                         /\ \A s \in 1..NS : Len(SrcTable[i][s]) = NL /\ \A l \in 1..NL : Len(SrcTable[i][s][l]) = NW

ECEmit == (Export /\ cur = "idle" /\ Len(calls) = MaxCalls) =>
    PrintT(<<"WALK", ToJson([sid |-> sid, src |-> SrcTable[sid], tp |-> tp, qid |-> qid, quad |-> Quad, kind |-> kind,
                             calls |-> calls, log |-> log, isothermal |-> Isothermal, weightsok |-> WeightsFacts(Quad),
                             rp |-> Rp, rs |-> Rs, dist |-> Dist, kd |-> KD,
                             tmin |-> TMinOf(tp), tmax |-> TMaxOf(tp)])>>)
=============================================================================
