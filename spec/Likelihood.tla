------------------------------ MODULE Likelihood ------------------------------
(***************************************************************************)
(* C06 -- every sampler is handed the Gaussian log-likelihood of the       *)
(* binned model; prior callback order; invalid models never raise and      *)
(* never give a finite likelihood; any sequence of valid/invalid vectors.  *)
(*                                                                         *)
(* The mechanism is written in the shape of the implementation             *)
(*   compile_params : fitted parameters in declaration order, one prior    *)
(*                    per fitted parameter (parallel lists)                *)
(*   prior callback : cube[i] = fitting_priors[i].sample(u[i])             *)
(*   update_model   : zip(x, fitting_parameters, fitting_priors):          *)
(*                    fset(prior.prior(x_i))     (value | 10**value)       *)
(*   chisq_trans    : model on the observation grid -> bin_model ->        *)
(*                    sum(((data - binned)/sigma)^2); InvalidModelException*)
(*                    (and every subclass) -> NaN                          *)
(*   loglike        : -sum(log(sigma*sqrt(2 pi))) - chi2/2                 *)
(* The transcendental constant -sum(log(sigma sqrt(2 pi))) is added by the *)
(* harness; the specification carries h = chi2/2 as an exact rational.     *)
(* The forward model is an exact linear toy  native_k = SUM_p C[p][k] v[p] *)
(* (the harness has the same toy as a real ForwardModel subclass); what is *)
(* specified is *which vector is written, in which order, what is binned,  *)
(* how faults are absorbed and that nothing is carried between calls*.     *)
(***************************************************************************)
EXTENDS Integers, Sequences, FiniteSets, TLC, Json, Rat, LikeRules

CONSTANTS
  NP,         \* model parameters 1..NP in declaration order
  FitFlag,    \* [1..NP -> BOOLEAN]            enabled for fitting
  PMode,      \* [1..NP -> {"lin","log"}]      space of the parameter's prior
  Lo, Hi,     \* [1..NP -> Int]                prior bounds in prior space (value / exponent)
  Val0,       \* [1..NP -> Int]                linear values before the first call
  XSet,       \* [1..NP -> SUBSET Int]         sampled-space coordinates handed to loglike
  UDen,       \* unit-cube grid  u = j/UDen, j = 0..UDen
  K, Coef,    \* native points 1..K,  Coef[p][k] integer
  Bins,       \* sequence of sets of native indices: the observation's bins
  Data, Sig,  \* per bin: observed value, error bar (> 0)
  ChemSet, ChemLimit,   \* InvalidChemistry  iff  SUM_{p in ChemSet} v[p] > ChemLimit
  TLow, THigh,          \* InvalidTemperature iff v[TLow] >= v[THigh]   (inverted nodes)
  Faults,     \* exception classes a fault-injecting contribution may raise on any call
  Caught,     \* classes absorbed by the callback (InvalidModelException catches all subclasses)
  ZeroChi     \* "value" | "nan" : result of a perfect fit chi2 = 0  (as built at the pinned commit: "nan")

VARIABLES val,     \* [1..NP -> Int]  linear values held by the model
          cube,    \* last output of the prior callback (sequence of rationals, <<>> before)
          res,     \* last loglike call  [k, h, x, inj]
          raised,  \* an exception escaped a callback
          hist     \* observation only (hidden by VIEW in exhaustive configs)
vars == <<val, cube, res, raised, hist>>
view == <<val, cube, res, raised>>

\* ------------------------------------------------------------------ compile
FitSeq == SelectSeq([i \in 1..NP |-> i], LAMBDA p : FitFlag[p])     \* fitting_parameters
NF     == Len(FitSeq)
PriorSeq == [i \in 1..NF |-> [mode |-> PMode[FitSeq[i]], lo |-> Lo[FitSeq[i]], hi |-> Hi[FitSeq[i]]]]  \* fitting_priors

\* ------------------------------------------------------------------- priors
PriorWrite(pr, x)  == PriorToModel(pr.mode, x)                          \* Prior.prior
PriorSample(pr, u) == UniformSample(Q(pr.lo), Q(pr.hi), u)              \* Prior.sample

\* -------------------------------------------------------------------- model
RECURSIVE SumFn(_, _)
SumFn(f, n) == IF n = 0 THEN 0 ELSE f[n] + SumFn(f, n - 1)
Native(v, k) == SumFn([p \in 1..NP |-> Coef[p][k] * v[p]], NP)
RECURSIVE SumOver(_, _)
SumOver(f, S) == IF S = {} THEN 0 ELSE LET e == CHOOSE e \in S : TRUE IN f[e] + SumOver(f, S \ {e})
BinMean(v, b) == Norm(SumOver([k \in 1..K |-> Native(v, k)], Bins[b]), Cardinality(Bins[b]))
Chi2(v) == RSumSeq([b \in 1..Len(Bins) |->
              LET z == RDiv(RSub(Q(Data[b]), BinMean(v, b)), Q(Sig[b])) IN RMul(z, z)])
Outcome(v) == IF SumOver(v, ChemSet) > ChemLimit THEN "InvalidChemistry"
              ELSE IF v[TLow] >= v[THigh] THEN "InvalidTemperature"
              ELSE "ok"

\* --------------------------------------------------------------- mechanism
\* update_model: walk the zipped lists, write parameter FitSeq[i] with PriorSeq[i]
RECURSIVE Written(_, _, _)
Written(v, x, i) == IF i > NF THEN v
                    ELSE Written([v EXCEPT ![FitSeq[i]] = PriorWrite(PriorSeq[i], x[i])], x, i + 1)

Mk(k, h, x, inj) == [k |-> k, h |-> h, x |-> x, inj |-> inj]

Init == /\ val = Val0 /\ cube = <<>> /\ raised = FALSE /\ hist = <<>>
        /\ res = Mk("none", RZero, <<>>, "none")

UGrid == {Norm(j, UDen) : j \in 0..UDen}
PriorCall(u) ==
    /\ cube' = [i \in 1..NF |-> PriorSample(PriorSeq[i], u[i])]
    /\ UNCHANGED <<val, res, raised>>
    /\ hist' = Append(hist, [op |-> "prior", u |-> u, out |-> cube'])

ResultOf(v2, x, inj) ==
    LET oc == IF inj # "none" THEN inj ELSE Outcome(v2)
        c2 == Chi2(v2)
        k  == ResultKind(oc, Caught, ZeroChi, c2)
    IN  Mk(k, IF k = "num" THEN RDiv(c2, Q(2)) ELSE RZero, x, inj)

LogLike(x, inj) ==
    /\ val' = Written(val, x, 1)
    /\ res' = ResultOf(val', x, inj)
    /\ raised' = (raised \/ res'.k = "raise")
    /\ UNCHANGED cube
    /\ hist' = Append(hist, [op |-> "loglike", x |-> x, inj |-> inj, k |-> res'.k, h |-> res'.h,
                             vals |-> val'])

Vectors(n) == IF n = 2 THEN {<<a, b>> : a \in XSet[FitSeq[1]], b \in XSet[FitSeq[2]]}
              ELSE IF n = 3 THEN {<<a, b, c>> : a \in XSet[FitSeq[1]], b \in XSet[FitSeq[2]], c \in XSet[FitSeq[3]]}
              ELSE {<<a>> : a \in XSet[FitSeq[1]]}
UVectors(n) == IF n = 2 THEN {<<a, b>> : a \in UGrid, b \in UGrid}
               ELSE IF n = 3 THEN {<<a, b, c>> : a \in UGrid, b \in UGrid, c \in UGrid}
               ELSE {<<a>> : a \in UGrid}

PriorStep == \E u \in UVectors(NF) : PriorCall(u)
LikeStep  == \E x \in Vectors(NF) : LogLike(x, "none")
FaultStep == \E x \in Vectors(NF), f \in Faults : LogLike(x, f)
Next == PriorStep \/ LikeStep \/ FaultStep
Spec == Init /\ [][Next]_vars

\* ------------------------------------------------------------ the property
\* what the statement says about a call at x, as a function of x and of the settings only
PosOf(p) == CHOOSE i \in 1..NF : FitSeq[i] = p
ExpV(x)  == [p \in 1..NP |-> IF FitFlag[p]
                              THEN (IF PMode[p] = "lin" THEN x[PosOf(p)] ELSE Pow(10, x[PosOf(p)]))
                              ELSE Val0[p]]
Called   == res.k # "none"
InvalidCall == res.inj # "none" \/ Outcome(ExpV(res.x)) # "ok"

ValidEqualsGaussian == (Called /\ ~InvalidCall) =>
                          /\ res.k = "num"
                          /\ res.h = RDiv(Chi2(ExpV(res.x)), Q(2))      \* also: no carry-over from earlier calls
InvalidNeverFinite  == (Called /\ InvalidCall) => res.k # "num"
NeverRaises         == ~raised /\ res.k # "raise"
WrittenIsPriorOfX   == Called => \A p \in 1..NP : FitFlag[p] => val[p] = ExpV(res.x)[p]
OnlyFittedWritten   == \A p \in 1..NP : ~FitFlag[p] => val[p] = Val0[p]
OrderIsFitOrder     == cube # <<>> =>
                          /\ Len(cube) = NF
                          /\ \A i \in 1..NF : LET p == FitSeq[i]
                                                  a == IF Lo[p] <= Hi[p] THEN Lo[p] ELSE Hi[p]
                                                  b == IF Lo[p] <= Hi[p] THEN Hi[p] ELSE Lo[p]
                                              IN  RLe(Q(a), cube[i]) /\ RLe(cube[i], Q(b))
DeclarationOrder    == \A i \in 1..NF, j \in 1..NF : i < j => FitSeq[i] < FitSeq[j]
FitsInv             == Fits(res.h) /\ \A p \in 1..NP : val[p] < Big
\* action property: a loglike call never depends on, nor disturbs, the unfitted parameters
UnfittedFrozen == [][\A p \in 1..NP : ~FitFlag[p] => val'[p] = val[p]]_vars
=============================================================================
