------------------------------ MODULE Likelihood ------------------------------
(***************************************************************************)
(* C06 -- every sampler is handed the Gaussian log-likelihood of the       *)
(* binned model; prior callback order; invalid models never raise and      *)
(* never give a finite likelihood; any sequence of valid/invalid vectors.  *)
(*                                                                         *)
(* The mechanism is written in the shape of the implementation             *)
(*   compile_params : fitted parameters in declaration order, one prior    *)
(*                    per fitted parameter (parallel lists)                *)
(*   prior callback : cube[i] = fitting_priors[i].sample(u[i])             *)
(*   compile_params : the prior of a fitted parameter is the one given     *)
(*                    through set_prior if any (it may live in the OTHER   *)
(*                    space than the parameter's mode: LogUniform on a     *)
(*                    linear-mode parameter, Uniform on a log-mode one),   *)
(*                    else the default built from mode and bounds          *)
(*   update_model   : zip(x, fitting_parameters, fitting_priors):          *)
(*                    fset(prior.prior(x_i))     (value | 10**value, by    *)
(*                    the space of the PRIOR, not the parameter's mode)    *)
(*   chisq_trans    : model on the observation grid -> bin_model ->        *)
(*                    sum(((data - binned)/sigma)^2); InvalidModelException*)
(*                    (and every subclass) -> NaN; a model that returns    *)
(*                    NaN in every bin without raising -> NaN; NaN in some *)
(*                    bins -> those bins are skipped                       *)
(*   loglike        : -sum(log(sigma*sqrt(2 pi))) - chi2/2                 *)
(*   observation    : a parameter may live on the OBSERVATION instead of   *)
(*                    the forward model (compile_params appends the        *)
(*                    observation's fitted parameters after the model's):  *)
(*                    an instrumental offset / scale that changes the      *)
(*                    observation's `spectrum`.  The data side of chi2 is  *)
(*                    then a function of the parameter vector too: every   *)
(*                    evaluation compares the observation AS IT IS AFTER   *)
(*                    THAT EVALUATION'S update_model (DataRead = "after"); *)
(*                    a copy captured when compute_fit starts ("captured") *)
(*                    or read before update_model ("before": one call      *)
(*                    late) are the expected-counterexample variants       *)
(*   long-lived     : ONE optimizer is used for several observations, one  *)
(*   optimizer        after the other: set_observed(o) ; compile_params() ; *)
(*                    compute_fit() hands NEW callbacks to the sampler.     *)
(*                    Every evaluation bins the model to the bins of the    *)
(*                    observation that is current (BinnerRule = "at_set":   *)
(*                    set_observed rebuilds the binner -- the code);        *)
(*                    "lazy_once" (built at the first evaluation and kept)  *)
(*                    and "at_init" (built by the constructor only) are the *)
(*                    expected-counterexample variants: the model is binned *)
(*                    to the bins of an EARLIER observation (silently wrong *)
(*                    for the same number of bins, a broadcasting error for *)
(*                    another number).                                      *)
(* The transcendental constant -sum(log(sigma sqrt(2 pi))) is added by the *)
(* harness; the specification carries h = chi2/2 as an exact rational.     *)
(* The forward model is an exact linear toy  native_k = SUM_p C[p][k] v[p] *)
(* (the harness has the same toy as a real ForwardModel subclass); what is *)
(* specified is *which vector is written, in which order, what is binned,  *)
(* how faults are absorbed and that nothing is carried between calls*.     *)
(***************************************************************************)
EXTENDS Integers, Sequences, FiniteSets, TLC, Json, Rat, LikeRules

CONSTANTS
  NP,         \* model parameters 1..NP in declaration order
  FitFlag,    \* [1..NP -> BOOLEAN]            enabled for fitting
  ParMode,    \* [1..NP -> {"lin","log"}]      the parameter's own fitting mode
  Lo, Hi,     \* [1..NP -> Int]                the parameter's bounds in the space of its mode (value / exponent):
              \*                               the default prior
  UserSet,    \* [1..NP -> BOOLEAN]            a prior was given through set_prior
  UMode,      \* [1..NP -> {"lin","log"}]      its space (independent of ParMode)
  ULo, UHi,   \* [1..NP -> Int]                its bounds in its own space
  ObsRole,    \* [1..NP -> {"model","offset","scale"}]  where the parameter lives: on the forward model, or on the
              \*                               observation as an additive offset / a multiplicative scale of its spectrum
  DataRead,   \* "after": chi2 reads the observation's spectrum after update_model (the code) | "before": before it
              \*          (one evaluation late) | "captured": a copy taken when compute_fit started (never updated)
  WriteBy,    \* "prior": update_model applies prior.prior (the code) | "parmode": it exponentiates by the
              \*          parameter's mode (expected-counterexample variant)
  Val0,       \* [1..NP -> Int]                linear values before the first call
  XSet,       \* [1..NP -> SUBSET Int]         sampled-space coordinates handed to loglike
  UDen,       \* unit-cube grid  u = j/UDen, j = 0..UDen
  K, Coef,    \* native points 1..K,  Coef[p][k] integer
  Bins,       \* sequence of sets of native indices: the observation's bins
  Data, Sig,  \* per bin: observed value, error bar (> 0)        (Bins, Data, Sig: observation 1)
  MoreObs,    \* sequence of records [bins, data, sig]: observations 2, 3, .. the SAME optimizer may be pointed at
              \*          later (other bin layout, other number of bins, other data and error bars); <<>> = none
  BinnerRule, \* "at_set": set_observed rebuilds the binner (the code) | "lazy_once": built at the first evaluation,
              \*          never rebuilt | "at_init": built by the constructor only
  ChemLayers, ChemLimit,  \* the atmosphere has layers 1..Len(ChemLayers); the gases of layer l are the parameters ChemLayers[l];
              \*          InvalidChemistry iff SUM_{p in ChemLayers[l]} v[p] > ChemLimit in SOME layer l
  ChemRule,   \* "any": the model rejects the atmosphere as soon as one layer is above the limit (the code, and the
              \*          statement) | "all": only when every layer is (expected-counterexample variant: an atmosphere
              \*          above unity in part of its layers is scored with a finite likelihood)
  TLow, THigh,          \* InvalidTemperature iff v[TLow] >= v[THigh]   (inverted nodes)
  Faults,     \* exception classes a fault-injecting contribution may raise on any call
  NaNFaults,  \* subset of NaNKinds: the model returns NaN in all / some bins without raising, on any call
  NaNBins,    \* the bins that are NaN under "NaNSome" (a proper, non-empty subset of the bins)
  AllNaN,     \* "nan" | "zero": result when no bin can be compared (the code: "nan")
  Caught,     \* classes absorbed by the callback (InvalidModelException catches all subclasses)
  ZeroChi     \* "value" | "nan" : result of a perfect fit chi2 = 0  (as built at the pinned commit: "nan")

VARIABLES val,     \* [1..NP -> Int]  linear values held by the model
          cube,    \* last output of the prior callback (sequence of rationals, <<>> before)
          res,     \* last loglike call  [k, h, x, inj]
          raised,  \* an exception escaped a callback
          ob,      \* the observation the optimizer is pointed at (1..NObs)
          bn,      \* the observation whose bins the optimizer's binner was built from (0: no binner yet)
          hist     \* observation only (hidden by VIEW in exhaustive configs)
vars == <<val, cube, res, raised, ob, bn, hist>>
view == <<val, cube, res, raised, ob, bn>>

\* ------------------------------------------------------------- observations
NObs == 1 + Len(MoreObs)
ObsRec(o) == IF o = 1 THEN [bins |-> Bins, data |-> Data, sig |-> Sig] ELSE MoreObs[o - 1]

\* ------------------------------------------------------------------ compile
IsObs(p) == ObsRole[p] # "model"
\* fitting_parameters: the model's fitted parameters in declaration order, then the observation's
FitSeq == SelectSeq([i \in 1..NP |-> i], LAMBDA p : FitFlag[p] /\ ~IsObs(p))
          \o SelectSeq([i \in 1..NP |-> i], LAMBDA p : FitFlag[p] /\ IsObs(p))
NF     == Len(FitSeq)
PriorOf(p) == IF UserSet[p] THEN [mode |-> UMode[p], lo |-> ULo[p], hi |-> UHi[p]]       \* set_prior wins
              ELSE [mode |-> ParMode[p], lo |-> Lo[p], hi |-> Hi[p]]                    \* default from mode + bounds
PriorSeq == [i \in 1..NF |-> PriorOf(FitSeq[i])]                                        \* fitting_priors

\* ------------------------------------------------------------------- priors
PriorWrite(i, x)   == PriorToModel(IF WriteBy = "prior" THEN PriorSeq[i].mode ELSE ParMode[FitSeq[i]], x)  \* Prior.prior
PriorSample(pr, u) == UniformSample(Q(pr.lo), Q(pr.hi), u)              \* Prior.sample

\* -------------------------------------------------------------------- model
RECURSIVE SumFn(_, _)
SumFn(f, n) == IF n = 0 THEN 0 ELSE f[n] + SumFn(f, n - 1)
Native(v, k) == SumFn([p \in 1..NP |-> IF IsObs(p) THEN 0 ELSE Coef[p][k] * v[p]], NP)     \* model parameters only
RECURSIVE SumOver(_, _)
SumOver(f, S) == IF S = {} THEN 0 ELSE LET e == CHOOSE e \in S : TRUE IN f[e] + SumOver(f, S \ {e})
\* bo: the observation whose bins the binner holds
BinMean(v, bo, b) == Norm(SumOver([k \in 1..K |-> Native(v, k)], ObsRec(bo).bins[b]), Cardinality(ObsRec(bo).bins[b]))
\* the observation's spectrum when its parameters hold the values vd: Data * scale + offset
RECURSIVE ProdOver(_, _)
ProdOver(f, S) == IF S = {} THEN 1 ELSE LET e == CHOOSE e \in S : TRUE IN f[e] * ProdOver(f, S \ {e})
DataAt(vd, o, b) == ObsRec(o).data[b] * ProdOver(vd, {p \in 1..NP : ObsRole[p] = "scale"})
                 + SumOver(vd, {p \in 1..NP : ObsRole[p] = "offset"})
\* chi2 over the bins that can be compared (skip = the NaN bins); v: values the model is evaluated at,
\* vd: values the observation's spectrum is read at; o: the observation (data, error bars), bo: the observation
\* whose bins the model is binned to (same number of bins; otherwise the subtraction cannot be formed)
Chi2Mech(v, vd, skip, o, bo) == RSumSeq([b \in 1..Len(ObsRec(o).data) |->
              IF b \in skip THEN RZero
              ELSE LET z == RDiv(RSub(Q(DataAt(vd, o, b)), BinMean(v, bo, b)), Q(ObsRec(o).sig[b])) IN RMul(z, z)])
\* the statement: the model binned to the bins of the observation it is compared with
Chi2Skip(v, vd, skip, o) == Chi2Mech(v, vd, skip, o, o)
Chi2(v, vd, o) == Chi2Skip(v, vd, {}, o)
Conformable(o, bo) == Len(ObsRec(bo).bins) = Len(ObsRec(o).data)
LayerTotals(v) == [l \in 1..Len(ChemLayers) |-> SumOver(v, ChemLayers[l])]
OutcomeBy(v, rule) == IF LayersAbove(LayerTotals(v), ChemLimit, rule) THEN "InvalidChemistry"
                      ELSE IF v[TLow] >= v[THigh] THEN "InvalidTemperature"
                      ELSE "ok"
Outcome(v) == OutcomeBy(v, ChemRule)             \* what the forward model does
OutcomeStated(v) == OutcomeBy(v, "any")          \* what the statement calls an invalid atmosphere

\* --------------------------------------------------------------- mechanism
\* update_model: walk the zipped lists, write parameter FitSeq[i] with PriorSeq[i]
RECURSIVE Written(_, _, _)
Written(v, x, i) == IF i > NF THEN v
                    ELSE Written([v EXCEPT ![FitSeq[i]] = PriorWrite(i, x[i])], x, i + 1)

Mk(k, h, x, inj) == [k |-> k, h |-> h, x |-> x, inj |-> inj]

Init == /\ val = Val0 /\ cube = <<>> /\ raised = FALSE /\ hist = <<>>
        /\ res = Mk("none", RZero, <<>>, "none")
        /\ ob = 1 /\ bn = IF BinnerRule = "lazy_once" THEN 0 ELSE 1

UGrid == {Norm(j, UDen) : j \in 0..UDen}
PriorCall(u) ==
    /\ cube' = [i \in 1..NF |-> PriorSample(PriorSeq[i], u[i])]
    /\ UNCHANGED <<val, res, raised, ob, bn>>
    /\ hist' = Append(hist, [op |-> "prior", u |-> u, out |-> cube'])

\* set_observed(o) ; compile_params() ; compute_fit(): the long-lived optimizer is pointed at another observation and
\* hands new callbacks to its sampler.  Nothing else changes (the model keeps the values of the last evaluation).
SetObserved(o) ==
    /\ o \in 1..NObs /\ o # ob
    /\ ob' = o
    /\ bn' = IF BinnerRule = "at_set" THEN o ELSE bn
    /\ res' = Mk("none", RZero, <<>>, "none")
    /\ UNCHANGED <<val, cube, raised>>
    /\ hist' = Append(hist, [op |-> "setobs", ob |-> o])

\* which values the data side of chi2 is read at
DataSide(before, after) == IF DataRead = "after" THEN after ELSE IF DataRead = "before" THEN before ELSE Val0

\* bo: the observation whose bins the binner holds at this evaluation.  A model that raises never reaches the
\* subtraction; a model that returns is binned to bo's bins and subtracted from ob's data: with another number of
\* bins that is a broadcasting error, which no callback absorbs.
ResultOf(v2, vd, x, inj, bo) ==
    LET oc == IF inj # "none" THEN inj ELSE Outcome(v2)
        returns == oc \in {"ok", "NaNAll", "NaNSome"}
        c2 == IF ~returns \/ ~Conformable(ob, bo) THEN RZero
              ELSE IF oc = "NaNAll" THEN RZero                  \* nansum of nothing
              ELSE IF oc = "NaNSome" THEN Chi2Mech(v2, vd, NaNBins, ob, bo)
              ELSE Chi2Mech(v2, vd, {}, ob, bo)
        k  == IF returns /\ ~Conformable(ob, bo) THEN "raise" ELSE ResultKind(oc, Caught, ZeroChi, AllNaN, c2)
    IN  Mk(k, IF k \in {"num", "part"} THEN RDiv(c2, Q(2)) ELSE RZero, x, inj)

LogLike(x, inj) ==
    /\ val' = Written(val, x, 1)
    /\ bn' = IF bn = 0 THEN ob ELSE bn                          \* "lazy_once": built now if there is none
    /\ res' = ResultOf(val', DataSide(val, val'), x, inj, bn')
    /\ raised' = (raised \/ res'.k = "raise")
    /\ UNCHANGED <<cube, ob>>
    /\ hist' = Append(hist, [op |-> "loglike", x |-> x, inj |-> inj, k |-> res'.k, h |-> res'.h,
                             vals |-> val', ob |-> ob])

Vectors(n) == IF n = 4 THEN {<<a, b, c, d>> : a \in XSet[FitSeq[1]], b \in XSet[FitSeq[2]], c \in XSet[FitSeq[3]],
                                                 d \in XSet[FitSeq[4]]}
              ELSE IF n = 2 THEN {<<a, b>> : a \in XSet[FitSeq[1]], b \in XSet[FitSeq[2]]}
              ELSE IF n = 3 THEN {<<a, b, c>> : a \in XSet[FitSeq[1]], b \in XSet[FitSeq[2]], c \in XSet[FitSeq[3]]}
              ELSE {<<a>> : a \in XSet[FitSeq[1]]}
UVectors(n) == IF n = 4 THEN {<<a, b, c, d>> : a \in UGrid, b \in UGrid, c \in UGrid, d \in UGrid}
               ELSE IF n = 2 THEN {<<a, b>> : a \in UGrid, b \in UGrid}
               ELSE IF n = 3 THEN {<<a, b, c>> : a \in UGrid, b \in UGrid, c \in UGrid}
               ELSE {<<a>> : a \in UGrid}

PriorStep == \E u \in UVectors(NF) : PriorCall(u)
LikeStep  == \E x \in Vectors(NF) : LogLike(x, "none")
FaultStep == \E x \in Vectors(NF), f \in (Faults \cup NaNFaults) : LogLike(x, f)
SetStep   == \E o \in 1..NObs : SetObserved(o)
Next == PriorStep \/ LikeStep \/ FaultStep \/ SetStep
Spec == Init /\ [][Next]_vars

\* ------------------------------------------------------------ the property
\* what the statement says about a call at x, as a function of x and of the settings only
PosOf(p) == CHOOSE i \in 1..NF : FitSeq[i] = p
ExpV(x)  == [p \in 1..NP |-> IF FitFlag[p]
                              THEN (IF PriorOf(p).mode = "lin" THEN x[PosOf(p)] ELSE Pow(10, x[PosOf(p)]))
                              ELSE Val0[p]]
Called   == res.k # "none"
PartialCall == res.inj = "NaNSome"                      \* some bins NaN: the statement is silent
InvalidCall == ~PartialCall /\ (res.inj # "none" \/ OutcomeStated(ExpV(res.x)) # "ok")     \* includes "NaNAll"

ValidEqualsGaussian == (Called /\ ~InvalidCall /\ ~PartialCall) =>
                          /\ res.k = "num"
                          \* model side AND data side at the values x describes: no carry-over from earlier
                          \* calls, no frozen or late copy of the observation
                          \* ... binned to the bins of the observation the optimizer is pointed at NOW
                          /\ res.h = RDiv(Chi2(ExpV(res.x), ExpV(res.x), ob), Q(2))
InvalidNeverFinite  == (Called /\ InvalidCall) => res.k # "num"
\* some bins NaN: non-finite, or the Gaussian over the comparable bins -- never anything else
PartialSkipsOrNaN   == (Called /\ PartialCall) =>
                          \/ res.k = "nan"
                          \/ res.k = "part" /\ res.h = RDiv(Chi2Skip(ExpV(res.x), ExpV(res.x), NaNBins, ob), Q(2))
NeverRaises         == ~raised /\ res.k # "raise"
WrittenIsPriorOfX   == Called => \A p \in 1..NP : FitFlag[p] => val[p] = ExpV(res.x)[p]
OnlyFittedWritten   == \A p \in 1..NP : ~FitFlag[p] => val[p] = Val0[p]
OrderIsFitOrder     == cube # <<>> =>
                          /\ Len(cube) = NF
                          /\ \A i \in 1..NF : LET pr == PriorOf(FitSeq[i])
                                                  a == IF pr.lo <= pr.hi THEN pr.lo ELSE pr.hi
                                                  b == IF pr.lo <= pr.hi THEN pr.hi ELSE pr.lo
                                              IN  RLe(Q(a), cube[i]) /\ RLe(cube[i], Q(b))
\* the model's parameters first (declaration order), then the observation's (declaration order)
DeclarationOrder    == \A i \in 1..NF, j \in 1..NF : i < j =>
                          /\ (IsObs(FitSeq[i]) => IsObs(FitSeq[j]))
                          /\ (IsObs(FitSeq[i]) = IsObs(FitSeq[j]) => FitSeq[i] < FitSeq[j])
\* the binner an evaluation used is the current observation's (0: nothing evaluated since construction)
BinnerOfObservation == Called => bn = ob
FitsInv             == Fits(res.h) /\ \A p \in 1..NP : val[p] < Big
\* action property: a loglike call never depends on, nor disturbs, the unfitted parameters
UnfittedFrozen == [][\A p \in 1..NP : ~FitFlag[p] => val'[p] = val[p]]_vars
=============================================================================
