SPECIFICATION Spec
CONSTANTS
  NMin = 2
  NMax = 3
  TVals = {1,2,4}
  SWs = {0}
  MaxNodes = 0
  Limits = {1000}
  Kinds = {"rodgers"}
  Rule = "spec"
  RodVariant = "norm_columns"
  SignedNodes = "no"
  Export = FALSE
INVARIANT InvalidNeverNaN
INVARIANT OnePerLayer
INVARIANT OnlyDocumentedRejections
INVARIANT PositiveFinite
INVARIANT WithinControlRange
INVARIANT ConstantWhenControlsEqual
INVARIANT NPointRejectedIff
INVARIANT StrictImpliesInvalid
INVARIANT GuillotListedRejected
INVARIANT GuillotPhysicalAccepted
INVARIANT FitsInv
CONSTRAINT Emit
CHECK_DEADLOCK FALSE
