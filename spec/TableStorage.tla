---------------------------- MODULE TableStorage ----------------------------
(* C04 -- "all table shapes ..., cross-section and k-table layouts": how the tabulated        *)
(* values are STORED is a free dimension of the property.  Interp.tla speaks about the       *)
(* logical table tab[p][t] (per wavenumber, per g-ordinate); the opacity object is handed an  *)
(* n-dimensional array, i.e. a flat memory block plus an axis order (strides), an element     *)
(* type, and a holder (array given directly, pickle, HDF5 kept in memory or streamed,         *)
(* object served by the cache).  This module models the flat block and its views and states   *)
(* what "the corner spectrum of a cell" is in terms of them, and it enumerates the storage    *)
(* classes the binding has to drive the real code through (records STORE).                    *)
(*                                                                                           *)
(*   order   = permutation of the logical axes, slowest-varying first: <<1,2,3,4>> is the     *)
(*             C-contiguous (P,T,wn,g) block, <<4,3,2,1>> Fortran order, <<1,2,4,3>> a         *)
(*             transposed view of a (P,T,g,wn) source, ...                                    *)
(*   Flat    = the corner spectrum of cell corner (p,t) as handed to the interpolation        *)
(*             kernel, whose output KTable.opacity reshapes as (wn, g):                       *)
(*             "logical" = flattened in index order (wn-major)   -- the specification         *)
(*             "memory"  = flattened in memory order             -- expected counterexample   *)
(*                                                                                           *)
(* The holders cache_* (object served by OpacityCache for cross-sections, by KTableCache for k-tables, *)
(* found by discover()) receive the interpolation mode through the routes of ModeRoute.tla: the       *)
(* binding crosses every cache holder with every exported route.                                      *)
(*                                                                                           *)
(* Invariants (hold for every order): OffsetBijective (a view addresses every element of the  *)
(* block exactly once), ViewFaithful (reading index idx through the view gives the logical    *)
(* element), PlaneHandedLogical (element k of the handed spectrum is the value at             *)
(* (wn, g) = (k div NG, k mod NG)).  XC_TableStorage_memorder.cfg sets Flatten = "memory":     *)
(* TLC must refute PlaneHandedLogical (for an order in which g varies slower than wn).        *)
EXTENDS Integers, Sequences, FiniteSets, TLC, Json
CONSTANTS NPs, NTs, NWs, NGSet, \* logical axis sizes of the model block; number of g-ordinates 0: cross-section table (3 axes)
          OrderSet,             \* "all" | "named"
          Flatten,              \* "logical" | "memory"
          Mags8, Mags4,         \* magnitudes 10^-m (cm^2) to be driven with 8-byte / 4-byte elements
          GridDtypes,           \* element types of the GRIDS (temperature / pressure nodes): subset of {"i8","i4","i2","f4","f8"}
          Export
VARIABLES phase, NGs, order, p, t, flat
vars == <<phase, NGs, order, p, t, flat>>

NA    == IF NGs = 0 THEN 3 ELSE 4
Size  == IF NGs = 0 THEN <<NPs, NTs, NWs>> ELSE <<NPs, NTs, NWs, NGs>>
Perms == {s \in [1..NA -> 1..NA] : \A i, j \in 1..NA : i # j => s[i] # s[j]}
Identity == [i \in 1..NA |-> i]
Reversed == [i \in 1..NA |-> NA + 1 - i]
SwapLast == [i \in 1..NA |-> IF i = NA - 1 THEN NA ELSE IF i = NA THEN NA - 1 ELSE i]     \* (.., g, wn) / (P, wn, T) source
LastFirst == [i \in 1..NA |-> IF i = 1 THEN NA ELSE i - 1]                                 \* fastest logical axis stored slowest
SwapFirst == [i \in 1..NA |-> IF i = 1 THEN 2 ELSE IF i = 2 THEN 1 ELSE i]                 \* (T, P, ..) source
Orders == IF OrderSet = "all" THEN Perms ELSE {Identity, Reversed, SwapLast, LastFirst, SwapFirst}

RECURSIVE ProdFrom(_, _)
ProdFrom(o, k) == IF k > NA THEN 1 ELSE Size[o[k]] * ProdFrom(o, k + 1)
\* stride (in elements) of logical axis ax under order o
Pos(o, ax)    == CHOOSE k \in 1..NA : o[k] = ax
Stride(o, ax) == ProdFrom(o, Pos(o, ax) + 1)
Indices == IF NGs = 0 THEN {<<a, b, c>> : a \in 0..(NPs - 1), b \in 0..(NTs - 1), c \in 0..(NWs - 1)}
           ELSE {<<a, b, c, d>> : a \in 0..(NPs - 1), b \in 0..(NTs - 1), c \in 0..(NWs - 1), d \in 0..(NGs - 1)}
RECURSIVE OffsetFrom(_, _, _)
OffsetFrom(o, idx, ax) == IF ax > NA THEN 0 ELSE idx[ax] * Stride(o, ax) + OffsetFrom(o, idx, ax + 1)
Offset(o, idx) == OffsetFrom(o, idx, 1)
NElem == ProdFrom(Identity, 1)
\* the logical element: a number that identifies the index (its position in C order)
Elem(idx) == Offset(Identity, idx)
\* the flat block that stores the logical table under order o, and reading through the view
Mem(o)       == [off \in 0..(NElem - 1) |-> Elem(CHOOSE idx \in Indices : Offset(o, idx) = off)]
Read(o, idx) == Mem(o)[Offset(o, idx)]

\* corner spectrum of (pp, tt): the (wn, g) plane (a row for cross-sections)
PlaneIdx(pp, tt) == {idx \in Indices : idx[1] = pp /\ idx[2] = tt}
NPlane == IF NGs = 0 THEN NWs ELSE NWs * NGs
FlatLogical(o, pp, tt) ==
    [k \in 1..NPlane |-> IF NGs = 0 THEN Read(o, <<pp, tt, k - 1>>)
                         ELSE Read(o, <<pp, tt, (k - 1) \div NGs, (k - 1) % NGs>>)]
\* the same elements in the order in which they lie in memory
FlatMemory(o, pp, tt) ==
    LET S == PlaneIdx(pp, tt)
        Rank(idx) == Cardinality({j \in S : Offset(o, j) < Offset(o, idx)}) + 1
    IN  [k \in 1..NPlane |-> Read(o, CHOOSE idx \in S : Rank(idx) = k)]

Init == /\ phase = "in" /\ NGs \in NGSet /\ order \in Orders /\ p \in 0..(NPs - 1) /\ t \in 0..(NTs - 1) /\ flat = <<>>
Hand == /\ phase = "in"
        /\ flat' = IF Flatten = "logical" THEN FlatLogical(order, p, t) ELSE FlatMemory(order, p, t)
        /\ phase' = "done"
        /\ UNCHANGED <<NGs, order, p, t>>
Next == Hand
Spec == Init /\ [][Next]_vars

Done == phase = "done"
OffsetBijective == \A i \in Indices : /\ Offset(order, i) \in 0..(NElem - 1)
                                      /\ \A j \in Indices : i # j => Offset(order, i) # Offset(order, j)
ViewFaithful == \A i \in Indices : Read(order, i) = Elem(i)
PlaneHandedLogical == Done =>
    \A k \in 1..NPlane : flat[k] = Elem(IF NGs = 0 THEN <<p, t, k - 1>> ELSE <<p, t, (k - 1) \div NGs, (k - 1) % NGs>>)

\* ------------------------------------------------------------------ storage classes for the binding
\* holders of a cross-section table / of a k-table, the orders and element types each of them can hold:
\* HDF5 datasets are C-ordered on disk; numpy pickles keep C or Fortran order (any other view is pickled as C);
\* an array handed directly keeps whatever strides it has; an Exo-Transmit text table (decimal, m^2) is parsed into a C block.
HoldersOf(layout) == IF layout = "xsec"
                     THEN {"array", "pickle", "hdf5_stream", "hdf5_memory", "cache_pickle", "cache_hdf5", "cache_exotransmit"}
                     ELSE {"array", "pickle", "hdf5_stream", "hdf5_memory", "cache_pickle", "cache_hdf5"}   \* cache_*: served by KTableCache
OrdersOf(holder) == IF holder = "array" THEN Orders
                    ELSE IF holder = "pickle" THEN Orders \cap {Identity, Reversed}
                    ELSE {Identity}
\* 4-byte elements with a permuted axis order only in the thorough tier (OrderSet = "all")
DtypesOf(holder, o) == IF holder \in {"hdf5_stream", "hdf5_memory"} \/ (holder = "array" /\ (o = Identity \/ OrderSet = "all"))
                       THEN {"f8", "f4"} ELSE {"f8"}
Layout == IF NGs = 0 THEN "xsec" ELSE "ktable"
\* relative tolerance of the comparison with the exact expected value, as a pair <<n, d>> (<<0, 1>>: the driver's REL).
\* 8-byte elements hold the table to 2^-53 and the documented formula is a handful of roundings.  4-byte elements hold
\* each tabulated value to 2^-24 and the kernels may round every operation to 4 bytes as well: the bilinear form is
\* <= 11 roundings of quantities <= 2 hi, and in exp mode the exponent w ln(a/b), |ln(a/b)| <= ln 111 < 5, carries
\* (1 + 5) 2^-24 into the result: <= 2^-19 of the largest bracketing node hi altogether; 2^-18 is asserted.
RelTol(dtype) == IF dtype = "f4" THEN <<1, 262144>> ELSE <<0, 1>>
EmitStores == (Export /\ TLCGet("level") = 1 /\ p = 0 /\ t = 0) =>
    \A h \in HoldersOf(Layout) : (order \in OrdersOf(h)) =>
        \A dt \in DtypesOf(h, order) : \A m \in (IF dt = "f4" THEN Mags4 ELSE Mags8) :
            PrintT(<<"STORE", ToJson([layout |-> Layout, holder |-> h, order |-> order, dtype |-> dt, mag |-> m,
                                      tol |-> RelTol(dt), cmajor |-> order = Identity,
                                      wnmajor |-> (NGs = 0 \/ Pos(order, 3) < Pos(order, 4))])>>)

\* ------------------------------------------------------------------ element type of the GRIDS
\* The nodes of the temperature / pressure grid have an element type of their own: tables read from HDF5 / pickle files
\* often carry whole-kelvin temperature grids as int64 / int32 / int16 (or 4-byte floats), while the request (T, P) is a
\* real number.  The clause: the result does not depend on the element type of the grids (MC_InterpGridType.tla states
\* it for the cell search -- the request is compared as it is, never converted to the grid's type -- and exports the
\* requests: fractions of a kelvin beside every node, whole kelvin, nodes, outside).  Records GRIDTYPE:
\*   integer: requests that are whole kelvin are also passed as integers (the arithmetic of the documented formula,
\*            e.g. Tmax (Tmin - T) in exp mode, must not be carried out in the grid's integer type);
\*   pgrid:   the pressure grid has the type too.  numpy evaluates log10 of a 2-byte integer / 4-byte float array in
\*            4-byte arithmetic, the log10 of the nodes are then no longer the whole decades the exact region dispatch is
\*            stated for: those two types are driven on the temperature grid only;
\*   tol:     <<0, 1>> = the driver's REL (integer nodes are exact in 8-byte arithmetic); 4-byte float nodes make numpy
\*            round T - Tmin etc. to 4 bytes: 2^-18 of the largest bracketing node as for 4-byte tables (RelTol).
EmitGridTypes == (Export /\ TLCGet("level") = 1 /\ p = 0 /\ t = 0 /\ NGs = 0 /\ order = Identity) =>
    \A g \in GridDtypes :
        PrintT(<<"GRIDTYPE", ToJson([gdtype |-> g, integer |-> g \in {"i8", "i4", "i2"}, pgrid |-> g \in {"i8", "i4", "f8"},
                                    tol |-> RelTol(g)])>>)
=============================================================================
