SPECIFICATION Spec
CONSTANTS
  NL = 2
  MaxFill = 3
  MaxTrace = 2
  RatioNums = {1,3}
  RatioDen = 4
  AbNums = {0,3,8,9,12}
  AbDen = 8
  Variant = "spec"
  Export = TRUE
INVARIANT NonNegative
INVARIANT SumsToOne
INVARIANT FillRatiosExact
INVARIANT TracesUntouched
INVARIANT OneRowPerGas
INVARIANT InvalidIffExceedsOne
INVARIANT MuIsWeightedMean
INVARIANT ScalarMuAtSurface
INVARIANT ActiveSplit
INVARIANT FitsInv
CONSTRAINT Emit
CONSTRAINT ExportPick
CONSTRAINT Witness
CHECK_DEADLOCK FALSE
