---------------------------- MODULE MC_Chemistry ----------------------------
(* Exhaustive / export model for the mixture part of C10: choose the number  *)
(* of fill gases and their ratios, the trace profiles and the set of gases   *)
(* with opacity data; evaluate the Chemistry operators; check the clauses.   *)
EXTENDS Chemistry, SequencesExt
CONSTANTS NL,          \* layers
          MaxFill,     \* 1..MaxFill fill gases
          MaxTrace,    \* 0..MaxTrace trace gases
          RatioNums, RatioDen,   \* ratios in {k/RatioDen}
          AbNums, AbDen,         \* trace abundances in {k/AbDen}
          Variant,     \* "spec" or a deliberately wrong formula
          Export
VARIABLES phase, ratios, x, avail, out
vars == <<phase, ratios, x, avail, out>>

FillNames  == <<"H2", "He", "N2">>
TraceNames == <<"H2O", "CH4", "CO2">>
\* abstract masses (any positive numbers do: the clause is about the weights)
MassOf == [g \in {"H2", "He", "N2", "H2O", "CH4", "CO2"} |->
             CASE g = "H2" -> 2 [] g = "He" -> 4 [] g = "N2" -> 28
               [] g = "H2O" -> 18 [] g = "CH4" -> 16 [] g = "CO2" -> 44]
AvailSeq == << {}, {"H2O", "N2"}, {"He", "CH4", "CO2"} >>

Gases == SubSeq(FillNames, 1, NFill(ratios)) \o SubSeq(TraceNames, 1, Len(x))
Masses == [g \in 1..Len(Gases) |-> Q(MassOf[Gases[g]])]

RatioSet == {R(k, RatioDen) : k \in RatioNums}
AbSet    == {R(k, AbDen) : k \in AbNums}
Rows     == [1..NL -> AbSet]
SeqsUpTo(S, lo, hi) == UNION {[1..k -> S] : k \in lo..hi}

Init == /\ phase = "in"
        /\ ratios \in SeqsUpTo(RatioSet, 0, MaxFill - 1)
        /\ x \in SeqsUpTo(Rows, 0, MaxTrace)
        /\ avail \in {AvailSeq[i] : i \in 1..Len(AvailSeq)}
        /\ out = [st |-> "none", mix |-> <<>>, muw |-> <<>>]
Eval == /\ phase = "in"
        /\ out' = IF Rejected(x, NL, Variant) THEN [st |-> "invalid", mix |-> <<>>, muw |-> <<>>]
                   ELSE LET m == Mix(ratios, x, NL, Variant)
                        IN  [st |-> "ok", mix |-> m, muw |-> MuScalarWeights(m, NL, Variant)]
        /\ phase' = "done"
        /\ UNCHANGED <<ratios, x, avail>>
Next == Eval
Spec == Init /\ [][Next]_vars

Done  == phase = "done"
Valid == Done /\ out.st = "ok"
M == out.mix

NonNegative == Valid => \A g \in 1..Len(M) : \A l \in 1..NL : RLe(RZero, M[g][l])
SumsToOne   == Valid => \A l \in 1..NL : LayerSum(M, l) = ROne
FillRatiosExact == Valid =>
    \A f \in 2..NFill(ratios) : \A l \in 1..NL : M[f][l] = RMul(ratios[f - 1], M[1][l])
TracesUntouched == Valid =>
    \A g \in 1..Len(x) : M[NFill(ratios) + g] = x[g]
OneRowPerGas == Valid => Len(M) = Len(Gases) /\ \A g \in 1..Len(M) : Len(M[g]) = NL
InvalidIffExceedsOne == Done => ((out.st = "invalid") <=> ExceedsOne(x, NL))
\* mu is the weighted sum; with a valid mixture it is a convex combination of the masses
MuIsWeightedMean == Valid => \A l \in 1..NL :
    LET mu == Mu(M, Masses, l)
    IN  /\ RLe(RMinSeq(Masses), mu) /\ RLe(mu, RMaxSeq(Masses))
        /\ (NFill(ratios) = 1 /\ Len(x) = 0) => mu = Masses[1]
\* every scalar route to the mean molecular weight reads the weighted sum of the SURFACE layer
ScalarMuAtSurface == Valid =>
    /\ out.muw = [g \in 1..Len(M) |-> M[g][1]]
    /\ WeightedSum(out.muw, Masses) = Mu(M, Masses, 1)
ActiveSplit ==
    LET a == ActiveIdx(Gases, avail)
        i == InactiveIdx(Gases, avail)
    IN  /\ Len(a) + Len(i) = Len(Gases)
        /\ \A k \in 1..Len(a) : Gases[a[k]] \in avail
        /\ \A k \in 1..Len(i) : Gases[i[k]] \notin avail
        /\ \A k \in 1..(Len(a) - 1) : a[k] < a[k + 1]
        /\ \A k \in 1..(Len(i) - 1) : i[k] < i[k + 1]
FitsInv == Valid => \A g \in 1..Len(M) : SeqFits(M[g])

\* export: one deterministic availability set per mixture keeps the vector count down
SumNums == (Len(ratios) + Len(x) + RSumSeq([g \in 1..Len(x) |-> RSumSeq(x[g])])[1]) % Len(AvailSeq)
ExportPick == Export => avail = AvailSeq[SumNums + 1]
Emit == (Export /\ Done) =>
    PrintT(<<"VEC", ToJson([ratios |-> ratios, x |-> x, nl |-> NL,
                            invalid |-> (out.st = "invalid"),
                            mix |-> out.mix, muw |-> out.muw,
                            single |-> (\E g \in 1..Len(x) : \E l \in 1..NL : RLt(ROne, x[g][l])),
                            gases |-> Gases, avail |-> SetToSeq(avail),
                            active |-> Names(Gases, ActiveIdx(Gases, avail)),
                            inactive |-> Names(Gases, InactiveIdx(Gases, avail))])>>)
\* non-vacuity inside an export run (quick tier; the thorough tier also runs the RF_ configs): print the inputs on
\* which a wrong design, evaluated with the same operators, contradicts the invariant
Witness == (Export /\ Done /\ Len(ratios) = 0 /\ Len(x) = 1) =>
    /\ IF Rejected(x, NL, "clip_traces") # ExceedsOne(x, NL)
       THEN PrintT(<<"WITNESS", ToJson([variant |-> "clip_traces", inv |-> "InvalidIffExceedsOne"])>>) ELSE TRUE
    /\ IF Valid /\ WeightedSum(MuScalarWeights(M, NL, "mu_layer_mean"), Masses) # Mu(M, Masses, 1)
       THEN PrintT(<<"WITNESS", ToJson([variant |-> "mu_layer_mean", inv |-> "ScalarMuAtSurface"])>>) ELSE TRUE
=============================================================================
