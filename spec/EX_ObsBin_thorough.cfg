SPECIFICATION Spec
CONSTANTS
  WLS = {4,5,6,8,9,12}
  NMin = 3
  NMax = 4
  NCols = {3,4}
  NMax3 = 5
  Wids = {1,5}
  H = 40
  U = 0
  AlgVariant = "ok"
  Cuts = {"none"}
  Export = TRUE
INVARIANT ModelCovered
INVARIANT AllNumWhenCovered
INVARIANT ModelBetween
INVARIANT FitsInv
CONSTRAINT Emit
CHECK_DEADLOCK FALSE
