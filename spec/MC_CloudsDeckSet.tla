-------------------------- MODULE MC_CloudsDeckSet --------------------------
(***************************************************************************)
(* C19, design level: the WAY the cloud-top pressure of a deck arrives and *)
(* the DEPTH of the atmosphere it is declared in.                          *)
(*                                                                         *)
(* "An optically thick cloud deck makes every layer at or below its cloud- *)
(* top pressure opaque and leaves higher layers untouched", for "all cloud-*)
(* top pressures inside, above and below the modelled range ... and        *)
(* pressure grids".  The declared cloud top is the LAST value written, by  *)
(* whichever public writer:                                                *)
(*    "ctor"    SimpleCloudsContribution(clouds_pressure = p)              *)
(*    "setter"  contribution.cloudsPressure = p                            *)
(*    "param"   model['clouds_pressure'] = p   (what every optimizer does) *)
(* and the atmosphere may extend deeper than the default bottom of 1e6 Pa  *)
(* (atm_max_pressure up to 1e8 Pa: L0 up to 16 on the 2*log10 P axis), the *)
(* top anywhere from above the top of the grid to below its bottom.        *)
(*                                                                         *)
(* State: lev (grid), top (the value in force inside the object), hist     *)
(* (the writes, each followed by one evaluation).                          *)
(* Design = how a write reaches `top`:                                     *)
(*    "spec"        top' = p for every writer                              *)
(*    "cap_on_set"  writers other than the constructor keep the value      *)
(*                  "inside the bounds of the fitting parameter":          *)
(*                  top' = max(min(p, CapPos), FloorPos), CapPos = 12      *)
(*                  (1e6 Pa, the default upper bound AND the default       *)
(*                  bottom of the atmosphere), FloorPos = CapPos - 18      *)
(*                  (1e-3 Pa, the default lower bound)                     *)
(*    "ctor_only"   later writes do not reach the value the generator uses *)
(* Both wrong designs are expected counterexamples of OpaqueSetIsDeclared; *)
(* on atmospheres inside [FloorPos, CapPos] "cap_on_set" is invisible      *)
(* (MC_CloudsDeckSet_blind.cfg holds): the blind spot before round 5.      *)
(***************************************************************************)
EXTENDS Clouds
CONSTANTS NMax, L0s, Spacings, BStep, Below, Writers, Design, CapPos, MaxWrites, Export
VARIABLES lev, top, hist, fin
vars == <<lev, top, hist, fin>>

SpacingSeqs == UNION {[1..m -> Spacings] : m \in 1..NMax}
RECURSIVE PosOf(_, _, _)
PosOf(l0, sp, k) == IF k = 1 THEN l0 ELSE PosOf(l0, sp, k - 1) - sp[k - 1]
GridOf(l0, sp) == [k \in 1..(Len(sp) + 1) |-> PosOf(l0, sp, k)]
Grids == {GridOf(l0, sp) : l0 \in L0s, sp \in SpacingSeqs}
Cen2(lv) == [k \in 1..NLay(lv) |-> lv[k] + lv[k + 1]]
\* cloud tops: from above the top of the grid down to `Below` half-dex below its bottom
Positions(lv) == {p \in (lv[Len(lv)] - 2)..(lv[1] + Below) : (lv[1] + Below - p) % BStep = 0}

FloorPos == CapPos - 18
Init == lev \in Grids /\ top = 0 /\ hist = <<>> /\ fin = FALSE
InForce(w, p) == IF w = "ctor" \/ Design = "spec" THEN p
                 ELSE IF Design = "cap_on_set" THEN CMax(CMin(p, CapPos), FloorPos)
                 ELSE top
Write(w, p) == /\ Len(hist) < MaxWrites
               /\ (w = "ctor") <=> (hist = <<>>)
               /\ top' = InForce(w, p)
               /\ hist' = Append(hist, [w |-> w, deck |-> p])
               /\ UNCHANGED <<lev, fin>>
Finish == /\ Len(hist) = MaxWrites /\ ~fin /\ fin' = TRUE /\ UNCHANGED <<lev, top, hist>>
Next == (\E w \in Writers \cup {"ctor"} : \E p \in Positions(lev) : Write(w, p)) \/ Finish
Spec == Init /\ [][Next]_vars

Written == Len(hist) > 0
Declared == hist[Len(hist)].deck
ViewNoHist == <<lev, top, IF Written THEN <<Len(hist), Declared>> ELSE <<0, 0>>, fin>>
\* the layers the object makes opaque are those at or below the DECLARED top, whoever wrote it, however deep the grid
OpaqueSetIsDeclared == Written => DeckLayers(Cen2(lev), top) = DeckLayers(Cen2(lev), Declared)
\* ... in particular a top declared below the bottom of the atmosphere is no cloud at all
BelowBottomIsNoCloud == (Written /\ 2 * Declared > Cen2(lev)[1]) => DeckLayers(Cen2(lev), top) = {}

Emit == (Export /\ fin) =>
    PrintT(<<"DECKSET", ToJson([lev |-> lev,
                                uses |-> [j \in 1..Len(hist) |->
                                    [w |-> hist[j].w, deck |-> hist[j].deck,
                                     opaque |-> [k \in 1..NLay(lev) |-> DeckOpaque(Cen2(lev), k, hist[j].deck)]]]])>>)
=============================================================================
