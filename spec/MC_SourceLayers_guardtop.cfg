SPECIFICATION Spec
CONSTANTS
  NL = 2
  NComp <- DefNComp
  AVals = {0,1}
  Seg2 = 2
  Modes = {"xsec","ktables"}
  KCfgs <- DefKCfgs
  Guard = "top"
  KAvg = "own"
  OnlyBasis = TRUE
  Export = FALSE
CONSTRAINT Emit
CHECK_DEADLOCK FALSE
INVARIANT LayerByLayer
