SPECIFICATION SSpec
CONSTANTS
  NV = 3
  NC = 3
  NR = 2
  Modes = {"xsec", "ktables"}
  RpRoutes = {"param", "attr"}
  Entries = {"model", "partial", "contrib", "full_contrib"}
  PhysSet = {"rp", "ts", "dist", "tp", "mix"}
  Record = FALSE
  MaxSets = 0
  SVariant = "code"
INVARIANT EvalUsesCurrent
INVARIANT RuleIsLastAskedFor
INVARIANT TypeOk
CHECK_DEADLOCK FALSE
