SPECIFICATION Spec
CONSTANTS
  NObs = 1
  NSel = 1
  NDer = 1
  Ranks = {1,2,3}
  K = 2
  Sizes = {1,3,5,6}
  Binner = "fresh"
  Gather = "sample-order"
INVARIANT DerivedSummaryRule
INVARIANT DerivedWeightsAligned
CHECK_DEADLOCK FALSE
