SPECIFICATION TSpec
CONSTANTS
  ModelSel = {1,2,3}
  BoundSel = {1}
  FactorSel = {1}
  PriorSel = {1}
  ModeSel = {1}
  KSel = {2}
  MaxLevel = 1
  PriorTable = "persist_user_only"
  ViewSpace = "prior_mode"
  DerivedLookup = "derived"
  ObsMerge = "always"
  ModeStore = "canonical"
  UpdateGuard = "before"
  BoundaryGuard = "none"
  UpdateArg = "kept"
  TrackArg = TRUE
  FitEntry = "recompile"
  FileRoute = "as_api"
  Files <- MCNoFiles
  ModeCalls <- MCModeCalls
  InvalidModes <- MCInvalidOne
  ObsParams <- MCObsParams
  Record = FALSE
  Export = "none"
  Params <- MCParams
  CallParams <- MCCallParams
  Derived <- MCDerived
  InitSetting <- MCInitSetting
  InitDerived <- MCInitDerived
  InitValue <- MCInitValue
  UnknownFit <- MCUnknownFit
  UnknownDer <- MCUnknownDer
  BoundPairs <- MCBoundPairs
  Factors <- MCFactors
  UserPriors <- MCUserPriors
  K <- MCK
POSTCONDITION Accepted
CHECK_DEADLOCK FALSE
