SPECIFICATION Spec
CONSTANTS
  TNS = {200,300,700,800}
  PNS = {3,6,7}
  Mode = "exp"
  QX = {100,200,250,300,500,700,750,800,900}
  QYS = {4,5,6,7,8,9,10,11}
  YShift = 2
  NLev = 3
  UpperT = "closed"
  Kernel = "exact"
  Export = TRUE
INVARIANT NonNegativeG
INVARIANT NeverExtrapolated
INVARIANT NodeExactG
INVARIANT BracketBoundedG
INVARIANT ZeroBelowBothMinimaG
INVARIANT FitsInv
CONSTRAINT Emit
CHECK_DEADLOCK FALSE
