------------------------------ MODULE Factory ------------------------------
(* C15: one configuration of one documented component -- state machine over the  *)
(* operators of FactoryOps (see there for the mechanism and the generated data). *)
EXTENDS FactoryOps
CONSTANTS MaxKeys,      \* configurations set at most this many documented keys
          Export        \* print one VEC per finished configuration
VARIABLES phase, ent, sel, variant, keys, vals, pick, out
vars == <<phase, ent, sel, variant, keys, vals, pick, out>>

\* the selector text written in the file for each variant
Written(e, s, v) == CASE v = "case" -> CapTab[s]
                      [] v = "unknownsel" -> s \o "_zz"
                      [] v = "mixin" -> MixinOf[e.id] \o "+" \o s
                      [] OTHER -> s
Variants(e) == {"plain", "unknownkey", "unknownsel"}
               \cup (IF e.by = "value" THEN {"case"} ELSE {})
               \cup (IF e.id \in DOMAIN MixinOf THEN {"mixin"} ELSE {})

KeyNames(ks) == {k.name : k \in ks}
UnknownKey == "not_a_key"

Init == /\ phase = "cfg"
        /\ ent \in Builtin
        /\ sel \in ent.sels
        /\ variant \in Variants(ent)
        /\ keys \in {ks \in SUBSET ent.keys : Cardinality(ks) <= MaxKeys}
        /\ vals \in [KeyNames(keys) -> 1..2]
        /\ pick = NoClass
        /\ out = [err |-> "pending"]

BaseSel == IF variant = "unknownsel" THEN sel \o "_zz" ELSE IF variant = "case" THEN CapTab[sel] ELSE sel

RawOf(k) == RawChoices(k.typ, k.name)[vals[k.name]]
GivenNames == KeyNames(keys) \cup (IF variant = "unknownkey" THEN {UnknownKey} ELSE {})
ParamsOf(c) == c.params \cup (IF variant = "mixin" THEN UNION {m.params : m \in MixinCands(ent.kind, MixinOf[ent.id])} ELSE {})

\* generic_factory / *_factory / generate_contributions: first match in *set* order
Resolve ==
    /\ phase = "cfg"
    /\ LET s == Lookup(ent, BaseSel)
           cs == Cands(ent.kind, s)
           ok == cs # {} /\ (variant = "mixin" => MixinCands(ent.kind, MixinOf[ent.id]) # {})
       IN  IF ~ok
           THEN /\ pick' = NoClass /\ phase' = "done"
                /\ out' = [err |-> "error", why |-> "unknown selector"]
           ELSE /\ \E c \in cs : pick' = c
                /\ phase' = "picked" /\ UNCHANGED out
    /\ UNCHANGED <<ent, sel, variant, keys, vals>>

\* create_klass / klass(**config): every given key must be a constructor keyword
Create ==
    /\ phase = "picked"
    /\ out' = IF \E n \in GivenNames : n \notin ParamsOf(pick) /\ ~pick.varkw
              THEN [err |-> "error", why |-> "unknown key"]
              ELSE [err |-> "none", cls |-> pick.name,
                    kwargs |-> [n \in KeyNames(keys) |->
                                   Transform(RawOf(CHOOSE k \in keys : k.name = n))]]
    /\ phase' = "done"
    /\ UNCHANGED <<ent, sel, variant, keys, vals, pick>>

Next == Resolve \/ Create
Spec == Init /\ [][Next]_vars

\* --------------------------------------------------------------- invariants
Done == phase = "done"
\* every documented selector of a built-in component has exactly one candidate class
UniqueResolution ==
    \A e \in Builtin : \A s \in e.sels :
        SelKey(e, s) \notin Waived => Cardinality(Cands(e.kind, Lookup(e, s))) = 1
\* ... and the documented class is that class, where the documentation names one that exists
DocumentedClass ==
    \A e \in Builtin : \A s \in e.sels :
        (e.docclass # "" /\ SelKey(e, s) \notin Waived) => \A c \in Cands(e.kind, Lookup(e, s)) : c.name = e.docclass
\* documented spelling variants (capitalised) resolve to the same candidates
CaseFolded ==
    \A e \in Builtin : \A s \in e.sels :
        e.by = "value" => Cands(e.kind, Lookup(e, CapTab[s])) = Cands(e.kind, Lookup(e, s))
KeysReachCtor ==
    (Done /\ out.err = "none") =>
        /\ KeyNames(keys) \subseteq ParamsOf(pick) \/ pick.varkw
        /\ \A k \in keys : out.kwargs[k.name] = Transform(RawOf(k))
UnknownKeyIsError ==
    (Done /\ variant = "unknownkey" /\ ~pick.varkw) => out.err = "error"
UnknownSelectorIsError ==
    (Done /\ variant = "unknownsel") => out.err = "error"
TypedAsDocumented ==
    \A k \in keys : DocTypeOK(k.typ, Transform(RawOf(k)))
\* a documented key is a constructor keyword of the class its section resolves to
DocumentedKeysExist ==
    (Done /\ variant \in {"plain", "case", "mixin"} /\ SelKey(ent, sel) \notin Waived)
        => (out.err = "none" \/ \E k \in keys : (ent.kind \o ":" \o sel \o ":" \o k.name) \in WaivedKeys)

\* ------------------------------------------------------------------ export
ResTable == UNION {{[kind |-> e.kind, sel |-> s, id |-> e.id, docclass |-> e.docclass,
              cands |-> {c.name : c \in Cands(e.kind, Lookup(e, s))},
              capcands |-> IF e.by = "value" THEN {c.name : c \in Cands(e.kind, Lookup(e, CapTab[s]))} ELSE {},
              missing |-> {k.name : k \in {kk \in e.keys : \E c \in Cands(e.kind, Lookup(e, s)) : kk.name \notin c.params /\ ~c.varkw}}]
             : s \in e.sels} : e \in Builtin}
EmitRes == PrintT(<<"RES", ToJson(ResTable)>>)

Emit == (Export /\ Done) =>
    PrintT(<<"VEC", ToJson([id |-> ent.id, kind |-> ent.kind, by |-> ent.by, sel |-> sel, variant |-> variant,
                            written |-> Written(ent, BaseSel, IF variant = "mixin" THEN "mixin" ELSE "plain"),
                            given |-> [n \in KeyNames(keys) |-> RawOf(CHOOSE k \in keys : k.name = n)],
                            unknownkey |-> variant = "unknownkey",
                            err |-> out.err,
                            cls |-> IF out.err = "none" THEN out.cls ELSE "",
                            kwargs |-> IF out.err = "none" THEN out.kwargs ELSE <<>>])>>)
=============================================================================
