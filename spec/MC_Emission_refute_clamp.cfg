SPECIFICATION Spec
CONSTANTS
  NL = 2
  NW = 2
  NT = 3
  ECodes = {0, 1, 1515, 1501}
  TCodes = {11,12,21,33}
  QuadIds = {1}
  ClampE = 15
  SlackE = 14
  Variant = "clamp_lower_only"
  Btab <- MCBtab
  Bstar <- MCBstar
  TabId = 1
  Rp = 2
  Rs = 5
  Dist = 3
  KD = 2
  Export = FALSE
  InterpIds = {}
INVARIANT Telescoping
CONSTRAINT Emit
CHECK_DEADLOCK FALSE
