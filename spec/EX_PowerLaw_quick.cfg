SPECIFICATION Spec
CONSTANTS
  NV = 2
  MaxWrites = 1
  Variant = "spec"
  Export = TRUE
CHECK_DEADLOCK FALSE
INVARIANT ControlValuesInForce
INVARIANT RejectedIffMissing
INVARIANT OneValuePerLayer
INVARIANT Positive
INVARIANT AtMostDeepValue
INVARIANT AtMostLocalLaw
INVARIANT EvalIsFunctional
INVARIANT FitsInv
CONSTRAINT Emit
