--------------------------- MODULE Trace_Chemistry ---------------------------
(* C10, binding B.  Every event is one real call of the implementation:          *)
(*  ev = "profile": a built-in Gas.initialize_profile for some layer count; the  *)
(*       logged values are round(log10(mix) * S); TLC checks the clauses one     *)
(*       value per layer / finite / within the control range (power law: at most *)
(*       the deep-atmosphere value).                                             *)
(*  ev = "exact":   same call on a logspace grid; TLC re-evaluates the profile   *)
(*       operator of Chemistry.tla and compares layer by layer.                  *)
(*  ev = "mix":     TaurexChemistry.initialize_chemistry; TLC re-evaluates Mix   *)
(*       from the logged ratios and trace profiles and compares every row, the   *)
(*       layer sums, the fill ratios, the validity verdict and the active /      *)
(*       inactive split (mu: harness-side relation against the independent       *)
(*       formula parser, logged as the count badmu; badmus = number of public    *)
(*       SCALAR routes to the mean molecular weight that do not read the         *)
(*       weighted sum of the surface layer).  The logged trace profiles x are    *)
(*       the REQUESTED ones where the recipe determines them exactly (a single   *)
(*       gas may be requested above one in some layers only).                    *)
(* Stateless stream: the step always advances, rejected events are printed.      *)
EXTENDS Chemistry, IOUtils, TLCExt
VARIABLE l
TraceLog == ndJsonDeserialize(IOEnv.TRACE_FILE)

AbsI(a) == IF a < 0 THEN -a ELSE a

OkProfile(e) ==
    /\ e.len = e.n
    /\ Len(e.v) = e.n
    /\ e.nonfinite = 0 /\ e.below = 0 /\ e.above = 0
    /\ \A i \in 1..Len(e.v) : /\ e.v[i] <= e.hi + e.tol
                              /\ (e.haslo => e.v[i] >= e.lo - e.tol)

ExactProfile(e) ==
    CASE e.kind = "constant" -> ConstProfile(Q(e.s), e.n)
      [] e.kind = "twopoint" -> TwoPointLog(e.s, e.t, [i \in 1..e.n |-> e.n - i])
      [] e.kind = "twolayer" -> TwoLayerLog(e.s, e.t, [i \in 1..e.n |-> e.n - i], e.pl0, e.sw, "spec")
      [] e.kind = "array"    -> ArrayLin([i \in 1..Len(e.arr) |-> Q(e.arr[i])], e.n)
OkExact(e) ==
    LET p == ExactProfile(e)
        lo == IF e.s < e.t THEN e.s ELSE e.t
        hi == IF e.s < e.t THEN e.t ELSE e.s
    IN  /\ Len(e.v) = e.n
        /\ Len(p) = e.n
        /\ IF e.kind = "twolayer" /\ ~TwoLayerUnambiguous(e.pl0, e.sw, e.n)
           THEN \A i \in 1..e.n : e.v[i] >= lo * e.S - e.tol /\ e.v[i] <= hi * e.S + e.tol
           ELSE \A i \in 1..e.n : Close(e.v[i], e.S, p[i], e.tol)

OkMix(e) ==
    LET ratios == [f \in 1..Len(e.ratios) |-> R(e.ratios[f][1], e.ratios[f][2])]
        X      == [g \in 1..Len(e.x) |-> [i \in 1..e.n |-> R(e.x[g][i], e.S)]]
        over   == ExceedsOne(X, e.n)
        M      == Mix(ratios, X, e.n, "spec")
        ng     == NGas(ratios, X)
        av     == {e.avail[i] : i \in 1..Len(e.avail)}
    IN  /\ Len(e.gases) = ng
        /\ e.active = Names(e.gases, ActiveIdx(e.gases, av))
        /\ e.inactive = Names(e.gases, InactiveIdx(e.gases, av))
        /\ e.invalid = over
        /\ (~over) =>
            /\ Len(e.mix) = ng
            /\ e.badsum = 0 /\ e.neg = 0 /\ e.badmu = 0 /\ e.badmus = 0
            /\ \A g \in 1..ng : Len(e.mix[g]) = e.n
            /\ \A g \in 1..ng : \A i \in 1..e.n :
                  /\ e.mix[g][i] >= 0
                  /\ Close(e.mix[g][i], e.S, M[g][i], e.tol)
            /\ \A i \in 1..e.n :
                  AbsI(RSumSeq([g \in 1..ng |-> Q(e.mix[g][i])])[1] - e.S) <= ng
            /\ \A f \in 1..Len(ratios) : \A i \in 1..e.n :
                  AbsI(e.mix[f + 1][i] * ratios[f][2] - ratios[f][1] * e.mix[1][i])
                      <= e.tol * (ratios[f][2] + ratios[f][1])

Ok(e) == CASE e.ev = "profile" -> OkProfile(e)
           [] e.ev = "exact"   -> OkExact(e)
           [] e.ev = "mix"     -> OkMix(e)

Init == l = 1
Step == /\ l <= Len(TraceLog)
        /\ LET e == TraceLog[l] IN
             IF Ok(e) THEN TRUE ELSE PrintT(<<"BAD", ToJson([l |-> l, id |-> e.id, ev |-> e.ev])>>)
        /\ l' = l + 1
Spec == Init /\ [][Step]_l
Accepted == TLCGet("stats").diameter - 1 = Len(TraceLog)
=============================================================================
