------------------------------ MODULE ObsHolder ------------------------------
(***************************************************************************)
(* C17, last sentence, over the HOLDERS of an observation and its binner.  *)
(*                                                                         *)
(* "The binner created from the observation bins onto exactly those        *)
(* centres and widths, so a model binned to the observation is aligned     *)
(* element by element with the observed values."  In the library the       *)
(* object that bins a model to the observation and compares it with the    *)
(* observed values is a long-lived HOLDER (the optimizer: constructor      *)
(* keyword observed=, set_observed(), then chi-squared / likelihood        *)
(* evaluations and solution output).  The statement quantifies over        *)
(* observations, not over what the holder was pointed at before: whenever  *)
(* a holder bins a model, it bins onto the centres and widths of the       *)
(* observation it holds NOW (HolderBinsOnItsObservation), for every        *)
(* sequence of                                                             *)
(*    Construct(h, o)     a new holder, observation o given to the         *)
(*                        constructor (o = 0: none yet)                    *)
(*    SetObserved(h, o)   the holder is pointed at observation o           *)
(*    Use(h, u)           the holder bins the model onto its binner and    *)
(*                        compares / stores it (u: "chisq" | "solution")   *)
(* on one or several holders living in the same process.                   *)
(*                                                                         *)
(* Policies (when the holder builds the binner of its observation; fixed   *)
(* per behaviour):                                                         *)
(*    "eager"       with every observation it is given (documented)        *)
(*    "lazy-drop"   when first needed; dropped when another is given       *)
(* are sound; expected counterexamples:                                    *)
(*    "lazy-keep"   when first needed; kept when another is given          *)
(*    "first-only"  with the first observation only                        *)
(*    "shared"      kept on the class: every holder uses the binner of     *)
(*                  the observation most recently given to ANY holder      *)
(*                                                                         *)
(* Lattice: native cells and target bins on an integer lattice (the        *)
(* harness owns the dyadic map lattice -> cm-1); the model binned onto an  *)
(* observation is Binning!Binned (overlap-weighted mean) over              *)
(* [centre - width/2, centre + width/2], exact rationals.  The observed    *)
(* values are the model seen through the observation's OWN bins plus       *)
(* Dev x Err, so chi-squared of the aligned comparison is SUM Dev^2        *)
(* exactly, and anything binned onto another observation's bins is not.    *)
(***************************************************************************)
EXTENDS Integers, Sequences, FiniteSets, TLC, Rat
B == INSTANCE Binning

CONSTANTS OC,        \* OC[o]: centres of the bins of observation o, ascending
          OW,        \* OW[o]: their full widths (even)
          ODev,      \* ODev[o]: (observed - model) / error, integers
          OErr,      \* OErr[o]: error bars, positive integers
          NatP,      \* native points (uniform, ascending)
          NatH,      \* full width of a native cell (even)
          NHolders,
          Policies

VARIABLES V, obs, bin, shared, last, started
hvars == <<V, obs, bin, shared, last, started>>

NO == Len(OC)
Hs == 1..NHolders
NB(o) == Len(OC[o])
NatF == [k \in 1..Len(NatP) |-> 1 + ((3 * k * k + 5 * k) % 17)]
NatTau == [r \in 1..2 |-> [k \in 1..Len(NatP) |-> ((r + 2) * k + r) % 11]]
NatCells == [k \in 1..Len(NatP) |-> <<NatP[k] - (NatH \div 2), NatP[k] + (NatH \div 2)>>]
TBin(o, i) == <<OC[o][i] - (OW[o][i] \div 2), OC[o][i] + (OW[o][i] \div 2)>>
\* the model binned onto the bins of observation o
ModelOn(o) == [i \in 1..NB(o) |-> B!Binned(NatCells, TBin(o, i), NatF)]
ModelTab == [o \in 1..NO |-> ModelOn(o)]
\* the observed values of o: its own binned model + Dev x Err
DataOf(o) == [i \in 1..NB(o) |-> RAdd(ModelTab[o][i], Q(ODev[o][i] * OErr[o][i]))]
\* residual of element i of the data of o against the model binned onto the bins of observation on (same number of bins)
Residual(o, on, i) == RDiv(RSub(DataOf(o)[i], ModelTab[on][i]), Q(OErr[o][i]))
\* chi-squared of the aligned comparison: the residuals are Dev (AlignedResidualsAreDev), so it is an integer
Chi2Aligned(o) == B!ISum([i \in 1..NB(o) |-> ODev[o][i] * ODev[o][i]])

Sound(v) == v \in {"eager", "lazy-drop"}
Lazy(v)  == v \in {"lazy-drop", "lazy-keep"}

NoUse == [h |-> 0, u |-> "-", obs |-> 0, on |-> 0]
HInit == /\ V \in Policies /\ obs = [h \in Hs |-> 0] /\ bin = [h \in Hs |-> 0] /\ shared = 0
         /\ last = NoUse /\ started = FALSE

\* the observation whose bins holder h bins onto under policy v
OnOf(v, ob, bi, sh, h) == IF v = "shared" THEN sh ELSE IF Lazy(v) /\ bi[h] = 0 THEN ob[h] ELSE bi[h]
AfterConstruct(v, st, h, o) ==
    [obs |-> [st.obs EXCEPT ![h] = o],
     bin |-> [st.bin EXCEPT ![h] = IF v \in {"eager", "first-only"} THEN o ELSE 0],
     shared |-> IF v = "shared" /\ o # 0 THEN o ELSE st.shared]
AfterSet(v, st, h, o) ==
    [obs |-> [st.obs EXCEPT ![h] = o],
     bin |-> [st.bin EXCEPT ![h] = CASE v = "eager" -> o
                                     [] v = "lazy-drop" -> 0
                                     [] v = "first-only" -> (IF st.bin[h] = 0 THEN o ELSE st.bin[h])
                                     [] OTHER -> st.bin[h]],
     shared |-> IF v = "shared" THEN o ELSE st.shared]
AfterUse(v, st, h) ==
    [obs |-> st.obs,
     bin |-> IF Lazy(v) THEN [st.bin EXCEPT ![h] = OnOf(v, st.obs, st.bin, st.shared, h)] ELSE st.bin,
     shared |-> st.shared]
Cur == [obs |-> obs, bin |-> bin, shared |-> shared]
Become(st) == obs' = st.obs /\ bin' = st.bin /\ shared' = st.shared

Construct(h, o)   == /\ Become(AfterConstruct(V, Cur, h, o)) /\ UNCHANGED <<V, last, started>>
SetObserved(h, o) == /\ o # 0 /\ Become(AfterSet(V, Cur, h, o)) /\ UNCHANGED <<V, last, started>>
Use(h, u) == /\ obs[h] # 0
             /\ last' = [h |-> h, u |-> u, obs |-> obs[h], on |-> OnOf(V, obs, bin, shared, h)]
             /\ Become(AfterUse(V, Cur, h)) /\ started' = TRUE /\ UNCHANGED V
Uses == {"chisq", "solution"}
HNext == \E h \in Hs : \/ \E o \in 0..NO : Construct(h, o)
                       \/ \E o \in 1..NO : SetObserved(h, o)
                       \/ \E u \in Uses : Use(h, u)
HSpec == HInit /\ [][HNext]_hvars

\* ------------------------------------------------------------ clauses
\* whenever a holder bins a model, it bins onto the bins of the observation it holds now
HolderBinsOnItsObservation == started => last.on = last.obs
HoldOnObservation == Sound(V) => HolderBinsOnItsObservation
\* ... so the binned model is the model over each element's own centre and width, and the comparison with the
\* observed values is the aligned one
AlignedModel == started /\ Sound(V) => /\ ModelTab[last.on] = ModelOn(last.obs)
                                       /\ \A i \in 1..NB(last.obs) : Residual(last.obs, last.on, i) = Q(ODev[last.obs][i])
\* one invariant per unsound policy (expected counterexamples, reported together by TLC -continue)
RefuteLazyKeep  == V = "lazy-keep" => HolderBinsOnItsObservation
RefuteFirstOnly == V = "first-only" => HolderBinsOnItsObservation
RefuteShared    == V = "shared" => HolderBinsOnItsObservation
HTypeOK == /\ V \in Policies /\ obs \in [Hs -> 0..NO] /\ bin \in [Hs -> 0..NO] /\ shared \in 0..NO

\* ------------------------------------------------------------ the alphabet is regular and rich (state-independent)
HAlphabetOk ==
    /\ NO >= 3 /\ Len(OW) = NO /\ Len(ODev) = NO /\ Len(OErr) = NO
    /\ \A o \in 1..NO : /\ NB(o) >= 2 /\ Len(OW[o]) = NB(o) /\ Len(ODev[o]) = NB(o) /\ Len(OErr[o]) = NB(o)
                        /\ \A i \in 1..NB(o) : OW[o][i] > 0 /\ (OW[o][i] % 2) = 0 /\ OErr[o][i] > 0
                        /\ \A i \in 1..(NB(o) - 1) : OC[o][i] < OC[o][i + 1]
                        \* every bin lies inside the tiled interval of the native model
                        /\ \A i \in 1..NB(o) : /\ TBin(o, i)[1] >= NatCells[1][1] /\ TBin(o, i)[2] <= NatCells[Len(NatP)][2]
                                               /\ B!WSum(NatCells, TBin(o, i)) = OW[o][i]
    /\ (NatH % 2) = 0 /\ \A k \in 1..(Len(NatP) - 1) : NatP[k + 1] - NatP[k] = NatH
HAlphabetRich ==
    \* two observations with the same number of bins elsewhere, one with another number
    /\ \E o, p \in 1..NO : o # p /\ NB(o) = NB(p)
    /\ \E o, p \in 1..NO : NB(o) # NB(p)
    \* binning onto another observation's bins is visible: in the binned model and in chi-squared
    /\ \A o, p \in 1..NO : o # p => ModelTab[o] # ModelTab[p]
    \* (one residual against the other observation's bins alone exceeds the whole aligned chi-squared)
    /\ \A o, p \in 1..NO : (o # p /\ NB(o) = NB(p)) =>
           \E i \in 1..NB(o) : LET r == Residual(o, p, i) IN RLt(Q(Chi2Aligned(o)), RMul(r, r))
    /\ \A o \in 1..NO : Chi2Aligned(o) > 0
HAlphabetInv == ~started => HAlphabetOk /\ HAlphabetRich
HFitsInv == \A o \in 1..NO : \A i \in 1..NB(o) : Fits(ModelTab[o][i]) /\ Fits(DataOf(o)[i])
=============================================================================
