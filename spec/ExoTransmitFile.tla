--------------------------- MODULE ExoTransmitFile ---------------------------
(* C14, Exo-Transmit text tables (opac<Mol>.dat).                             *)
(*                                                                            *)
(* After the two header lines (temperatures, pressures) the file is a         *)
(* SEQUENCE of wavelength blocks: one line with the wavelength, then one row  *)
(* per pressure with the cross-sections at every temperature.  The format     *)
(* tabulates against WAVELENGTH, the library works on an ascending            *)
(* WAVENUMBER grid, so this is the one cross-section container whose reader   *)
(* has to re-order an axis.  Nothing in the format fixes the order of the     *)
(* blocks: the stock files ascend in wavelength, a file produced from a       *)
(* wavenumber table ascends in wavenumber, spectral chunks computed           *)
(* separately are appended one after the other, ...                           *)
(*                                                                            *)
(* The physical table of the file ("the same tabulated cross-sections" that   *)
(* a pickle / HDF5 file holds) is a function of the SET of blocks only:       *)
(*   wavenumber grid = 1 / wavelength of every block, ascending;              *)
(*   column j of the table = the block whose wavenumber is the j-th smallest. *)
(*                                                                            *)
(* Actions: WriteBlock(k) appends a block that is not yet in the file,        *)
(* CloseExo ends it; TLC enumerates every arrangement of every subset of the  *)
(* candidate wavelengths (exhaustive) or random ones (-simulate).             *)
(*                                                                            *)
(* Reader: a transcription of the reading algorithm -- wavenumbers in file    *)
(* order, the ascending grid, and the permutation applied to the last axis    *)
(* of the table that was filled in file order -- with the variant switch      *)
(* Reorder for expected counterexamples.  ReaderMatchesTable: the reader      *)
(* attaches every column to its own wavenumber for EVERY arrangement.         *)
EXTENDS Rat, FiniteSets, TLC
CONSTANTS WlNm,       \* candidate wavelengths in nm: strictly ascending sequence of integers dividing 10^7
          Reorder     \* "argsort" (documented: table re-ordered with the permutation that sorts the wavenumbers)
                      \* "flip"    (variant: last axis reversed -- right only for files ascending in wavelength)
                      \* "none"    (variant: grid sorted, table left in file order -- right only for files ascending in wavenumber)
                      \* "inverse" (variant: the inverse permutation, "scatter" instead of "gather" -- right only when the
                      \*            sorting permutation is its own inverse: both monotone orders, swaps)
VARIABLES ephase, efile

evars == <<ephase, efile>>
ECand == DOMAIN WlNm
\* wavenumber in cm^-1 of candidate k, exact
EWn(k) == R(10000000, WlNm[k])

EInit == ephase = "write" /\ efile = <<>>
EWritten == {efile[i] : i \in DOMAIN efile}
WriteBlock(k) == /\ ephase = "write" /\ k \notin EWritten
                 /\ efile' = Append(efile, k) /\ UNCHANGED ephase
\* a spectrum needs two points
CloseExo == /\ ephase = "write" /\ Len(efile) >= 2
            /\ ephase' = "closed" /\ UNCHANGED efile
ENext == CloseExo \/ \E k \in ECand : WriteBlock(k)
ESpec == EInit /\ [][ENext]_evars
EClosed == ephase = "closed"
EN == Len(efile)

\* ------------------------------------------------ the physical table (set level)
ESetMinWn(S) == CHOOSE k \in S : \A q \in S : RLe(EWn(k), EWn(q))
RECURSIVE EAscWn(_)
EAscWn(S) == IF S = {} THEN <<>> ELSE LET m == ESetMinWn(S) IN <<m>> \o EAscWn(S \ {m})
\* block (candidate index) that owns position j of the ascending wavenumber grid
EPhysCols == EAscWn(EWritten)
EPhysGrid == [j \in DOMAIN EPhysCols |-> EWn(EPhysCols[j])]

\* ------------------------------------------------ the reading algorithm
\* wavenumbers in file order; the table is filled column by column in file order
EFileWn == [i \in DOMAIN efile |-> EWn(efile[i])]
\* numpy argsort: positions of the file in ascending wavenumber order (keys are distinct)
EArgsort == LET pos == SortSeq([i \in 1..EN |-> i], LAMBDA a, b : RLt(EFileWn[a], EFileWn[b])) IN pos
EPerm == CASE Reorder = "argsort" -> EArgsort
           [] Reorder = "flip"    -> [j \in 1..EN |-> EN + 1 - j]
           [] Reorder = "none"    -> [j \in 1..EN |-> j]
           [] Reorder = "inverse" -> [j \in 1..EN |-> CHOOSE i \in 1..EN : EArgsort[i] = j]
\* the grid is sorted in every variant (the slips of this class keep the grid right and misplace the values)
EReaderGrid == [j \in 1..EN |-> EFileWn[EArgsort[j]]]
EReaderCols == [j \in 1..EN |-> efile[EPerm[j]]]

ReaderMatchesTable == EClosed => /\ EReaderGrid = EPhysGrid
                                 /\ EReaderCols = EPhysCols

\* ------------------------------------------------ invariants of the physical table
ETypeOK == /\ ephase \in {"write", "closed"}
           /\ \A i \in DOMAIN efile : efile[i] \in ECand
           /\ \A i, j \in DOMAIN efile : i # j => efile[i] # efile[j]
           /\ \A k \in ECand : k > 1 => WlNm[k - 1] < WlNm[k]
           /\ \A k \in ECand : 10000000 % WlNm[k] = 0
\* strictly ascending grid; every block of the file owns exactly one column
GridAscending == EClosed => \A j \in DOMAIN EPhysGrid : j > 1 => RLt(EPhysGrid[j - 1], EPhysGrid[j])
ColumnsArePermutation == EClosed => /\ Len(EPhysCols) = EN
                                    /\ {EPhysCols[j] : j \in DOMAIN EPhysCols} = EWritten
\* the table does not depend on the order the blocks were written in: it is a function of the set
\* (stated on the state: the columns are those of the ascending-wavelength file, reversed)
RECURSIVE EAscIdx(_)
EAscIdx(S) == IF S = {} THEN <<>> ELSE LET m == CHOOSE x \in S : \A y \in S : x <= y IN <<m>> \o EAscIdx(S \ {m})
OrderIrrelevant == EClosed => LET asc == EAscIdx(EWritten)
                              IN  EPhysCols = [j \in 1..EN |-> asc[EN + 1 - j]]

\* ------------------------------------------------ input class of a file
EDescents == Cardinality({i \in 2..EN : efile[i] < efile[i - 1]})
ELayout == IF EDescents = 0 THEN "ascending-wavelength"
           ELSE IF EDescents = EN - 1 THEN "ascending-wavenumber"
           ELSE IF EDescents = 1 THEN "two-chunks"
           ELSE "shuffled"
\* non-vacuity probes (expected to be refuted)
NeverOtherThanStockOrder == EClosed => ELayout = "ascending-wavelength"
NeverMixedOrder == EClosed => ELayout \in {"ascending-wavelength", "ascending-wavenumber"}
=============================================================================
