SPECIFICATION Spec
CONSTANTS
  TNodes = {300,500,600}
  PNodes = {1,3,4}
  XScale = 1000
  YScale = 1000000
  HairX = {1,30}
  HairY = {1,30,1000}
  FarX = 100
  FarY = 2
  Mode = "exp"
  TolX = 0
  TolY = 0
  Export = TRUE
INVARIANT NonNegative
INVARIANT BracketBounded
INVARIANT NeverExtrapolated
INVARIANT ZeroBelowBothMinima
INVARIANT HairOutsideIsOutside
INVARIANT HairInsideIsInterpolated
INVARIANT FitsInv
CONSTRAINT Emit
CHECK_DEADLOCK FALSE
