--------------------------- MODULE KTableHistory ---------------------------
(***************************************************************************)
(* C20 over HISTORIES.  The statement quantifies over tables, grids and    *)
(* atmospheres, not over what the loaded table objects and the model did   *)
(* before: a long-lived k-table object (it lives in KTableCache for the    *)
(* whole session) that is asked for opacities on one requested grid, then  *)
(* on another one, at another (T, P), under the other opacity mode, ...    *)
(* must return, at EVERY evaluation,                                       *)
(*   (1) what a freshly loaded object returns for the current request      *)
(*       (a refinement of Functional.tla: cfg = <<win, tp, mode>>), and    *)
(*   (2) for a degenerate table, at every quadrature point, what the       *)
(*       cross-section object holding the same numbers returns.            *)
(*                                                                         *)
(* Grid model.  Native points 1..NN sit at coordinates 2p, so that         *)
(* requested points can also fall between native points.  A window is      *)
(* lo, lo+step, .., hi (window 0: no grid passed, the full native grid).   *)
(* Sel(w) is the documented selection: the native points inside [lo, hi]   *)
(* when they are exactly the requested points, otherwise those plus one    *)
(* native neighbour on either side (interpolation).  A value at a          *)
(* requested coordinate is determined by the coefficients of its           *)
(* neighbours WITHIN the selection (Coef is uninterpreted and injective);  *)
(* outside the selection it is the edge value (constant extrapolation).    *)
(*                                                                         *)
(* Design mutants (non-vacuity).  Key says what a memo kept on the          *)
(* long-lived object is keyed on.  "none" (no memo), "content" (the        *)
(* requested points) and "ends" (first and last requested point: the       *)
(* selection between the same end points differs by the two neighbours     *)
(* only, which on-native requests do not use) satisfy the invariants;      *)
(* "size" (number of requested points), "first" (first requested point)    *)
(* and "window" (the requested points, but the memo also keeps the (T, P)  *)
(* it was filled at) must be refuted by the window alphabet of the         *)
(* configuration: two windows of the same length at different positions,   *)
(* the same start with another length, the same end points at another      *)
(* density, between-native requests, requests beyond the native range, the *)
(* full grid.  The driver realises that alphabet on real grids.            *)
(* ModeRead = "construct" (opacity mode latched when the object was built) *)
(* must be refuted as well.                                                *)
(*                                                                         *)
(* EVALUATION CONFIGURATION.  The twin relation is stated UNDER a          *)
(* configuration c = <<interp, route, extra>> that is applied identically  *)
(* to both twins: the k-table twin evaluated under c equals the cross-     *)
(* section twin evaluated under the same c.                                *)
(*   interp : the temperature-interpolation scheme ("linear" | "exp", the  *)
(*            xsec_interpolation option).  A (T, P) class TPs[t] says      *)
(*            where the layer sits relative to the nodes of the table:     *)
(*            on a "node", "between" two nodes, "below" / "above" the      *)
(*            table.  The scheme enters a value only when T is between two *)
(*            nodes (CoefS); on nodes and outside the table (edge values)  *)
(*            every scheme gives the same number.                          *)
(*   route  : how c reaches the table objects of BOTH kinds: "global" (the *)
(*            GlobalCache key, read when the caches discover the files),   *)
(*            "api" (OpacityCache.set_interpolation), "ctor" (constructor  *)
(*            argument of the container, objects handed to the caches),    *)
(*            "setter" (set_interpolation_mode on the objects already      *)
(*            loaded: they are KEPT, memo included, and changed in place). *)
(*            With every other route the tables are loaded again.          *)
(*   extra  : further global keys both families read (memory mode,         *)
(*            de-activated molecules); they never enter a value.           *)
(* CfgRead says how c reaches the two families.  "both": as documented.    *)
(* Mutants, each refuted by TwinEqualsXsec: "k-ctor-drops" / "x-ctor-drops"*)
(* (the container of one family drops the scheme it is constructed with:   *)
(* it interpolates with the default "linear" unless the scheme is set in   *)
(* place afterwards), "k-setter-noop" / "x-setter-noop" (setting the       *)
(* scheme in place has no effect on one family: it keeps the scheme it was *)
(* loaded with), "k-api-stale" (the call that sets the scheme for a       *)
(* running session, route "api", reaches the cross-sections only: the      *)
(* k-tables already loaded keep the scheme they were loaded with -- what   *)
(* OpacityCache.set_interpolation did before it also emptied KTableCache). *)
(* They are visible ONLY for T between nodes with a non-                   *)
(* default scheme (NodeBlind holds), the first pair only on the routes     *)
(* through the constructor and the second only on the "setter" route       *)
(* (RouteBlind holds): the alphabet of configurations needs every route    *)
(* and temperatures between nodes; the driver realises it on real files of *)
(* every container (EX_KTableHistory_cfg.cfg exports it).                  *)
(*                                                                         *)
(* CONTRIBUTION LIST.  "All atmospheres, both forward-model families"      *)
(* includes WHAT ELSE absorbs next to the tabulated molecules and in which  *)
(* ORDER the model holds its contributions: clist indexes CLists, a        *)
(* sequence over {"k", "c1", "c2", "c3"} in which "k" -- the molecular     *)
(* absorption, served by k-tables in one twin and by cross-sections in the *)
(* other -- occurs once and "c.." are continuum contributions (Rayleigh,   *)
(* flat Mie, CIA: cross-section-like in BOTH modes).  Every contribution   *)
(* ADDS its optical depth to what the path already holds (the k-table term *)
(* adds -log of its weighted average), so the path sees the SUM of the     *)
(* continuum terms whatever the order (OrderFree), and the twin relation   *)
(* is stated under the same list for both twins.  The continuum terms are  *)
(* uninterpreted and independent (ContId: distinct powers of two, a sum    *)
(* identifies its set).  PathRead says what the k-table path does with     *)
(* them: "sum" (documented); mutants, each refuted by TwinEqualsXsec:      *)
(* "k-overwrites" (the molecular term REPLACES what the path holds: the    *)
(* continuum terms before "k" are lost), "last-continuum" (the continuum   *)
(* accumulator is reset per contribution: only the last one survives),     *)
(* "stops-at-k" (nothing after the molecular term is added).  ListBlind    *)
(* (holds) says where they are invisible: "k" first / fewer than two       *)
(* continuum terms / "k" last -- so the alphabet of lists needs a continuum*)
(* term BEFORE "k", one AFTER it, and TWO OR MORE of them, in both         *)
(* families; the driver realises the exported alphabet with real           *)
(* contributions in transmission and emission models.                      *)
(***************************************************************************)
EXTENDS Integers, Sequences, FiniteSets, TLC

CONSTANTS NN,        \* native points 1..NN
          Wins,      \* sequence of windows [lo, hi, step] (coordinates, native p at 2p)
          NTP,       \* (temperature, pressure) classes 1..NTP
          NG,        \* quadrature points
          Keys,      \* subset of {"none", "content", "ends", "size", "first", "window"}
          ModeReads, \* subset of {"eval", "construct"}
          TPs,       \* sequence of NTP classes [t |-> .., p |-> ..] over {"node", "between", "below", "above"}
          Interps,   \* subset of {"linear", "exp"}
          Routes,    \* subset of {"global", "api", "ctor", "setter"}
          Extras,    \* subset of {"none", "stream", "deactive"}
          CfgReads,  \* subset of {"both", "k-ctor-drops", "x-ctor-drops", "k-setter-noop", "x-setter-noop", "k-api-stale"}
          CLists,    \* sequence of contribution lists over {"k", "c1", "c2", "c3"}, "k" exactly once; CLists[1] = <<"k">>
          PathReads  \* subset of {"sum", "k-overwrites", "last-continuum", "stops-at-k"}

ASSUME Len(TPs) = NTP
ASSUME /\ Len(CLists) >= 1 /\ CLists[1] = <<"k">>
       /\ \A i \in DOMAIN CLists : /\ \A j \in DOMAIN CLists[i] : CLists[i][j] \in {"k", "c1", "c2", "c3"}
                                   /\ Cardinality({j \in DOMAIN CLists[i] : CLists[i][j] = "k"}) = 1
                                   /\ \A j, k \in DOMAIN CLists[i] : CLists[i][j] = CLists[i][k] => j = k

\* Key, ModeRead, CfgRead and PathRead are fixed at Init (one design variant per behaviour)
VARIABLES Key, ModeRead, CfgRead, PathRead, win, tp, mode, mode0, interp, route, extra, loaded, memo, clist,
          outk, outx, outck, outcx, shape, evald
design == <<Key, ModeRead, CfgRead, PathRead>>
conf   == <<interp, route, extra, loaded>>
vars == <<design, win, tp, mode, mode0, conf, memo, clist, outk, outx, outck, outcx, shape, evald>>

Native   == 1..NN
Coord(p) == 2 * p
WinIds   == 0..Len(Wins)
KSMax(S) == CHOOSE x \in S : \A y \in S : y <= x
KSMin(S) == CHOOSE x \in S : \A y \in S : y >= x

Req(w)     == IF w = 0 THEN {Coord(p) : p \in Native}
              ELSE {c \in Wins[w].lo .. Wins[w].hi : ((c - Wins[w].lo) % Wins[w].step) = 0}
Inside(w)  == {p \in Native : Coord(p) >= Wins[w].lo /\ Coord(p) <= Wins[w].hi}
Aligned(w) == {Coord(p) : p \in Inside(w)} = Req(w)
Below(w)   == {p \in Native : Coord(p) < Wins[w].lo}
Above(w)   == {p \in Native : Coord(p) > Wins[w].hi}
Widened(w) == Inside(w) \cup (IF Below(w) = {} THEN {} ELSE {KSMax(Below(w))})
                        \cup (IF Above(w) = {} THEN {} ELSE {KSMin(Above(w))})
Sel(w)     == IF w = 0 THEN Native ELSE IF Aligned(w) THEN Inside(w) ELSE Widened(w)

\* ---- the evaluation configuration
Default   == "linear"
Schemed(t) == TPs[t].t = "between"        \* the temperature-interpolation scheme enters the value
SchemeId(m) == IF m = "exp" THEN 2 ELSE 1
Drops(f) == (f = "k" /\ CfgRead = "k-ctor-drops") \/ (f = "x" /\ CfgRead = "x-ctor-drops")
Noop(f)  == (f = "k" /\ CfgRead = "k-setter-noop") \/ (f = "x" /\ CfgRead = "x-setter-noop")
\* the scheme the objects of family f ("k": k-tables, "x": cross-sections) interpolate with under the current configuration
Stale(f) == f = "k" /\ CfgRead = "k-api-stale"
Kept(r)  == r = "setter" \/ (r = "api" /\ CfgRead = "k-api-stale")      \* the loaded objects (of the family concerned) stay
Eff(f) == IF Drops(f) /\ route # "setter" THEN Default
          ELSE IF (Noop(f) /\ route = "setter") \/ (Stale(f) /\ route = "api") THEN loaded
          ELSE interp

\* ---- the contribution list
CL == CLists[clist]
ContId(c) == CASE c = "c1" -> 1 [] c = "c2" -> 2 [] c = "c3" -> 4 [] OTHER -> 0
KPos(L)   == CHOOSE i \in DOMAIN L : L[i] = "k"
Conts(L)  == {i \in DOMAIN L : L[i] # "k"}
ContSet(L) == {L[i] : i \in Conts(L)}
RECURSIVE ContSum(_, _, _)
ContSum(L, a, b) == IF a > b THEN 0 ELSE ContId(L[a]) + ContSum(L, a + 1, b)
ContAll(L) == ContSum(L, 1, Len(L))
\* the continuum optical depth the k-table path ends up with, by design variant
PathSeen(L) == CASE PathRead = "k-overwrites"   -> ContSum(L, KPos(L) + 1, Len(L))
                 [] PathRead = "last-continuum" -> IF Conts(L) = {} THEN 0 ELSE ContId(L[KSMax(Conts(L))])
                 [] PathRead = "stops-at-k"     -> ContSum(L, 1, KPos(L) - 1)
                 [] OTHER                       -> ContAll(L)

\* uninterpreted coefficient of native point p at (T, P) class t under scheme m: injective in (p, t) and, between
\* temperature nodes, in the scheme
CoefS(p, t, m) == (p * (NTP + 1) + t) * 3 + (IF Schemed(t) THEN SchemeId(m) ELSE 0)
ValueAt(s, c, t, m) ==
    LET L == {p \in s : Coord(p) <= c}
        R == {p \in s : Coord(p) >= c}
    IN  IF s = {} THEN <<0, 0>>
        ELSE << IF L = {} THEN CoefS(KSMin(s), t, m) ELSE CoefS(KSMax(L), t, m),
                IF R = {} THEN CoefS(KSMax(s), t, m) ELSE CoefS(KSMin(R), t, m) >>
Res(s, w, t, m) == [c \in Req(w) |-> ValueAt(s, c, t, m)]
Fresh(w, t, m)  == Res(Sel(w), w, t, m)

KeyOf(w) == CASE Key \in {"content", "window"} -> Req(w)
              [] Key = "size"    -> Cardinality(Req(w))
              [] Key = "ends"    -> <<Wins[w].lo, Wins[w].hi>>
              [] Key = "first"   -> Wins[w].lo
              [] OTHER           -> 0
\* the memo holds the last request that missed (one entry, replaced on a miss)
Hit(w)   == {m \in memo : m.k = KeyOf(w)}
UsedSel(w) == IF w = 0 \/ Key = "none" \/ Hit(w) = {} THEN Sel(w)
              ELSE (CHOOSE m \in Hit(w) : TRUE).s
UsedTP(w)  == IF w = 0 \/ Key # "window" \/ Hit(w) = {} THEN tp
              ELSE (CHOOSE m \in Hit(w) : TRUE).t

\* a design variant deviates from the documented design in ONE respect (a memo may be combined with "eval" only)
OneVariant == \/ ModeRead = "eval" /\ CfgRead = "both" /\ PathRead = "sum"
              \/ Key = "none" /\ CfgRead = "both" /\ PathRead = "sum"
              \/ Key = "none" /\ ModeRead = "eval" /\ PathRead = "sum"
              \/ Key = "none" /\ ModeRead = "eval" /\ CfgRead = "both"
Init == /\ Key \in Keys /\ ModeRead \in ModeReads /\ CfgRead \in CfgReads /\ PathRead \in PathReads
        /\ OneVariant
        /\ clist \in DOMAIN CLists /\ outck = 0 /\ outcx = 0
        /\ win \in WinIds /\ tp \in 1..NTP /\ mode \in {"k", "x"} /\ mode0 = mode
        /\ interp \in Interps /\ route \in Routes /\ extra \in Extras
        /\ loaded = (IF route = "setter" THEN Default ELSE interp)
        /\ memo = {} /\ outk = <<>> /\ outx = <<>> /\ shape = "-" /\ evald = FALSE
\* a setting changes: the previous results are no longer looked at
Forget     == evald' = FALSE /\ outk' = <<>> /\ outx' = <<>> /\ shape' = "-" /\ outck' = 0 /\ outcx' = 0
SetWin(w)  == win # w /\ win' = w /\ Forget /\ UNCHANGED <<design, tp, mode, mode0, conf, memo, clist>>
SetTP(t)   == tp # t /\ tp' = t /\ Forget /\ UNCHANGED <<design, win, mode, mode0, conf, memo, clist>>
SetMode(m) == mode # m /\ mode' = m /\ Forget /\ UNCHANGED <<design, win, tp, mode0, conf, memo, clist>>
\* the model is given another list of contributions (the loaded tables stay, memo included)
SetList(i) == clist # i /\ clist' = i /\ Forget /\ UNCHANGED <<design, win, tp, mode, mode0, conf, memo>>
\* another configuration is established through route r: the tables of both kinds are loaded again (whatever
\* the objects kept is gone) unless r sets the scheme in place on the objects already loaded
SetCfg(m, r, e) == /\ <<interp, route, extra>> # <<m, r, e>>
                   /\ interp' = m /\ route' = r /\ extra' = e
                   /\ loaded' = (IF Kept(r) THEN loaded ELSE m)
                   /\ memo' = (IF Kept(r) THEN memo ELSE {})
                   /\ Forget /\ UNCHANGED <<design, win, tp, mode, mode0, clist>>
\* one evaluation of the long-lived pair under the current configuration: the k-table object (with its memo) and
\* the cross-section object with the same numbers (no memo); `shape` is the path the model actually took
Eval == /\ outk' = [g \in 1..NG |-> Res(UsedSel(win), win, UsedTP(win), Eff("k"))]
        /\ outx' = Fresh(win, tp, Eff("x"))
        /\ memo' = IF win # 0 /\ Key # "none" /\ Hit(win) = {}
                   THEN {[k |-> KeyOf(win), s |-> Sel(win), t |-> IF Key = "window" THEN tp ELSE 0]} ELSE memo
        /\ outck' = PathSeen(CL)
        /\ outcx' = ContAll(CL)
        /\ shape' = IF ModeRead = "eval" THEN mode ELSE mode0
        /\ evald' = TRUE
        /\ UNCHANGED <<design, win, tp, mode, mode0, conf, clist>>
Next == \/ \E w \in WinIds : SetWin(w)
        \/ \E t \in 1..NTP : SetTP(t)
        \/ \E m \in {"k", "x"} : SetMode(m)
        \/ \E m \in Interps, r \in Routes, e \in Extras : SetCfg(m, r, e)
        \/ \E i \in DOMAIN CLists : SetList(i)
        \/ Eval
Spec == Init /\ [][Next]_vars

\* (1) every evaluation equals the evaluation of a freshly loaded object at the current settings and configuration
EvalEqualsFresh == evald => /\ \A g \in 1..NG : outk[g] = Fresh(win, tp, interp)
                            /\ outck = ContAll(CL)
                            /\ shape = mode
\* (2) the degenerate k-table twin evaluated under the current configuration equals the cross-section twin evaluated
\*     under the same configuration, at every quadrature point, every time
\*     and under the same list of contributions: both paths hold the same continuum optical depth
TwinEqualsXsec  == evald => (\A g \in 1..NG : outk[g] = outx) /\ outck = outcx
\* the path holds the sum of the continuum terms: only the SET of contributions matters, not their order
OrderFree == evald => \A j \in DOMAIN CLists : ContSet(CLists[j]) = ContSet(CL) => outck = ContAll(CLists[j])
\* the result is defined on exactly the requested points
OnRequestedGrid == evald => \A g \in 1..NG : DOMAIN outk[g] = Req(win)
\* on nodes and outside the table the scheme does not enter: the result is the same under every scheme
SchemeFree(w, t) == \A m \in Interps : Fresh(w, t, m) = Fresh(w, t, Default)
OnNodeSchemeFree == evald => (Schemed(tp) \/ SchemeFree(win, tp))
\* the design variants that must satisfy the invariants, and the mutants, in ONE model-checking run
Sound     == Key \in {"none", "content", "ends"} /\ ModeRead = "eval" /\ CfgRead = "both" /\ PathRead = "sum"
HoldFresh == Sound => EvalEqualsFresh
HoldTwin  == Sound => TwinEqualsXsec
HoldOrder == Sound => OrderFree
\* one invariant per design mutant (expected counterexamples, TLC -continue reports each)
RefuteSize    == Key = "size" => EvalEqualsFresh
RefuteFirst   == Key = "first" => EvalEqualsFresh
RefuteWindowTwin == Key = "window" => TwinEqualsXsec
RefuteLatched == ModeRead = "construct" => EvalEqualsFresh
RefuteKDrops  == CfgRead = "k-ctor-drops" => TwinEqualsXsec
RefuteXDrops  == CfgRead = "x-ctor-drops" => TwinEqualsXsec
RefuteKNoop   == CfgRead = "k-setter-noop" => TwinEqualsXsec
RefuteXNoop   == CfgRead = "x-setter-noop" => TwinEqualsXsec
RefuteKStale  == CfgRead = "k-api-stale" => TwinEqualsXsec
RefuteOverwrite == PathRead = "k-overwrites" => TwinEqualsXsec
RefuteLastOnly  == PathRead = "last-continuum" => TwinEqualsXsec
RefuteStopsAtK  == PathRead = "stops-at-k" => TwinEqualsXsec
\* ... and where those mutants are INVISIBLE (these hold): on nodes / outside the table; on the other routes
CfgMutant  == CfgRead # "both" /\ Key = "none" /\ ModeRead = "eval" /\ PathRead = "sum"
NodeBlind  == (CfgMutant /\ ~Schemed(tp)) => TwinEqualsXsec
RouteBlind == /\ (CfgMutant /\ CfgRead \in {"k-ctor-drops", "x-ctor-drops"} /\ route = "setter") => TwinEqualsXsec
              /\ (CfgMutant /\ CfgRead \in {"k-setter-noop", "x-setter-noop"} /\ route # "setter") => TwinEqualsXsec
              /\ (CfgMutant /\ CfgRead = "k-api-stale" /\ route # "api") => TwinEqualsXsec
\* ... with the molecular term first / fewer than two continuum terms / the molecular term last
PathMutant == PathRead # "sum" /\ Key = "none" /\ ModeRead = "eval" /\ CfgRead = "both"
ListBlind  == /\ (PathMutant /\ PathRead = "k-overwrites" /\ KPos(CL) = 1) => TwinEqualsXsec
              /\ (PathMutant /\ PathRead = "last-continuum" /\ Cardinality(Conts(CL)) <= 1) => TwinEqualsXsec
              /\ (PathMutant /\ PathRead = "stops-at-k" /\ KPos(CL) = Len(CL)) => TwinEqualsXsec
=============================================================================
